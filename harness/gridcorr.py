"""Shared helpers for the coordinate-algebra properties (C01, C07, C09, C10, C11, C12)."""
import itertools
import os

import h5py
import numpy as np

import common
from common import cnat, cbool, clist, cpair, copt
import gen


def cmat(m):
    return clist(m, lambda r: clist(r, cnat))


def mat(a):
    return [[int(x) for x in row] for row in np.atleast_2d(np.asarray(a))]


def small_scope(max_dims=3, sizes=(1, 2, 3), max_elems=400):
    """all layouts with <= max_dims dimensions per side over the given sizes, all permutations (position side varied
    fully, spectroscopic side drawn from a short list to keep the product manageable)"""
    sides = []
    for k in range(1, max_dims + 1):
        for sz in itertools.product(sizes, repeat=k):
            for order in itertools.permutations(range(k)):
                sides.append((list(sz), list(order)))
    return sides


def layouts_for(ctx, n_random, dtypes=('f8',), max_dims=3, max_size=4, max_elems=600, extra_exhaustive=False):
    rng = ctx.rng
    lays = []
    # hand-picked: every permutation of a 3-dimensional side with distinct sizes, equal sizes, unit dimensions
    fixed = [([2, 3, 4], [0, 1, 2]), ([2, 3, 4], [2, 0, 1]), ([2, 3, 4], [1, 2, 0]), ([2, 3, 4], [2, 1, 0]), ([3, 3], [1, 0]),
             ([2, 1, 3], [1, 2, 0]), ([1, 2], [0, 1]), ([2, 2, 2], [1, 0, 2]), ([4], [0]), ([1, 3, 1, 2], [3, 0, 1, 2])]
    for i, (sz, od) in enumerate(fixed):
        sz2, od2 = fixed[(i * 3 + 1) % len(fixed)]
        lays.append(gen.Layout(sz, od, sz2, od2, dtype=dtypes[i % len(dtypes)], vkind=i % 4))
    for _ in range(n_random):
        lays.append(gen.random_layout(rng, max_dims=max_dims, max_size=max_size, max_elems=max_elems, dtypes=dtypes))
    if extra_exhaustive:
        sides = small_scope()
        for i, (sz, od) in enumerate(sides):
            sz2, od2 = sides[(i * 7 + 3) % len(sides)]
            if int(np.prod(sz)) * int(np.prod(sz2)) <= 400:
                lays.append(gen.Layout(sz, od, sz2, od2, dtype=dtypes[i % len(dtypes)], vkind=i % 4))
                lays.append(gen.Layout(sz2, od2, sz, od, dtype=dtypes[(i + 1) % len(dtypes)], vkind=(i + 1) % 4))
    return lays


def expected_nd(lay, labels_order=None):
    """the N-D form the property demands, in file order: nd[ip ++ is] = main[point(ip), point(is)] (ids)"""
    shape = lay.pos_sizes + lay.spec_sizes
    out = np.zeros(shape, dtype=np.int64)
    kp = len(lay.pos_sizes)
    for idx in itertools.product(*[range(s) for s in shape]):
        r = gen.point(lay.pos_sizes, lay.pos_order, idx[:kp])
        c = gen.point(lay.spec_sizes, lay.spec_order, idx[kp:])
        out[idx] = r * lay.M + c
    return out


def sorted_axes(lay):
    """slowest-to-fastest permutation of the file-order axes (size-1 dimensions: wherever the library puts them is fine)"""
    kp = len(lay.pos_sizes)
    return list(reversed(lay.pos_order)) + [kp + e for e in reversed(lay.spec_order)]


def label_ids(lay, labels):
    names = lay.pos_labels + lay.spec_labels
    out = []
    for l in labels:
        l = l.decode() if isinstance(l, bytes) else str(l)
        out.append(names.index(l) if l in names else 99)
    return out


def more_dims_than_points(lay):
    return len(lay.pos_sizes) > lay.N or len(lay.spec_sizes) > lay.M


def dims_ge_points(lay):
    return len(lay.pos_sizes) >= lay.N or len(lay.spec_sizes) >= lay.M
