"""A real pyUSID.Process subclass used by the C03/C04/C05/C14/C15 harnesses.
It follows the canonical pattern of the test-suite (create_results_group ->
parameters -> write_main_dataset with reused position ancillaries;
_get_existing_datasets for resumption)."""
import os

import h5py
import numpy as np

import pyUSID as usid
from pyUSID.processing.process import Process

LOG = {'path': None}


def fmap(row):
    """the user's map function: depends on the whole row, exact in float64"""
    r = np.asarray(row, dtype=np.float64)
    return float(r[0] * 3.0 + r[-1] + 1.0)


def expected_result(lay_M, p):
    first = p * lay_M
    last = p * lay_M + lay_M - 1
    return float(first * 3.0 + last + 1.0)


class MapProc(Process):
    def __init__(self, h5_main, name='Mean_Val', parms=None, **kwargs):
        if parms is None:
            parms = {'parm_1': 1, 'parm_2': [1, 2, 3]}
        super(MapProc, self).__init__(h5_main, name, parms_dict=parms, **kwargs)
        self.batches_seen = []

    def _create_results_datasets(self):
        self.h5_results_grp = usid.hdf_utils.create_results_group(self.h5_main, self.process_name,
                                                                  h5_parent_group=self._h5_target_group)
        usid.hdf_utils.write_simple_attrs(self.h5_results_grp, self.parms_dict)
        spec_dims = usid.Dimension('Empty', 'a. u.', 1)
        self.h5_results = usid.hdf_utils.write_main_dataset(
            self.h5_results_grp, (self.h5_main.shape[0], 1), 'Results', 'quantity', 'units', None, spec_dims,
            dtype=np.float64, h5_pos_inds=self.h5_main.h5_pos_inds, h5_pos_vals=self.h5_main.h5_pos_vals)

    def _get_existing_datasets(self):
        self.h5_results = self.h5_results_grp['Results']

    @staticmethod
    def _map_function(row, *args, **kwargs):
        if LOG['path']:
            with open(LOG['path'], 'a') as f:
                f.write('%d %d\n' % (os.getpid(), int(np.real(row[0]))))
        # extra positional / keyword arguments of compute() arrive AFTER the row; they are numbers that add up to zero here,
        # so the expected result does not depend on them, while a row handed over in the wrong place cannot be evaluated
        extra = sum(float(a) for a in args) + sum(float(v) for v in kwargs.values())
        return fmap(row) + extra

    def _unit_computation(self, *args, **kwargs):
        # lazy mode hands the batch over as a dask array; child classes materialise it (parallel_compute wants numpy)
        if not isinstance(self.data, np.ndarray):
            self.data = self.data.compute()
        super(MapProc, self)._unit_computation(*args, **kwargs)

    def _write_results_chunk(self):
        pos = self._get_pixels_in_current_batch()
        self.batches_seen.append([int(x) for x in pos])
        self.h5_results[pos, 0] = np.array(self._results)


def sentinel(p):
    """value stored beforehand for an already completed position (must stay untouched)"""
    return -float(p + 1)


def seed_partial_group(main, mask, target=None, name='Mean_Val', parms=None, with_status=True, last_pixel=None):
    """creates a results group the way a previous (interrupted) run would have left it"""
    import common
    with common.quiet():
        p = MapProc(main, name=name, parms=parms, h5_target_group=target)
        p._create_results_datasets()
        p._write_source_dset_provenance()
    grp = p.h5_results_grp
    if with_status:
        grp.create_dataset('completed_positions', data=np.array(mask, dtype=np.uint8))
    if last_pixel is not None:
        grp.attrs['last_pixel'] = last_pixel
    res = grp['Results']
    for pos, m in enumerate(mask):
        if m:
            res[pos, 0] = sentinel(pos)
    grp.file.flush()
    return grp


def refused_choice(p, foreign):
    """hands the process a group that is NOT one of its resumable groups: it must be refused with ValueError and the refusal must
    leave the process as it was (what follows is judged as if the call had never been made).  Returns a problem text or None."""
    try:
        p.use_partial_computation(h5_partial_group=foreign)
    except ValueError:
        return None
    except Exception as e:
        return 'the refusal came as %r instead of ValueError' % (e,)
    return 'a group that is not resumable for this process (%s) was accepted' % foreign.name


def read_log(path, M):
    """positions (row numbers) in call order, and the set of worker pids"""
    if not os.path.exists(path):
        return [], set()
    rows, pids = [], set()
    for line in open(path):
        pid, first = line.split()
        rows.append(int(first) // M)
        pids.add(int(pid))
    return rows, pids
