"""Regenerates coq/Gen/Gen_Jobs.v and coq/Gen/Gen_Budget.v from
$PYUSID_REPO/pyUSID/processing/{process,comp_utils}.py (translator-tied models
for C03 / C14 / C15).  Fail closed: raises TranslateError."""
import ast
import os

from translate import Kernel, Val, TranslateError, find_function, strip_doc, _src

HEADER = "(* GENERATED on every check run by harness/gen_kernels.py from %s -- do not edit *)\n"


def _drop_verbose(test_src):
    return 'verbose' in test_src


def gen_jobs(repo):
    path = os.path.join(repo, 'pyUSID/processing/process.py')
    tree = ast.parse(open(path).read())

    # ---- __assign_job_indices -------------------------------------------
    fn = find_function(tree, 'Process.__assign_job_indices')
    attr = {
        'self.mpi_rank': Val('rank', 'Z'),
        'self.mpi_size': Val('size', 'Z'),
        'self.__compute_jobs.size': Val('n', 'Z'),
        'self._max_pos_per_read': Val('maxpos', 'Z'),
    }
    skip = {
        # pending list = positions whose status is 0 (modelled as `pending` in Proc/Compute.v)
        'self.__compute_jobs = np.where(self._h5_status_dset[()] == 0)[0]': None,
    }
    k = Kernel(attr, {}, _drop_verbose, skip, {}, mode='Z')
    k.run(strip_doc(fn.body))
    if k.guards or k.returned is not None:
        raise TranslateError('__assign_job_indices: unexpected raise/return')
    need = ['self.__start_pos', 'self.__rank_end_pos', 'self.__end_pos']
    for key in need:
        if key not in k.env:
            raise TranslateError('__assign_job_indices no longer assigns ' + key)
    extra = set(k.env) - set(need)
    if extra:
        raise TranslateError('__assign_job_indices assigns untracked state: %s' % sorted(extra))
    out = [HEADER % 'pyUSID/processing/process.py',
           'From Coq Require Import ZArith Bool.\nLocal Open Scope Z_scope.\n',
           '(* Process.__assign_job_indices : n = number of pending positions *)']
    for key, name in zip(need, ['assign_start', 'assign_rank_end', 'assign_end']):
        out.append('Definition %s (rank size n maxpos : Z) : Z :=\n  %s.\n' % (name, k.env[key].s))

    # ---- _read_data_chunk ------------------------------------------------
    fn = find_function(tree, 'Process._read_data_chunk')
    attr = {
        'self.__start_pos': Val('start', 'Z'),
        'self.__rank_end_pos': Val('rank_end', 'Z'),
        'self._max_pos_per_read': Val('maxpos', 'Z'),
        'self.__end_pos': Val('end0', 'Z'),
    }

    def set_pixels(kk):
        # the batch is the window [start, end) of the pending list
        kk.env['pixels.lo'] = kk.expr(ast.parse('self.__start_pos', mode='eval').body)
        kk.env['pixels.hi'] = kk.expr(ast.parse('self.__end_pos', mode='eval').body)

    def set_data_some(kk):
        kk.env['data.some'] = Val('true', 'B')

    def set_data_none(kk):
        kk.env['data.some'] = Val('false', 'B')

    skip = {
        'self.__pixels_in_batch = self.__compute_jobs[self.__start_pos:self.__end_pos]': set_pixels,
        'self.data = main_dset[self.__pixels_in_batch, :]': set_data_some,
        'self.data = None': set_data_none,
        # source of the rows: eager dataset or its dask view (identical contents; trusted)
        'if self.__lazy:\n    main_dset = lazy_load_array(self.h5_main)\nelse:\n    main_dset = self.h5_main': None,
    }
    k = Kernel(attr, {}, _drop_verbose, skip, {}, mode='Z')
    k.env['pixels.lo'] = Val('start', 'Z')   # unchanged when no data is read
    k.env['pixels.hi'] = Val('start', 'Z')
    k.run(strip_doc(fn.body))
    if k.guards or k.returned is not None:
        raise TranslateError('_read_data_chunk: unexpected raise/return')
    for key in ['data.some', 'pixels.lo', 'pixels.hi']:
        if key not in k.env:
            raise TranslateError('_read_data_chunk: lost track of ' + key)
    end_v = k.env.get('self.__end_pos', Val('end0', 'Z'))
    extra = set(k.env) - {'data.some', 'pixels.lo', 'pixels.hi', 'self.__end_pos'}
    if extra:
        raise TranslateError('_read_data_chunk assigns untracked state: %s' % sorted(extra))
    out.append('(* Process._read_data_chunk : has_data, new end cursor, window of the pending list read *)')
    out.append('Definition chunk_has_data (start rank_end maxpos end0 : Z) : bool :=\n  %s.\n' % k.env['data.some'].s)
    out.append('Definition chunk_end (start rank_end maxpos end0 : Z) : Z :=\n  %s.\n' % end_v.s)
    out.append('Definition chunk_lo (start rank_end maxpos end0 : Z) : Z :=\n  %s.\n' % k.env['pixels.lo'].s)
    out.append('Definition chunk_hi (start rank_end maxpos end0 : Z) : Z :=\n  %s.\n' % k.env['pixels.hi'].s)

    # ---- compute(): the cursor update inside the while loop ----------------
    fn = find_function(tree, 'Process.compute')
    loop = [s for s in fn.body if isinstance(s, ast.While)]
    if len(loop) != 1 or _src(loop[0].test) != 'self.data is not None':
        raise TranslateError('compute(): expected exactly one "while self.data is not None" loop')
    body_src = [_src(s) for s in loop[0].body]
    required_in_order = [
        'self._unit_computation(*args, **kwargs)',
        'self._write_results_chunk()',
        'self.__start_pos = self.__end_pos',
        'self.h5_main.file.flush()',
        'for curr_slice in integers_to_slices(self.__pixels_in_batch):\n    self._h5_status_dset[curr_slice] = 1',
        'self._read_data_chunk()',
    ]
    pos = -1
    for r in required_in_order:
        try:
            p = body_src.index(r)
        except ValueError:
            raise TranslateError('compute() loop: statement missing: ' + r)
        if p <= pos:
            raise TranslateError('compute() loop: statement out of order: ' + r)
        pos = p
    # no other statement of the loop body may touch the cursors / status / batch
    for s, text in zip(loop[0].body, body_src):
        if text in required_in_order:
            continue
        for tgt in ast.walk(s):
            if isinstance(tgt, (ast.Assign, ast.AugAssign)):
                tl = tgt.targets if isinstance(tgt, ast.Assign) else [tgt.target]
                for t in tl:
                    ts = _src(t)
                    if ts.startswith('self.__') or ts.startswith('self._h5_status') or ts == 'self.data':
                        raise TranslateError('compute() loop: unexpected state update: ' + text)
    out.append('(* compute(): loop statement order checked: compute, write, cursor := end, flush, mark, read next *)')
    out.append('Definition loop_order_checked : bool := true.\n')
    return '\n'.join(out)


def gen_budget(repo):
    path = os.path.join(repo, 'pyUSID/processing/process.py')
    tree = ast.parse(open(path).read())
    out = [HEADER % 'pyUSID/processing/process.py, comp_utils.py',
           'From Coq Require Import ZArith QArith Qround Qabs Qminmax Bool.\n'
           'Inductive exn := TypeError | ValueError | ZeroDivisionError.\n'
           'Inductive res (A : Type) := Ok (a : A) | Err (e : exn).\nArguments Ok {A} a.\nArguments Err {A} e.\n'
           'Definition Qtrunc (q : Q) : Z := if Qle_bool 0 q then Qfloor q else Qceiling q.\n'
           'Local Open Scope Z_scope.\n']

    # ---- __set_cores (non-MPI branch) ------------------------------------
    fn = find_function(tree, 'Process.__set_cores')
    attr = {'psutil.cpu_count()': Val('ncpu', 'Z')}
    names = {'cores': Val('cores', 'Z'), 'cores is None': Val('cores_none', 'B')}
    isin = {('cores', 'int'): Val('cores_is_int', 'B')}
    k = Kernel(attr, names, _drop_verbose, {}, isin, mode='Z')
    # the MPI branch is hand-modelled (Proc/Sockets.v); translate the joblib branch only
    top = strip_doc(fn.body)
    if len(top) != 1 or not isinstance(top[0], ast.If) or _src(top[0].test) != 'self.mpi_comm is None':
        raise TranslateError('__set_cores: expected a single "if self.mpi_comm is None" statement')
    k.run(top[0].body)
    for key in ['self._cores', 'self.__socket_master_rank', 'self.__ranks_on_socket']:
        if key not in k.env:
            raise TranslateError('__set_cores no longer assigns ' + key)
    extra = set(k.env) - {'self._cores', 'self.__socket_master_rank', 'self.__ranks_on_socket'}
    if extra:
        raise TranslateError('__set_cores assigns untracked state: %s' % sorted(extra))
    out.append('(* Process.__set_cores, branch self.mpi_comm is None.  cores_none: cores is None; cores_is_int: isinstance(cores,int) *)')
    out.append('Definition set_cores (ncpu : Z) (cores_none cores_is_int : bool) (cores : Z) : res (Z * Z * Z) :=\n  %s.\n'
               % k.result('(%s, %s, %s)' % (k.env['self._cores'].s, k.env['self.__socket_master_rank'].s,
                                            k.env['self.__ranks_on_socket'].s)))
    # MPI branch: check the assignments we hand-model are still there
    mpi_src = [_src(s) for s in top[0].orelse]
    for r in ['ranks_by_socket = group_ranks_by_socket(verbose=False)',
              'self.__socket_master_rank = ranks_by_socket[self.mpi_rank]',
              'ranks_on_this_socket = np.where(ranks_by_socket == self.__socket_master_rank)[0]',
              'self.__ranks_on_socket = ranks_on_this_socket.size',
              'self._cores = 1']:
        if r not in mpi_src:
            raise TranslateError('__set_cores MPI branch changed: missing ' + r)

    # ---- __set_memory ----------------------------------------------------
    fn = find_function(tree, 'Process.__set_memory')
    attr = {
        'get_available_memory()': Val('avail', 'Z'),
        'self._cores': Val('ncores', 'Z'),
        'self.__ranks_on_socket': Val('nranks', 'Z'),
        'self.h5_main.dtype.itemsize': Val('itemsize', 'Z'),
        'self.h5_main.shape[1]': Val('ncols', 'Z'),
    }
    names = {'mem_multiplier': Val('mult', 'Q'), 'man_mem_limit': Val('limit_mb', 'Z'),
             'man_mem_limit is None': Val('limit_none', 'B')}
    isin = {('mem_multiplier', 'float'): Val('mult_is_float', 'B'),
            ('man_mem_limit', 'int'): Val('limit_is_int', 'B')}
    k = Kernel(attr, names, _drop_verbose, {}, isin, mode='Q')
    k.run(strip_doc(fn.body))
    if 'self._max_pos_per_read' not in k.env:
        raise TranslateError('__set_memory no longer assigns self._max_pos_per_read')
    extra = set(k.env) - {'self._max_pos_per_read', 'self.__bytes_per_pos'}
    if extra:
        raise TranslateError('__set_memory assigns untracked state: %s' % sorted(extra))
    mp = k.env['self._max_pos_per_read']
    if mp.t != 'Z':
        raise TranslateError('__set_memory: _max_pos_per_read is not an integer expression')
    out.append('(* Process.__set_memory over exact rationals (a Python float is a dyadic rational) *)')
    out.append('Definition set_memory (avail ncores nranks itemsize ncols : Z) (mult_is_float : bool) (mult : Q)\n'
               '    (limit_none limit_is_int : bool) (limit_mb : Z) : res Z :=\n  %s.\n' % k.result(mp.s))
    # granted memory, as the same function computes it (for the statement of the budget theorem)
    if 'max_mem_bytes' not in k.name_table:
        raise TranslateError('__set_memory: max_mem_bytes not found')
    gm = k.name_table['max_mem_bytes']
    out.append('Definition granted_mem (avail : Z) (limit_none : bool) (limit_mb : Z) : Z :=\n  %s.\n' % gm.s)

    # ---- recommend_cpu_cores ---------------------------------------------
    path2 = os.path.join(repo, 'pyUSID/processing/comp_utils.py')
    tree2 = ast.parse(open(path2).read())
    fn = find_function(tree2, 'recommend_cpu_cores')
    attr = {'cpu_count()': Val('ncpu', 'Z')}
    names = {'num_jobs': Val('num_jobs', 'Z'), 'requested_cores': Val('req', 'Z'),
             'requested_cores is None': Val('req_none', 'B'),
             'min_free_cores': Val('minfree', 'Z'), 'min_free_cores is None': Val('minfree_none', 'B'),
             'lengthy_computation': Val('lengthy', 'B')}
    isin = {('min_free_cores', 'int'): True, ('requested_cores', 'int'): Val('req_is_int', 'B'),
            ('num_jobs', 'int'): Val('jobs_is_int', 'B')}
    k = Kernel(attr, names, _drop_verbose, {}, isin, mode='Q')
    k.run(strip_doc(fn.body))
    if k.returned is None or k.returned.t != 'Z':
        raise TranslateError('recommend_cpu_cores: no integer return value')
    out.append('(* comp_utils.recommend_cpu_cores *)')
    out.append('Definition recommend_cpu_cores (ncpu num_jobs : Z) (jobs_is_int : bool) (req_none req_is_int : bool) (req : Z)\n'
               '    (minfree_none : bool) (minfree : Z) (lengthy : bool) : res Z :=\n  %s.\n' % k.result(k.returned.s))
    return '\n'.join(out)


def write_if_changed(path, text):
    old = None
    if os.path.exists(path):
        old = open(path).read()
    if old != text:
        with open(path, 'w') as f:
            f.write(text)
        return True
    return False


def regenerate(repo, coq_dir, which=('jobs', 'budget')):
    """Returns dict name -> None (ok) or error string."""
    status = {}
    for name, fn, fname in (('jobs', gen_jobs, 'Gen_Jobs.v'), ('budget', gen_budget, 'Gen_Budget.v')):
        if name not in which:
            continue
        target = os.path.join(coq_dir, 'Gen', fname)
        try:
            text = fn(repo)
            write_if_changed(target, text)
            status[name] = None
        except TranslateError as e:
            status[name] = 'translator refused: %s' % e
        except SyntaxError as e:
            status[name] = 'source does not parse: %s' % e
    return status


if __name__ == '__main__':
    import sys
    repo = os.environ.get('PYUSID_REPO', '/repo')
    here = os.path.dirname(os.path.abspath(__file__))
    print(regenerate(repo, os.path.join(here, '..', 'coq')))
