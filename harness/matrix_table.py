"""Rewrites the table of DESIGN.md section 11.6 from seeded/MATRIX.tsv and seeded/<id>/meta.json."""
import csv
import json
import os
import re

ROOT = os.path.dirname(os.path.dirname(os.path.abspath(__file__)))
rows = list(csv.reader(open(os.path.join(ROOT, 'seeded/MATRIX.tsv')), delimiter='\t'))[1:]
seed1 = {}
p1 = os.path.join(ROOT, 'seeded/MATRIX_seed1.tsv')
if os.path.exists(p1):
    for r in list(csv.reader(open(p1), delimiter='\t'))[1:]:
        seed1[(r[0], r[1])] = r[2]
lines = ['| seeded change | check | exit (default seed / seed 1) | proof obligations | model/impl disagreements | oracle violations | what it is |',
         '|---|---|---|---|---|---|---|']
for r in rows:
    sid, prop, ex, line = r[0], r[1], r[2], (r[3] if len(r) > 3 else '')
    try:
        summ = json.load(open(os.path.join(ROOT, 'seeded', sid, 'meta.json')))['summary']
    except Exception:
        summ = ''
    summ = summ.replace('|', '/').replace('\n', ' ')
    if len(summ) > 150:
        summ = summ[:148] + '…'
    m = re.search(r'obligations (\d+)/(\d+), (\d+) evaluations \((\d+) non-trivial\), (\d+) disagreements, (\d+) violations', line)
    if m:
        ob = '%s/%s' % (m.group(1), m.group(2)) + (' **broken**' if m.group(1) != m.group(2) else '')
        dis, vio = m.group(5), m.group(6)
    else:
        ob = dis = vio = '–'
        summ = (line + ' — ' + summ) if line else summ
    e1 = seed1.get((sid, prop), 'n/r')
    lines.append('| %s | %s | %s / %s | %s | %s | %s | %s |' % (sid, prop, ex, e1, ob, dis, vio, summ))
table = '\n'.join(lines)
path = os.path.join(ROOT, 'DESIGN.md')
s = open(path).read()
a = s.index('| seeded change | check |')
b = s.index('\n\n', a)
s = s[:a] + table + s[b:]
open(path, 'w').write(s)
print(len(rows), 'rows')
