#!/bin/bash
# Re-checks every compiled Props/Cxx.vo (and everything it depends on) with Coq's independent checker and prints the axioms.
# Run after ./setup.sh and one run of each check (the checks compile their own dependency cone).
cd /verif/coq || exit 2
mods=""
for i in $(seq -w 1 20); do mods="$mods V.Props.C$i"; done
timeout 3000 coqchk -silent -o -Q . V $mods
