"""Effect graph of pyUSID, regenerated from the source on every run (C20).

For every function / method defined in $PYUSID_REPO/pyUSID it records
  * the *write primitives* it contains (HDF5 / file-system mutations),
  * the pyUSID functions it may call (receiver-aware name resolution),
  * whether it contains a call that could not be classified.
External callables (numpy, dask, h5py, sidpy, builtins) are classified by the reviewed tables below, which are part of
the trusted base.  The result is emitted as Gallina (coq/Gen/Gen_Effects.v); Props/C20.v proves, by evaluation over this
finite graph, that no write primitive and no unclassified call is reachable from any read-side entry point.
Fail-closed: anything unexpected raises EffectsError."""
import ast
import os

MODULES = ['io/usi_data.py', 'io/hdf_utils/base.py', 'io/hdf_utils/simple.py', 'io/hdf_utils/model.py', 'io/anc_build_utils.py',
           'io/dimension.py', 'io/reg_ref.py', 'io/image.py', 'io/array_translator.py', 'processing/process.py', 'processing/comp_utils.py']


class EffectsError(Exception):
    pass


# ---- reviewed tables -------------------------------------------------------------------------------------------------
# attribute-call names that mutate an HDF5 object / the file system whatever the receiver
WRITE_METHODS = {'create_dataset', 'create_group', 'require_dataset', 'require_group', 'copy', 'move', 'to_hdf5', 'write_direct', 'resize',
                 'create', 'modify', 'visititems_write', 'savetxt', 'remove', 'rmdir', 'makedirs', 'mkdir', 'rename', 'save', 'savefig'}
# attribute-call names on .attrs managers that mutate
ATTRS_WRITE = {'update', 'create', 'modify', 'pop', 'clear', 'setdefault', '__setitem__', '__delitem__'}
# sidpy / external functions (called by bare name or module alias) that write into HDF5
EXTERNAL_WRITERS = {'write_simple_attrs', 'link_h5_obj_as_alias', 'copy_attributes', 'copy_dataset', 'copy_linked_objects', 'link_h5_objects_as_attrs',
                    'write_book_keeping_attrs_sidpy', 'copy_main_attributes_sidpy', 'copy_region_refs', 'create_region_reference', 'write_region_references_sidpy',
                    'simple_region_ref_copy', 'copy_reg_ref_reduced_dim', 'copy_all_region_refs'}
# sidpy / external functions that only read
EXTERNAL_PURE = {'get_attr', 'get_attributes', 'lazy_load_array', 'is_editable_h5', 'get_auxiliary_datasets', 'validate_h5_objs_in_same_h5_file',
                 'validate_single_string_arg', 'validate_list_of_strings', 'validate_string_args', 'validate_dtype', 'contains_integers',
                 'integers_to_slices', 'clean_string_att', 'flatten_to_real', 'flatten_dict', 'format_time', 'format_size', 'get_time_stamp',
                 'get_h5_obj_refs', 'find_dataset_sidpy', 'print_tree', 'h5_path_split', 'get_region', 'clean_reg_ref', 'get_indices_for_region_ref',
                 'stack_real_to_target_dtype', 'is_complex_dtype', 'get_slope', 'to_ranges', 'plot_curves', 'plot_map_stack', 'plot_map', 'plot_complex_spectra',
                 'get_cmap_object', 'use_nice_plot_params', 'simple_ndim_visualizer', 'read_image', 'resize', 'imread'}
BUILTINS_PURE = {'print', 'len', 'isinstance', 'range', 'enumerate', 'zip', 'list', 'tuple', 'dict', 'set', 'str', 'int', 'float', 'bool', 'max', 'min',
                 'abs', 'all', 'any', 'sorted', 'warn', 'type', 'callable', 'super', 'getattr', 'hasattr', 'repr', 'map', 'sum', 'round', 'iter', 'next',
                 'ValueError', 'TypeError', 'KeyError', 'IndexError', 'NotImplementedError', 'IOError', 'FileExistsError', 'AttributeError', 'Exception',
                 'ImportError', 'slice', 'reversed', 'filter', 'format', 'dir', 'id', 'divmod', 'object', 'property', 'staticmethod', 'unicode', 'Number',
                 'Dimension', 'DimType', 'SIDimension', 'Enum', 'cpu_count', 'vm', 'get_MPI', 'assert_'}
# attribute calls whose receiver is an external value (numpy / dask / h5py read API / str / list / dict / os.path ...): no HDF5 mutation
PURE_METHODS = {'compute', 'reshape', 'transpose', 'squeeze', 'tolist', 'keys', 'items', 'values', 'get', 'flatten', 'ravel', 'astype', 'format', 'split',
                'strip', 'rstrip', 'lstrip', 'startswith', 'endswith', 'replace', 'join', 'append', 'extend', 'index', 'pop_list', 'insert', 'sort', 'copy_np',
                'decode', 'encode', 'lower', 'upper', 'isdigit', 'rfind', 'find', 'count', 'splitlines', 'visititems', 'visit', 'barrier', 'Get_rank',
                'Get_size', 'Get_processor_name', 'allgather', 'put', 'get_mean', 'get_cycles', 'exists', 'abspath', 'isfile', 'isdir', 'basename', 'dirname',
                'realpath', 'time', 'where', 'array', 'arange', 'zeros', 'ones', 'zeros_like', 'ones_like', 'prod', 'unique', 'argsort', 'hstack', 'vstack',
                'dstack', 'atleast_2d', 'expand_dims', 'argwhere', 'logical_and', 'isin', 'diff', 'tile', 'repeat', 'floor', 'ceil', 'all', 'any', 'max', 'min',
                'sum', 'mean', 'std', 'allclose', 'append_np', 'asarray', 'clip', 'argmax', 'divide', 'histogram2d', 'mgrid', 'amin', 'amax', 'dot', 'iterable',
                'flipud', 'fliplr', 'uint16', 'uint32', 'float32', 'size', 'round', 'randint', 'sqrt', 'log', 'exp', 'real', 'imag', 'conj', 'angle', 'abs',
                'from_array', 'rechunk', 'map_blocks', 'Parallel', 'delayed', 'cpu_count', 'virtual_memory', 'warn', 'getLogger', 'open_image', 'fromarray',
                'convert', 'getdata', 'loadtxt', 'fft', 'fftshift', 'interpolate', 'griddata', 'file', 'value', 'update_dict', 'swapaxes', 'moveaxis', 'take',
                'nonzero', 'cumsum', 'cumprod', 'searchsorted', 'fill', 'view', 'item', 'tobytes', 'byteswap', 'newbyteorder', 'dtype', 'issubdtype', 'name',
                'iteritems', 'isnan', 'isfinite', 'nanmax', 'nanmin', 'percentile', 'linspace', 'meshgrid', 'tight_layout', 'subplots', 'plot', 'imshow',
                'set_title', 'set_xlabel', 'set_ylabel', 'colorbar', 'legend', 'axis', 'show', 'figure', 'add_subplot', 'close_fig', '__mul__', 'product_np',
                'apply', 'normalize', 'read', 'readline', 'readlines', 'tell', 'seek'}
# attribute calls that write to a python file object (only relevant for to_csv; never on a read-side path)
PYFILE_WRITE = {'write', 'writelines', 'close', 'flush', 'dump'}
# the h5py.File.flush / Dataset.flush calls do not change contents; they are recorded as a (harmless) primitive of their own
H5_NAME_HINTS = ('h5_', '_h5', 'h5')


def _src(n):
    return ast.unparse(n)


def _is_h5_name(expr):
    """heuristic: does this expression denote an HDF5 object? (names carrying h5, self of USIDataset, results of create_*)"""
    s = _src(expr)
    base = s.split('[')[0]
    last = base.split('.')[-1]
    return any(h in last.lower() for h in ('h5', 'dset', 'grp', 'group', 'status')) or base in ('self', 'raw_2d')


class FunctionInfo:
    def __init__(self, qual, module, cls, node):
        self.qual, self.module, self.cls, self.node = qual, module, cls, node
        self.writes, self.calls, self.unclassified = [], [], []


class Analyzer:
    def __init__(self, repo):
        self.repo = repo
        self.funcs = {}            # qualname -> FunctionInfo
        self.by_name = {}          # bare function name -> [qualname]
        self.methods = {}          # method name -> [qualname]
        self.class_bases = {}      # class -> [base names]
        self.imports = {}          # module -> {local name: origin string}
        for rel in MODULES:
            path = os.path.join(repo, 'pyUSID', rel)
            if not os.path.exists(path):
                raise EffectsError('module missing: ' + rel)
            tree = ast.parse(open(path).read())
            mod = rel[:-3].replace('/', '.')
            self.imports[mod] = {}
            for n in ast.walk(tree):
                if isinstance(n, ast.ImportFrom):
                    for a in n.names:
                        self.imports[mod][a.asname or a.name] = (n.module or '') + ':' + a.name
                elif isinstance(n, ast.Import):
                    for a in n.names:
                        self.imports[mod][a.asname or a.name] = 'module:' + a.name
            self._collect(tree.body, mod, None, '')

    def _collect(self, body, mod, cls, prefix):
        for n in body:
            if isinstance(n, (ast.FunctionDef, ast.AsyncFunctionDef)):
                qual = '%s:%s%s' % (mod, prefix, n.name)
                self.funcs[qual] = FunctionInfo(qual, mod, cls, n)
                (self.methods if cls else self.by_name).setdefault(n.name, []).append(qual)
                # nested functions are separate nodes called by bare name from the parent
                self._collect_nested(n, mod, cls, prefix + n.name + '.')
            elif isinstance(n, ast.ClassDef):
                self.class_bases[n.name] = [_src(b) for b in n.bases]
                self._collect(n.body, mod, n.name, prefix + n.name + '.')

    def _collect_nested(self, fn, mod, cls, prefix):
        for n in ast.walk(fn):
            if n is fn:
                continue
            if isinstance(n, (ast.FunctionDef, ast.AsyncFunctionDef)):
                qual = '%s:%s%s' % (mod, prefix, n.name)
                if qual not in self.funcs:
                    self.funcs[qual] = FunctionInfo(qual, mod, cls, n)
                    self.by_name.setdefault(prefix + n.name, []).append(qual)
            elif isinstance(n, ast.ClassDef):
                self._collect(n.body, mod, n.name, prefix + n.name + '.')

    # ------------------------------------------------------------------ per-function analysis
    def own_statements(self, fn):
        """nodes of fn excluding nested function / class bodies"""
        out = []
        stack = list(fn.body)
        while stack:
            n = stack.pop()
            out.append(n)
            for c in ast.iter_child_nodes(n):
                if isinstance(c, (ast.FunctionDef, ast.AsyncFunctionDef, ast.ClassDef, ast.Lambda)):
                    continue
                stack.append(c)
        return out

    def analyze(self, info, prune_after=None):
        fn = info.node
        nodes = self.own_statements(fn) if prune_after is None else prune_after
        nested_here = {n.name for n in ast.walk(fn) if isinstance(n, (ast.FunctionDef, ast.AsyncFunctionDef)) and n is not fn}
        for n in nodes:
            # ---- stores / deletes
            targets = []
            if isinstance(n, ast.Assign):
                targets = n.targets
            elif isinstance(n, (ast.AugAssign, ast.AnnAssign)):
                targets = [n.target]
            elif isinstance(n, ast.Delete):
                targets = n.targets
            for t in targets:
                for tt in (t.elts if isinstance(t, (ast.Tuple, ast.List)) else [t]):
                    if isinstance(tt, ast.Subscript):
                        base = tt.value
                        if isinstance(base, ast.Attribute) and base.attr == 'attrs':
                            info.writes.append('attrs[...] store/delete: ' + _src(tt))
                        elif _is_h5_name(base):
                            info.writes.append('subscript store/delete on HDF5 object: ' + _src(tt))
            if not isinstance(n, ast.Call):
                continue
            f = n.func
            if isinstance(f, ast.Name):
                self._call_name(info, f.id, n, nested_here)
            elif isinstance(f, ast.Attribute):
                self._call_attr(info, f, n)
            elif isinstance(f, (ast.Call, ast.Subscript, ast.Lambda)):
                pass      # e.g. joblib.delayed(func)(x): calling a value; the callee is user code
            else:
                info.unclassified.append(_src(n)[:80])

    def _call_name(self, info, name, call, nested_here):
        if name == 'open':
            mode = None
            if len(call.args) > 1 and isinstance(call.args[1], ast.Constant):
                mode = call.args[1].value
            for k in call.keywords:
                if k.arg == 'mode' and isinstance(k.value, ast.Constant):
                    mode = k.value.value
            if mode is None or any(c in str(mode) for c in 'wa+x'):
                info.writes.append('open() for writing: ' + _src(call)[:60])
            return
        # nested function of this function?
        fnqual = info.qual + '.' + name
        if name in nested_here and fnqual in self.funcs:
            info.calls.append(fnqual)
            return
        origin = self.imports[info.module].get(name)
        if origin is not None and not origin.startswith('module:'):
            src_mod, orig_name = origin.split(':')
            # imported from another pyUSID module?
            cands = [q for q in self.by_name.get(orig_name, []) if src_mod.lstrip('.').split('.')[-1] in q.split(':')[0]]
            if cands:
                info.calls += cands
                return
            if orig_name in self.class_bases:          # a pyUSID class: its constructor
                info.calls += [q for q in self.methods.get('__init__', []) if (':' + orig_name + '.__init__') in q]
                info.calls += [q for q in self.methods.get('__new__', []) if (':' + orig_name + '.__new__') in q]
                return
            if orig_name in EXTERNAL_WRITERS:
                info.writes.append('external writer: ' + orig_name)
                return
            if orig_name in EXTERNAL_PURE or orig_name in BUILTINS_PURE:
                return
            info.unclassified.append('imported %s (%s)' % (name, origin))
            return
        same_mod = [q for q in self.by_name.get(name, []) if q.split(':')[0] == info.module]
        if same_mod:
            info.calls += same_mod
            return
        if name in self.class_bases:
            info.calls += [q for q in self.methods.get('__init__', []) if (':' + name + '.__init__') in q or ('.' + name + '.__init__') in q]
            return
        if name in BUILTINS_PURE or name in EXTERNAL_PURE:
            return
        if name in EXTERNAL_WRITERS:
            info.writes.append('external writer: ' + name)
            return
        # a parameter / local variable holding a callable (func(...), ufunc(...)): user code, reductions
        params = {a.arg for a in info.node.args.args + info.node.args.kwonlyargs}
        if name in params or name in ('func', 'ufunc'):
            return
        info.unclassified.append('name ' + name)

    def _call_attr(self, info, f, call):
        meth = f.attr
        recv = f.value
        rs = _src(recv)
        # ---- .attrs manager
        if isinstance(recv, ast.Attribute) and recv.attr == 'attrs' or rs.endswith('.attrs'):
            if meth in ATTRS_WRITE:
                info.writes.append('attrs.%s(): %s' % (meth, _src(call)[:60]))
            return
        # ---- module aliases
        if isinstance(recv, ast.Name):
            origin = self.imports[info.module].get(recv.id, '')
            if origin.startswith('module:') or origin.endswith(':hdf_utils') or recv.id in ('hut', 'np', 'da', 'os', 'sys', 'h5py', 'plt', 'tm', 'joblib',
                                                                                               'psutil', 'sid', 'collections', 'Image'):
                if meth in EXTERNAL_WRITERS or (recv.id in ('np', 'os', 'da') and meth in WRITE_METHODS):
                    info.writes.append('external writer: %s.%s' % (recv.id, meth))
                    return
                if recv.id == 'h5py' and meth == 'File':
                    mode = 'a'
                    for k in call.keywords:
                        if k.arg == 'mode' and isinstance(k.value, ast.Constant):
                            mode = k.value.value
                    if len(call.args) > 1 and isinstance(call.args[1], ast.Constant):
                        mode = call.args[1].value
                    if mode != 'r':
                        info.writes.append('h5py.File opened writable: ' + _src(call)[:60])
                    return
                # functions of pyUSID modules imported as modules (e.g. hdf_utils.xxx)
                cands = self.by_name.get(meth, [])
                if cands and recv.id not in ('np', 'da', 'os', 'sys', 'h5py', 'plt', 'tm', 'joblib', 'psutil', 'sid', 'collections', 'Image'):
                    info.calls += cands
                    return
                if meth in EXTERNAL_PURE or meth in PURE_METHODS or meth in BUILTINS_PURE or recv.id in ('np', 'da', 'os', 'sys', 'plt', 'tm', 'joblib', 'psutil', 'sid',
                                                                                                            'collections', 'Image', 'h5py'):
                    return
                info.unclassified.append('%s.%s' % (recv.id, meth))
                return
        # ---- self / super(): methods of the class and its pyUSID bases
        if rs == 'self' or rs.startswith('super('):
            cls = info.cls
            cands = []
            seen = set()
            stack = [cls] if cls else []
            while stack:
                c = stack.pop()
                if c in seen or c is None:
                    continue
                seen.add(c)
                cands += [q for q in self.methods.get(meth, []) if ('.' + c + '.' + meth) in q or (':' + c + '.' + meth) in q]
                stack += [b.split('.')[-1] for b in self.class_bases.get(c, [])]
            if rs.startswith('super(') and cls:
                cands = [q for q in cands if (':' + cls + '.') not in q and ('.' + cls + '.') not in q]
            if cands:
                info.calls += cands
                return
            if meth in WRITE_METHODS:
                info.writes.append('%s.%s(): %s' % (rs, meth, _src(call)[:60]))
                return
            if meth in PURE_METHODS or meth in ('__init__', '__eq__', '__repr__', '__new__', 'flush'):
                return        # inherited from h5py.Dataset / sidpy base classes
            info.unclassified.append('%s.%s' % (rs, meth))
            return
        # ---- any other receiver
        if meth in WRITE_METHODS:
            info.writes.append('%s.%s(): %s' % (rs[:30], meth, _src(call)[:60]))
            return
        if meth == 'flush' or meth in PYFILE_WRITE:
            if meth != 'flush':
                info.writes.append('python file write: ' + _src(call)[:60])
            return
        if meth in PURE_METHODS:
            return
        cands = self.methods.get(meth, [])
        if cands:
            info.calls += cands         # receiver unknown: every pyUSID method of that name
            return
        if meth in EXTERNAL_PURE:
            return
        info.unclassified.append('%s.%s' % (rs[:30], meth))


READ_ENTRY_POINTS = [
    'io.hdf_utils.simple:check_if_main', 'io.hdf_utils.simple:get_all_main', 'io.hdf_utils.simple:find_dataset',
    'io.hdf_utils.simple:find_results_groups', 'io.hdf_utils.simple:check_for_old', 'io.hdf_utils.simple:check_for_matching_attrs',
    'io.hdf_utils.simple:get_source_dataset', 'io.hdf_utils.simple:validate_main_dset', 'io.hdf_utils.simple:validate_anc_h5_dsets',
    'io.hdf_utils.simple:validate_dims_against_main', 'io.hdf_utils.simple:validate_anc_dset_attrs',
    'io.hdf_utils.model:reshape_to_n_dims', 'io.hdf_utils.model:reshape_from_n_dims', 'io.hdf_utils.model:get_dimensionality',
    'io.hdf_utils.model:get_sort_order', 'io.hdf_utils.model:get_unit_values',
    'io.usi_data:USIDataset.__init__', 'io.usi_data:USIDataset.__repr__', 'io.usi_data:USIDataset.__eq__', 'io.usi_data:USIDataset.get_pos_values',
    'io.usi_data:USIDataset.get_spec_values', 'io.usi_data:USIDataset.get_current_sorting', 'io.usi_data:USIDataset.toggle_sorting',
    'io.usi_data:USIDataset.get_n_dim_form', 'io.usi_data:USIDataset.slice', 'io.usi_data:USIDataset._get_pos_spec_slices',
    'io.usi_data:USIDataset._get_dims_for_slice', 'io.usi_data:USIDataset.reduce[to_hdf5=False]',
]
WRITE_ENTRY_POINTS = [
    'io.hdf_utils.model:write_main_dataset', 'io.hdf_utils.simple:write_ind_val_dsets', 'io.hdf_utils.simple:create_indexed_group',
    'io.hdf_utils.simple:create_results_group', 'io.hdf_utils.simple:create_empty_dataset', 'io.hdf_utils.simple:write_reduced_anc_dsets',
    'io.hdf_utils.simple:link_as_main', 'io.hdf_utils.simple:copy_main_attributes', 'io.hdf_utils.simple:check_and_link_ancillary',
    'io.usi_data:USIDataset.slice_to_dataset', 'io.usi_data:USIDataset.reduce', 'processing.process:Process.compute',
]


def build(repo):
    an = Analyzer(repo)
    for q, info in list(an.funcs.items()):
        an.analyze(info)
    # specialised node: reduce(to_hdf5=False): statements after "if not to_hdf5: return ..." are unreachable
    rq = 'io.usi_data:USIDataset.reduce'
    if rq not in an.funcs:
        raise EffectsError('USIDataset.reduce not found')
    fn = an.funcs[rq].node
    cut = None
    for i, s in enumerate(fn.body):
        if isinstance(s, ast.If) and _src(s.test) == 'not to_hdf5' and s.body and isinstance(s.body[-1], ast.Return):
            cut = i
            break
    if cut is None:
        raise EffectsError('reduce(): the guard "if not to_hdf5: return ..." was not found at the top level')
    spec = FunctionInfo(rq + '[to_hdf5=False]', an.funcs[rq].module, an.funcs[rq].cls, fn)
    nodes = []
    for s in fn.body[:cut + 1]:
        stack = [s]
        while stack:
            n = stack.pop()
            nodes.append(n)
            for c in ast.iter_child_nodes(n):
                if not isinstance(c, (ast.FunctionDef, ast.AsyncFunctionDef, ast.ClassDef, ast.Lambda)):
                    stack.append(c)
    an.analyze(spec, prune_after=nodes)
    an.funcs[spec.qual] = spec
    for ep in READ_ENTRY_POINTS + WRITE_ENTRY_POINTS:
        if ep not in an.funcs:
            raise EffectsError('entry point not found in the source: ' + ep)
    return an


def emit(an):
    quals = sorted(an.funcs)
    ids = {q: i for i, q in enumerate(quals)}
    lines = ['(* GENERATED on every check run by harness/effects.py from the pyUSID sources -- do not edit *)',
             'From Coq Require Import List Arith Bool.', 'Import ListNotations.', '',
             '(* node id, number of write primitives, callees, number of unclassified calls *)',
             'Definition node := (nat * nat * list nat * nat)%type.', 'Definition graph : list node := [']
    rows = []
    for q in quals:
        info = an.funcs[q]
        callees = sorted({ids[c] for c in info.calls if c in ids})
        rows.append('  (%d, %d, [%s], %d)  (* %s *)' % (ids[q], len(info.writes), '; '.join(map(str, callees)), len(info.unclassified), q))
    lines.append(';\n'.join(rows))
    lines.append('].')
    lines.append('Definition read_entry_points : list nat := [%s].' % '; '.join(str(ids[e]) for e in READ_ENTRY_POINTS))
    lines.append('Definition write_entry_points : list nat := [%s].' % '; '.join(str(ids[e]) for e in WRITE_ENTRY_POINTS))
    return '\n'.join(lines) + '\n', ids


def regenerate(repo, coq_dir):
    import gen_kernels
    target = os.path.join(coq_dir, 'Gen', 'Gen_Effects.v')
    try:
        an = build(repo)
        text, ids = emit(an)
        gen_kernels.write_if_changed(target, text)
        return {'effects': None}
    except (EffectsError, SyntaxError) as e:
        return {'effects': 'effect analysis refused: %s' % e}


if __name__ == '__main__':
    an = build(os.environ.get('PYUSID_REPO', '/repo'))
    for ep in READ_ENTRY_POINTS:
        info = an.funcs[ep]
        print(ep, 'writes:', info.writes, 'unclassified:', info.unclassified)
    tot_u = {q: i.unclassified for q, i in an.funcs.items() if i.unclassified}
    print(len(an.funcs), 'functions;', len(tot_u), 'with unclassified calls')
    for q, u in sorted(tot_u.items()):
        print('  U', q, u)
