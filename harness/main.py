"""Entry point: ./check Cxx [--tier quick|thorough] [--replay FILE]"""
import argparse
import importlib
import json
import os
import sys
import traceback

import common


def main():
    ap = argparse.ArgumentParser()
    ap.add_argument('pid')
    ap.add_argument('--tier', default=os.environ.get('VERIF_TIER', 'quick'), choices=['quick', 'thorough'])
    ap.add_argument('--replay', default=None)
    a = ap.parse_args()
    seed = int(os.environ.get('VERIF_SEED', '20260930'))
    pid = a.pid.upper()
    common.silence()
    mod = importlib.import_module('props.' + pid.lower())
    ctx = common.Ctx(pid, a.tier, seed)
    try:
        if a.replay:
            case = json.load(open(a.replay))
            if hasattr(mod, 'replay'):
                print(json.dumps(mod.replay(ctx, case), indent=1, default=str))
            else:
                print(json.dumps(case, indent=1))
            return 0
        import glob
        for old in glob.glob(os.path.join(common.VERIF, 'replays', pid, '*.json')):
            os.remove(old)
        gen_status = mod.regenerate(ctx) if hasattr(mod, 'regenerate') else None
        build = common.build_props(ctx, mod.PROP_V, extra=getattr(mod, 'CORR_V', ()))
        try:
            out = mod.run(ctx, build)
        except Exception:
            out = common.Outcome.LAST or common.Outcome()
            out.corr_error = 'harness crashed: ' + traceback.format_exc()[-3000:]
        return common.finish(ctx, mod, build, gen_status, out, search=getattr(mod, 'search', None))
    finally:
        ctx.cleanup()


if __name__ == '__main__':
    sys.exit(main())
