"""regenerate every translator-tied model (used by setup.sh)"""
import os
import common
import gen_kernels
print(gen_kernels.regenerate(common.REPO, common.COQ))
try:
    import effects
    print(effects.regenerate(common.REPO, common.COQ))
except ImportError:
    pass
