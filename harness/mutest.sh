#!/bin/bash
# usage: mutest.sh <patch.diff> <Cxx> [more Cyy...]   -- applies a seeded change to /repo, runs the checks, always reverts
patch="$1"; shift
cd /repo || exit 2
if ! git diff --quiet -- pyUSID; then echo "/repo has local source changes; refusing"; exit 2; fi
git apply "$patch" || { echo "patch does not apply"; exit 2; }
trap 'git -C /repo checkout -- pyUSID; (cd /verif && PYTHONPATH=/repo:/verif/harness /venv/bin/python harness/gen_all.py >/dev/null 2>&1)' EXIT
export VERIF_EVIDENCE_DIR=/var/tmp/mutest_evidence
for p in "$@"; do
  (cd /verif && ./check "$p" --tier "${TIER:-quick}" 2>&1 | grep -E "VIOLATION|KNOWN-FINDING|exit [01]" | cut -c1-400)
done
