"""Writes /verif/MANIFEST.json from the table below."""
import json
import os

VERIF = os.path.dirname(os.path.dirname(os.path.abspath(__file__)))

CLAIMED = {
    'C01': dict(
        text='Coq theorem grid_to_nd: for any number of dimensions, any sizes >= 1, ANY storage permutation on either side, any element type '
             'and contents (no side with more dimensions than points), the model of reshape_to_n_dims returns file-order labels and an array '
             'in which the element at the multi-index carried by row r / column c is main[r][c]; every coordinate vector is carried by exactly '
             'one row. Proved through: cyclic change counts of mixed-radix digits, stable argsort is a sorted permutation, uniqueness of '
             'strictly sorted lists, strides depend only on non-unit dimensions, transpose/reshape index algebra. View theorems: sorted view = '
             'file-order view permuted by one permutation (labels, sizes, array), toggle involutive, reads after any toggle/read history. '
             'Model validated against reshape_to_n_dims (h5py/numpy/dask ancillaries, lazy/eager, 6 dtypes) and USIDataset read/toggle histories in coqc.',
        design='5/C01',
        note='Trusted: Coq kernel; numpy/dask reshape+transpose semantics (Base/NdArray.v); numpy argsort stable for <= 16 keys; labels distinct '
             '(abstracted to ids). Open known finding: more dimensions than points on a side (orientation heuristic) - outside the theorem\'s '
             'hypothesis, reported as KNOWN-FINDING. The exact shape (one axis per dimension in file order, of that dimension\'s size) is theorem '
             'C01_exact_shape.',
        technique='Coq proof (induction, permutation/sortedness lemmas, mixed-radix arithmetic) + in-Coq correspondence evaluation'),
    'C03': dict(
        text='Coq theorem compute_spec (any mask, any batch limit >= 1, any map function): compute() terminates, the call log equals the pending '
             'list (each pending position exactly once, never a completed one), batches are non-empty, within the limit and concatenate to the '
             'pending list, final status is 1 everywhere, pending results are f(row), others untouched. The cursor arithmetic is regenerated from '
             'process.py by the translator (which also checks the statement order of the while loop); every run of the real Process.compute() '
             '(eager/lazy, same/separate target file, 1..4 cores with batches big enough for joblib to fork) is compared with the model in coqc.',
        design='5/C03',
        note='Trusted: Coq kernel, translator, joblib order preservation (call order inside a parallel batch compared as a sorted list), the harness '
             'Process subclass. Partial: interleavings inside joblib are not modelled.',
        technique='Coq proof (induction over the batch loop, list lemmas) + translator-tied kernel + in-Coq correspondence evaluation'),
    'C08': dict(
        text='Coq theorems for all dimension counts, sizes >= 1 and values: entry (d,n) of the built indices matrix is digit d of n in the '
             'mixed radix with the first supplied dimension fastest (tile/repeat model of build_ind_val_matrices), values = value_d[index_d], '
             'every combination occurs exactly once (digits bijection), position = transpose of spectroscopic, and the written datasets list '
             'dimensions slowest-first with the label/unit at row i belonging to that row under both ordering flags. Model validated against '
             'build_ind_val_matrices, make_indices_matrix and write_ind_val_dsets (raw h5py read-back) inside coqc.',
        design='5/C08',
        note='Trusted: Coq kernel, numpy tile/repeat/flipud/fliplr as mirrored in Base/Matrix.v, uint32/float32 casts (dyadic values), harness. '
             'The written-dataset theorem is stated for the spectroscopic shape; the position shape is covered by the transpose theorem of the '
             'builder plus the correspondence run.',
        technique='Coq proof (mixed-radix digits, induction on lists) + in-Coq correspondence evaluation'),
    'C09': dict(
        text='Coq theorems for grids with any number of dimensions, sizes >= 1, in ANY storage permutation (spectroscopic shape, not more '
             'dimensions than points): the computed order is a permutation that ranks all dimensions of size >= 2 exactly fastest->slowest '
             '(ties only among size-1 dimensions), reported sizes = number of distinct indices = dimension sizes, closed form of the cyclic '
             'change count, and the grid described by the computed order is the stored grid; get_unit_values (orientation given) on a grid in any '
             'storage order with ANY value function returns exactly one value per index in index order (C09_unit_values_exact; the row algorithm is '
             'proved on every row of the tile / repeat form, which also covers sliced grids); create_spec_inds_from_vals rebuilds exactly the index '
             'matrix of a grid whose values are distinct per dimension (C09_indices_rebuilt_from_values; the column loop is the mixed-radix '
             'successor). All functions and the accessors are also modelled as written and validated against the code in coqc; an independent '
             'oracle judges every output.',
        design='5/C09',
        note='Trusted: Coq kernel, numpy unique/where/diff/argsort as mirrored, harness. The theorems assume the orientation is given / not more dimensions than points. Open known findings: every place where the '
             'orientation of a matrix is guessed from its shape fails for as many / more dimensions than points (listed per call site).',
        technique='Coq proof (change-count counting lemma, sorted-permutation uniqueness) + in-Coq correspondence evaluation'),
    'C10': dict(
        text='Executable Coq model of reshape_from_n_dims as written (type/size/rank/shape checks, squeezed-side escape, one-sided construction of '
             'the missing matrix, axis swap from the sort orders). Theorems (Usid/FromNDProof, GridRoundTrip, GridFromNd): for regular grids with ANY '
             'number of dimensions, sizes >= 1 and storage order on either side, ANY element type (not more dimensions than points, both index matrices '
             'supplied): from_nd (to_nd x) = x (original rows x columns, same order); coordinate map of the flattening for ANY N-D array of the right '
             'shape (element (r,c) = array element at the coordinates carried by row r / column c); to_nd (from_nd b) = b; the same relative to the '
             'computed sort orders for arbitrary consistent matrices; algebraic core transpose(transpose(a, inv L), L) = a; rejection of requests with '
             'no matrix, a wrong total size or an N-D shape that differs from the sizes the matrices show (permuted axes). Correspondence in coqc '
             'against the real function on round trips (numpy/dask/h5py), one-sided calls, permuted-size / wrong-size / other-factorisation arrays and '
             'squeezed singleton sides; the independent oracle demands the exact original matrix or an exception.',
        design='5/C10',
        note='Trusted: Coq kernel, numpy transpose/reshape semantics, harness. One-sided calls are theorems (Usid/FromNDOneSided: the call with one matrix equals the two-sided call '
             'with the C-order, slowest-to-fastest grid of the remaining axes, hence the same coordinate map) for remaining axes of size >= 2; the '
             'squeezed path (a 1 x 1 placeholder side whose axis is absent) is a theorem (Usid/FromNDSqueezed) when the present side has >= 2 dimensions. '
             'Partial: a missing side containing a size-1 axis (open finding) stays with the executable model + correspondence. Three genuine '
             'defects found and fixed (singleton side, permuted shape accepted, weak one-sided guard); open findings for one-sided calls whose '
             'missing side has a size-1 dimension and for matrices with dims >= points.',
        technique='Coq proof (permutation round trip, composition with the C01/C09 grid theorems, extensionality of N-D arrays) + in-Coq correspondence evaluation'),
    'C13': dict(
        text='Coq theorems over strings (lists of ASCII) for ANY contents of the parent group: the assigned name is <base>_NNN with NNN = 1 + highest '
             'number of groups named exactly <base>_<digits> (000 if none), differs from every existing group, creation succeeds and appends only '
             'the new group; decimal format/parse round trip; (dataset, tool, index) -> name is injective; find_results_groups returns exactly '
             'the groups named <dataset>-<tool>_<digits> and never a group created for another pair; the source dataset is recovered from the '
             'name. The model is replayed against histories of create/delete/find/get_source operations (default parent, other group, file root, '
             'other file) over a vocabulary closed under prefix/substring/digit-suffix relations inside coqc.',
        design='5/C13',
        note='Trusted: Coq kernel, str.startswith/isdigit/format/replace and h5py name ordering as mirrored in H5/Naming.v (ASCII names), harness. '
             'Hypothesis stated in the theorem: no sibling *dataset* carries the computed <base>_NNN name. Recording of tool/source attributes is '
             'judged by the oracle only. Two genuine defects (prefix parse, substring lookup) were found and fixed.',
        technique='Coq proof (string/list induction, decimal round trip) + in-Coq replay of operation histories'),
    'C14': dict(
        text='Coq theorems (unbounded in ranks, pending-list length, batch limit, processor names) about rank ranges, batch windows and '
             'socket masters; the integer kernels are regenerated from process.py by a fail-closed ast translator on every run, '
             'and the whole model is re-validated against the real Process class (simulated ranks) inside coqc.',
        design='5/C14',
        note='Trusted: Coq kernel + vm_compute, translator (harness/translate.py, gen_kernels.py), simulated ranks instead of real MPI '
             '(partial: collective I/O not modelled), fake mpi4py for the socket grouping, uint16 bound R < 65536.',
        technique='Coq proof (lia/induction) over translator-generated model + in-Coq correspondence evaluation'),
    'C15': dict(
        text='Coq theorems over exact rationals (all budgets, multipliers >= 1, core requests, row sizes): positions/read x row bytes x multiplier x '
             'workers <= granted memory, monotone in the budget, cores and recommended cores in [1, logical], zero budget => the cursor cannot '
             'advance and the recommender rejects the empty batch. __set_memory/__set_cores/recommend_cpu_cores are regenerated from the source '
             'by the ast translator on every run (with ZeroDivisionError guards) and validated against the real code in coqc; compute() is run '
             'under a watchdog for budgets admitting >=1 row and none.',
        design='5/C15',
        note='Trusted: Coq kernel, translator, exact-rational idealisation of IEEE float rounding (configurations whose exact quotient lies within '
             '2^-40 of an integer are excluded and counted), patched get_available_memory/cpu_count inside the harness process. Partial: '
             'float rounding, MPI branch of __set_cores.',
        technique='Coq proof (Q arithmetic: field/nra/lia) over translator-generated model + in-Coq correspondence evaluation'),
}

CLAIMED['C16'] = dict(
    text='Coq theorems over an abstract value domain (numbers as exact rationals, strings, lists of numbers / strings, None) and ANY prior attributes: '
         'the written dictionary always matches itself (reflexive after the HDF5 round trip), any same-kind change of one entry (scalar, string, '
         'length, string element, numeric element beyond the np.allclose tolerance) reports a mismatch wherever the entry sits, an unstored key '
         'reports a mismatch, None entries are ignored, the comparison is a total pure function; the full sensitivity statement is refuted '
         'inside the tolerance with a machine-checked witness (open known finding). The model is compared with the real function on thousands of '
         '(dictionary, perturbed query) pairs inside coqc; exceptions and changed attribute digests are disagreements.',
    design='5/C16',
    note='Trusted: Coq kernel, write_simple_attrs/get_attr round trip as abstracted (numbers -> Q, strings -> ids), exact-rational reading of '
         'np.allclose. NaN excluded (NaN != NaN). Two genuine defects fixed (0-d iteration TypeError, scalar/sequence broadcast).',
    technique='Coq proof (induction over the query, Q arithmetic) + refutation witness + in-Coq correspondence evaluation')

CLAIMED['C06'] = dict(
    text='Coq theorem check_if_main_exact: for EVERY descriptor of an HDF5 object (any link kinds, ranks, shapes, attribute states) the model of '
         'check_if_main + validate_anc_dset_attrs answers True iff all structural rules of a Main dataset hold (soundness and completeness '
         'against an order-independent definition), hence it is total; the wrapper is constructed exactly for those objects (TypeError '
         'otherwise) and the recursive search returns exactly them for any tree. The model is compared inside coqc with the real function on every '
         'single corruption (82 kinds) and sampled pairs via an abstraction function file -> descriptor; USIDataset() and get_all_main on mixed '
         'trees are judged by an independent oracle.',
    design='5/C06',
    note='Trusted: Coq kernel, the abstraction function (raw h5py) and h5py reference resolution. Attribute values that are a single string '
         'instead of a list are outside the generator. One genuine defect (five raise paths + rank-3 acceptance) found and fixed.',
    technique='Coq proof (boolean case analysis: soundness + completeness) + in-Coq correspondence evaluation')

CLAIMED['C05'] = dict(
    text='Coq theorems over ANY list of groups in the target location (names as strings, stored attributes, progress records): a group is '
         'returned without computing only if it is named <this dataset>-<this tool>_<digits>, its stored parameters match and its record is '
         'complete (well-formed status all 1, or legacy last_pixel >= N); groups of another dataset/tool are never returned or resumed '
         '(unique decomposition of names, C13); otherwise the last matching incomplete group is resumed, otherwise a fresh one is made; '
         'malformed/missing records are ignored; override always starts fresh; the constructor writes only into legacy groups (frame '
         'theorem for all others, refutation witness for legacy). The decision model composes the C13 and C16 models and is compared in coqc '
         'with the real Process (duplicate/partial lists, returned group, call log) over generated histories; per-group digests judge frames.',
    design='5/C05',
    note='Trusted: Coq kernel, abstraction of groups (harness), digests as notion of unchanged. Open findings: legacy groups are upgraded by the '
         'constructor even with override=True (required by the unedited test-suite); last_pixel outside [0,N] not treated as malformed; a separate '
         'target file cannot tell apart sources with the same leaf name (provenance attributes not compared). Two defects fixed.',
    technique='Coq proof (list reasoning over the classification/decision, reuse of C13/C16 theorems) + in-Coq correspondence evaluation')

CLAIMED['C04'] = dict(
    text='Coq theorems over the event list of compute() (result writes, flushes, per-slice marks; volatile and durable copy): for ANY batches, '
         'ANY crash point and both ways of dying the surviving state never has a position marked without its final result; after ANY sequence '
         'of interruptions (each with its own batch limit / crash point / mode) the final compute() recomputes exactly the unmarked positions and '
         'ends with every position marked and holding f(row); a kill keeps exactly what the last flush saw. Tie to the code: the translator checks '
         'the statement order of the loop; systematic fault enumeration interrupts the real run at every file-modifying h5py call x '
         '{graceful, kill = byte copy at the last flush}, checks the survivors, membership of each survivor in the model\'s crash-state set '
         '(in coqc), re-construction and resumption with another batch size, sequences of two interruptions.',
    design='5/C04',
    note='Trusted: Coq kernel, crash injection by wrapping h5py entry points in the harness process, flush-snapshot definition of durability '
         '(OS / HDF5 caching between flushes not modelled), translator for the loop order. Partial: torn writes inside one HDF5 call. One defect '
         'fixed (separate results file never flushed).',
    technique='Coq proof (invariant over event prefixes, induction over crash sequences) + systematic fault enumeration on the real code')

CLAIMED['C07'] = dict(
    text='Coq theorems for the 2-D path, for ANY matrices and selections: the selected rows/columns are exactly those whose ancillary index along '
         'every dimension is in the selection, in increasing order whatever order or repetition the caller used; element (i,j) of the result is '
         'main[rows[i], cols[j]]; the eager post-processing (squeeze, atleast_2d, shape-based transposition) is the identity on EVERY r x c '
         'result (so square results keep their orientation and eager = lazy); negative / out-of-range / empty requests are refused; more than one '
         'list index on the N-D path is refused. N-D path (dask indexing of the cached view in either sort state, int drops the axis, negative wrap, '
         'bounds checked first): theorem C07_nd_slice_elements - for any number of axes and any mixture of integers, slices and one list the result '
         'has the expected shape and its element at j is the view element at the index with the chosen index put back on every sliced axis '
         '(induction over the axes, one get-lemma per indexing step). Both models are compared with USIDataset.slice in coqc on random '
         'dictionaries (ints, slices with steps, lists/tuples/arrays, malformed stream); an oracle compares with numpy indexing of the N-D form.',
    design='5/C07',
    note='Trusted: Coq kernel, dask/h5py indexing semantics as mirrored, harness. Slice objects reach the model as resolved index lists (range() semantics trusted). Two defects fixed (square result transposed, tuple selector in the N-D path).',
    technique='Coq proof (list/matrix lemmas, case analysis on shapes) + in-Coq correspondence evaluation')

CLAIMED['C20'] = dict(
    text='Translator-tied proof: on every run harness/effects.py re-parses all pyUSID modules and emits the effect graph (per function: write '
         'primitives, resolved callees, unclassified calls; reduce specialised to to_hdf5=False by constant-guard pruning). Coq proves that for each '
         'of the 28 read-side entry points the computed node set contains the entry point, is closed under call edges and is free of write primitives '
         'and unclassified calls (evaluation over the finite graph), and - by a general lemma about closed sets - that therefore NO call path from '
         'a read-side entry point reaches a writing function; frame property for any sequence of read calls; sanity theorem that every '
         'write-side entry point does reach a write primitive. Dynamic validation: random sequences of 26 kinds of read calls on files opened r '
         '(file SHA-256) and r+ (dump of all datasets/attributes), a tracer on all h5py write entry points, 11 write entry points on a read-only handle.',
    design='5/C20',
    note='Trusted: Coq kernel, the effect analysis (name-based call resolution, reviewed tables of external pure / writing callables such as '
         'get_attr, lazy_load_array, write_simple_attrs), harness. Partial: "write entry points raise on read-only targets" is decided by '
         'enumeration, not by a theorem.',
    technique='Coq proof over a graph regenerated from the source by a Python-ast translator (closure check + path lemma) + dynamic digests')

CLAIMED['C17'] = dict(
    text='Segment-level model of to_csv (Usid/Csv.v): Python string concatenation on comma-separated cell lists (cat), the header block (one line '
         'per spectroscopic dimension: pos_dims-1 empty cells, the descriptor, that dimension\'s value per column), the label/dash row and the data '
         'rows, plus the write decision (size limit, force, existing file). Theorems: csv_cells_aligned - in the produced table the cell at header '
         'row i / data column c is spectroscopic value (i,c), the cell at data row r / left column d is position value (r,d), the cell at data row '
         'r / column c is element (r,c), for every numbers of dimensions, rows and columns; csv_no_overwrite / csv_oversize_skipped / csv_forced for '
         'the decision. Correspondence: the real file is parsed with the csv module and compared cell by cell with the model table; decision codes '
         'compared for second call, forced overwrite, > 15 MiB dataset. Oracle additionally checks directory listings (no stray temp file).',
    design='5/C17',
    note='Trusted: Coq kernel, harness, numpy.savetxt number formatting (cells are abstract ids; partial: the printed text of a number is outside '
         'the model). The temp.csv leak on a failing export was repaired (75447c2).',
    technique='Coq proof (cell-alignment theorem over a list-of-segments model) + vm_compute correspondence against the parsed CSV file')

CLAIMED['C02'] = dict(
    text='Model of write_main_dataset over the members of the target group (H5/WriteMain.v): argument checks, name cleaning, per side either '
         'validation + cross-file copy of supplied ancillaries or prefix check -> dimension validation -> size check -> write_ind_val_dsets, IN THE '
         'CODE\'s ORDER (position side written before the spectroscopic side is validated, main created last), attributes, link_as_main, the final '
         'check_if_main, wrapped by the clean-up decorator of repair 0a152a0. Theorems: an accepted call returns an object stored under the cleaned '
         'name that satisfies is_main_spec (composition with the exactness theorem of C06) with the shape / identity of the input; entry (n,i) of the '
         'freshly written position / spectroscopic matrices is digit k-1-i of n in the mixed radix of the caller\'s sizes (fastest first), values and '
         'labels aligned, prod(sizes) rows, every index combination exactly once (composition with C08, new position-shape theorem); existing '
         'members are kept; a rejected call leaves exactly the same members (any rejection point) and, without cross-file copies, the identical '
         'group, so that a corrected retry behaves as on the original group; refutation witnesses for the unrepaired writer and for the cross-file '
         'attribute rewrite (known finding). Correspondence: 220 / 3000 generated calls (40 % with one of 34 defects) compared on exception class, '
         'member names afterwards, shape / labels / units / contents / location of all four links. Independent oracle: structural validator, '
         'coordinates recomputed from the caller\'s description, dump of the group before / after, retry after each rejection, second dataset '
         'written from the same descriptor objects.',
    design='5/C02',
    note='Trusted: Coq kernel, harness (argument classification flags), h5py/dask/sidpy primitives as mirrored (copy_dataset, validate_string_args, '
         'write_simple_attrs). Data values are carried as an identity (m_src); their byte-level equality is decided by the oracle, not by a theorem. '
         'Known finding KF-C02-COPY-ATTRS (sidpy copy_dataset rewrites attributes of an equal pre-existing copy before a later rejection).',
    technique='Coq proof (append-only invariant of the body + clean-up lemma; composition with C06/C08 theorems) + vm_compute correspondence on generated calls')

CLAIMED['C18'] = dict(
    text='Model of create_empty_dataset with sidpy copy_attributes / copy_linked_objects / copy_dataset as it uses them (H5/EmptyDset.v): argument '
         'checks, dash replacement, the three states of the name (absent / compatible dataset returned as is / incompatible dataset deleted and '
         're-created / non-dataset refused), attribute copy (plain always, object references unless skipped or cross-file, region references '
         'never), cross-file copy of every referenced object under the attribute name with the copy_dataset equality checks, new attributes last, '
         'check_if_main gate and book-keeping stamps. Theorems: layout and contents (source shape, requested type; existing compatible contents '
         'kept, otherwise source chunking / compression and empty); every plain source attribute and every new attribute is on the result '
         '(override order); same-file result is a Main dataset with the source\'s own links; other-file result is a Main dataset whose links are '
         'members of the destination with the shape, labels, units and contents of the source\'s ancillaries (induction over the reference '
         'list); non-dataset names refused with the group unchanged; argument errors. Correspondence: histories of 1-3 calls with writes in '
         'between, compared on exception class, members afterwards, layout, content identity, all attributes and the USIDataset flag.',
    design='5/C18',
    note='Trusted: Coq kernel, harness abstraction (attribute values / contents as identities), sidpy helpers as mirrored. Book-keeping stamp '
         'values are abstracted. A request whose name is the source\'s own name with another dtype deletes the source (documented in DESIGN, outside '
         'the stated property).',
    technique='Coq proof (attribute-map lemmas, induction over the source\'s reference list, composition with C06 exactness) + vm_compute correspondence on call histories')

CLAIMED['C11'] = dict(
    text='Index-level model of slice_to_dataset (Usid/SliceDset.v): per side the storage order, the selections, the rows / columns kept by the 2-D '
         'slice, the Dimension descriptors handed to the writer (remaining dimensions in the order in which they vary, single-valued ones dropped, '
         'placeholder) and the new matrices through the write_ind_val model of C08. Core theorem (Usid/SelEnum.v, induction over the radices): the '
         'rows of a mixed-radix grid whose every digit lies in a per-digit subset, in increasing order, enumerate the product of the subsets in the '
         'same mixed-radix order (explicit formula; count; digits of the j-th kept row). Consequences: exactly the selected rows are kept, once, in '
         'source order; element (j,l) is the source element at the j-th kept row / l-th kept column; on a sliced side the new values matrix holds at '
         'row j, in the column labelled with dimension d, the source index of the j-th kept row along d (position and spectroscopic shapes); a dropped '
         'dimension is constant over the kept rows; refutation witness for the label order used before repair 9af1ddc. Correspondence: new data '
         '(identities), labels, index and value matrices of both sides, reuse of the source\'s ancillaries, on generator datasets in every storage '
         'order and on datasets written by write_main_dataset under both flags.',
    design='5/C11',
    note='Trusted: Coq kernel, harness. Selections reach the model sorted and de-duplicated (C07 proves that the 2-D slice does that). That '
         'get_unit_values on the sliced matrices yields the chosen values in increasing index order is theorem C11_unit_values_of_the_sliced_matrices. '
         'Validity of the written dataset is C02\'s theorem plus the independent validator.',
    technique='Coq proof (selected-rows enumeration theorem + composition with C08 write_ind_val theorems) + vm_compute correspondence against the written datasets')

CLAIMED['C12'] = dict(
    text='Pipeline model of USIDataset.reduce (Usid/Reduce.v) composed of the existing executable models of reshape_to_n_dims (C01) and '
         'reshape_from_n_dims (C10) with a new N-D reduction (value at a kept index = f of the fibre over it), the name -> axis lookup, '
         'write_reduced_anc_dsets (matrix level, as the code; and digit level) and the final shape gate. Theorems: the reduced value is f of exactly '
         'the fibre (get lemma; every in-bounds element lies in the fibre over its own remaining coordinates; the fibre contains nothing else); on a '
         'grid dataset in any storage order the axis of a name is its number in file order and the reduced array is the one that C01\'s coordinate '
         'theorem describes (composition with grid_to_nd); the columns kept on a reduced side are prod(kept sizes) many and the j-th one carries '
         'the digits of j along the kept dimensions and 0 along the reduced ones (selected-rows enumeration theorem of C11), i.e. every remaining '
         'coordinate combination exactly once; with fewer than two axes left the call raises. Correspondence on sum / max / min (exact integers) and mean / std (exact rational moments, tolerance 2^-16): '
         'returned array, written matrix, new ancillaries, reuse of untouched sides, raise / no raise, and agreement of the matrix-level and '
         'digit-level descriptions of the kept columns. Oracle (all five functions): numpy on the N-D form, fibre-wise check of every file element.',
    design='5/C12',
    note='Values matrices of rebuilt sides are modelled too (Usid/ReduceVals: entry = original reference value of the index at the same place; on a grid the rebuilt side reports the original unit values of the kept dimensions) and tied by correspondence (check12v). Written back (theorem C12_written_back_coordinates, grid datasets in any storage order, at least one dimension left on either side): the '
         'reduced ancillary matrices are again grid matrices (write_reduced_grid: matrix level = digit level, kept dimensions in the same relative '
         'order) and element (r,c) of the written matrix is the reduced value at the coordinates the new matrices carry (composition of the C01 '
         'exact-shape theorem, the fibre lemma and the C10 coordinate-map theorem). mean and std: the model carries the exact (sum, sum of squares, count) of every fibre (Usid/ReduceMoments: C12_moments_are_fibrewise, count = product of the reduced sizes > 0, '
         'C12_variance_from_moments: (cQ - S^2)/c^2 is the population variance, C12_mean_std_in_memory on grids) and the correspondence (check12m) compares the exact rational mean / variance with the floating-point numbers returned and written, as exact binary fractions, inside a relative tolerance of 2^-16; partial only in that the rounding of the division / square root is bounded, not modelled bit for bit. A fully reduced side (theorems C12_all_position_dimensions_reduced / C12_all_spectroscopic_dimensions_reduced) becomes the '
         '1 x 1 placeholder labelled with the next free dimension number and the written vector is laid out by the other side\'s new grid (squeezed path of '
         'reshape_from_n_dims, >= 2 dimensions left there; with fewer the call raises). '
         'Trusted: Coq kernel, harness, dask reductions.',
    technique='Coq proof (fibre lemma, composition with C01 grid theorem, selected-rows enumeration for the reduced ancillaries) + vm_compute correspondence of the composed pipeline')

CLAIMED['C19'] = dict(
    text='Models of the three translators (Usid/Translate.v): ImageTranslator\'s transpose + flatten with the position descriptors [Y; X] (Y fastest); '
         'write_sidpy_dataset after repairs d67b136 / 089deaa (spatial axes moved in front in their order, C-order flattening, Dimension lists in axis order '
         'with slow_to_fast=True, placeholder for an empty side); ArrayTranslator\'s argument gate, which runs completely before the old file is removed. '
         'Theorems: pixel (y, x) of any U x V image is element x*U + y and that row of the written position matrices carries X = x, Y = y (composition with '
         'the C08 position theorem); for a labelled dataset with ANY number, sizes, typing and order of axes the element with full index idx is stored at '
         '(C-order offset of its spatial part, of its spectral part) and the digits of those offsets give the parts back, so the ancillary matrices carry '
         'idx at that row / column; the axes are only permuted; a rejected ArrayTranslator call touches no file; refutation witness for the reshape used '
         'before the repair. Correspondence: flattened image + its position matrices; flattened labelled data + both index matrices and labels for every '
         'ordering of up to 4 axes; gate outcome + whether a new file exists. Oracle: canonical layout, element-by-value coordinate check, parameters / '
         'extra datasets / root attributes verbatim, no file produced or removed by a rejected call.',
    design='5/C19',
    note='normalize=True is inside the model (Usid/TranslateNorm: every written value is the exact rational (pixel - min)/(max - min) at the place the plain image stores that pixel -- C19_normalized_pixel; it lies in [0,1], 0 / 1 are attained, order kept) and tied by correspondence: the written float32 / float64 numbers as exact binary fractions within 2^-20 of the rational. Partial: binning (PIL resize) is judged by the oracle only; PIL / numpy readers are trusted. The body of '
         'ArrayTranslator.translate after the gate is write_main_dataset (C02). A constant image normalises to 0/0 = NaN (outside the property).',
    technique='Coq proof (transpose/flatten lemma, N-D transpose + C-order offset theorem, composition with C08) + vm_compute correspondence on generated images and labelled datasets')

NOT_YET = {}

TITLES = {}
for line in open(os.path.join(VERIF, 'properties.jsonl')):
    d = json.loads(line)
    TITLES[d['id']] = d['title']


def main():
    checks = []
    for pid in sorted(CLAIMED):
        c = CLAIMED[pid]
        checks.append({
            'property_id': pid,
            'quick_cmd': './check %s --tier quick' % pid,
            'thorough_cmd': './check %s --tier thorough' % pid,
            'evidence_file': '/verif/evidence/%s.json' % pid,
            'replay_cmd_template': './check %s --replay {path}' % pid,
            'engine': 'coq-proof+correspondence',
            'level_claimed': {'category': 'proof', 'text': c['text'], 'design_ref': 'DESIGN.md section ' + c['design']},
            'level_note': c['note'],
            'technique': c['technique'],
        })
    na = []
    for pid in sorted(TITLES):
        if pid not in CLAIMED:
            na.append({'property_id': pid,
                       'reason': NOT_YET.get(pid, 'check not built yet in this session (work in progress; planned as Coq proof + correspondence, see DESIGN.md section 5)')})
    m = {
        'version': 1,
        'setup_cmd': './setup.sh',
        'hooks': {
            'guard': 'PYUSID_VERIF',
            'enable': 'none needed: no source hooks; crash injection / call logs / fake MPI are monkey-patched inside the harness process',
            'baseline_off_cmd': 'cd /repo && /venv/bin/python -m pytest -ra -q -p no:cacheprovider --timeout=900 --continue-on-collection-errors',
            'source_commits': [],
            'add_only': True,
        },
        'engines': [{
            'name': 'coq-proof+correspondence',
            'path': '/verif/check',
            'serves_properties': sorted(CLAIMED),
            'kind_free_text': 'Coq 8.16 theorems over executable Gallina models; models tied to /repo on every run by (a) a Python-ast translator '
                              'for the integer kernels and the effect graph and (b) differential evaluation of model vs implementation inside coqc',
        }],
        'checks': checks,
        'not_applicable': na,
        'notes': 'See DESIGN.md. known_findings.json lists genuine defects (open / fixed).',
    }
    with open(os.path.join(VERIF, 'MANIFEST.json'), 'w') as f:
        json.dump(m, f, indent=1)


if __name__ == '__main__':
    main()
