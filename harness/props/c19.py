"""C19 -- translators preserve element coordinates and produce the canonical layout."""
import itertools
import os

import dask.array as da
import h5py
import numpy as np

import common
from common import cnat, cbool, clist, cpair
from props import c06

PID = 'C19'
PROP_V = 'Props/C19.v'
CORR_V = ('Corr/CorrC19.v',)
HEADER = 'Require Import V.Base.NdArray V.Usid.Translate V.Corr.CorrC19.\n'
CODES = {TypeError: 1, ValueError: 2, KeyError: 3}


def dim_vals(d, size):
    return (8.0 * (d + 1) + 0.5 * np.arange(size)).astype(np.float32)


def anc(f, main):
    pi, pv, si, sv = [f[main.attrs[n]] for n in c06.ANC]
    lab = lambda h: [x.decode() if isinstance(x, bytes) else str(x) for x in np.atleast_1d(h.attrs['labels'])]
    return lab(pi), pi[()], pv[()], lab(si), si[()], sv[()]


def mains_in(f):
    found = []

    def visit(name, o):
        if isinstance(o, h5py.Dataset) and all(k in o.attrs for k in c06.ANC):
            found.append(name)
    f.visititems(visit)
    return found


def run(ctx, build):
    import pyUSID as usid
    import sidpy as sid
    from PIL import Image
    from pyUSID.io import hdf_utils as hu
    from pyUSID.io.dimension import Dimension
    from pyUSID.io.array_translator import ArrayTranslator
    from pyUSID.io.image import ImageTranslator
    out = common.Outcome()
    rng = ctx.rng
    cases, meta = [], []
    hist = {'array_translator': {'accepted': 0, 'rejected': {}, 'dask': 0, 'extra_dsets': 0, 'existing_output_file': 0}, 'images': {'png': 0, 'txt': 0, 'binned': 0, 'normalized': 0, 'sizes': {}},
            'labelled': {'datasets': 0, 'ndim': {}, 'orders': {}, 'only_one_side': 0}}
    distinct = set()

    def violate(site, cls, mode, what, case):
        out.violations.append({'call_site': site, 'input_class': cls, 'failure_mode': mode, 'what': what, 'case': case})

    # ------------------------------------------------------------------ ArrayTranslator
    n_at = 99 if ctx.quick() else 700
    defects = [None, None, None, 'pos_size', 'spec_size', 'rank1', 'rank3', 'not_array', 'pos_not_dims', 'spec_not_dims', 'extra_not_dict', 'extra_reserved_key',
               'extra_key_not_string', 'extra_bad_value', 'quantity_not_string', 'name_empty']
    for i in range(n_at):
        k, q = rng.randint(1, 3), rng.randint(1, 2)
        psz = [rng.randint(1, 3) for _ in range(k)]
        ssz = [rng.randint(1, 4) for _ in range(q)]
        N, M = int(np.prod(psz)), int(np.prod(ssz))
        defect = None if i % 3 else (defects[(i // 3) % len(defects)] if i < 3 * len(defects) else rng.choice(defects))
        data = (np.arange(N * M).reshape(N, M) + 1).astype(rng.choice([np.float32, np.float64, np.int32]))
        raw = data
        use_dask = rng.random() < 0.3
        if defect in ('pos_size', 'spec_size'):
            use_dask = (i // (3 * len(defects))) % 2 == 0          # first round with dask, second with numpy (independent of the seed)
        if use_dask:
            raw = da.from_array(data, chunks=(max(1, N // 2), M))
            hist['array_translator']['dask'] += 1
        pd = [Dimension('X%d' % d, 'um', dim_vals(d, psz[d] + (1 if defect == 'pos_size' and d == 0 else 0))) for d in range(k)]
        sd = [Dimension('S%d' % d, 'V', dim_vals(d + 4, ssz[d] + (1 if defect == 'spec_size' and d == 0 else 0))) for d in range(q)]
        extra = rng.choice([None, {'Aux': np.arange(5), ' Notes ': [1.5, 2.5]}, {'Big': da.from_array(np.arange(6).reshape(2, 3), chunks=(1, 3))}])
        parms = rng.choice([None, {'alpha': 1.5, 'mode': 'fast', 'gains': [1, 2, 3]}])
        quantity, name = 'Current', 'SEM'
        pos_arg, spec_arg, raw_arg = pd, sd, raw
        strings, kind, rank, pos_ok, spec_ok, ex_code = 0, 0, 2, True, True, 0
        if defect == 'rank1':
            raw_arg, rank = data.ravel(), 1
        elif defect == 'rank3':
            raw_arg, rank = data.reshape(N, M, 1), 3
        elif defect == 'not_array':
            raw_arg, kind = [[1, 2], [3, 4]], 1
        elif defect == 'pos_not_dims':
            pos_arg, pos_ok = ['X'], False
        elif defect == 'spec_not_dims':
            spec_arg, spec_ok = 7, False
        elif defect == 'extra_not_dict':
            extra, ex_code = [1, 2], 1
        elif defect == 'extra_reserved_key':
            extra, ex_code = {rng.choice(['Raw_Data', 'Position_Indices', 'Spectroscopic_Values', 'Raw']): np.arange(3)}, 3
        elif defect == 'extra_key_not_string':
            extra, ex_code = {5: np.arange(3)}, 2
        elif defect == 'extra_bad_value':
            extra, ex_code = {'Aux': 'a string'}, 4
        elif defect == 'quantity_not_string':
            quantity, strings = 7, 1
        elif defect == 'name_empty':
            name, strings = '  ', 2
        if extra and ex_code == 0:
            hist['array_translator']['extra_dsets'] += 1
        path = os.path.join(ctx.tmp, 'at_%d.h5' % (i % 3))
        pre_existing = rng.random() < 0.4
        if os.path.exists(path):
            os.remove(path)
        if pre_existing:
            with h5py.File(path, 'w') as f0:
                f0.create_dataset('old', data=[1, 2, 3])
            hist['array_translator']['existing_output_file'] += 1
        code = 0
        if defect is None and i % 4 in (0, 1):
            # the caller's descriptor lists serve an earlier translation first (another file): they must come back as they were
            hist['array_translator']['descriptor_lists_reused'] = hist['array_translator'].get('descriptor_lists_reused', 0) + 1
            try:
                with common.quiet():
                    ArrayTranslator().translate(path + '.earlier.h5', name, raw_arg, quantity, 'nA', pos_arg, spec_arg, slow_to_fast=(i % 2 == 0))
            except Exception:
                pass
            if os.path.exists(path + '.earlier.h5'):
                os.remove(path + '.earlier.h5')
        try:
            with common.quiet():
                ArrayTranslator().translate(path, name, raw_arg, quantity, 'nA', pos_arg, spec_arg, parm_dict=parms, extra_dsets=extra, slow_to_fast=(i % 2 == 0))
        except Exception as e:
            code = 4
            for cls, c in CODES.items():
                if isinstance(e, cls):
                    code = c
                    break
            hist['array_translator']['rejected'][str(defect)] = hist['array_translator']['rejected'].get(str(defect), 0) + 1
        desc = {'translator': 'ArrayTranslator', 'pos_sizes': psz, 'spec_sizes': ssz, 'defect': defect, 'dask': use_dask, 'output_existed': pre_existing, 'slow_to_fast': i % 2 == 0}
        new_file = False
        if os.path.exists(path):
            with h5py.File(path, 'r') as f:
                new_file = 'old' not in f
        if code != 0:
            if defect is None:
                violate('ArrayTranslator.translate', 'valid_arguments', 'valid_call_rejected', str(desc), desc)
            if new_file or (pre_existing and not os.path.exists(path)):
                violate('ArrayTranslator.translate', str(defect), 'file_produced_or_removed_by_rejected_call', str(desc), desc)
        else:
            hist['array_translator']['accepted'] += 1
            if defect is not None:
                violate('ArrayTranslator.translate', str(defect), 'inconsistent_input_accepted', str(desc), desc)
            with h5py.File(path, 'r') as f:
                ms = mains_in(f)
                problems = []
                if ms != ['Measurement_000/Channel_000/Raw_Data']:
                    problems.append(('not_the_canonical_single_main_layout', str(ms)))
                else:
                    main = f[ms[0]]
                    if not c06.is_main_spec(c06.describe(f, main, [])):
                        problems.append(('result_not_a_valid_main', ''))
                    else:
                        pl, pi, pv, sl, si, sv = anc(f, main)
                        s2f = i % 2 == 0
                        if not np.array_equal(main[()], data):
                            problems.append(('stored_values_differ', ''))
                        for side, dims, sizes, labels, vals, axis in (('pos', pd, psz, pl, pv, 0), ('spec', sd, ssz, sl, sv.T, 1)):
                            order = list(range(len(sizes)))[::-1] if s2f else list(range(len(sizes)))      # fastest first
                            for r in range(vals.shape[0]):
                                rem = r
                                for d in order:
                                    idx = rem % sizes[d]
                                    rem //= sizes[d]
                                    name_d = ('X%d' if side == 'pos' else 'S%d') % d
                                    if name_d not in labels or float(vals[r, labels.index(name_d)]) != float(dim_vals(d + (0 if side == 'pos' else 4), sizes[d])[idx]):
                                        problems.append(('element_lost_its_coordinates', '%s row %d %s' % (side, r, name_d)))
                                        break
                    meas = f['Measurement_000']
                    for kk, vv in (parms or {}).items():
                        got = meas.attrs.get(kk)
                        got = got.decode() if isinstance(got, bytes) else got
                        if got is None or not np.array_equal(np.asarray(got), np.asarray(vv)):
                            problems.append(('parameter_not_stored_verbatim', kk))
                    for kk, vv in (extra or {}).items():
                        nm = kk.strip() if not isinstance(vv, da.core.Array) else kk
                        if nm not in f['Measurement_000/Channel_000'] or not np.array_equal(f['Measurement_000/Channel_000'][nm][()], np.asarray(vv)):
                            problems.append(('extra_dataset_not_stored_verbatim', kk))
                    if f.attrs.get('data_type') not in ('SEM', b'SEM') or f.attrs.get('translator') not in ('ArrayTranslator', b'ArrayTranslator'):
                        problems.append(('root_attributes_wrong', ''))
                for mode, what in problems:
                    violate('ArrayTranslator.translate', 'valid_arguments', mode, '%s | %s' % (what, desc), desc)
        pp = int(np.prod([len(d.values) for d in pd]))
        sp = int(np.prod([len(d.values) for d in sd]))
        cases.append('(CGate (mkAt %d %d %d %d %d %s %d %s %d %d) %d %s)' % (strings, kind, rank, N if rank == 2 else 0, M if rank == 2 else 0, cbool(pos_ok), pp if rank == 2 else 0,
                                                                           cbool(spec_ok), sp if rank == 2 else 0, ex_code, code, cbool(new_file)))
        meta.append(desc)
        distinct.add(('at', defect, k, q, use_dask))

    # ------------------------------------------------------------------ ImageTranslator
    sizes = [(u, v) for u in range(1, 6) for v in range(1, 6)] if ctx.quick() else [(u, v) for u in range(1, 9) for v in range(1, 9)]
    rng.shuffle(sizes)
    for ii, (u, v) in enumerate(sizes[:18 if ctx.quick() else 64]):
        img = np.array(rng.sample(range(1, 250), u * v) if u * v <= 249 else [rng.randrange(1, 250) for _ in range(u * v)], dtype=np.uint8).reshape(u, v)
        # grey PNG, text, and the SAME picture stored single-band with a colour table that is not the identity grey ramp
        # (palette PNG / GIF): what counts is the grey level each pixel shows, not the table index stored for it
        kind = ('png', 'txt', 'palette_png', 'txt', 'png', 'palette_gif')[ii % 6]
        ipath = os.path.join(ctx.tmp, 'img_%d.%s' % (ii, {'palette_png': 'png', 'palette_gif': 'gif'}.get(kind, kind)))
        if kind == 'png':
            Image.fromarray(img, mode='L').save(ipath)
        elif kind.startswith('palette'):
            pimg = Image.fromarray((255 - img.astype(np.int64)).astype(np.uint8), mode='P')
            pimg.putpalette([c for i in range(256) for c in (255 - i, 255 - i, 255 - i)])
            pimg.save(ipath)
        else:
            np.savetxt(ipath, img.astype(np.float64))
        hist['images'][kind] = hist['images'].get(kind, 0) + 1
        hist['images']['sizes']['%dx%d' % (u, v)] = 1
        for variant in ('plain', 'normalized', 'binned'):
            if variant == 'binned' and (u < 2 or v < 2 or kind == 'txt'):
                continue
            h5p = os.path.join(ctx.tmp, 'img_%d_%s.h5' % (ii, variant))
            if os.path.exists(h5p):
                os.remove(h5p)
            desc = {'translator': 'ImageTranslator', 'rows': u, 'columns': v, 'file': kind, 'variant': variant}
            kw = {}
            expect = img.astype(np.float64)
            if variant == 'normalized':
                kw['normalize'] = True
                hist['images']['normalized'] += 1
            if variant == 'binned':
                kw['bin_factor'] = 2
                kw['interp_func'] = Image.Resampling.NEAREST if hasattr(Image, 'Resampling') else Image.NEAREST
                hist['images']['binned'] += 1
            try:
                with common.quiet():
                    ImageTranslator().translate(ipath, h5_path=h5p, **kw)
            except Exception as e:
                violate('ImageTranslator.translate', variant, 'valid_image_rejected', '%r %s' % (e, desc), desc)
                continue
            with h5py.File(h5p, 'r') as f:
                ms = mains_in(f)
                if ms != ['Measurement_000/Channel_000/Raw_Data'] or not c06.is_main_spec(c06.describe(f, f[ms[0]], [])):
                    violate('ImageTranslator.translate', variant, 'not_the_canonical_single_main_layout', str(ms), desc)
                    continue
                main = f[ms[0]]
                pl, pi, pv, sl, si, sv = anc(f, main)
                data = main[()]
                if variant == 'binned':
                    src = np.asarray(Image.open(ipath).convert('L'))
                    uu, vv = int(u / 2), int(v / 2)
                    expect = np.asarray(Image.fromarray(src).resize((vv, uu), resample=kw['interp_func'])).astype(np.float64)
                if variant == 'normalized':
                    e0 = expect - expect.min()
                    expect = e0 / np.float32(e0.max()) if e0.max() > 0 else np.full(e0.shape, np.nan)     # 0 / 0: the normalised value of a constant image is undefined
                bad = None
                if sorted(pl) != ['X', 'Y'] or data.shape != (expect.size, 1):
                    bad = 'labels %s shape %s' % (pl, data.shape)
                else:
                    seen = set()
                    for n in range(data.shape[0]):
                        y, x = int(round(float(pv[n, pl.index('Y')]))), int(round(float(pv[n, pl.index('X')])))
                        if not (0 <= y < expect.shape[0] and 0 <= x < expect.shape[1]) or not np.isclose(float(data[n, 0]), float(expect[y, x]), rtol=1e-6, atol=1e-7, equal_nan=True):
                            bad = bad or 'element %d is filed under (row %d, column %d) but that pixel is %s, not %s' % (n, y, x, expect[y, x] if 0 <= y < expect.shape[0] and 0 <= x < expect.shape[1] else None, data[n, 0])
                        seen.add((y, x))
                    if len(seen) != expect.size:
                        bad = bad or 'pixels missing or duplicated'
                if bad:
                    violate('ImageTranslator.translate', variant, 'pixel_under_wrong_coordinates', '%s | %s' % (bad, desc), desc)
                if variant == 'normalized' and data.shape == (expect.size, 1) and kind != 'txt_float':
                    # the written column as exact binary fractions against the exact rational (pixel - min) / (max - min) of the model
                    def cfrac(x0):
                        x0 = float(np.real(x0))
                        if not np.isfinite(x0):
                            return cpair('(0)%Z', '(0)%Z')
                        n0, d0 = x0.as_integer_ratio()
                        return cpair('(%d)%%Z' % n0, '(%d)%%Z' % d0)
                    cases.append('(CImageNorm %s %s)' % (clist([[int(x) for x in row] for row in img], lambda r: clist(r, cnat)), clist(list(data[:, 0]), cfrac)))
                    meta.append(desc)
                    hist['images']['normalized_in_model'] = hist['images'].get('normalized_in_model', 0) + 1
                if variant == 'plain':
                    lab_id = {'Y': 0, 'X': 1}
                    cases.append('(CImage %s %s %s %s %s)' % (clist([[int(x) for x in row] for row in img], lambda r: clist(r, cnat)), clist([int(round(float(x))) for x in data[:, 0]], cnat),
                                                              clist([lab_id.get(l, 9) for l in pl], cnat), clist([[int(x) for x in row] for row in pi], lambda r: clist(r, cnat)),
                                                              clist([[int(round(float(x))) for x in row] for row in pv], lambda r: clist(r, cnat))))
                    meta.append(desc)
            distinct.add(('img', u, v, kind, variant))

    # ------------------------------------------------------------------ write_sidpy_dataset
    types = ['spatial', 'spectral', 'temporal', 'reciprocal', 'channel']
    combos = []
    for nd in range(1, 5):
        for tp in itertools.product([True, False], repeat=nd):
            combos.append(tp)
    rng.shuffle(combos)
    # designed datasets (independent of the seed): a non-spatial axis of a third type in front of a SPECTRAL axis
    designed = [((True, False, False), ['spatial', 'temporal', 'spectral'], [2, 3, 2]), ((False, False), ['channel', 'spectral'], [3, 2]),
                ((False, True, False), ['reciprocal', 'spatial', 'spectral'], [2, 2, 3]), ((False, False, True), ['temporal', 'spectral', 'spatial'], [2, 3, 2])]
    h5p = os.path.join(ctx.tmp, 'sidpy.h5')
    plan19 = [(fl, tn, sh) for fl, tn, sh in designed] + [(fl, None, None) for fl in (combos if not ctx.quick() else combos[:22])]
    for ci, (flags, forced_types, forced_shape) in enumerate(plan19):
        nd = len(flags)
        shape = [rng.randint(1, 3) for _ in range(nd)]
        if rng.random() < 0.5:
            shape[rng.randrange(nd)] = rng.randint(2, 4)
        if forced_shape:
            shape = list(forced_shape)
        arr = np.arange(int(np.prod(shape)), dtype=np.float64).reshape(shape)
        dset = sid.Dataset.from_array(arr, title='Data_%d' % ci)
        dset.quantity, dset.units, dset.data_type = 'Q', 'u', 'unknown'
        tnames = []
        for ax in range(nd):
            tname = 'spatial' if flags[ax] else rng.choice(types[1:])
            if forced_types:
                tname = forced_types[ax]
            tnames.append(tname)
            dset.set_dimension(ax, sid.Dimension(dim_vals(ax, shape[ax]), name='ax%d' % ax, units='u%d' % ax, quantity='q%d' % ax, dimension_type=tname))
        order = list(range(nd))          # the order in which the dataset presents its axes (insertion order of its axes table)
        if nd >= 2 and ci % 3 == 1:
            # an axis other than the last one is taken out and put back (public calls): the axes are then no longer held in index
            # order.  The writer may list the dimensions in either order; every element must keep the value of every NAMED axis.
            ax = ci % (nd - 1)
            try:
                dset.del_dimension(ax)
                dset.set_dimension(ax, sid.Dimension(dim_vals(ax, shape[ax]), name='ax%d' % ax, units='u%d' % ax, quantity='q%d' % ax, dimension_type=tnames[ax]))
                hist['labelled']['axis_replaced'] = hist['labelled'].get('axis_replaced', 0) + 1
                order.remove(ax)
                order.append(ax)
                if hasattr(dset, '_axes') and list(dset._axes.keys()) != order:
                    order = list(dset._axes.keys())
            except AttributeError:
                pass
        hist['labelled']['datasets'] += 1
        hist['labelled']['ndim'][str(nd)] = hist['labelled']['ndim'].get(str(nd), 0) + 1
        key = ''.join('P' if fl else 'S' for fl in flags)
        hist['labelled']['orders'][key] = hist['labelled']['orders'].get(key, 0) + 1
        if all(flags) or not any(flags):
            hist['labelled']['only_one_side'] += 1
        desc = {'translator': 'write_sidpy_dataset', 'shape': shape, 'axis_types': tnames}
        if os.path.exists(h5p):
            os.remove(h5p)
        with h5py.File(h5p, 'w') as f:
            if ci % 4 == 2:
                # a first attempt into the (empty) group fails after the ancillaries were written (an HDF5 filter that does not
                # exist): it must leave the group as it found it, so that the corrected call below succeeds
                hist['labelled']['retry_after_failed_write'] = hist['labelled'].get('retry_after_failed_write', 0) + 1
                g0 = f.create_group('G')
                try:
                    with common.quiet():
                        hu.write_sidpy_dataset(dset, g0, compression='no-such-filter')
                except Exception:
                    pass
                if list(g0.keys()):
                    violate('write_sidpy_dataset', key, 'failed_write_leaves_members_behind', '%s | %s' % (sorted(g0.keys()), desc), desc)
            try:
                with common.quiet():
                    m = hu.write_sidpy_dataset(dset, f.require_group('G'))
            except Exception as e:
                violate('write_sidpy_dataset', key, 'valid_dataset_rejected', '%r %s' % (e, desc), desc)
                continue
            ms = mains_in(f)
            if len(ms) != 1 or not c06.is_main_spec(c06.describe(f, f[ms[0]], [])):
                violate('write_sidpy_dataset', key, 'not_a_single_valid_main', str(ms), desc)
                continue
            main = f[ms[0]]
            pl, pi, pv, sl, si, sv = anc(f, main)
            data = main[()]
            bad = None
            if data.size != arr.size:
                bad = 'element count %d vs %d' % (data.size, arr.size)
            else:
                seen = set()
                for r in range(data.shape[0]):
                    for c in range(data.shape[1]):
                        idx = []
                        for ax in range(nd):
                            nm = 'ax%d' % ax
                            if nm in pl:
                                val = pv[r, pl.index(nm)]
                            elif nm in sl:
                                val = sv[sl.index(nm), c]
                            else:
                                bad = bad or 'axis %s lost' % nm
                                val = dim_vals(ax, shape[ax])[0]
                            uv = [float(x) for x in dim_vals(ax, shape[ax])]
                            idx.append(uv.index(float(val)) if float(val) in uv else 0)
                        if float(arr[tuple(idx)]) != float(data[r, c]):
                            bad = bad or 'element (%d,%d)=%s is filed under axis values %s where the input holds %s' % (r, c, data[r, c], idx, arr[tuple(idx)])
                        seen.add(tuple(idx))
                if len(seen) != arr.size:
                    bad = bad or 'elements missing or duplicated'
                want_pos = [('ax%d' % ax) for ax in order if flags[ax]] or ['arb.']
                want_spec = [('ax%d' % ax) for ax in order if not flags[ax]] or ['arb.']
                if sorted(pl) != sorted(want_pos) or sorted(sl) != sorted(want_spec):
                    bad = bad or 'dimensions %s / %s instead of %s / %s' % (pl, sl, want_pos, want_spec)
            if bad:
                violate('write_sidpy_dataset', key, 'element_under_wrong_coordinates', '%s | %s' % (bad, desc), desc)
            # the model is given the dataset as it presents itself: axes in the order of its axes table
            lid = lambda l: [order.index(int(x[2:])) if x.startswith('ax') else nd for x in l]
            cases.append('(CSidpy %s %s %s %s %s %s %s %s %s)' % (clist([shape[a] for a in order], cnat), clist([int(x) for x in arr.transpose(order).ravel()], cnat),
                                                                    clist([flags[a] for a in order], cbool),
                                                                    cpair(cnat(data.shape[0]), cnat(data.shape[1])), clist([int(x) for x in data.ravel()], cnat),
                                                                    clist(lid(pl), cnat), clist([[int(x) for x in row] for row in pi], lambda r: clist(r, cnat)),
                                                                    clist(lid(sl), cnat), clist([[int(x) for x in row] for row in si], lambda r: clist(r, cnat))))
            meta.append(desc)
        distinct.add(('sidpy', key, tuple(shape)))
    bad_i, err = common.coq_eval_cases(ctx, HEADER, cases, 'check19', case_type='case19', per_file=60)
    out.corr_error = err
    out.disagreements = [meta[i] for i in bad_i]
    out.evaluations = len(cases)
    out.distinct_nontrivial = len(distinct)
    out.rule = ('ArrayTranslator: 1-3 x 1-2 dimensions, numpy / dask, both ordering flags, parameters, extra datasets, existing output file, one third of the calls with one of 13 '
                'defects; ImageTranslator: PNG (mode L) and .txt images of all sizes up to 5x5 (8x8), plain / normalized / binned; write_sidpy_dataset: labelled datasets with 1-4 axes in '
                'EVERY order of spatial and non-spatial axes, five axis types; oracle: canonical group layout with one valid Main dataset, every element located by the values of '
                'its dimensions equals the input element with those coordinates (pixel (row, column) for images), parameters / extra datasets / root attributes verbatim, no file '
                'produced or removed by a rejected call; non-trivial = distinct configuration')
    out.histogram = hist
    out.trusted = ['PIL decoding / resizing and numpy.savetxt / loadtxt (image contents before flattening are taken as read back by the library\'s own reader for the binned variant)',
                   'binned images are judged by the oracle only (PIL resampling is outside the model); normalized images: exact rational model (Usid/TranslateNorm), the written float32 / float64 numbers compared as exact binary fractions within 2^-20']
    return out
