"""C01 -- N-D form equals the coordinate map defined by the ancillary matrices."""
import os

import dask
import dask.array as da
import h5py
import numpy as np

import common
from common import cnat, cbool, clist, cpair
import gen
import gridcorr as gc

PID = 'C01'
PROP_V = 'Props/C01.v'
CORR_V = ('Corr/CorrGrid.v',)
HEADER = 'Require Import V.Corr.CorrGrid.\n'
CODES = {'ValueError': 1, 'TypeError': 2, 'KeyError': 3, 'IndexError': 4, 'NotImplementedError': 5}


def code_of(e):
    return CODES.get(type(e).__name__, 6)


def input_class(lay):
    if gc.more_dims_than_points(lay):
        return 'more_dimensions_than_points_on_a_side'
    return 'any'


def slow_to_fast_ok(lay, sigma):
    """sigma lists file-order axis ids; on each side non-unit dimensions must appear slowest first"""
    kp = len(lay.pos_sizes)
    sizes = lay.pos_sizes + lay.spec_sizes
    want = [a for a in gc.sorted_axes(lay) if sizes[a] > 1]
    got = [a for a in sigma if sizes[a] > 1]
    pos_first = all(a < kp for a in sigma[:kp])
    return want == got and pos_first


def check_labelled(lay, exp, nd_ids, labs, sorted_view):
    k = len(lay.pos_sizes) + len(lay.spec_sizes)
    if sorted(labs) != list(range(k)):
        return 'labels_not_a_permutation_of_dimension_names'
    if list(nd_ids.shape) != [exp.shape[a] for a in labs]:
        return 'axis_sizes_do_not_match_labels'
    if not np.array_equal(nd_ids, exp.transpose(labs)):
        return 'element_not_at_its_coordinates'
    if sorted_view and not slow_to_fast_ok(lay, labs):
        return 'sorted_view_not_slowest_to_fastest'
    if not sorted_view and labs != list(range(k)):
        return 'file_order_view_not_in_file_order'
    return None


def run(ctx, build):
    import pyUSID as usid
    from pyUSID.io.hdf_utils import reshape_to_n_dims
    out = common.Outcome()
    rng = ctx.rng
    dtypes = ('f8', 'c16', 'cmp', 'i4', 'f4', 'u2')
    lays = gc.layouts_for(ctx, 45 if ctx.quick() else 500, dtypes=dtypes, max_elems=300 if ctx.quick() else 1500,
                          max_dims=3 if ctx.quick() else 4, extra_exhaustive=not ctx.quick())
    cases, meta, vcases, vmeta, ecases, emeta = [], [], [], [], [], []
    hist = {'layouts': 0, 'nontrivial_layouts': 0, 'dtypes': {}, 'free_calls': 0, 'view_reads': 0, 'dims_per_side': {},
            'unit_dims': 0, 'more_dims_than_points': 0, 'exceptions': {}}
    distinct = set()
    path = os.path.join(ctx.tmp, 'c01.h5')
    for li, lay in enumerate(lays):
        with h5py.File(path, 'w') as h5:
            main = gen.write_layout(h5, lay, chunks=True if li % 5 == 0 else None, compression='gzip' if li % 7 == 0 else None)
            exp = gc.expected_nd(lay)
            hist['layouts'] += 1
            hist['dtypes'][lay.dtype] = hist['dtypes'].get(lay.dtype, 0) + 1
            key = '%dx%d' % (len(lay.pos_sizes), len(lay.spec_sizes))
            hist['dims_per_side'][key] = hist['dims_per_side'].get(key, 0) + 1
            if 1 in lay.pos_sizes + lay.spec_sizes:
                hist['unit_dims'] += 1
            if gc.more_dims_than_points(lay):
                hist['more_dims_than_points'] += 1
            if lay.nontrivial():
                hist['nontrivial_layouts'] += 1
                distinct.add(lay.key())
            pos_m, spec_m = gc.mat(lay.pos_inds()), gc.mat(lay.spec_inds())
            base = [cnat(lay.N), cnat(lay.M), gc.cmat(pos_m), gc.cmat(spec_m)]
            # ---------------- free function
            variants = [('h5', None, None)]
            if li % 2 == 0:
                variants.append(('numpy', lay.pos_inds(), lay.spec_inds()))
            if li % 3 == 0:
                variants.append(('dask', da.from_array(lay.pos_inds(), chunks=lay.pos_inds().shape),
                                 da.from_array(lay.spec_inds(), chunks=lay.spec_inds().shape)))
            if li % 4 == 0:
                variants.append(('h5anc', main.file[main.attrs['Position_Indices']], main.file[main.attrs['Spectroscopic_Indices']]))
            for vname, hp, hs in variants:
                for sd in (False, True):
                    lazy = bool((li + int(sd)) % 2)
                    hist['free_calls'] += 1
                    m = {'layout': lay.describe(), 'call': 'reshape_to_n_dims', 'ancillaries': vname, 'sort_dims': sd, 'lazy': lazy}
                    try:
                        with common.quiet():
                            nd, ok, labs = reshape_to_n_dims(main, h5_pos=hp, h5_spec=hs, get_labels=True, sort_dims=sd, lazy=lazy)
                        if lazy:
                            with common.quiet():
                                nd = dask.compute(nd, gen.Bystander.get(ctx.tmp).lazy_form())[0]
                        if vname in ('numpy', 'dask'):
                            names = ['Position Dimension %d' % i for i in range(len(lay.pos_sizes))] + \
                                    ['Spectral Dimension %d' % i for i in range(len(lay.spec_sizes))]
                            lab_ids = [names.index(str(l)) if str(l) in names else 99 for l in labs]
                        else:
                            lab_ids = gc.label_ids(lay, labs)
                        ids = gen.ids_of(nd, lay.dtype)
                        code = 0 if ok is True else 7
                        cases.append(cpair(*base, cbool(sd), cnat(code), clist(list(ids.shape), cnat),
                                           clist([int(x) for x in ids.ravel()], cnat), clist(lab_ids, cnat)))
                        mode = check_labelled(lay, exp, ids, lab_ids, sd) if code == 0 else 'reshape_not_successful'
                    except Exception as e:
                        code = code_of(e)
                        hist['exceptions'][type(e).__name__] = hist['exceptions'].get(type(e).__name__, 0) + 1
                        cases.append(cpair(*base, cbool(sd), cnat(code), '[]', '[]', '[]'))
                        mode = 'raises_' + type(e).__name__
                        m['exception'] = repr(e)[:200]
                    meta.append(m)
                    if mode:
                        out.violations.append({'call_site': 'hdf_utils.reshape_to_n_dims', 'input_class': input_class(lay),
                                               'failure_mode': mode, 'what': '%s on %s' % (mode, m), 'case': m})
            # ---------------- dataset object: views and toggles
            for sd in (False, True):
                m0 = {'layout': lay.describe(), 'call': 'USIDataset', 'sort_dims': sd}
                try:
                    with common.quiet():
                        u = usid.USIDataset(main, sort_dims=sd)
                        gen.Bystander.get(ctx.tmp).touch()
                except Exception as e:
                    hist['exceptions'][type(e).__name__] = hist['exceptions'].get(type(e).__name__, 0) + 1
                    out.violations.append({'call_site': 'USIDataset.__init__', 'input_class': input_class(lay),
                                           'failure_mode': 'raises_' + type(e).__name__, 'what': '%r on %s' % (e, m0), 'case': m0})
                    continue
                seen = {}
                # a history of reads (E eager / L lazy) and toggles (T); every read is judged on its own and against
                # the previous read with the same parity of toggles
                # X = a request the object must refuse (unknown dimension / index out of range): it must leave the view as it was
                ops = 'ETEXTLTXE' if (li + int(sd)) % 2 == 0 else ''.join(rng.choice('EELTX') for _ in range(7)) + 'E'
                t = 0
                failed = False
                for op in ops:
                    if op == 'T':
                        with common.quiet():
                            u.toggle_sorting()
                        t += 1
                        continue
                    if op == 'X':
                        for bad_call in (lambda: u.slice_to_dataset({'no_such_dimension': 0}),
                                         lambda: u.slice({lay.pos_labels[0]: lay.pos_sizes[0] + 5}, ndim_form=False),
                                         lambda: u.slice_to_dataset({lay.spec_labels[-1]: [lay.spec_sizes[-1] + 2]})):
                            try:
                                with common.quiet():
                                    bad_call()
                            except Exception:
                                pass
                        hist['refused_requests_in_histories'] = hist.get('refused_requests_in_histories', 0) + 1
                        continue
                    lazy = (op == 'L')
                    try:
                        with common.quiet():
                            nd = u.get_n_dim_form(lazy=lazy)
                            if lazy:
                                # evaluated in ONE dask call together with the lazy form of the bystander (another file, same path)
                                nd = dask.compute(nd, gen.Bystander.get(ctx.tmp).lazy_form())[0]
                    except Exception as e:
                        hist['exceptions'][type(e).__name__] = hist['exceptions'].get(type(e).__name__, 0) + 1
                        ecases.append(cpair(*base, cbool(sd)))
                        emeta.append(dict(m0, exception=repr(e)[:200]))
                        out.violations.append({'call_site': 'USIDataset.get_n_dim_form / n_dim_labels / n_dim_sizes',
                                               'input_class': input_class(lay), 'failure_mode': 'raises_' + type(e).__name__,
                                               'what': '%r on %s' % (e, m0), 'case': m0})
                        break
                    try:
                        ids = gen.ids_of(nd, lay.dtype)
                    except Exception as e:
                        out.violations.append({'call_site': 'USIDataset.get_n_dim_form / n_dim_labels / n_dim_sizes', 'input_class': input_class(lay),
                                               'failure_mode': 'n_dim_form_not_of_the_dataset_element_type',
                                               'what': 'dtype %s for a %s dataset on %s' % (getattr(nd, 'dtype', None), lay.dtype, m0), 'case': m0})
                        break
                    labs = gc.label_ids(lay, u.n_dim_labels)
                    sizes = [int(x) for x in u.n_dim_sizes]
                    hist['view_reads'] += 1
                    m = dict(m0, history=ops, toggles_so_far=t, lazy=lazy, labels=labs, sizes=sizes)
                    if not gc.more_dims_than_points(lay):
                        # (the object's bookkeeping for more dimensions than points is outside the view model; the oracle still judges it)
                        vcases.append(cpair(*base, cbool(sd), cnat(t), clist(labs, cnat), clist(sizes, cnat),
                                            clist(list(ids.shape), cnat), clist([int(x) for x in ids.ravel()], cnat)))
                        vmeta.append(m)
                    else:
                        hist['views_outside_model'] = hist.get('views_outside_model', 0) + 1
                    sorted_view = sd ^ (t % 2 == 1)
                    mode = check_labelled(lay, exp, ids, labs, sorted_view)
                    if mode is None and sizes != list(ids.shape):
                        mode = 'reported_sizes_differ_from_array_shape'
                    if mode is None and (t % 2) in seen and not (seen[t % 2][0] == labs and np.array_equal(seen[t % 2][1], ids)):
                        mode = 'two_toggles_do_not_restore_view'
                    seen[t % 2] = (labs, ids)
                    if mode:
                        cls = input_class(lay)
                        if cls == 'any' and sd:
                            cls = 'constructed_with_sort_dims_true'
                        out.violations.append({'call_site': 'USIDataset.get_n_dim_form / n_dim_labels / n_dim_sizes',
                                               'input_class': cls, 'failure_mode': mode, 'what': '%s on %s' % (mode, m), 'case': m})
            if len(out.samples) < 4 and lay.nontrivial():
                out.samples.append({'layout': lay.describe(), 'expected_nd_shape': list(exp.shape)})
    # ---- designed, seed-independent: grids with more points on a side than 16 bits can count (exact oracle only: far too large
    # for the in-Coq evaluation); free function and dataset object, both views
    hist['long_grid_layouts'] = 0
    for lay in (gen.Layout([2], [0], [3, 21846], [0, 1]), gen.Layout([13108, 5], [0, 1], [2], [0]), gen.Layout([2], [0], [21846, 3], [1, 0])):
        hist['long_grid_layouts'] += 1
        with h5py.File(path, 'w') as h5:
            main = gen.write_layout(h5, lay)
            exp = gc.expected_nd(lay)
            for sd in (False, True):
                m = {'layout': lay.describe(), 'call': 'reshape_to_n_dims / USIDataset', 'sort_dims': sd}
                try:
                    with common.quiet():
                        nd, ok, labs = reshape_to_n_dims(main, get_labels=True, sort_dims=sd)
                        u = usid.USIDataset(main, sort_dims=sd)
                        nd2 = u.get_n_dim_form()
                    mode = check_labelled(lay, exp, gen.ids_of(nd, lay.dtype), gc.label_ids(lay, labs), sd) if ok is True else 'reshape_not_successful'
                    mode = mode or check_labelled(lay, exp, gen.ids_of(nd2, lay.dtype), gc.label_ids(lay, u.n_dim_labels), sd)
                except Exception as e:
                    mode = 'raises_' + type(e).__name__
                    m['exception'] = repr(e)[:200]
                if mode:
                    out.violations.append({'call_site': 'hdf_utils.reshape_to_n_dims', 'input_class': 'more_than_65535_points_on_a_side',
                                           'failure_mode': mode, 'what': '%s on %s' % (mode, m), 'case': m})
    bad, err = common.coq_eval_cases(ctx, HEADER, cases, 'check01', case_type='case01', per_file=150)
    bad2, err2 = common.coq_eval_cases(ctx, HEADER, vcases, 'check01v', case_type='case01v', per_file=150, tag='view')
    bad3, err3 = common.coq_eval_cases(ctx, HEADER, ecases, 'check01e', case_type='case01e', tag='verr')
    out.corr_error = err or err2 or err3
    out.disagreements = [meta[i] for i in bad] + [vmeta[i] for i in bad2] + [emeta[i] for i in bad3]
    out.evaluations = len(cases) + len(vcases) + len(ecases)
    out.distinct_nontrivial = len(distinct)
    out.rule = ('generator G (raw h5py files): 1..%d dimensions per side, sizes 1..4, every storage permutation reachable, 6 dtypes incl. '
                'complex and compound, chunked/compressed variants%s; reshape_to_n_dims with h5py / numpy / dask ancillaries x sort_dims x lazy, '
                'USIDataset(sort_dims F/T) with 0..3 toggles and a read (eager/lazy) after each; non-trivial = a side with >= 2 dimensions of '
                'size >= 2 not stored fastest-first (distinct layouts counted)' % (3 if ctx.quick() else 4, '' if ctx.quick() else ' + exhaustive small scope (<=3 dims/side, sizes 1..3, all permutations)'))
    out.histogram = hist
    out.trusted = ['numpy/dask reshape + transpose semantics as in Base/NdArray.v (row-major)', 'numpy argsort is stable for <= 16 keys (<= 16 dimensions per side)',
                   'labels are pairwise distinct (abstracted to identifiers)']
    return out
