"""C10 -- flattening an N-D array back to 2D inverts the N-D reshape."""
import itertools
import os

import dask.array as da
import h5py
import numpy as np

import common
from common import cnat, cbool, clist, cpair, copt
import gen
import gridcorr as gc

PID = 'C10'
PROP_V = 'Props/C10.v'
CORR_V = ('Corr/CorrGrid.v',)
HEADER = 'Require Import V.Corr.CorrGrid.\n'
CODES = {'ValueError': 1, 'TypeError': 2, 'KeyError': 3, 'IndexError': 4, 'NotImplementedError': 5}


def as_kind(a, kind, h5=None, name=None):
    if kind == 'numpy':
        return np.asarray(a)
    if kind == 'dask':
        return da.from_array(np.asarray(a), chunks=np.asarray(a).shape)
    return h5[name]


def run(ctx, build):
    from pyUSID.io.hdf_utils import reshape_from_n_dims, reshape_to_n_dims
    out = common.Outcome()
    rng = ctx.rng
    lays = gc.layouts_for(ctx, 40 if ctx.quick() else 400, dtypes=('f8', 'i4', 'c16'), max_elems=300 if ctx.quick() else 1200,
                          max_dims=3 if ctx.quick() else 4, extra_exhaustive=not ctx.quick())
    # singleton sides (exactly one dimension of size 1): the N-D array may come with that side squeezed out
    lays += [gen.Layout([1], [0], [2, 3], [1, 0]), gen.Layout([3, 2], [1, 0], [1], [0]), gen.Layout([1], [0], [4], [0]),
             gen.Layout([2, 2], [0, 1], [1], [0])]
    # designed, seed-independent: as many positions as position dimensions (a SQUARE index matrix, size-1 dimensions kept)
    lays += [gen.Layout([2, 1], [0, 1], [3], [0]), gen.Layout([2, 1], [1, 0], [2, 2], [0, 1]), gen.Layout([1, 2], [0, 1], [3], [0]),
             gen.Layout([1, 2], [1, 0], [2], [0]), gen.Layout([3, 1, 1], [0, 1, 2], [2], [0]), gen.Layout([1, 3, 1], [1, 0, 2], [2, 2], [1, 0])]
    cases, meta = [], []
    hist = {'layouts': 0, 'round_trips': 0, 'one_sided': 0, 'incompatible': 0, 'squeezed': 0, 'anc_kinds': {}, 'nd_kinds': {}, 'raised': {}}
    distinct = set()
    path = os.path.join(ctx.tmp, 'c10.h5')

    def violate(cls, mode, what, case):
        out.violations.append({'call_site': 'hdf_utils.reshape_from_n_dims', 'input_class': cls, 'failure_mode': mode, 'what': what, 'case': case})

    def call(nd_ids, pos, spec, nd_kind, m):
        """runs the real function on an id-array; returns (code, rows, cols, flat ids)"""
        nd = nd_ids.astype(np.float64)
        nd = da.from_array(nd, chunks=nd.shape) if nd_kind == 'dask' else nd
        try:
            with common.quiet():
                r, ok = reshape_from_n_dims(nd, h5_pos=pos, h5_spec=spec)
            if hasattr(r, 'compute'):
                r = r.compute()
            r = np.asarray(r)
            if r.ndim != 2:
                return 0, 0, 0, [int(x) for x in r.ravel()]
            return 0, r.shape[0], r.shape[1], [int(x) for x in r.ravel()]
        except Exception as e:
            hist['raised'][type(e).__name__] = hist['raised'].get(type(e).__name__, 0) + 1
            m['exception'] = repr(e)[:160]
            return CODES.get(type(e).__name__, 6), 0, 0, []

    def emit(nd_ids, pos_m, spec_m, obs):
        cases.append(cpair(clist(list(nd_ids.shape), cnat), clist([int(x) for x in nd_ids.ravel()], cnat),
                           copt(pos_m, gc.cmat), copt(spec_m, gc.cmat), cnat(obs[0]), cnat(obs[1]), cnat(obs[2]), clist(obs[3], cnat)))

    for li, lay in enumerate(lays):
        if gc.more_dims_than_points(lay):
            continue        # reshape_to_n_dims has no N-D form there (C01 known finding)
        hist['layouts'] += 1
        exp = gc.expected_nd(lay)                 # N-D form in file order (ids)
        main_ids = lay.main_ids()
        pos_m, spec_m = gc.mat(lay.pos_inds()), gc.mat(lay.spec_inds())
        kp = len(lay.pos_sizes)
        cls0 = 'as_many_dimensions_as_points_on_a_side' if gc.dims_ge_points(lay) else 'any'
        if lay.nontrivial():
            distinct.add(lay.key())
        with h5py.File(path, 'w') as h5:
            main = gen.write_layout(h5, lay)
            grp = main.parent
            anc_kind = ['h5', 'numpy', 'dask'][li % 3]
            nd_kind = ['numpy', 'dask'][li % 2]
            hist['anc_kinds'][anc_kind] = hist['anc_kinds'].get(anc_kind, 0) + 1
            hist['nd_kinds'][nd_kind] = hist['nd_kinds'].get(nd_kind, 0) + 1
            pos = as_kind(lay.pos_inds(), anc_kind, grp, 'Position_Indices')
            spec = as_kind(lay.spec_inds(), anc_kind, grp, 'Spectroscopic_Indices')
            # ---- 1. both matrices: exact inverse of the N-D reshape (the library's own N-D form is used when it exists)
            m = {'layout': lay.describe(), 'case': 'both matrices', 'ancillaries': anc_kind, 'nd': nd_kind}
            obs = call(exp, pos, spec, nd_kind, m)
            emit(exp, pos_m, spec_m, obs)
            meta.append(m)
            hist['round_trips'] += 1
            if obs[0] != 0:
                violate(cls0, 'round_trip_raises', str(m), m)
            elif (obs[1], obs[2]) != (lay.N, lay.M) or obs[3] != [int(x) for x in main_ids.ravel()]:
                violate(cls0, 'round_trip_not_identity', str(m), m)
            else:
                # reshaping the flattened matrix again gives the same N-D array
                with common.quiet():
                    nd2, ok = reshape_to_n_dims(np.array(obs[3], dtype=np.float64).reshape(lay.N, lay.M), h5_pos=lay.pos_inds(), h5_spec=lay.spec_inds())
                if ok is not True or not np.array_equal(np.asarray(nd2).astype(np.int64), exp):
                    violate(cls0, 'reshape_after_flatten_differs', str(m), m)
            # ---- 2. one matrix only: the missing side is taken slow -> fast
            sorted_ax = gc.sorted_axes(lay)
            for side in ('pos_only', 'spec_only'):
                if side == 'pos_only':
                    axes = list(range(kp)) + sorted_ax[kp:]
                    p_arg, s_arg, p_m, s_m = pos, None, pos_m, None
                    missing = lay.spec_sizes
                else:
                    axes = sorted_ax[:kp] + list(range(kp, exp.ndim))
                    p_arg, s_arg, p_m, s_m = None, spec, None, spec_m
                    missing = lay.pos_sizes
                nd1 = exp.transpose(axes)
                m = {'layout': lay.describe(), 'case': side, 'ancillaries': anc_kind, 'nd': nd_kind}
                obs = call(nd1, p_arg, s_arg, nd_kind, m)
                emit(nd1, p_m, s_m, obs)
                meta.append(m)
                hist['one_sided'] += 1
                given = lay.pos_sizes if side == 'pos_only' else lay.spec_sizes
                cls = 'any'
                if 1 in missing and missing != [1]:
                    cls = 'one_sided_missing_side_has_unit_dimension'
                elif (side == 'pos_only' and len(lay.pos_sizes) >= lay.N) or (side == 'spec_only' and len(lay.spec_sizes) > lay.M):
                    cls = 'one_sided_given_matrix_dims>=points'
                if obs[0] != 0:
                    violate(cls, 'one_sided_raises', str(m), m)
                elif (obs[1], obs[2]) != (lay.N, lay.M) or obs[3] != [int(x) for x in main_ids.ravel()]:
                    violate(cls, 'one_sided_not_identity', str(m), m)
            # ---- 2b. one matrix only, incompatible N-D arrays must raise
            for side in ('pos_only', 'spec_only'):
                given = lay.pos_sizes if side == 'pos_only' else lay.spec_sizes
                other = lay.spec_sizes if side == 'pos_only' else lay.pos_sizes
                cands = []
                # (i) the given side's axes permuted so that the sizes no longer line up
                for p in itertools.permutations(range(len(given))):
                    if [given[a] for a in p] != list(given):
                        cands.append([given[a] for a in p])
                        break
                # (ii) another factorisation of the same number of points with partial overlap of sizes
                tot = int(np.prod(given))
                for a in range(2, tot):
                    if tot % a == 0 and sorted([a, tot // a]) != sorted(given) and (a in given or tot // a in given):
                        cands.append([a, tot // a])
                        break
                for g in cands:
                    oth = [other[a - len(lay.pos_sizes)] for a in sorted_ax[len(lay.pos_sizes):]] if side == 'pos_only' else \
                          [other[a] for a in sorted_ax[:len(lay.pos_sizes)]]
                    shape = (g + oth) if side == 'pos_only' else (oth + g)
                    if int(np.prod(shape)) != exp.size or len(shape) < 2:
                        continue
                    # with size-1 dimensions around, the "other" shape can coincide with a compatible one
                    # ([4,4,2,1]+[2,2] reads as [4,4,2]+[1,2,2]): that request is legitimate, not an incompatible one
                    if (side == 'pos_only' and shape[:len(given)] == list(given)) or (side == 'spec_only' and shape[len(shape) - len(given):] == list(given)):
                        continue
                    bad = np.arange(exp.size).reshape(shape)
                    m = {'layout': lay.describe(), 'case': '%s with N-D shape %s' % (side, shape), 'nd': nd_kind}
                    obs = call(bad, pos if side == 'pos_only' else None, spec if side == 'spec_only' else None, nd_kind, m)
                    emit(bad, pos_m if side == 'pos_only' else None, spec_m if side == 'spec_only' else None, obs)
                    meta.append(m)
                    hist['incompatible'] += 1
                    if obs[0] == 0:
                        kind = 'one_sided_permuted_axis_sizes' if sorted(g) == sorted(given) else 'one_sided_other_factorisation'
                        if (side == 'pos_only' and len(lay.pos_sizes) >= lay.N) or (side == 'spec_only' and len(lay.spec_sizes) > lay.M):
                            kind = 'one_sided_given_matrix_dims>=points'
                        violate(kind, 'incompatible_shape_accepted', str(m), m)
            # ---- 3. incompatible requests must raise
            if exp.ndim >= 2:
                perms = [p for p in itertools.permutations(range(exp.ndim)) if [exp.shape[a] for a in p] != list(exp.shape)]
                rng.shuffle(perms)
                for p in perms[:2]:
                    bad = exp.transpose(p)
                    m = {'layout': lay.describe(), 'case': 'N-D array with permuted axis sizes %s' % list(bad.shape), 'nd': nd_kind}
                    obs = call(np.ascontiguousarray(bad), pos, spec, nd_kind, m)
                    emit(np.ascontiguousarray(bad), pos_m, spec_m, obs)
                    meta.append(m)
                    hist['incompatible'] += 1
                    if obs[0] == 0:
                        violate('both_matrices_permuted_axis_sizes', 'incompatible_shape_accepted', str(m), m)
                # wrong total size
                bshape = exp.shape[:-1] + (exp.shape[-1] + 1,)
                bad = np.arange(int(np.prod(bshape))).reshape(bshape)
                m = {'layout': lay.describe(), 'case': 'N-D array of wrong total size %s' % list(bad.shape), 'nd': nd_kind}
                obs = call(bad, pos, spec, nd_kind, m)
                emit(bad, pos_m, spec_m, obs)
                meta.append(m)
                hist['incompatible'] += 1
                if obs[0] == 0:
                    violate('any', 'wrong_size_accepted', str(m), m)
            # ---- 4. size-1 kinds squeezed out
            if lay.pos_sizes == [1] or lay.spec_sizes == [1]:
                sq = exp.squeeze(axis=0) if lay.pos_sizes == [1] else exp.squeeze(axis=exp.ndim - 1)
                if sq.ndim >= 1:
                    m = {'layout': lay.describe(), 'case': 'singleton side squeezed out', 'nd': nd_kind}
                    obs = call(sq, pos, spec, nd_kind, m)
                    emit(sq, pos_m, spec_m, obs)
                    meta.append(m)
                    hist['squeezed'] += 1
                    if sq.ndim >= 2:
                        if obs[0] != 0:
                            violate('singleton_side_squeezed', 'round_trip_raises', str(m), m)
                        elif obs[3] != [int(x) for x in main_ids.ravel()]:
                            violate('singleton_side_squeezed', 'round_trip_not_identity', str(m), m)
        if len(out.samples) < 4 and lay.nontrivial():
            out.samples.append({'layout': lay.describe(), 'nd_shape': list(exp.shape)})
    # ---- designed (exact oracle only): index matrices of a narrow integer type with a dimension as long as the type's range
    hist['narrow_typed_index_matrices'] = 0
    for dt, n_long in ((np.uint8, 256), (np.int8, 128), (np.uint16, 65536)):
        lay = gen.Layout([n_long], [0], [2, 3], [1, 0])
        exp = gc.expected_nd(lay)
        m = {'layout': lay.describe(), 'case': 'both matrices', 'index_dtype': np.dtype(dt).name}
        obs = call(exp, lay.pos_inds().astype(dt), lay.spec_inds().astype(dt), 'numpy', m)
        hist['narrow_typed_index_matrices'] += 1
        if obs[0] != 0:
            violate('narrow_typed_index_matrices', 'round_trip_raises', str(m), m)
        elif (obs[1], obs[2]) != (lay.N, lay.M) or obs[3] != [int(x) for x in lay.main_ids().ravel()]:
            violate('narrow_typed_index_matrices', 'round_trip_not_identity', str(m), m)
    bad, err = common.coq_eval_cases(ctx, HEADER, cases, 'check10', case_type='case10', per_file=150)
    out.corr_error = err
    out.disagreements = [meta[i] for i in bad]
    out.evaluations = len(cases)
    out.distinct_nontrivial = len(distinct)
    out.rule = ('generator layouts (any storage permutation, sizes 1..4, <= %d dims/side%s); N-D arrays as numpy / dask, ancillaries as h5py / numpy / '
                'dask: both matrices (inverse of the N-D reshape, and reshape again), one matrix only (missing side slow->fast), permuted-size '
                'and wrong-size N-D arrays (must raise), singleton sides squeezed; non-trivial = a side with >= 2 dimensions of size >= 2 not '
                'stored fastest-first' % (3 if ctx.quick() else 4, '' if ctx.quick() else ' + exhaustive small scope'))
    out.histogram = hist
    out.trusted = ['numpy/dask transpose + reshape semantics (Base/NdArray.v)', 'argsort stable for <= 16 keys']
    return out
