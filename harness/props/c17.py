"""C17 -- CSV export reproduces every element with its position and spectroscopic values."""
import csv
import os
import shutil

import h5py
import numpy as np

import common
from common import cnat, cbool, clist, cpair
import gen
import gridcorr as gc

PID = 'C17'
PROP_V = 'Props/C17.v'
CORR_V = ('Corr/CorrC17.v',)
HEADER = 'Require Import V.Corr.CorrC17.\n'
DASH = '--------------------------------------------------------------'


def run(ctx, build):
    import pyUSID as usid
    out = common.Outcome()
    rng = ctx.rng
    lays = [l for l in gc.layouts_for(ctx, 25 if ctx.quick() else 300, dtypes=('f8', 'f4', 'i4', 'u2'), max_elems=150 if ctx.quick() else 600,
                                      max_dims=3) if not gc.more_dims_than_points(l) and l.dtype in ('f8', 'f4', 'i4', 'u2')]
    # designed (independent of the seed): units outside ASCII (HDF5 attributes are UTF-8), exported to an explicit and to the default path
    for k0 in range(2):
        dl = gen.Layout([2, 2], [0, 1], [3], [0], dtype='f8')
        dl.pos_units_utf8 = ['\u00b5m', 'k\u03a9']
        dl.spec_units_utf8 = ['\u00b0C']
        lays.insert(k0, dl)
    cases, meta, dcases, dmeta = [], [], [], []
    hist = {'datasets': 0, 'dims': {}, 'default_path': 0, 'explicit_path': 0, 'existing_output': 0, 'forced': 0, 'unwritable_target': 0, 'oversize': 0}
    distinct = set()
    work = os.path.join(ctx.tmp, 'cwd')
    outdir = os.path.join(ctx.tmp, 'out')
    old_cwd = os.getcwd()

    def violate(cls, mode, what, case):
        out.violations.append({'call_site': 'USIDataset.to_csv', 'input_class': cls, 'failure_mode': mode, 'what': what, 'case': case})

    def listing():
        return sorted(os.listdir(work)), sorted(os.listdir(outdir))

    try:
        for li, lay in enumerate(lays):
            for d in (work, outdir):
                shutil.rmtree(d, ignore_errors=True)
                os.makedirs(d)
            os.chdir(work)
            h5path = os.path.join(outdir, 'data.h5')
            hist['datasets'] += 1
            key = '%dx%d' % (len(lay.pos_sizes), len(lay.spec_sizes))
            hist['dims'][key] = hist['dims'].get(key, 0) + 1
            with h5py.File(h5path, 'w') as f:
                chunks = (min(lay.N, 4), min(lay.M, 5)) if li % 3 == 1 and lay.N * lay.M > 1 else None
                hist['misaligned_chunks'] = hist.get('misaligned_chunks', 0) + int(chunks is not None)
                main = gen.write_layout(f, lay, chunks=chunks)
                if getattr(lay, 'pos_units_utf8', None):
                    hist['non_ascii_units'] = hist.get('non_ascii_units', 0) + 1
                    for anc_name, un in (('Position_Indices', lay.pos_units_utf8), ('Position_Values', lay.pos_units_utf8),
                                         ('Spectroscopic_Indices', lay.spec_units_utf8), ('Spectroscopic_Values', lay.spec_units_utf8)):
                        main.parent[anc_name].attrs['units'] = np.array(un, dtype=h5py.string_dtype('utf-8'))
                # the wrapper's view (file order / sorted by rate, also reached by toggling) must not influence the table
                view = ('file_order', 'sorted', 'toggled_to_sorted', 'toggled_twice')[li % 4]
                with common.quiet():
                    u = usid.USIDataset(main, sort_dims=(view == 'sorted'))
                    gen.Bystander.get(ctx.tmp).touch()
                    if view.startswith('toggled'):
                        u.toggle_sorting()
                    if view == 'toggled_twice':
                        u.toggle_sorting()
                hist['view_' + view] = hist.get('view_' + view, 0) + 1
                k, q = len(lay.pos_sizes), len(lay.spec_sizes)
                explicit = li % 2 == 0
                target = os.path.join(outdir, 'table.csv') if explicit else None
                hist['explicit_path' if explicit else 'default_path'] += 1
                before = listing()
                desc = {'layout': lay.describe(), 'output_path': 'explicit' if explicit else 'default', 'wrapper_view': view}
                try:
                    with common.quiet():
                        ret = u.to_csv(output_path=target)
                except Exception as e:
                    violate('any', 'export_raises', '%r %s' % (e, desc), desc)
                    continue
                after = listing()
                new_files = [set(after[0]) - set(before[0]), set(after[1]) - set(before[1])]
                if new_files[0] or len(new_files[1]) != 1 or not os.path.exists(ret):
                    violate('any', 'files_other_than_the_output_created_or_left', 'new in cwd %s, new in output dir %s' % (new_files[0], new_files[1]), desc)
                    continue
                try:
                    with open(ret, newline='', encoding='utf-8') as fh:
                        table = list(csv.reader(fh))
                except UnicodeDecodeError as e:
                    violate('non_ascii_descriptors', 'exported_file_is_not_valid_text', '%r %s' % (e, desc), desc)
                    continue
                # ---- expected texts of every abstract cell
                pos_vals, spec_vals = u.h5_pos_vals[()], u.h5_spec_vals[()]
                data = main[()]
                ids, texts = {}, []

                def cid(text):
                    if text not in ids:
                        ids[text] = len(texts) + 1
                        texts.append(text)
                    return ids[text]
                # descriptors straight from the file, in stored order: 'label (unit)' of the row / column they stand beside
                def descs(h5_anc):
                    dec = lambda x: x.decode() if isinstance(x, bytes) else str(x)
                    return ['%s (%s)' % (dec(l), dec(un)) for l, un in zip(h5_anc.attrs['labels'], h5_anc.attrs['units'])]
                spec_descs = descs(main.file[main.attrs['Spectroscopic_Values']])
                pos_descs = descs(main.file[main.attrs['Position_Values']])
                sdescs = [cid(x) for x in spec_descs]
                pdescs = [cid(x) for x in pos_descs]
                svals = [[cid(str(x)) for x in row] for row in spec_vals]
                pvals = [[cid(str(x)) for x in row] for row in pos_vals]
                mvals = [[cid('%.18e' % x) for x in row] for row in data]
                dash = cid(DASH)
                obs = [[[ids.get(cell, 999999)] if cell != '' else [] for cell in row] for row in table]
                cases.append(cpair(cnat(k), cnat(lay.M), clist(sdescs, cnat), clist(pdescs, cnat), clist(svals, lambda r: clist(r, cnat)),
                                   clist(pvals, lambda r: clist(r, cnat)), clist(mvals, lambda r: clist(r, cnat)), cnat(dash),
                                   clist(obs, lambda r: clist(r, lambda c: clist(c, cnat)))))
                meta.append(desc)
                # ---- oracle: every element can be read off with all of its coordinates
                mode = None
                if len(table) != q + 1 + lay.N or any(len(r) != k + lay.M for r in table):
                    mode = 'table_shape_wrong'
                else:
                    for i in range(q):
                        if table[i][k - 1] != spec_descs[i] or any(c != '' for c in table[i][:k - 1]):
                            mode = 'header_descriptor_misplaced'
                        for c in range(lay.M):
                            if float(table[i][k + c]) != float(spec_vals[i][c]):
                                mode = 'header_value_not_above_its_column'
                    if table[q][:k] != pos_descs:
                        mode = mode or 'position_descriptors_misplaced'
                    for r in range(lay.N):
                        for dd in range(k):
                            if float(table[q + 1 + r][dd]) != float(pos_vals[r][dd]):
                                mode = mode or 'position_value_not_beside_its_row'
                        for c in range(lay.M):
                            if float(table[q + 1 + r][k + c]) != float(data[r][c]):
                                mode = mode or 'data_element_wrong'
                if mode:
                    violate('any', mode, str(desc), desc)
                if len(lay.pos_sizes) != len(lay.spec_sizes):
                    distinct.add(lay.key())
                if len(out.samples) < 3:
                    out.samples.append(dict(desc, table_head=[r[:6] for r in table[:q + 2]]))
                # ---- existing output, force
                stamp = open(ret).read()
                hist['existing_output'] += 1
                try:
                    with common.quiet():
                        u.to_csv(output_path=target)
                    code = 0
                except FileExistsError:
                    code = 2
                except Exception:
                    code = 3
                dcases.append(cpair(cbool(False), cbool(False), cbool(True), cnat(code)))
                dmeta.append(dict(desc, step='second call without force', code=code))
                if code != 2 or open(ret).read() != stamp or listing() != after:
                    violate('any', 'existing_output_overwritten_or_not_refused', str(desc), desc)
                if li % 3 == 0:
                    hist['forced'] += 1
                    open(ret, 'w').write('old contents')
                    with common.quiet():
                        u.to_csv(output_path=target, force=True)
                    dcases.append(cpair(cbool(False), cbool(True), cbool(True), cnat(0)))
                    dmeta.append(dict(desc, step='forced overwrite'))
                    if open(ret).read() != stamp or listing() != after:
                        violate('any', 'forced_export_wrong_or_leaves_files', str(desc), desc)
                # ---- an explicit path WITHOUT the .csv extension, next to an existing '<path>.csv': the file that exists must not be
                # touched without force, and what is written is written at the path that was asked for
                if li % 3 == 1:
                    hist['path_without_extension'] = hist.get('path_without_extension', 0) + 1
                    for bare in ('results', 'results.txt'):
                        sentinel = os.path.join(outdir, bare + '.csv')
                        open(sentinel, 'w').write('do not touch')
                        asked = os.path.join(outdir, bare)
                        if os.path.exists(asked):
                            os.remove(asked)
                        try:
                            with common.quiet():
                                ret2 = u.to_csv(output_path=asked)
                        except Exception as e:
                            ret2 = None
                        if open(sentinel).read() != 'do not touch':
                            violate('explicit_path_without_csv_extension', 'existing_output_overwritten_or_not_refused',
                                    'asked for %r without force; the existing %r was overwritten; %s' % (bare, bare + '.csv', desc), desc)
                        for pth in (sentinel, asked):
                            if os.path.exists(pth):
                                os.remove(pth)
                # ---- a target that cannot be written: must raise and leave nothing behind
                if li % 4 == 0:
                    hist['unwritable_target'] += 1
                    before2 = listing()
                    try:
                        with common.quiet():
                            u.to_csv(output_path=os.path.join(outdir, 'no_such_dir', 'x.csv'))
                        violate('unwritable_output_path', 'did_not_raise', str(desc), desc)
                    except Exception:
                        pass
                    if listing() != before2:
                        violate('unwritable_output_path', 'temporary_file_left_behind', 'cwd now %s' % listing()[0], desc)
        # ---- oversized dataset: skipped unless forced (the forced export of ~90 MB only in the thorough tier)
        for d in (work, outdir):
            shutil.rmtree(d, ignore_errors=True)
            os.makedirs(d)
        os.chdir(work)
        with h5py.File(os.path.join(outdir, 'big.h5'), 'w') as f:
            lay = gen.Layout([2], [0], [2], [0])
            main = gen.write_layout(f, lay)
            n = 2 * 1000 * 1000 + 8           # 16 000 064 bytes of float64 > 15 MiB
            big = f['Measurement_000/Channel_000'].create_dataset('Big', data=np.zeros((2, n // 2)))
            f['Measurement_000/Channel_000'].create_dataset('Big_SI', data=np.zeros((1, n // 2), dtype=np.uint32))
            f['Measurement_000/Channel_000'].create_dataset('Big_SV', data=np.zeros((1, n // 2), dtype=np.float32))
            for nm in ('Big_SI', 'Big_SV'):
                f['Measurement_000/Channel_000'][nm].attrs['labels'] = np.array(['S0'], dtype='S')
                f['Measurement_000/Channel_000'][nm].attrs['units'] = np.array(['u'], dtype='S')
            for kk, vv in main.attrs.items():
                big.attrs[kk] = vv
            big.attrs['Spectroscopic_Indices'] = f['Measurement_000/Channel_000/Big_SI'].ref
            big.attrs['Spectroscopic_Values'] = f['Measurement_000/Channel_000/Big_SV'].ref
            with common.quiet():
                ub = usid.USIDataset(big)
            before = listing()
            hist['oversize'] += 1
            with common.quiet():
                ret = ub.to_csv()
            dcases.append(cpair(cbool(True), cbool(False), cbool(False), cnat(1 if ret is None else 0)))
            dmeta.append({'step': 'oversized dataset without force', 'returned': ret})
            if ret is not None or listing() != before:
                violate('oversized_dataset', 'oversized_dataset_written_without_force', 'returned %r, listing %s' % (ret, listing()), {})
            # the same number of elements stored so that it takes (almost) no room in the file: the size that counts is the
            # size of the table, not the allocated storage
            for vname, vkw in (('gzip', dict(data=np.zeros((2, n // 2)), compression='gzip', chunks=(1, 50000))),
                               ('never_written_chunks', dict(shape=(2, n // 2), dtype=np.float64, chunks=(1, 50000)))):
                bv = f['Measurement_000/Channel_000'].create_dataset('Big_' + vname, **vkw)
                for kk, vv in big.attrs.items():
                    bv.attrs[kk] = vv
                with common.quiet():
                    ubv = usid.USIDataset(bv)
                    try:
                        retv = ubv.to_csv()
                    except Exception as e:
                        retv = None                           # refusing loudly is a refusal too
                hist['oversize'] += 1
                hist['oversize_' + vname] = 1
                dcases.append(cpair(cbool(True), cbool(False), cbool(False), cnat(1 if retv is None else 0)))
                dmeta.append({'step': 'oversized dataset (%s) without force' % vname, 'returned': retv})
                if retv is not None or listing() != before:
                    violate('oversized_dataset_' + vname, 'oversized_dataset_written_without_force', 'returned %r, listing %s' % (retv, listing()), {})
                    for extra in set(listing()[0]) - set(before[0]):
                        os.remove(os.path.join(work, extra))
                    for extra in set(listing()[1]) - set(before[1]):
                        os.remove(os.path.join(outdir, extra))
            if not ctx.quick():
                with common.quiet():
                    ret = ub.to_csv(force=True)
                dcases.append(cpair(cbool(True), cbool(True), cbool(False), cnat(0 if ret else 1)))
                dmeta.append({'step': 'oversized dataset forced'})
                if not ret or not os.path.exists(ret) or listing()[0] != before[0]:
                    violate('oversized_dataset', 'forced_oversized_export_failed_or_left_files', str(listing()), {})
    finally:
        os.chdir(old_cwd)
    b1, e1 = common.coq_eval_cases(ctx, HEADER, cases, 'check17', case_type='case17', per_file=60)
    b2, e2 = common.coq_eval_cases(ctx, HEADER, dcases, 'check17d', tag='dec')
    out.corr_error = e1 or e2
    out.disagreements = [meta[i] for i in b1] + [dmeta[i] for i in b2]
    out.evaluations = len(cases) + len(dcases)
    out.distinct_nontrivial = len(distinct)
    out.rule = ('generator datasets of real dtypes (f8, f4, i4, u2), 1..3 dimensions per side in any storage order, default and explicit output paths; the '
                'file is parsed with the csv module and every cell is mapped back to the abstract cell it must hold; second call without force, '
                'forced overwrite, an unwritable output path, a > 15 MiB dataset; directory listings of the working and output directories before / '
                'after; non-trivial = dataset whose numbers of position and spectroscopic dimensions differ (distinct layouts)')
    out.histogram = hist
    out.trusted = ['numpy.savetxt "%.18e" formatting and str(float32) are trusted: printed numbers are cells', 'cells contain no comma / newline (labels and units of the generator)']
    out.assumptions = ['number formatting is outside the model (partial)']
    return out
