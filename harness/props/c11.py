"""C11 -- slice_to_dataset preserves every selected element with its coordinates."""
import os

import h5py
import numpy as np

import common
from common import cnat, cbool, clist, cpair
import gen
import gridcorr as gc
from props import c06, c07
from props.c02 import dump_group

PID = 'C11'
PROP_V = 'Props/C11.v'
CORR_V = ('Corr/CorrC11.v',)
HEADER = 'Require Import V.Usid.SliceDset V.Corr.CorrC11.\n'


def write_with_library(f, lay, s2f, hu, Dimension):
    """the same layout produced by pyUSID's own writer (columns slowest first): requires order == reversed(range(k))"""
    grp = f.require_group('Measurement_000/Channel_000')
    pd = [Dimension(lay.pos_labels[d], lay.pos_units[d], lay.pos_unit(d)) for d in range(len(lay.pos_sizes))]
    sd = [Dimension(lay.spec_labels[d], lay.spec_units[d], lay.spec_unit(d)) for d in range(len(lay.spec_sizes))]
    if not s2f:
        pd, sd = pd[::-1], sd[::-1]
    with common.quiet():
        return hu.write_main_dataset(grp, lay.main_data(), 'Raw_Data', 'Current', 'nA', pd, sd, slow_to_fast=s2f)


def run(ctx, build):
    import pyUSID as usid
    from pyUSID.io import hdf_utils as hu
    from pyUSID.io.dimension import Dimension
    out = common.Outcome()
    rng = ctx.rng
    lays = [l for l in gc.layouts_for(ctx, 30 if ctx.quick() else 400, dtypes=('f8', 'i4', 'c16'), max_elems=150 if ctx.quick() else 600, max_dims=3)
            if not gc.more_dims_than_points(l)]
    # a few longer dimensions, so that unevenly spaced index lists exist
    for ps, po, ss, so in (([6], [0], [5], [0]), ([2, 5], [0, 1], [6], [0]), ([2, 5], [1, 0], [2, 5], [1, 0]), ([5, 2], [0, 1], [7], [0]), ([7], [0], [2, 6], [0, 1])):
        lays.append(gen.Layout(ps, po, ss, so, dtype='f8'))
    cases, meta = [], []
    hist = {'datasets': 0, 'written_by_library': {'slow_to_fast=True': 0, 'slow_to_fast=False': 0}, 'raw_generator': 0, 'slices': 0, 'sort_dims_wrapper': 0,
            'sliced_sides': {'pos': 0, 'spec': 0, 'both': 0}, 'placeholder_sides': 0, 'remaining_dims_on_a_sliced_side': {}, 'sel_kinds': {}, 'raised': {}}
    distinct = set()
    path = os.path.join(ctx.tmp, 'c11.h5')

    def violate(cls, mode, what, case):
        out.violations.append({'call_site': 'USIDataset.slice_to_dataset', 'input_class': cls, 'failure_mode': mode, 'what': what, 'case': case})
    for li, lay0 in enumerate(lays):
        variants = [('generator', lay0)]
        k, q = len(lay0.pos_sizes), len(lay0.spec_sizes)
        canon = gen.Layout(lay0.pos_sizes, list(range(k))[::-1], lay0.spec_sizes, list(range(q))[::-1], dtype=lay0.dtype)
        if not gc.more_dims_than_points(canon) and all(s >= 1 for s in canon.pos_sizes + canon.spec_sizes):
            variants.append(('library_s2f_%s' % (li % 2 == 0), canon))
        for source, lay in variants:
            if os.path.exists(path):
                os.remove(path)
            with h5py.File(path, 'w') as f:
                if source == 'generator':
                    chunks = (min(lay.N, 4), min(lay.M, 5)) if li % 3 == 2 and lay.N * lay.M > 1 else None
                    main = gen.write_layout(f, lay, chunks=chunks)
                    hist['raw_generator'] += 1
                else:
                    s2f = source.endswith('True')
                    main = write_with_library(f, lay, s2f, hu, Dimension)
                    hist['written_by_library']['slow_to_fast=%s' % s2f] += 1
                    main = f[main.name]
                hist['datasets'] += 1
                src_grp = main.parent
                labels = lay.pos_labels + lay.spec_labels
                sizes = lay.pos_sizes + lay.spec_sizes
                n_rand = 3 if ctx.quick() else 5
                # designed selections (independent of the seed): unevenly spaced index lists whose span is a multiple of
                # (count - 1), alone on one dimension of size >= 5
                designed = []
                for i, lab in enumerate(labels):
                    if sizes[i] >= 5:
                        designed += [{lab: [0, 1, 4]}, {lab: [0, 3, 4]}]
                    if sizes[i] >= 7:
                        designed += [{lab: [0, 2, 3, 6]}, {lab: [0, 2, 5, 6]}]
                for si in range(n_rand + len(designed)):
                    sort_dims = rng.random() < 0.2
                    with common.quiet():
                        u = usid.USIDataset(main, sort_dims=sort_dims)
                        gen.Bystander.get(ctx.tmp).touch()
                    hist['sort_dims_wrapper'] += int(sort_dims)
                    sd, chosen, kinds = {}, {}, []
                    fixed = designed[si - n_rand] if si >= n_rand else None
                    for i, lab in enumerate(labels):
                        s = c07.gen_sel(rng, sizes[i])
                        if fixed is not None:
                            s = ('list', fixed[lab], list) if lab in fixed else ('absent',)
                        if fixed is None and sizes[i] >= 5 and rng.random() < 0.5:
                            vals = sorted(rng.sample(range(sizes[i]), rng.randint(3, 4)))
                            s = ('list', vals, rng.choice([list, tuple, np.array]))
                        kinds.append(s[0])
                        hist['sel_kinds'][s[0]] = hist['sel_kinds'].get(s[0], 0) + 1
                        if s[0] == 'absent':
                            continue
                        idx = [s[1]] if s[0] == 'int' else (list(s[2]) if s[0] == 'slice' else list(s[1]))
                        if not idx:
                            continue
                        sd[lab] = c07.pyval(s)
                        chosen[lab] = sorted(set(idx))
                    if not sd:
                        continue
                    pos_sliced = any(lab in sd for lab in lay.pos_labels)
                    spec_sliced = any(lab in sd for lab in lay.spec_labels)
                    hist['slices'] += 1
                    hist['sliced_sides']['both' if pos_sliced and spec_sliced else ('pos' if pos_sliced else 'spec')] += 1
                    desc = {'layout': lay.describe(), 'source': source, 'slice': {kk: repr(v) for kk, v in sd.items()}, 'sort_dims': sort_dims}
                    before = dump_group(src_grp)
                    try:
                        with common.quiet():
                            new = u.slice_to_dataset(sd)
                    except Exception as e:
                        kk = type(e).__name__
                        hist['raised'][kk] = hist['raised'].get(kk, 0) + 1
                        violate('valid_selection', 'valid_request_raises', '%r for %s' % (e, desc), desc)
                        continue
                    new = f[new.name]
                    res_grp_name = new.parent.name.split('/')[-1]
                    after = dump_group(src_grp)
                    changed = [k0 for k0 in before if after.get(k0) != before[k0]]
                    extra = [k0 for k0 in after if k0 not in before and not k0.startswith(res_grp_name)]
                    if changed or extra:
                        violate('valid_selection', 'source_modified', 'changed %s extra %s' % (changed, extra), desc)
                    d6 = c06.describe(f, new, [])
                    if not c06.is_main_spec(d6):
                        violate('valid_selection', 'result_not_a_valid_main', str(d6)[:300], desc)
                        continue
                    # ---------------- observation for the model + independent oracle
                    ids = gen.ids_of(new[()], lay.dtype)
                    full = {lab: chosen.get(lab, list(range(sizes[i]))) for i, lab in enumerate(labels)}
                    obs_sides, problems = [], []
                    coords = {}          # label -> per new row / column: source index
                    for side, names, sz, order, sl_flag, units_src, axis in (
                            ('pos', lay.pos_labels, lay.pos_sizes, lay.pos_order, pos_sliced, lay.pos_units, 0),
                            ('spec', lay.spec_labels, lay.spec_sizes, lay.spec_order, spec_sliced, lay.spec_units, 1)):
                        hi = f[new.attrs['Position_Indices' if axis == 0 else 'Spectroscopic_Indices']]
                        hv = f[new.attrs['Position_Values' if axis == 0 else 'Spectroscopic_Values']]
                        src_hi = f[main.attrs['Position_Indices' if axis == 0 else 'Spectroscopic_Indices']]
                        nl = [x.decode() if isinstance(x, bytes) else str(x) for x in np.atleast_1d(hi.attrs['labels'])]
                        nu = [x.decode() if isinstance(x, bytes) else str(x) for x in np.atleast_1d(hi.attrs['units'])]
                        inds, vals = hi[()], hv[()]
                        if axis == 1:
                            inds_t, vals_t = inds.T, vals.T
                        else:
                            inds_t, vals_t = inds, vals
                        unit = (lambda d: lay.pos_unit(d)) if axis == 0 else (lambda d: lay.spec_unit(d))
                        if not sl_flag:
                            if hi.name != src_hi.name:
                                problems.append(('unsliced_side_not_linked_to_source_ancillaries', side))
                            obs_sides.append('None')
                            for d, lab in enumerate(names):
                                coords[lab] = [int(x) for x in src_hi[()][:, d]] if axis == 0 else [int(x) for x in src_hi[()][d, :]]
                            continue
                        if hi.name == src_hi.name:
                            problems.append(('sliced_side_still_linked_to_source_ancillaries', side))
                        remaining = [lab for lab in names if len(full[lab]) >= 2]
                        hist['remaining_dims_on_a_sliced_side'][str(len(remaining))] = hist['remaining_dims_on_a_sliced_side'].get(str(len(remaining)), 0) + 1
                        if not remaining:
                            hist['placeholder_sides'] += 1
                            if nl != ['arb.'] or inds_t.shape[1] != 1:
                                problems.append(('placeholder_dimension_missing', '%s: %s' % (side, nl)))
                        elif sorted(nl) != sorted(remaining):
                            problems.append(('single_valued_dimension_not_dropped_or_dimension_lost', '%s: %s vs %s' % (side, nl, remaining)))
                        lab_ids, val_rows = [], []
                        okv = True
                        for j, lab in enumerate(nl):
                            if lab == 'arb.':
                                lab_ids.append(len(names))
                                continue
                            if lab not in names:
                                okv = False
                                lab_ids.append(99)
                                continue
                            d = names.index(lab)
                            lab_ids.append(d)
                            if nu[j] != units_src[d]:
                                problems.append(('units_of_another_dimension', '%s %s: %s' % (side, lab, nu[j])))
                            uv = [float(np.float32(x)) for x in unit(d)]
                            col = []
                            for x in vals_t[:, j]:
                                col.append(uv.index(float(x)) if float(x) in uv else 999)
                            coords[lab] = col
                        vmat = []
                        for r in range(vals_t.shape[0]):
                            row = []
                            for j, lab in enumerate(nl):
                                row.append(int(round(float(vals_t[r, j]) - 1)) if lab == 'arb.' else coords.get(lab, [999] * vals_t.shape[0])[r])
                            vmat.append(row)
                        imat = [[int(x) for x in row] for row in inds_t]
                        if axis == 1:
                            vmat = [list(x) for x in zip(*vmat)] if vmat else []
                            imat = [[int(x) for x in row] for row in inds]
                        obs_sides.append('(Some %s)' % cpair(clist(lab_ids, cnat), clist(imat, lambda r: clist(r, cnat)), clist(vmat, lambda r: clist(r, cnat))))
                    # every element sits under the coordinates it had in the source
                    n_sel = 1
                    for lab in labels:
                        n_sel *= len(full[lab])
                    if ids.size != n_sel:
                        problems.append(('element_count_wrong', '%d vs %d selected' % (ids.size, n_sel)))
                    else:
                        seen = set()
                        bad_el = None
                        for r in range(ids.shape[0]):
                            pidx = [coords[lab][r] if lab in coords and len(coords[lab]) > r else full[lab][0] for lab in lay.pos_labels]
                            if any(i0 not in full[lab] for i0, lab in zip(pidx, lay.pos_labels)):
                                bad_el = bad_el or ('row %d has coordinates outside the selection' % r)
                                continue
                            rr = gen.point(lay.pos_sizes, lay.pos_order, pidx)
                            for c in range(ids.shape[1]):
                                sidx = [coords[lab][c] if lab in coords and len(coords[lab]) > c else full[lab][0] for lab in lay.spec_labels]
                                if any(i0 not in full[lab] for i0, lab in zip(sidx, lay.spec_labels)):
                                    bad_el = bad_el or ('column %d has coordinates outside the selection' % c)
                                    continue
                                cc = gen.point(lay.spec_sizes, lay.spec_order, sidx)
                                if int(ids[r, c]) != rr * lay.M + cc:
                                    bad_el = bad_el or ('element (%d,%d) holds source element %d but its coordinates say %d' % (r, c, int(ids[r, c]), rr * lay.M + cc))
                                seen.add(int(ids[r, c]))
                        if bad_el:
                            problems.append(('element_under_wrong_coordinates', bad_el))
                        if len(seen) != n_sel:
                            problems.append(('selected_element_missing_or_duplicated', '%d distinct of %d' % (len(seen), n_sel)))
                    cls = 'library_written_source' if source != 'generator' else 'generator_source'
                    for mode, what in problems:
                        violate(cls, mode, '%s | %s' % (what, desc), desc)
                    # ---------------- the model's case
                    def c_side(sz, order, names, sliced):
                        return '(mkSide %s %s %s %s)' % (clist(sz, cnat), clist(order, cnat), clist([full[lab] for lab in names], lambda l0: clist(l0, cnat)), cbool(sliced))
                    cases.append(cpair(cnat(lay.M), c_side(lay.pos_sizes, lay.pos_order, lay.pos_labels, pos_sliced),
                                       c_side(lay.spec_sizes, lay.spec_order, lay.spec_labels, spec_sliced),
                                       cpair(clist([[int(x) for x in row] for row in ids], lambda r: clist(r, cnat)), obs_sides[0], obs_sides[1])))
                    meta.append(desc)
                    if lay.nontrivial():
                        distinct.add((lay.key(), tuple(sorted((kk, tuple(v)) for kk, v in chosen.items()))))
                    if len(out.samples) < 4 and pos_sliced and spec_sliced:
                        out.samples.append(dict(desc, new_shape=list(ids.shape)))
                    del new.parent.parent[res_grp_name]
    # ---- designed, seed-independent (exact oracle only): wide sources, so that the rows kept by a slice amount to more than a megabyte
    # and are not a whole number of megabytes (a writer that copies in batches must not lose the last, partial one)
    hist['wide_sources'] = 0
    for dt, ncol, nrow, keep in (('f8', 4096, 50, 45), ('f4', 4096, 90, 77), ('f8', 2100, 80, 80 - 3)):
        lay = gen.Layout([nrow], [0], [ncol], [0], dtype=dt)
        if os.path.exists(path):
            os.remove(path)
        with h5py.File(path, 'w') as f:
            main = gen.write_layout(f, lay)
            data = main[()]
            rows = [r for r in range(nrow) if r % 10 != 3][:keep]
            desc = {'layout': lay.describe(), 'slice_dict': '{%r: %d of %d positions}' % (lay.pos_labels[0], len(rows), nrow)}
            hist['wide_sources'] += 1
            try:
                with common.quiet():
                    u = usid.USIDataset(main)
                    new = u.slice_to_dataset({lay.pos_labels[0]: rows})
                got = f[new.name][()]
                pv = f[f[new.name].attrs['Position_Values']][()]
                if got.shape != (len(rows), ncol) or not np.array_equal(got, data[rows, :]):
                    bad_rows = [i for i in range(min(len(rows), got.shape[0])) if not np.array_equal(got[i], data[rows[i]])]
                    violate('valid_selection', 'element_not_equal_to_source_element_with_same_coordinates',
                            'rows %s of the new dataset differ from the selected source rows; %s' % (bad_rows[:6], desc), desc)
                elif [float(x) for x in pv[:, 0]] != [float(np.float32(lay.pos_unit(0)[r])) for r in rows]:
                    violate('valid_selection', 'new_position_values_wrong', str(desc), desc)
            except Exception as e:
                violate('valid_selection', 'valid_request_raises', '%r %s' % (e, desc), desc)
    bad, err = common.coq_eval_cases(ctx, HEADER, cases, 'check11', case_type='case11', per_file=60)
    out.corr_error = err
    out.disagreements = [meta[i] for i in bad]
    out.evaluations = len(cases)
    out.distinct_nontrivial = len(distinct)
    out.rule = ('generator datasets in every storage order (1-3 dimensions per side) plus the same grids written by write_main_dataset itself under both ordering '
                'flags; selection dictionaries as in C07 (integers, slices with steps, lists / tuples / arrays in any order) on any subset of the dimensions; wrappers '
                'with sort_dims on and off; observed: the new data (element identities), the four links, labels / units / matrices of the new ancillaries; oracle: '
                'validity, every element located by the VALUES of its remaining dimensions equals the source element with those coordinates, count, dropped / placeholder '
                'dimensions, units, unsliced side linked to the source\'s ancillaries, dump of the source group before / after; non-trivial = distinct (layout with '
                '>= 2 multi-valued dimensions on a side in non-identity order, selection)')
    out.histogram = hist
    out.trusted = ['selection lists are handed to the model sorted and de-duplicated (C07 proves the 2-D slice keeps source order whatever the caller\'s order)',
                   'unit values of a dimension are distinct (generator), so values identify indices']
    return out
