"""C20 -- read-side operations work on read-only files and never change the file."""
import hashlib
import os

import dask.array as da
import h5py
import numpy as np

import common
import effects
import gen
import gridcorr as gc
from props.c04 import Injector

PID = 'C20'
PROP_V = 'Props/C20.v'
CORR_V = ()


def regenerate(ctx):
    return effects.regenerate(ctx.repo, common.COQ)


def file_sha(path):
    h = hashlib.sha256()
    with open(path, 'rb') as f:
        for blk in iter(lambda: f.read(1 << 20), b''):
            h.update(blk)
    return h.hexdigest()


def dump(f):
    """canonical dump of every object: datasets (shape, dtype, bytes) and attributes (references resolved to names)"""
    h = hashlib.sha256()

    def add_attrs(o):
        for k in sorted(o.attrs.keys()):
            v = o.attrs[k]
            h.update(k.encode())
            if isinstance(v, h5py.Reference):
                h.update(('ref:' + str(f[v].name if v else None)).encode())
            else:
                a = np.asarray(v)
                h.update(str(a.dtype).encode())
                h.update(a.tobytes() if a.dtype.kind != 'O' else repr(a.tolist()).encode())
    add_attrs(f)

    def visit(name, o):
        h.update(name.encode())
        if isinstance(o, h5py.Dataset):
            h.update(str(o.shape).encode())
            h.update(str(o.dtype).encode())
            if o.dtype.kind != 'O':
                h.update(np.asarray(o[()]).tobytes())
        add_attrs(o)
    f.visititems(visit)
    return h.hexdigest()


def run(ctx, build):
    import pyUSID as usid
    import procutil
    from pyUSID.io import hdf_utils as hu
    out = common.Outcome()
    rng = ctx.rng
    n_seq = 40 if ctx.quick() else 600
    hist = {'sequences': 0, 'calls': {}, 'read_only_handle': 0, 'writable_handle': 0, 'write_entry_points_on_readonly': 0, 'tracer_events_during_reads': 0}
    distinct = set()
    inj = Injector()
    path = os.path.join(ctx.tmp, 'c20.h5')

    def violate(site, cls, mode, what, case):
        out.violations.append({'call_site': site, 'input_class': cls, 'failure_mode': mode, 'what': what, 'case': case})

    def make_file(lay):
        if os.path.exists(path):
            os.remove(path)
        with h5py.File(path, 'w') as f:
            main = gen.write_layout(f, lay)
            # earlier results so that the look-up functions have something to find (well-formed status records)
            with common.quiet():
                procutil.seed_partial_group(main, [1] * lay.N, name='Fit')
                g = procutil.seed_partial_group(main, [1] + [0] * (lay.N - 1), name='Fit', parms={'parm_1': 2})
                procutil.seed_partial_group(main, [1] * lay.N, name='Fit', parms={'rate': 0.5, 'gain': 3})
            f.create_group('Measurement_000/Other').create_dataset('plain', data=np.arange(5))
            # a placeholder created in an earlier writable session by the very call that is later repeated on the read-only handle,
            # already linked to its ancillaries
            with common.quiet():
                hu.create_empty_dataset(main, np.float32, 'Earlier_Empty')

    def read_calls(f, lay):
        """list of (label, thunk) read-side calls with generated arguments"""
        main = f['Measurement_000/Channel_000/Raw_Data']
        labels = lay.pos_labels + lay.spec_labels
        sizes = lay.pos_sizes + lay.spec_sizes
        state = {}

        def wrapper():
            if 'u' not in state:
                state['u'] = usid.USIDataset(main)
            return state['u']

        def rand_slice():
            d = {}
            for i, lab in enumerate(labels):
                r = rng.random()
                if r < 0.4:
                    d[lab] = rng.randrange(sizes[i])
                elif r < 0.6:
                    d[lab] = slice(0, rng.randint(1, sizes[i]))
            return d
        calls = [
            ('check_if_main', lambda: hu.check_if_main(main)),
            ('USIDataset', lambda: wrapper()),
            ('repr', lambda: repr(wrapper())),
            ('get_all_main', lambda: hu.get_all_main(f)),
            ('find_dataset', lambda: hu.find_dataset(f, 'Raw_Data')),
            ('find_results_groups', lambda: hu.find_results_groups(main, 'Fit')),
            ('check_for_old', lambda: hu.check_for_old(main, 'Fit', new_parms={'parm_1': 1, 'parm_2': [1, 2, 3]})),
            ('find_results_groups_explicit_parent', lambda: hu.find_results_groups(main, 'Fit', h5_parent_group=main.parent)),
            ('check_for_old_explicit_parent', lambda: hu.check_for_old(main, 'Fit', new_parms={'parm_1': 1}, h5_parent_goup=main.parent)),
            ('find_results_groups_file_root', lambda: hu.find_results_groups(main, 'Fit', h5_parent_group=f)),
            ('reduce_in_memory_named', lambda: wrapper().reduce([rng.choice(labels)], ufunc=da.mean, dset_name='x')[0].compute()),
            ('check_for_matching_attrs', lambda: hu.check_for_matching_attrs(main.parent['Raw_Data-Fit_000'], new_parms={'parm_1': 1})),
            ('get_source_dataset', lambda: hu.get_source_dataset(main.parent['Raw_Data-Fit_000'])),
            # a stored number asked about with a word, a stored word with a number: "no match", never an error
            ('check_for_matching_attrs_other_kind', lambda: hu.check_for_matching_attrs(main.parent['Raw_Data-Fit_002'], new_parms={'rate': 'auto', 'gain': 3})),
            ('check_for_old_other_kind', lambda: hu.check_for_old(main, 'Fit', new_parms={'rate': 'auto'})),
            ('unit_values_of_both_sides_one_object', lambda: (wrapper().get_pos_values(lay.pos_labels[-1]), wrapper().get_spec_values(lay.spec_labels[0]),
                                                              wrapper().get_pos_values(lay.pos_labels[0]))),
            ('reshape_to_n_dims', lambda: hu.reshape_to_n_dims(main, get_labels=True, lazy=rng.random() < 0.5)),
            ('get_n_dim_form', lambda: wrapper().get_n_dim_form(lazy=rng.random() < 0.5)),
            ('toggle_sorting', lambda: wrapper().toggle_sorting()),
            ('slice_nd', lambda: wrapper().slice(rand_slice(), ndim_form=True)),
            ('slice_2d', lambda: wrapper().slice(rand_slice(), ndim_form=False, lazy=rng.random() < 0.5)),
            ('reduce_in_memory', lambda: wrapper().reduce([rng.choice(labels)], ufunc=rng.choice([da.mean, da.sum, da.max]))[0].compute()),
            ('get_pos_values', lambda: wrapper().get_pos_values(lay.pos_labels[0])),
            ('get_spec_values', lambda: wrapper().get_spec_values(lay.spec_labels[-1])),
            ('get_unit_values', lambda: hu.get_unit_values(main.file[main.attrs['Spectroscopic_Indices']], main.file[main.attrs['Spectroscopic_Values']], is_spec=True)),
            ('get_sort_order', lambda: hu.get_sort_order(main.file[main.attrs['Spectroscopic_Indices']])),
            ('get_dimensionality', lambda: hu.get_dimensionality(main.file[main.attrs['Spectroscopic_Indices']])),
            ('print_tree', lambda: hu.print_tree(f)),
            ('get_dims_for_slice', lambda: wrapper()._get_dims_for_slice(rand_slice())),
        ]
        return calls

    inj.install()
    try:
        for si in range(n_seq):
            lay = gen.random_layout(rng, max_dims=2, max_size=3, max_elems=120)
            while gc.dims_ge_points(lay):
                lay = gen.random_layout(rng, max_dims=2, max_size=3, max_elems=120)
            make_file(lay)
            mode = 'r' if si % 2 == 0 else 'r+'
            hist['read_only_handle' if mode == 'r' else 'writable_handle'] += 1
            sha0 = file_sha(path)
            with h5py.File(path, 'r') as f0:
                dump0 = dump(f0)
            names = []
            with h5py.File(path, mode) as f:
                calls = read_calls(f, lay)
                seq = [rng.choice(calls) for _ in range(rng.randint(3, 8))]
                inj.count, inj.events, inj.crash_at, inj.active = 0, [], None, True
                try:
                    for label, thunk in seq:
                        names.append(label)
                        hist['calls'][label] = hist['calls'].get(label, 0) + 1
                        try:
                            with common.quiet():
                                thunk()
                        except Exception as e:
                            violate('read-side call ' + label, 'file_opened_' + mode, 'read_call_raises', '%r in sequence %s on %s' % (e, names, lay.describe()),
                                    {'sequence': names, 'layout': lay.describe(), 'mode': mode})
                finally:
                    inj.active = False
                wrote = [e for e in inj.events if not e.endswith('.flush')]
                hist['tracer_events_during_reads'] += len(wrote)
                if wrote:
                    violate('read-side sequence', 'file_opened_' + mode, 'write_primitive_executed_during_read_calls', '%s during %s' % (wrote[:5], names),
                            {'sequence': names, 'layout': lay.describe(), 'mode': mode})
                if mode == 'r+':
                    f.flush()
                    if dump(f) != dump0:
                        violate('read-side sequence', 'file_opened_r+', 'dataset_or_attribute_changed', 'after %s' % names, {'sequence': names, 'layout': lay.describe()})
            if mode == 'r' and file_sha(path) != sha0:
                violate('read-side sequence', 'file_opened_r', 'file_bytes_changed', 'after %s' % names, {'sequence': names, 'layout': lay.describe()})
            hist['sequences'] += 1
            distinct.add(tuple(names))
            if len(out.samples) < 4:
                out.samples.append({'mode': mode, 'layout': lay.describe(), 'calls': names})
        # ---------------- write-side entry points against a read-only handle: must raise, must not change the file
        lay = gen.Layout([2, 3], [1, 0], [2], [0])
        make_file(lay)
        sha0 = file_sha(path)
        with h5py.File(path, 'r') as f:
            main = f['Measurement_000/Channel_000/Raw_Data']
            grp = main.parent
            with common.quiet():
                u = usid.USIDataset(main)
            dims = [usid.Dimension('X', 'a', 2)]
            writers = [
                ('write_main_dataset', lambda: hu.write_main_dataset(grp, np.zeros((2, 2)), 'New', 'q', 'u', dims, dims)),
                ('write_ind_val_dsets', lambda: hu.write_ind_val_dsets(grp.require_group('x') if False else grp, dims, is_spectral=True, base_name='New_Spec')),
                ('create_indexed_group', lambda: hu.create_indexed_group(grp, 'Grp')),
                ('create_results_group', lambda: hu.create_results_group(main, 'Tool')),
                ('create_empty_dataset', lambda: hu.create_empty_dataset(main, np.float32, 'Empty')),
                ('write_reduced_anc_dsets', lambda: hu.write_reduced_anc_dsets(grp, u.h5_pos_inds, u.h5_pos_vals, lay.pos_labels[0], basename='Red', is_spec=False)),
                ('copy_main_attributes', lambda: hu.copy_main_attributes(main, grp['Position_Indices'])),
                ('slice_to_dataset', lambda: u.slice_to_dataset({lay.pos_labels[0]: 0})),
                ('reduce_to_hdf5', lambda: u.reduce([lay.pos_labels[0]], to_hdf5=True)),
                ('create_empty_dataset_existing_compatible', lambda: hu.create_empty_dataset(main, np.float32, 'Earlier_Empty')),
                ('check_and_link_ancillary_relink_from_main', lambda: hu.check_and_link_ancillary(
                    grp['Earlier_Empty'], ['Position_Indices', 'Position_Values', 'Spectroscopic_Indices', 'Spectroscopic_Values'], h5_main=main)),
                ('check_and_link_ancillary_refs', lambda: hu.check_and_link_ancillary(
                    grp['Earlier_Empty'], ['Position_Indices'], anc_refs=[grp['Position_Indices'].ref])),
                ('link_as_main', lambda: hu.link_as_main(grp['Earlier_Empty'], grp['Position_Indices'], grp['Position_Values'],
                                                         grp['Spectroscopic_Indices'], grp['Spectroscopic_Values'])),
                ('Process', lambda: procutil.MapProc(main)),
                ('Process.compute', lambda: procutil.MapProc(main).compute(override=True)),
                # the same with earlier results of the very same process in the target: complete (Fit_000) and partial (Fit_001)
                ('Process_with_complete_results', lambda: procutil.MapProc(main, name='Fit')),
                ('Process_with_partial_results', lambda: procutil.MapProc(main, name='Fit', parms={'parm_1': 2})),
                ('Process.compute_with_partial_results', lambda: procutil.MapProc(main, name='Fit', parms={'parm_1': 2}).compute()),
            ]
            for label, thunk in writers:
                hist['write_entry_points_on_readonly'] += 1
                try:
                    with common.quiet():
                        thunk()
                    violate('write-side entry point ' + label, 'read_only_target', 'did_not_raise', label, {'entry_point': label})
                except Exception:
                    pass
        if file_sha(path) != sha0:
            violate('write-side entry points', 'read_only_target', 'file_bytes_changed', 'after the refused write calls', {})
    finally:
        inj.uninstall()
    out.evaluations = hist['sequences'] + hist['write_entry_points_on_readonly']
    out.distinct_nontrivial = len(distinct)
    out.rule = ('sequences of 3..8 read-side calls (22 kinds: recognise, wrap, print, search, reshape eager/lazy, toggle, slice N-D / 2-D, reduce in memory, unit '
                'values, look up earlier results, compare parameters, print_tree) with generated arguments on generator files opened "r" (SHA-256 of the '
                'file before/after) and "r+" (canonical dump of every dataset and attribute before/after), a dynamic tracer on every h5py write entry '
                'point; 18 write-side entry points (incl. re-creating / re-linking an existing placeholder, Process on a target that already holds complete / partial results of the same process) against a read-only handle; non-trivial = distinct call sequence')
    out.histogram = hist
    an = effects.build(ctx.repo)
    out.extra = {'graph_nodes': len(an.funcs), 'read_entry_points': len(effects.READ_ENTRY_POINTS), 'exhaustive_graph': True,
                 'functions_with_unclassified_calls_outside_read_paths': sorted(q for q, i in an.funcs.items() if i.unclassified)[:30]}
    out.trusted = ['effect analysis harness/effects.py: name-based call resolution and the reviewed tables of external pure / writing callables',
                   'the "write-side entry points raise" clause is decided by enumeration of the listed entry points, not by a theorem (partial)']
    return out
