"""C13 -- indexed and results groups get fresh, monotone, collision-free names."""
import os
import re

import h5py
import numpy as np

import common
from common import cbool, clist, cpair, copt

PID = 'C13'
PROP_V = 'Props/C13.v'
CORR_V = ('Corr/CorrC13.v',)
HEADER = 'From Coq Require Import String.\nRequire Import V.Corr.CorrC13.\nOpen Scope string_scope.\n'

# closed under prefix / substring / digit-suffix relations
BASES = ['A', 'A_B', 'A_A', 'AB', 'Fit', 'Fit_001', 'Fit2', 'SHO_Fit', 'Meas', 'Measure', 'Meas_Chan', 'C', 'C_C', 'X_1', 'X', 'A.B', 'AxB', 'Fit(2)', 'cost_$', '^top']
DSETS = ['Raw', 'Raw_Data', 'Data', 'Raw2', 'Raw_Data_2', 'D']
TOOLS = ['Fit', 'SHO_Fit', 'Fit2', 'Fitter', 'Mean', 'Mean_Val', 'Mean-Val', 'F', 'Fit_2', 'Mean_Val_07', 'Fit_', 'SHO-', 'Fit(2)', 'a|b']      # a trailing '_' / '-' (the latter is rewritten to '_') belongs to the tool name


def cs(s):
    return '"' + s + '"'


def run(ctx, build):
    from pyUSID.io.hdf_utils import create_indexed_group, create_results_group, find_results_groups, get_source_dataset
    out = common.Outcome()
    rng = ctx.rng
    n_hist = 130 if ctx.quick() else 3000
    max_ops = 9 if ctx.quick() else 14
    cases, meta = [], []
    hist = {'ops': {}, 'raised': 0, 'histories': 0, 'prefix_pairs_present': 0, 'deletes': 0, 'gaps_in_numbering': 0}
    distinct = set()
    path = os.path.join(ctx.tmp, 'c13.h5')

    def violate(site, cls, mode, what, case):
        out.violations.append({'call_site': site, 'input_class': cls, 'failure_mode': mode, 'what': what, 'case': case})

    for hi in range(n_hist):
        with h5py.File(path, 'w') as f:
            home = f.create_group('P')          # where the source datasets live
            # where the groups are created: next to the datasets (default), in another group of the same file, or in another file
            where = rng.choice(['default', 'default', 'same_file_other_group', 'same_file_root', 'other_file'])
            hist['parent_' + where] = hist.get('parent_' + where, 0) + 1
            f2 = None
            if where == 'default':
                root = home
            elif where == 'same_file_other_group':
                root = f.create_group('Q')
            elif where == 'same_file_root':
                root = f
            else:
                f2 = h5py.File(path + '.other.h5', 'w')
                root = f2.create_group('R')
            init = [('P', True)] if where == 'same_file_root' else ([('Q', True)] if False else [])
            if where == 'same_file_root':
                pass
            dsets = rng.sample(DSETS, rng.randint(2, 4))
            for dn in dsets:
                home.create_dataset(dn, data=np.arange(3))
                if where == 'default':
                    init.append((dn, False))
            if where == 'same_file_root':
                init = [(k, isinstance(f[k], h5py.Group)) for k in f.keys()]
            # unrelated siblings: groups and datasets that are NOT of the form <base>_<digits>
            for nm in rng.sample(['Other', 'misc_data', 'A_notes', 'Fit_log', 'Raw-extra', 'zzz'], rng.randint(0, 3)):
                if rng.random() < 0.5:
                    root.create_group(nm)
                    init.append((nm, True))
                else:
                    root.create_dataset(nm, data=[1])
                    init.append((nm, False))
            # pre-existing numbered groups (gaps in the numbering, numbers beyond 999, numbers of another base)
            for nm in rng.sample(['A_007', 'A_B_002', 'Fit_001_004', 'Fit_1000', 'Meas_003', 'Raw-Fit_005', 'Raw_Data-Fit_002', 'C_C_005', 'X_1_000'],
                                 rng.randint(0, 3)):
                if nm not in root:
                    root.create_group(nm)
                    init.append((nm, True))
            # designed histories (independent of the seed): numbers of different widths under one base (unpadded next to padded,
            # beyond 999), for indexed and for results groups; the first operations are then creations for exactly that base
            script = []
            if hi < 8:
                pre, script = [(['A_7', 'A_010', 'A_011'], [('idx', 'A'), ('idx', 'A')]),
                               (['Fit_999', 'Fit_1000'], [('idx', 'Fit'), ('idx', 'Fit')]),
                               (['Raw-Fit_9', 'Raw-Fit_010'], [('res', 'Raw', 'Fit'), ('res', 'Raw', 'Fit')]),
                               (['Raw-Fit_999', 'Raw-Fit_1000', 'Raw-Fit_2_003'], [('res', 'Raw', 'Fit'), ('res', 'Raw', 'Fit_2')]),
                               (['X_1_9', 'X_1_10', 'X_5'], [('idx', 'X_1'), ('idx', 'X')]),
                               (['C_99', 'C_100', 'C_C_100'], [('idx', 'C'), ('idx', 'C_C')]),
                               (['Raw-Fit_001'], [('res', 'Raw', 'Fit_'), ('res', 'Raw', 'Fit'), ('res', 'Raw', 'Fit_'), ('res', 'Raw', 'SHO-')]),
                               (['AxB_007', 'Fit2_003'], [('idx', 'A.B'), ('idx', 'A.B'), ('idx', 'Fit(2)'), ('idx', 'Fit(2)'), ('res', 'Raw', 'Fit(2)'),
                                                         ('res', 'Raw', 'Fit(2)'), ('res', 'Raw', 'a|b'), ('idx', 'cost_$'), ('idx', 'cost_$')])][hi]
                for nm in pre:
                    if nm not in root:
                        root.create_group(nm)
                        init.append((nm, True))
                if 'Raw' not in dsets:
                    dsets.append('Raw')
                    home.create_dataset('Raw', data=np.arange(3))
                    if where == 'default':
                        init.append(('Raw', False))
            # results created BESIDE the source datasets earlier on must not influence the numbering in another parent
            if where != 'default':
                for dn in dsets[:2]:
                    for _ in range(2):
                        with common.quiet():
                            create_results_group(home[dn], 'Fit')
                hist['results_beside_source_before_explicit_parent'] = hist.get('results_beside_source_before_explicit_parent', 0) + 1
                if where == 'same_file_root':
                    init = [(k, isinstance(f[k], h5py.Group)) for k in f.keys()]
            ops, log = [], []
            created = {}          # oracle bookkeeping: name -> ('idx', base) | ('res', dset, tool)
            for nm, is_grp in init:
                # a pre-existing group named <dataset>-<tool>_<digits> IS a results group of that pair
                mm = re.fullmatch(r'([^-]+)-(.+)_([0-9]+)', nm)
                if is_grp and mm:
                    created[nm] = ('res', mm.group(1), mm.group(2), 'pre-existing')
            deleted_ever = set()
            n_ops = max(rng.randint(3, max_ops), len(script) + 2)
            bases = rng.sample(BASES, rng.randint(2, 5))
            tools = rng.sample(TOOLS, rng.randint(2, 4))
            if any(a != b and (b.startswith(a) or a in b) for a in bases + tools + dsets for b in bases + tools + dsets):
                hist['prefix_pairs_present'] += 1
            for oi in range(n_ops):
                r = rng.random()
                forced_op = script.pop(0) if script else None
                if forced_op:
                    r = 0.1 if forced_op[0] == 'idx' else 0.5
                groups_now = [k for k in root.keys() if isinstance(root[k], h5py.Group)]
                numbered = [k for k in groups_now if re.fullmatch(r'.*_[0-9]+', k) and k != 'P']
                if numbered and rng.random() < 0.25 and not forced_op:
                    # delete a numbered group that is not the last of its base (makes a gap), the next creation follows
                    r = 0.75
                    groups_now_for_delete = numbered
                else:
                    groups_now_for_delete = groups_now
                if r < 0.35:
                    base = rng.choice(bases)
                    if rng.random() < 0.2:
                        base = base + '_'
                    if forced_op:
                        base = forced_op[1]
                    before = set(root.keys())
                    try:
                        with common.quiet():
                            g = create_indexed_group(root, base)
                        name = g.name.split('/')[-1]
                    except Exception as e:
                        name = None
                        hist['raised'] += 1
                    ops.append('OIdx %s %s' % (cs(base), copt(name, cs)))
                    log.append(('create_indexed_group', base, name))
                    hist['ops']['idx'] = hist['ops'].get('idx', 0) + 1
                    # ---- oracle
                    b = base if base.endswith('_') else base + '_'
                    used = [int(k[len(b):]) for k in groups_now if k.startswith(b) and re.fullmatch(r'[0-9]+', k[len(b):])]
                    want = b + '%03d' % (max(used) + 1 if used else 0)
                    if name is None:
                        violate('hdf_utils.create_indexed_group', 'any', 'creation_raises', 'base %r with members %s' % (base, sorted(before)), {'log': log})
                    elif name != want or name in before:
                        violate('hdf_utils.create_indexed_group', 'any', 'name_not_fresh_or_not_next', 'base %r -> %r, expected %r; members %s' % (base, name, want, sorted(before)), {'log': log})
                    elif set(root.keys()) - before != {name}:
                        violate('hdf_utils.create_indexed_group', 'any', 'other_objects_disturbed', str(log), {'log': log})
                    if name:
                        created[name] = ('idx', b)
                elif r < 0.7:
                    dn, tool = rng.choice(dsets), rng.choice(tools)
                    if forced_op:
                        dn, tool = forced_op[1], forced_op[2]
                    before = set(root.keys())
                    try:
                        with common.quiet():
                            g = create_results_group(home[dn], tool, h5_parent_group=None if where == 'default' else root)
                        name = g.name.split('/')[-1]
                    except Exception as e:
                        name = None
                        hist['raised'] += 1
                    ops.append('ORes %s %s %s' % (cs(dn), cs(tool), copt(name, cs)))
                    log.append(('create_results_group', dn, tool, name))
                    hist['ops']['res'] = hist['ops'].get('res', 0) + 1
                    t2 = tool.replace('-', '_')
                    b = dn + '-' + t2 + '_'
                    used = [int(k[len(b):]) for k in groups_now if k.startswith(b) and re.fullmatch(r'[0-9]+', k[len(b):])]
                    want = b + '%03d' % (max(used) + 1 if used else 0)
                    if name is None:
                        violate('hdf_utils.create_results_group', 'any', 'creation_raises', str(log[-1]), {'log': log})
                    elif name != want or name in before:
                        violate('hdf_utils.create_results_group', 'any', 'name_not_fresh_or_not_next', '%s -> %r expected %r' % (log[-1], name, want), {'log': log})
                    else:
                        g = root[name]
                        tool_attr = g.attrs.get('tool')
                        tool_attr = tool_attr.decode() if isinstance(tool_attr, bytes) else tool_attr
                        if where == 'other_file':
                            src_ok = True      # the source can only be recorded within one file
                        else:
                            src_ok = 'source_000' in g.attrs and f[g.attrs['source_000']].name == home[dn].name
                        if tool_attr != t2 or not src_ok:
                            violate('hdf_utils.create_results_group', 'any', 'tool_or_source_not_recorded', str(log[-1]), {'log': log})
                    if name:
                        created[name] = ('res', dn, t2)
                elif r < 0.8 and groups_now:
                    victim = rng.choice([g for g in groups_now_for_delete if g != 'P'] or groups_now)
                    if victim == 'P':
                        continue
                    del root[victim]
                    created.pop(victim, None)
                    deleted_ever.add(victim)
                    ops.append('ODel %s' % cs(victim))
                    log.append(('delete', victim))
                    hist['deletes'] += 1
                elif r < 0.93:
                    dn, tool = rng.choice(dsets), rng.choice(tools)
                    with common.quiet():
                        found = sorted(g.name.split('/')[-1] for g in find_results_groups(home[dn], tool, h5_parent_group=None if where == 'default' else root))
                    ops.append('OFind %s %s %s' % (cs(dn), cs(tool), clist(found, cs)))
                    log.append(('find_results_groups', dn, tool, found))
                    hist['ops']['find'] = hist['ops'].get('find', 0) + 1
                    want = sorted(n for n, v in created.items() if v[0] == 'res' and v[1] == dn and v[2] == tool.replace('-', '_'))
                    if found != want:
                        violate('hdf_utils.find_results_groups', 'any', 'lookup_not_exact', '(%s,%s) -> %s, created for the pair: %s' % (dn, tool, found, want), {'log': log})
                else:
                    res_groups = [n for n, v in created.items() if v[0] == 'res' and len(v) == 3]      # made by create_results_group (source recorded)
                    if not res_groups or where != 'default':
                        continue
                    gname = rng.choice(res_groups)
                    try:
                        with common.quiet():
                            src = get_source_dataset(root[gname])
                        got = src.name.split('/')[-1]
                    except TypeError:
                        # the source is found but is not a Main dataset here (plain datasets): the name lookup itself worked
                        got = created[gname][1]
                    except Exception as e:
                        got = None
                    ops.append('OSrc %s %s' % (cs(gname), copt(got, cs)))
                    log.append(('get_source_dataset', gname, got))
                    hist['ops']['src'] = hist['ops'].get('src', 0) + 1
                    if got != created[gname][1]:
                        violate('hdf_utils.get_source_dataset', 'any', 'source_not_recovered', '%s -> %s' % (gname, got), {'log': log})
            if f2 is not None:
                f2.close()
            hist['histories'] += 1
            cases.append(cpair(clist(init, lambda e: cpair(cs(e[0]), cbool(e[1]))), clist(ops)))
            meta.append({'initial': init, 'log': log})
            if len(log) >= 4:
                distinct.add(tuple(map(str, log)))
            if len(out.samples) < 3:
                out.samples.append({'initial_members': init, 'history': log})
    # ---- designed (oracle only): the source dataset is reached through another group (a second hard link, a soft link): results
    # created for that handle must be found again through that handle, and their source recovered
    hist['alias_handles'] = 0
    with h5py.File(path, 'w') as f:
        home = f.create_group('Measurement_000/Channel_000')
        home.create_dataset('Raw', data=np.arange(3))
        home.create_dataset('Data', data=np.arange(4))
        views = f.create_group('Views')
        views['Raw'] = h5py.SoftLink('/Measurement_000/Channel_000/Raw')
        views['Data'] = home['Data']
        for alias in ('/Views/Raw', '/Views/Data'):
            hist['alias_handles'] += 1
            made = []
            try:
                with common.quiet():
                    for _ in range(2):
                        made.append(create_results_group(f[alias], 'Fit').name)
                    create_results_group(f[alias], 'Fit_2')
                    found = sorted(g.name for g in find_results_groups(f[alias], 'Fit'))
                    srcs = [f[f[m0].attrs['source_000']].name for m0 in made]       # the recorded source (raw h5py)
                if found != sorted(made):
                    violate('hdf_utils.find_results_groups', 'dataset_reached_through_another_group', 'lookup_not_exact',
                            '%s: found %s, created %s' % (alias, found, made), {'alias': alias})
                if any(f[s0] != f[alias] for s0 in srcs):
                    violate('hdf_utils.create_results_group', 'dataset_reached_through_another_group', 'tool_or_source_not_recorded', '%s -> %s' % (alias, srcs), {'alias': alias})
            except Exception as e:
                violate('hdf_utils.create_results_group / find_results_groups', 'dataset_reached_through_another_group', 'raises', '%r for %s' % (e, alias), {'alias': alias})
    bad, err = common.coq_eval_cases(ctx, HEADER, cases, 'check13', case_type='case13', per_file=200)
    out.corr_error = err
    out.disagreements = [meta[i] for i in bad]
    out.evaluations = len(cases)
    out.distinct_nontrivial = len(distinct)
    out.rule = ('histories of %d..%d operations (create_indexed_group / create_results_group / delete / find_results_groups / get_source_dataset) over a '
                'vocabulary closed under prefix, substring and digit-suffix relations (A, A_B, A_A, Fit, Fit_001, Fit2, SHO_Fit, Raw, Raw_Data, ...), '
                'unrelated sibling groups/datasets present; every operation is judged by an oracle that tracks what was created for which pair; '
                'non-trivial = history with >= 4 operations (distinct)' % (3, max_ops))
    out.histogram = hist
    out.trusted = ['h5py iterates members in name order (ASCII names); str.isdigit / startswith / format as mirrored in H5/Naming.v',
                   'names are ASCII without "/"; siblings of the form <base>_<digits> that are datasets are not generated (stated hypothesis of the theorem)']
    return out
