"""C18 -- an empty dataset made from a Main dataset is a compatible Main sibling."""
import os

import h5py
import numpy as np

import common
from common import cnat, cbool, clist, cpair, cstr, copt
import gen
from props import c06
from props.c02 import dump_group

PID = 'C18'
PROP_V = 'Props/C18.v'
CORR_V = ('Corr/CorrC18.v',)
HEADER = 'Require Import V.H5.Naming V.H5.IsMain V.H5.EmptyDset V.Corr.CorrC18.\n'

CODES = {TypeError: 1, ValueError: 2, KeyError: 3, NotImplementedError: 4}
BK = ('timestamp', 'machine_id', 'platform', 'pyUSID_version', 'sidpy_version')
COMPR = {None: 0, 'gzip': 1, 'lzf': 2}
REQ_DTYPES = {'f4': np.float32, 'f8': np.float64, 'i4': np.int32, 'c8': np.complex64, 'cmp': gen.DTYPES['cmp'], 'u1': np.uint8}


class Tables:
    def __init__(self):
        self.strings, self.values, self.dtypes, self.contents, self.objs = [], {}, [], {}, {}

    def vid(self, v):
        a = np.asarray(v)
        key = (str(a.dtype.kind), repr(a.tolist()))
        if key not in self.values:
            self.values[key] = len(self.values) + 1
        return self.values[key]

    def dt(self, d):
        s = str(np.dtype(d))
        if s not in self.dtypes:
            self.dtypes.append(s)
        return self.dtypes.index(s)

    def content(self, ds):
        a = np.asarray(ds[()])
        if a.dtype.names:
            zero = all(not np.any(a[n]) for n in a.dtype.names)
        else:
            zero = not np.any(a)
        if zero:
            return 0
        key = a.tobytes()
        if key not in self.contents:
            self.contents[key] = len(self.contents) + 1
        return self.contents[key]

    def obj(self, h):
        key = (h.file.filename, h.name)
        if key not in self.objs:
            self.objs[key] = len(self.objs) + 1
        return self.objs[key]


def is_str_val(v):
    return isinstance(v, (str, bytes, np.bytes_, np.str_))


def c_aval(t, obj, key, src_file, dest_grp):
    v = obj.attrs[key]
    if isinstance(v, h5py.RegionReference):
        return 'ARegion'
    if isinstance(v, h5py.Reference):
        try:
            tg = obj.file[v]
        except Exception:
            return '(ARef 0)'
        if tg.file.filename == src_file.filename:
            return '(ARef %d)' % t.obj(tg)
        if dest_grp is not None and tg.parent == dest_grp:
            return '(ALocal (s_of %s))' % cstr(tg.name.split('/')[-1])
        return '(ALocal (s_of %s))' % cstr(tg.name)
    if key in BK:
        return '(ASimple true 0)'
    if is_str_val(v):
        v = v.decode() if isinstance(v, bytes) else str(v)
    return '(ASimple %s %d)' % (cbool(is_str_val(v)), t.vid(v))


def c_attrs(t, obj, src_file, dest_grp, as_obs=False):
    items = []
    for k in obj.attrs.keys():
        ks = cstr(k) if as_obs else '(s_of %s)' % cstr(k)
        items.append('(%s, %s)' % (ks, c_aval(t, obj, k, src_file, dest_grp)))
    return clist(items)


def c_attrd(t, h, key):
    code, vals = c06.attr_desc(h, key)
    return cpair(cnat(code), clist([t_sid(t, x) for x in vals], cnat))


def t_sid(t, s):
    if s not in t.strings:
        t.strings.append(s)
    return t.strings.index(s)


def c_ds(t, h, src_file, dest_grp):
    return '(mkDs %s %d %s %d %d %s %s %s)' % (clist(list(h.shape), cnat), t.dt(h.dtype), clist(list(h.chunks) if h.chunks else [], cnat),
                                                COMPR.get(h.compression, 3), t.content(h), c_attrd(t, h, 'labels'), c_attrd(t, h, 'units'),
                                                c_attrs(t, h, src_file, dest_grp))


def c_group(t, grp, src_file):
    items = []
    for name in grp.keys():
        o = grp[name]
        items.append('(s_of %s, %s)' % (cstr(name), ('MDset %s' % c_ds(t, o, src_file, grp)) if isinstance(o, h5py.Dataset) else 'MGroup'))
    return clist(items)


def c_heap(t, main, src_file):
    items = []
    for k in main.attrs.keys():
        v = main.attrs[k]
        if isinstance(v, h5py.Reference) and not isinstance(v, h5py.RegionReference):
            try:
                tg = src_file[v]
            except Exception:
                continue
            items.append('(%d, %s)' % (t.obj(tg), ('MDset %s' % c_ds(t, tg, src_file, None)) if isinstance(tg, h5py.Dataset) else 'MGroup'))
    return clist(items)


def run(ctx, build):
    import pyUSID as usid
    from pyUSID.io import hdf_utils as hu
    out = common.Outcome()
    rng = ctx.rng
    n_hist = 70 if ctx.quick() else 900
    cases, meta = [], []
    hist = {'histories': 0, 'calls': 0, 'accepted': 0, 'rejected': 0, 'destination': {'same_group': 0, 'other_group': 0, 'other_file': 0}, 'name_state': {},
            'requested_dtype': {}, 'source_dtype': {}, 'new_attrs': {}, 'skip_refs': 0, 'exceptions': {}}
    distinct = set()
    paths = [os.path.join(ctx.tmp, 'c18_src.h5'), os.path.join(ctx.tmp, 'c18_dst.h5')]

    def violate(cls, mode, what, case):
        out.violations.append({'call_site': 'create_empty_dataset', 'input_class': cls, 'failure_mode': mode, 'what': what, 'case': case})
    for hi in range(n_hist):
        for p in paths:
            if os.path.exists(p):
                os.remove(p)
        t = Tables()
        lay = gen.random_layout(rng, max_dims=2, max_size=3, max_elems=60, dtypes=('f8', 'f4', 'i4', 'c16', 'cmp'))
        compression = rng.choice([None, None, 'gzip', 'lzf'])
        chunks = (max(1, lay.N // 2), lay.M) if (compression or rng.random() < 0.4) else None
        with h5py.File(paths[0], 'w') as f, h5py.File(paths[1], 'w') as fo:
            # every third source was allocated with a non-zero HDF5 fill value: the new dataset is still empty (zero)
            fillvalue = {'f8': np.nan, 'f4': -1.0, 'i4': -1}.get(lay.dtype) if hi % 3 == 0 else None
            hist['source_with_nonzero_fill_value'] = hist.get('source_with_nonzero_fill_value', 0) + int(fillvalue is not None)
            main = gen.write_layout(f, lay, chunks=chunks, compression=compression, fillvalue=fillvalue)
            extra = rng.choice([{}, {'extra': 5}, {'note': 'hello', 'vec': [1, 2, 3]}, {'scale': 2.5}])
            for k, v in extra.items():
                main.attrs[k] = v
            if rng.random() < 0.25:
                aux = main.parent.create_dataset('Aux_Data', data=np.arange(4))
                main.attrs['Aux_Link'] = aux.ref
            if rng.random() < 0.2:
                main.attrs['first_rows'] = main.regionref[0:1, :]
            dest_kind = rng.choice(['same_group', 'same_group', 'other_group', 'other_file'])
            if dest_kind == 'same_group':
                dest, dest_arg = main.parent, None
                if rng.random() < 0.3:
                    dest_arg = main.parent
            elif dest_kind == 'other_group':
                dest = dest_arg = f.create_group('Results/Group_000')
            else:
                dest = dest_arg = fo.create_group('Copy/Group_000')
            # prior members of the destination
            if rng.random() < 0.3:
                dest.create_group('Unrelated_Group')
            if dest_kind == 'other_file' and rng.random() < 0.35:
                kind = rng.choice(['equal', 'different', 'group'])
                nm = rng.choice(c06.ANC)
                srcd = main.parent[nm]
                if kind == 'group':
                    dest.create_group(nm)
                else:
                    arr = srcd[()].copy()
                    if kind == 'different':
                        arr.flat[-1] += 1
                    gen.write_anc(dest, nm, arr, ['old'] * len(srcd.attrs['labels']), ['o'] * len(srcd.attrs['labels']), arr.dtype)
            name = rng.choice(['New', 'Fit-Guess', 'Result_2', 'a-b-c'])
            hist['histories'] += 1
            names_seq = []
            for ci in range(rng.randint(1, 3)):
                # ---- what the name holds now
                req_dt = rng.choice(list(REQ_DTYPES))
                if fillvalue is not None and ci == 0 and lay.dtype in REQ_DTYPES:
                    req_dt = lay.dtype                                # designed: the source's own element type (and its fill value is not zero)
                if ci > 0 and rng.random() < 0.6:
                    req_dt = prev_dt                                  # ask again for the same thing
                call_name = name
                r = rng.random()
                bad = None
                if r < 0.05:
                    bad = 'name_not_string'
                elif r < 0.09:
                    bad = 'dtype_invalid'
                elif r < 0.13:
                    bad = 'new_attrs_not_dict'
                elif r < 0.17:
                    bad = 'group_arg_not_group'
                elif r < 0.21:
                    bad = 'source_not_dataset'
                elif r < 0.30 and ci == 0:
                    bad = 'name_is_group'
                    dest.create_group(name.replace('-', '_'))
                elif r < 0.38 and ci == 0:
                    bad = 'existing_incompatible'
                    dest.create_dataset(name.replace('-', '_'), data=np.ones((2, 2)))
                new_attrs = rng.choice([None, None, {'zeta': 1}, {'quantity': 'Force', 'label': 'fit'}, {'units': 'pN'},
                                        {'iteration': 0, 'extra': 0}, {'converged': False, 'offset': 0.0, 'scale': 0.0}])
                skip_refs = rng.random() < 0.15
                clean = name.replace('-', '_')
                state = 'absent'
                before_obj = None
                if clean in dest:
                    o = dest[clean]
                    if not isinstance(o, h5py.Dataset):
                        state = 'non_dataset'
                    elif o.shape == main.shape and o.dtype == np.dtype(REQ_DTYPES[req_dt]):
                        state = 'compatible_dataset'
                        before_obj = o[()]
                    else:
                        state = 'incompatible_dataset'
                hist['name_state'][state] = hist['name_state'].get(state, 0) + 1
                hist['requested_dtype'][req_dt] = hist['requested_dtype'].get(req_dt, 0) + 1
                hist['source_dtype'][lay.dtype] = hist['source_dtype'].get(lay.dtype, 0) + 1
                hist['new_attrs'][str(sorted(new_attrs)) if new_attrs else 'none'] = hist['new_attrs'].get(str(sorted(new_attrs)) if new_attrs else 'none', 0) + 1
                hist['destination'][dest_kind] += 1
                hist['skip_refs'] += int(skip_refs)
                hist['calls'] += 1
                g_term = c_group(t, dest, f)
                src_term = c_ds(t, main, f, None)
                heap_term = c_heap(t, main, f)
                new_term = clist(['(s_of %s, ASimple %s %d)' % (cstr(k), cbool(is_str_val(v)), t.vid(v)) for k, v in (new_attrs or {}).items()])
                req_term = '(mkReq %s %s %s %s %d %s false %s %s %s %s %s)' % (
                    cbool(bad != 'source_not_dataset'), src_term, heap_term, cbool(bad != 'dtype_invalid'), t.dt(REQ_DTYPES[req_dt]),
                    'None' if bad == 'name_not_string' else '(Some (s_of %s))' % cstr(call_name), cbool(bad != 'group_arg_not_group'),
                    cbool(dest_kind == 'other_file'), cbool(bad != 'new_attrs_not_dict'), new_term, cbool(skip_refs))
                before_dump = dump_group(dest)
                src_dump = dump_group(main.parent) if dest_kind != 'same_group' else None
                code, exc, ret = 0, None, None
                try:
                    with common.quiet():
                        ret = hu.create_empty_dataset(main.parent if bad == 'source_not_dataset' else main,
                                                      'not a dtype' if bad == 'dtype_invalid' else REQ_DTYPES[req_dt],
                                                      7 if bad == 'name_not_string' else call_name,
                                                      h5_group='nope' if bad == 'group_arg_not_group' else dest_arg,
                                                      new_attrs=5 if bad == 'new_attrs_not_dict' else new_attrs, skip_refs=skip_refs)
                except Exception as e:
                    exc = e
                    code = 5
                    for cls, c in CODES.items():
                        if isinstance(e, cls):
                            code = c
                            break
                desc = {'layout': lay.describe(), 'chunks': chunks, 'compression': compression, 'destination': dest_kind, 'name': call_name, 'call_number': ci + 1,
                        'name_state_before': state, 'requested_dtype': req_dt, 'new_attrs': new_attrs, 'skip_refs': skip_refs, 'injected': bad,
                        'exception': repr(exc)[:200] if exc else None, 'members_before': sorted(before_dump), 'members_after': sorted(dest.keys())}
                hist['accepted' if code == 0 else 'rejected'] += 1
                if exc:
                    k = type(exc).__name__
                    hist['exceptions'][k] = hist['exceptions'].get(k, 0) + 1
                ok_term = 'None'
                cls = bad or state
                if code == 0:
                    new = dest[clean] if clean in dest else None
                    if new is None or not isinstance(new, h5py.Dataset) or ret is None or ret.name != new.name:
                        violate(cls, 'returned_dataset_not_under_requested_name', str(desc), desc)
                    else:
                        is_usid = isinstance(ret, usid.USIDataset)
                        ok_term = '(Some %s)' % cpair(cstr(clean), cpair(clist(list(new.shape), cnat), cnat(t.dt(new.dtype)), clist(list(new.chunks) if new.chunks else [], cnat),
                                                                     cnat(COMPR.get(new.compression, 3)), cnat(t.content(new))),
                                                      c_attrs(t, new, f, dest, as_obs=True), cbool(is_usid))
                        # ---------------- oracle
                        if bad in ('name_not_string', 'dtype_invalid', 'new_attrs_not_dict', 'group_arg_not_group', 'source_not_dataset', 'name_is_group'):
                            violate(cls, 'invalid_request_accepted', str(desc), desc)
                        if new.shape != main.shape or new.dtype != np.dtype(REQ_DTYPES[req_dt]):
                            violate(cls, 'shape_or_type_wrong', '%s %s' % (new.shape, new.dtype), desc)
                        if state == 'compatible_dataset':
                            now = new[()]
                            same = all(np.array_equal(now[nn], before_obj[nn]) for nn in now.dtype.names) if now.dtype.names else np.array_equal(now, before_obj)
                            if not same:
                                violate(cls, 'existing_contents_erased', str(desc), desc)
                        else:
                            if new.chunks != main.chunks or new.compression != main.compression:
                                violate(cls, 'chunking_or_compression_not_inherited', '%s %s vs %s %s' % (new.chunks, new.compression, main.chunks, main.compression), desc)
                            if t.content(new) != 0:
                                violate(cls, 'new_dataset_not_empty', str(desc), desc)
                        for k in main.attrs.keys():
                            v = main.attrs[k]
                            if isinstance(v, h5py.Reference):
                                continue
                            want = (new_attrs or {}).get(k, v)
                            got = new.attrs.get(k)
                            got = got.decode() if isinstance(got, bytes) else got
                            want = want.decode() if isinstance(want, bytes) else want
                            if got is None or not np.array_equal(np.asarray(got), np.asarray(want)):
                                violate(cls, 'descriptive_attribute_lost_or_wrong', '%s: %r vs %r' % (k, got, want), desc)
                        for k, v in (new_attrs or {}).items():
                            got = new.attrs.get(k)
                            got = got.decode() if isinstance(got, bytes) else got
                            if got is None or not np.array_equal(np.asarray(got), np.asarray(v)):
                                violate(cls, 'new_attribute_missing', '%s: %r' % (k, got), desc)
                        if not skip_refs:
                            d6 = c06.describe(new.file, new, t.strings)
                            if not c06.is_main_spec(d6) or not is_usid:
                                violate(cls, 'result_not_a_valid_main', str(d6)[:300], desc)
                            else:
                                for nm in c06.ANC:
                                    tg, sg = new.file[new.attrs[nm]], f[main.attrs[nm]]
                                    if dest_kind != 'other_file':
                                        if tg.name != sg.name:
                                            violate(cls, 'not_linked_to_the_source_ancillaries', nm, desc)
                                    else:
                                        lab = lambda h, kk: [x.decode() if isinstance(x, bytes) else str(x) for x in np.atleast_1d(h.attrs[kk])]
                                        if tg.file.filename != new.file.filename or not np.array_equal(tg[()], sg[()]) or lab(tg, 'labels') != lab(sg, 'labels') or lab(tg, 'units') != lab(sg, 'units'):
                                            violate(cls, 'ancillary_copy_not_faithful', nm, desc)
                        if src_dump is not None and dump_group(main.parent) != src_dump:
                            violate(cls, 'source_group_modified', '', desc)
                    prev_dt = req_dt
                    if rng.random() < 0.8 and clean in dest and isinstance(dest[clean], h5py.Dataset):
                        d = dest[clean]
                        val = np.zeros(d.shape, dtype=d.dtype)
                        if d.dtype.names:
                            val[d.dtype.names[0]] = (hi + ci) % 200 + 1
                        else:
                            val[...] = (hi + ci) % 200 + 1
                        d[...] = val
                else:
                    prev_dt = req_dt
                    if state == 'non_dataset' and bad in (None, 'name_is_group') and (code != 3 or dump_group(dest) != before_dump):
                        violate(cls, 'occupied_name_not_refused_cleanly', repr(exc), desc)
                    if bad is None and state != 'non_dataset':
                        dest_clash = dest_kind == 'other_file' and any(k in before_dump for k in c06.ANC)
                        if not dest_clash:
                            violate(cls, 'valid_request_rejected', repr(exc), desc)
                cases.append(cpair(g_term, req_term, cpair(cnat(code), clist([cstr(x) for x in sorted(dest.keys())]), ok_term)))
                meta.append(desc)
                distinct.add((dest_kind, state, bad, req_dt, lay.dtype, bool(new_attrs), skip_refs, compression, bool(chunks)))
                if len(out.samples) < 4 and ci == 1:
                    out.samples.append(desc)
    bad_i, err = common.coq_eval_cases(ctx, HEADER, cases, 'check18', case_type='case18', per_file=25)
    out.corr_error = err
    out.disagreements = [meta[i] for i in bad_i]
    out.evaluations = len(cases)
    out.distinct_nontrivial = len(distinct)
    out.rule = ('histories of 1-3 create_empty_dataset calls on generator Main datasets (5 dtypes incl. complex and compound, chunked / gzip / lzf / contiguous, extra '
                'attributes, an extra object reference, a region reference) into the source group, another group, or a group of another file (with equal / different / '
                'group-typed members named like the ancillaries), names with and without dashes, 6 requested dtypes, new attributes overriding quantity / units, skip_refs, '
                'data written between calls; injected defects: non-string name, invalid dtype, non-dict attributes, non-group destination, non-dataset source, name held by a '
                'group, name held by an incompatible dataset; non-trivial = distinct (destination, state of the name, defect, dtypes, attrs, skip, storage) configuration')
    out.histogram = hist
    out.trusted = ['sidpy copy_attributes / copy_linked_objects / copy_dataset / validate_dtype are mirrored from their source and observed behaviour',
                   'book-keeping attribute values (timestamp, machine) are abstracted to one identity']
    return out
