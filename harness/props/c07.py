"""C07 -- slicing returns exactly the selected elements, or refuses explicitly."""
import itertools
import os

import h5py
import numpy as np

import common
from common import cnat, cZ, cbool, clist, cpair
import gen
import gridcorr as gc

PID = 'C07'
PROP_V = 'Props/C07.v'
CORR_V = ('Corr/CorrC07.v',)
HEADER = 'Require Import V.Usid.Slice V.Corr.CorrC07.\n'
CODES = {'ValueError': 1, 'TypeError': 2, 'KeyError': 3, 'IndexError': 4, 'NotImplementedError': 5}


def csel(s):
    k = s[0]
    if k == 'absent':
        return 'SAbsent'
    if k == 'int':
        return '(SInt %s)' % cZ(s[1])
    if k == 'slice':
        return '(SSlice %s)' % clist(s[2], cnat)
    return '(SList %s)' % clist(s[1], cZ)


def pyval(s):
    k = s[0]
    if k == 'int':
        return s[1]
    if k == 'slice':
        return s[1]
    if k == 'list':
        return s[2](s[1])
    return None


def gen_sel(rng, size, allow_bad=False):
    """returns a selection descriptor: ('absent',) | ('int', i) | ('slice', sliceobj, resolved) | ('list', values, container)"""
    r = rng.random()
    if r < 0.35:
        return ('absent',)
    if allow_bad and rng.random() < 0.25:
        return rng.choice([('int', size), ('int', -1), ('int', size + 2), ('list', [0, size], list), ('list', [-1], list), ('list', [], list),
                           ('int', -size)])
    if r < 0.55:
        return ('int', rng.randrange(size))
    if r < 0.78:
        a = rng.randrange(size)
        b = rng.randint(a, size + 1)
        step = rng.choice([None, 1, 2, 3])
        if rng.random() < 0.2:
            a = None
        if rng.random() < 0.2:
            b = None
        s = slice(a, b, step)
        if rng.random() < 0.3:
            # Python's rules for negative bounds and for the open ends of a backward slice
            s = rng.choice([slice(None, None, -1), slice(size - 1, None, -1), slice(None, 0, -1), slice(-2, None), slice(0, -1), slice(-3, -1),
                            slice(None, None, -2), slice(-1, None, -1)])
        return ('slice', s, list(range(*s.indices(size))))
    vals = sorted(rng.sample(range(size), rng.randint(1, size)))
    if rng.random() < 0.3:
        rng.shuffle(vals)                      # order given by the caller
    if rng.random() < 0.15 and vals:
        vals = vals + [vals[0]]               # a repeated index
    cont = rng.choice([list, list, tuple, np.array])
    return ('list', vals, cont)


def run(ctx, build):
    import pyUSID as usid
    out = common.Outcome()
    rng = ctx.rng
    lays = [l for l in gc.layouts_for(ctx, 22 if ctx.quick() else 250, dtypes=('f8', 'i4', 'c16'), max_elems=200 if ctx.quick() else 800,
                                      max_dims=3, extra_exhaustive=False) if not gc.more_dims_than_points(l)]
    # a few longer dimensions, so that unevenly spaced index lists exist
    for ps, po, ss, so in (([6], [0], [5], [0]), ([2, 5], [0, 1], [6], [0]), ([2, 5], [1, 0], [2, 5], [1, 0]), ([5, 2], [0, 1], [7], [0]), ([8], [0], [3], [0]), ([2, 7], [1, 0], [2], [0])):
        lays.append(gen.Layout(ps, po, ss, so, dtype='f8'))
    acases, ameta, bcases, bmeta = [], [], [], []
    hist = {'layouts': 0, 'slices_2d': 0, 'slices_nd': 0, 'square_2d_results': 0, 'raised': {}, 'malformed_requests': 0, 'two_lists': 0,
            'sel_kinds': {}}
    distinct = set()
    path = os.path.join(ctx.tmp, 'c07.h5')
    per_layout = 16 if ctx.quick() else 40

    def violate(site, cls, mode, what, case):
        out.violations.append({'call_site': site, 'input_class': cls, 'failure_mode': mode, 'what': what, 'case': case})

    for li, lay in enumerate(lays):
        hist['layouts'] += 1
        with h5py.File(path, 'w') as f:
            main = gen.write_layout(f, lay)
            with common.quiet():
                u = usid.USIDataset(main)
                gen.Bystander.get(ctx.tmp).touch()
            exp = gc.expected_nd(lay)
            labels = lay.pos_labels + lay.spec_labels
            sizes = lay.pos_sizes + lay.spec_sizes
            kp = len(lay.pos_sizes)
            pos_m, spec_m = gc.mat(lay.pos_inds()), gc.mat(lay.spec_inds())
            ids = lay.main_ids()
            base = [cnat(lay.N), cnat(lay.M), gc.cmat(pos_m), gc.cmat(spec_m)]
            sorted_view = False
            for si in range(per_layout):
                bad = rng.random() < 0.2
                sels = [gen_sel(rng, sizes[d], allow_bad=bad) for d in range(len(sizes))]
                for dd in range(len(sizes)):
                    if sizes[dd] >= 5 and rng.random() < 0.4:
                        sels[dd] = ('list', sorted(rng.sample(range(sizes[dd]), rng.randint(3, 4))), rng.choice([list, tuple, np.array]))
                # designed selections (independent of the seed): an unevenly spaced list whose span is a multiple of (count - 1),
                # alone on one long dimension
                # ... and, on a dimension of 7 or more, lists that are uneven inside although first, second and last index fit
                # an even spacing
                designed = []
                for dd in range(len(sizes)):
                    if sizes[dd] >= 5:
                        designed += [(dd, [0, 1, 4]), (dd, [0, 3, 4])]
                    if sizes[dd] >= 7:
                        designed += [(dd, [0, 2, 3, 6]), (dd, [0, 2, 5, 6])]
                if si < len(designed):
                    dd, lst = designed[si]
                    sels = [('absent',)] * len(sizes)
                    sels[dd] = ('list', lst, list)
                    bad = False
                if rng.random() < 0.25:
                    # aim at a square 2-D result: pick the same number of rows and columns
                    pass
                d = {labels[i]: pyval(s) for i, s in enumerate(sels) if s[0] != 'absent'}
                for s in sels:
                    hist['sel_kinds'][s[0]] = hist['sel_kinds'].get(s[0], 0) + 1
                desc = {'layout': lay.describe(), 'slice_dict': {k: repr(v) for k, v in d.items()}}
                malformed = any((s[0] == 'int' and not (0 <= s[1] < sizes[i])) or
                                (s[0] == 'list' and (len(s[1]) == 0 or min(s[1]) < 0 or max(s[1]) >= sizes[i])) or
                                (s[0] == 'slice' and len(s[2]) == 0) for i, s in enumerate(sels))
                hist['malformed_requests'] += int(malformed)
                # ------------------------------------------------ 2-D path, eager and lazy
                want_rows = want_cols = None
                if not malformed:
                    chosen = [sorted(set([s[1]] if s[0] == 'int' else s[2] if s[0] == 'slice' else s[1])) if s[0] != 'absent' else list(range(sizes[i]))
                              for i, s in enumerate(sels)]
                    want_rows = [r for r in range(lay.N) if all(pos_m[r][dd] in chosen[dd] for dd in range(kp))]
                    want_cols = [c for c in range(lay.M) if all(spec_m[e][c] in chosen[kp + e] for e in range(len(lay.spec_sizes)))]
                results = {}
                for lazy in (False, True):
                    hist['slices_2d'] += 1
                    m = dict(desc, path='2D', lazy=lazy)
                    try:
                        with common.quiet():
                            r, ok = u.slice(d, ndim_form=False, lazy=lazy)
                        if lazy:
                            r = r.compute()
                        r = gen.ids_of(np.asarray(r), lay.dtype)
                        code, rows, data = 0, (r.shape[0] if r.ndim == 2 else 0), [int(x) for x in r.ravel()]
                        results[lazy] = r
                    except Exception as e:
                        code, rows, data = CODES.get(type(e).__name__, 6), 0, []
                        hist['raised'][type(e).__name__] = hist['raised'].get(type(e).__name__, 0) + 1
                        m['exception'] = repr(e)[:160]
                        results[lazy] = None
                    acases.append(cpair(*base, clist(lay.pos_sizes, cnat), clist(lay.spec_sizes, cnat),
                                        clist(sels[:kp], csel), clist(sels[kp:], csel), cbool(lazy), cnat(code), cnat(rows), clist(data, cnat)))
                    ameta.append(m)
                    if malformed:
                        if code == 0:
                            violate('USIDataset.slice(ndim_form=False)', 'any', 'malformed_request_accepted', str(m), m)
                    else:
                        wantm = ids[np.ix_(want_rows, want_cols)] if want_rows and want_cols else None
                        if len(want_rows) == len(want_cols) and len(want_rows) >= 2 and not lazy:
                            hist['square_2d_results'] += 1
                        if code != 0:
                            violate('USIDataset.slice(ndim_form=False)', 'any', 'valid_request_raises', str(m), m)
                        elif wantm is None or results[lazy].shape != wantm.shape or not np.array_equal(results[lazy], wantm):
                            violate('USIDataset.slice(ndim_form=False)', 'any', 'result_is_not_main[rows, cols]',
                                    'shape %s expected %s; %s' % (getattr(results[lazy], 'shape', None), None if wantm is None else wantm.shape, m), m)
                if results.get(False) is not None and results.get(True) is not None and not np.array_equal(results[False], results[True]):
                    violate('USIDataset.slice(ndim_form=False)', 'any', 'lazy_and_eager_disagree', str(desc), desc)
                # ------------------------------------------------ N-D path in the current view
                if rng.random() < 0.25:
                    with common.quiet():
                        u.toggle_sorting()
                    sorted_view = not sorted_view
                order = gc.label_ids(lay, u.n_dim_labels)          # axis k of the view is file dimension order[k]
                view = exp.transpose(order)
                vsels = [sels[a] for a in order]
                n_lists = sum(1 for s in vsels if s[0] == 'list')
                hist['two_lists'] += int(n_lists > 1)
                lazy = bool(si % 2)
                hist['slices_nd'] += 1
                m = dict(desc, path='ND', lazy=lazy, sorted_view=sorted_view)
                try:
                    with common.quiet():
                        r, ok = u.slice(d, ndim_form=True, lazy=lazy)
                    if lazy:
                        r = r.compute()
                    r = gen.ids_of(np.asarray(r), lay.dtype)
                    code, shape, data = 0, list(r.shape), [int(x) for x in r.ravel()]
                except Exception as e:
                    code, shape, data, r = CODES.get(type(e).__name__, 6), [], [], None
                    hist['raised'][type(e).__name__] = hist['raised'].get(type(e).__name__, 0) + 1
                    m['exception'] = repr(e)[:160]
                bcases.append(cpair(*base, cbool(sorted_view), clist(vsels, csel), cnat(code), clist(shape, cnat), clist(data, cnat)))
                bmeta.append(m)
                # oracle: ordinary indexing of the N-D form along the named axes (at most one list index supported)
                nd_malformed = any((s[0] == 'int' and not (-sizes[order[k]] <= s[1] < sizes[order[k]])) or
                                   (s[0] == 'list' and (len(s[1]) > 0 and (min(s[1]) < -sizes[order[k]] or max(s[1]) >= sizes[order[k]])))
                                   for k, s in enumerate(vsels))
                if nd_malformed:
                    if code == 0:
                        violate('USIDataset.slice(ndim_form=True)', 'any', 'out_of_range_request_accepted', str(m), m)
                elif n_lists > 1:
                    if code == 0:
                        # returning something is only acceptable if it IS the axis-wise selection
                        want = view
                        for ax in reversed(range(view.ndim)):
                            s = vsels[ax]
                            if s[0] == 'int':
                                want = np.take(want, s[1], axis=ax)
                            elif s[0] in ('slice', 'list'):
                                want = np.take(want, s[2] if s[0] == 'slice' else s[1], axis=ax)
                        if r.shape != want.shape or not np.array_equal(r, want):
                            violate('USIDataset.slice(ndim_form=True)', 'any', 'unsupported_combination_returned_rearranged_data', str(m), m)
                else:
                    want = view
                    for ax in reversed(range(view.ndim)):
                        s = vsels[ax]
                        if s[0] == 'int':
                            want = np.take(want, s[1], axis=ax)
                        elif s[0] == 'slice':
                            want = np.take(want, s[2], axis=ax)
                        elif s[0] == 'list':
                            want = np.take(want, list(s[1]), axis=ax) if len(s[1]) else want
                    if any(s[0] == 'list' and len(s[1]) == 0 for s in vsels):
                        pass        # an empty list: whatever dask does, the model has to agree
                    elif code != 0:
                        violate('USIDataset.slice(ndim_form=True)', 'any', 'valid_request_raises', str(m), m)
                    elif r.shape != want.shape or not np.array_equal(r, want):
                        violate('USIDataset.slice(ndim_form=True)', 'any', 'result_is_not_indexing_of_nd_form', str(m), m)
                if not malformed and lay.nontrivial():
                    distinct.add((lay.key(), repr(sorted(d.items(), key=lambda kv: kv[0]))))
                if len(out.samples) < 4 and lay.nontrivial() and d:
                    out.samples.append(desc)
            # ---- wrongly typed / unknown-label requests
            for badd, label in (({'nope': 0}, 'unknown_label'), ({labels[0]: 1.5}, 'float'), ({labels[0]: 'a'}, 'str'), ({labels[-1]: None}, 'None')):
                for ndf in (False, True):
                    try:
                        with common.quiet():
                            u.slice(dict(badd), ndim_form=ndf)
                        violate('USIDataset.slice', 'any', 'wrongly_typed_request_accepted', '%s ndim_form=%s' % (label, ndf), {'request': label})
                    except Exception:
                        pass
    # ---- designed, seed-independent (exact oracle only): a dimension of 1100 points and two index arrays of 1050 entries that share
    # their first and last entries and differ in the middle, asked of the SAME object one after the other, eager and lazy
    hist['long_index_array_requests'] = 0
    lay = gen.Layout([1100], [0], [2, 2], [1, 0])
    with h5py.File(path, 'w') as f:
        main = gen.write_layout(f, lay)
        with common.quiet():
            u = usid.USIDataset(main)
        data = main[()]
        lab = lay.pos_labels[0]
        full = np.arange(1100)
        for lazy in (False, True):
            for hole in (500, 600, 17):
                sel = np.concatenate([full[:hole], full[hole + 50:]])
                hist['long_index_array_requests'] += 1
                desc = {'layout': lay.describe(), 'slice_dict': '{%r: arange(1100) without %d..%d}' % (lab, hole, hole + 49), 'lazy': lazy,
                        'history': 'same object, previous request differed only in the middle of the array'}
                try:
                    with common.quiet():
                        got, ok = u.slice({lab: sel}, ndim_form=False, lazy=lazy)
                    got = np.asarray(got.compute() if lazy else got)
                    if got.shape != (1050, lay.M) or not np.array_equal(got, data[sel, :]):
                        violate('USIDataset.slice (2-D)', 'any', 'selected_elements_wrong', str(desc), desc)
                except Exception as e:
                    violate('USIDataset.slice (2-D)', 'any', 'valid_request_raises', '%r %s' % (e, desc), desc)
    b1, e1 = common.coq_eval_cases(ctx, HEADER, acases, 'check07a', case_type='case07a', per_file=150, tag='a')
    b2, e2 = common.coq_eval_cases(ctx, HEADER, bcases, 'check07b', case_type='case07b', per_file=150, tag='b')
    out.corr_error = e1 or e2
    out.disagreements = [ameta[i] for i in b1] + [bmeta[i] for i in b2]
    out.evaluations = len(acases) + len(bcases)
    out.distinct_nontrivial = len(distinct)
    out.rule = ('generator layouts (any storage order) x random slicing dictionaries: per dimension absent / int / slice with start-stop-step (None allowed) '
                '/ list, tuple or ndarray (unsorted and repeated indices included), 20 % of dictionaries with malformed entries (negative, out of range, '
                'empty); 2-D path eager and lazy, N-D path in file-order and sorted views; wrongly typed and unknown-label requests; '
                'non-trivial = valid dictionary on a layout with a side of >= 2 non-unit dimensions not stored fastest-first (distinct)')
    out.histogram = hist
    out.trusted = ['dask indexing semantics (one list index; negative indices wrap) as mirrored in Usid/Slice.v', 'h5py fancy indexing with sorted unique indices']
    return out
