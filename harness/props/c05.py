"""C05 -- results are reused only for same dataset, tool, parameters, and if complete."""
import hashlib
import os

import h5py
import numpy as np

import common
from common import cnat, cZ, cbool, clist, cpair, copt
import gen
from props import c16

PID = 'C05'
PROP_V = 'Props/C05.v'
CORR_V = ('Corr/CorrC05.v',)
HEADER = 'From Coq Require Import QArith String.\nRequire Import V.H5.Naming V.H5.Attrs V.Proc.Reuse V.Corr.CorrC05.\nOpen Scope string_scope.\n'

DSETS = ['Raw', 'Raw_Data']
TOOLS = ['Fit', 'SHO_Fit', 'Fit2', 'Fit_2']       # 'Fit_2' + index reads 'Fit' + '_2_000'
PARMS = [{'k1': 1, 'k2': [1, 2, 3]}, {'k1': 2, 'k2': [1, 2, 3]}, {'k1': 1, 'k2': [1, 2]}, {'k1': 1, 'k2': [1, 2, 3], 'k3': 'ab'},
         {'k1': 1.0, 'k2': [1, 2, 3]}, {'k1': 1},
         # an unused optional setting (None) listed BEFORE the parameters that matter: it is ignored, they are not
         {'k0': None, 'k1': 1, 'k2': [1, 2, 3]}, {'k0': None, 'k1': 2, 'k2': [1, 2, 3]}]


def cs(s):
    return '"' + s + '"'


def digest(grp):
    """content digest of one group: datasets (shape, dtype, bytes) and attributes (references skipped)"""
    h = hashlib.sha256()

    def add_attrs(o):
        for k in sorted(o.attrs.keys()):
            v = o.attrs[k]
            if isinstance(v, h5py.Reference):
                continue
            a = np.asarray(v)
            if a.dtype.kind == 'O':
                continue
            h.update(k.encode())
            h.update(str(a.dtype).encode())
            h.update(a.tobytes())
    add_attrs(grp)

    def visit(name, o):
        h.update(name.encode())
        if isinstance(o, h5py.Dataset):
            h.update(str(o.shape).encode())
            h.update(str(o.dtype).encode())
            if o.dtype.kind != 'O':
                h.update(o[()].tobytes())
        add_attrs(o)
    grp.visititems(visit)
    return h.hexdigest()


def cparms(p):
    return clist(list(p.items()), lambda kv: cpair('%d%%nat' % int(kv[0][1:]), c16.cval(kv[1])))


def make_group(rng, main, N, M, tool, parms, target, progress):
    """creates a results group with the given progress record; returns (name, abstract progress)"""
    import procutil
    kind = progress[0]
    mask = [0] * N
    if kind in ('complete', 'partial', 'status_malformed_values', 'status_wrong_dtype', 'status_wrong_length', 'status_is_group'):
        mask = progress[1]
    grp = procutil.seed_partial_group(main, mask, target=target, name=tool, parms=parms, with_status=False)
    status = ('none',)
    lp = None
    if kind in ('complete', 'partial', 'status_malformed_values'):
        grp.create_dataset('completed_positions', data=np.array(mask, dtype=np.uint8))
        status = ('dset', True, True, list(mask))
    elif kind == 'status_wrong_dtype':
        grp.create_dataset('completed_positions', data=np.array(mask, dtype=np.uint16))
        status = ('dset', True, False, list(mask))
    elif kind == 'status_wrong_length':
        grp.create_dataset('completed_positions', data=np.array(mask + [1], dtype=np.uint8))
        status = ('dset', False, True, list(mask) + [1])
    elif kind == 'status_is_group':
        grp.create_group('completed_positions')
        status = ('notdset',)
    elif kind == 'legacy':
        lp = progress[1]
        grp.attrs['last_pixel'] = lp
    if kind in ('complete', 'partial') and progress[2] is not None:
        lp = progress[2]
        grp.attrs['last_pixel'] = lp            # both records present
    grp.file.flush()
    return grp.name.split('/')[-1], status, lp


def cstatus(st):
    if st[0] == 'none':
        return 'StNone'
    if st[0] == 'notdset':
        return 'StNotDataset'
    return '(StDset %s %s %s)' % (cbool(st[1]), cbool(st[2]), clist(st[3], lambda x: '%d%%nat' % x))


def gen_progress(rng, N):
    r = rng.random()
    if r < 0.22:
        return ('complete', [1] * N, None if rng.random() < 0.7 else N)
    if r < 0.5:
        mask = [1 if rng.random() < 0.5 else 0 for _ in range(N)]
        if all(mask):
            mask[rng.randrange(N)] = 0
        return ('partial', mask, None if rng.random() < 0.7 else rng.randint(0, N))
    if r < 0.6:
        mask = [rng.choice([0, 1, 2, 3]) for _ in range(N)]
        if not any(v > 1 for v in mask):
            mask[0] = 2
        if sum(mask) < N and rng.random() < 0.6:
            mask = [2] * (N // 2 + 1) + [0] * (N - N // 2 - 1)      # sum >= N with zeros present
        return ('status_malformed_values', mask)
    if r < 0.66:
        return ('status_wrong_dtype', [1] * N)
    if r < 0.72:
        return ('status_wrong_length', [1] * N)
    if r < 0.77:
        return ('status_is_group', [0] * N)
    if r < 0.92:
        return ('legacy', rng.choice([0, N // 2, N - 1, N, N, N + 3, -1]))
    return ('none',)


def run(ctx, build):
    import procutil
    out = common.Outcome()
    rng = ctx.rng
    n_hist = 70 if ctx.quick() else 1500
    cases, meta = [], []
    hist = {'histories': 0, 'progress_kinds': {}, 'separate_target': 0, 'decisions': {}, 'override': 0, 'ctor_raised': 0}
    distinct = set()
    src = os.path.join(ctx.tmp, 'src.h5')
    tgt = os.path.join(ctx.tmp, 'tgt.h5')
    log = os.path.join(ctx.tmp, 'calls.log')

    def violate(site, cls, mode, what, case):
        out.violations.append({'call_site': site, 'input_class': cls, 'failure_mode': mode, 'what': what, 'case': case})

    for hi in range(n_hist):
        N, M = rng.randint(2, 6), rng.randint(1, 3)
        if hi in (8, 9):                    # designed: a large group that is all but complete (1 of 400 / 250 pending)
            N, M = (400, 1) if hi == 8 else (250, 2)
        separate = rng.random() < 0.3
        for fpath in (src, tgt, log):
            if os.path.exists(fpath):
                os.remove(fpath)
        f = h5py.File(src, 'w')
        ft = h5py.File(tgt, 'w') if separate else None
        try:
            lay = gen.Layout([N], [0], [M], [0])
            mains = {}
            for dn in DSETS:
                mains[dn] = gen.write_layout(f, lay, group='Measurement_000/Channel_000', main_name=dn) if dn == DSETS[0] else None
            # the second dataset shares the ancillaries
            grp0 = f['Measurement_000/Channel_000']
            d2 = grp0.create_dataset(DSETS[1], data=lay.main_data())
            for k, v in grp0[DSETS[0]].attrs.items():
                d2.attrs[k] = v
            mains[DSETS[1]] = d2
            target = ft if separate else None
            mirrored = separate and hi % 2 == 1
            if mirrored:
                target = ft.require_group('Measurement_000/Channel_000')
                hist['separate_target_mirrors_source_paths'] = hist.get('separate_target_mirrors_source_paths', 0) + 1
            same_file_group = (not separate) and (hi % 5 == 4)
            if same_file_group:
                # results kept in ANOTHER GROUP OF THE SOURCE FILE: that location, not the source's neighbourhood, holds the history
                target = f.create_group('Analysis')
                hist['same_file_other_group_target'] = hist.get('same_file_other_group_target', 0) + 1
            this_d, this_t, this_p = rng.choice(DSETS), rng.choice(TOOLS), rng.choice(PARMS[:4] + PARMS[-2:])
            groups = []
            # the first histories are fixed designs (independent of the seed), each a list of (tool or None = this tool, progress):
            # exactly one matching group that is partial / complete / over-long / malformed, judged with and without override;
            # a large group that is all but complete; an older legacy and a newer modern incomplete group in either order;
            # complete / partial results of the sibling tool whose name is this tool's name + '_<digits>'
            near = ('partial', [0 if i == N // 3 else 1 for i in range(N)], None)
            first = ('partial', [1] + [0] * (N - 1), None)
            designs = [[(None, pr)] for pr in (first, ('complete', [1] * N, None), ('status_wrong_length', [1] * N),
                                               ('status_malformed_values', [2] * (N // 2 + 1) + [0] * (N - N // 2 - 1))) for _ in (0, 1)]
            designs += [[(None, near)], [(None, near)],
                        [(None, ('legacy', N // 2)), (None, first)], [(None, first), (None, ('legacy', N // 2))],
                        [('Fit_2', ('complete', [1] * N, None))], [('Fit_2', first)],
                        [(None, ('complete', [1] * N, None), PARMS[-1])], [(None, first, PARMS[-1])]]
            forced = hi < len(designs)
            if forced and hi in (12, 13):
                this_t = 'Fit'
            if forced and hi in (14, 15):
                this_p = PARMS[-2]              # the stored groups differ from it in k1 only, behind the None entry
            plan = designs[hi] if forced else [None] * rng.randint(0, 5)
            for item in plan:
                r = rng.random()
                dn = this_d if (r < 0.6 or forced) else rng.choice(DSETS)
                tool = this_t if (rng.random() < 0.6 or forced) else rng.choice(TOOLS)
                parms = this_p if (rng.random() < 0.6 or forced) else rng.choice(PARMS)
                prog = gen_progress(rng, N)
                if forced:
                    tool = item[0] or this_t
                    prog = item[1]
                    if len(item) > 2:
                        parms = item[2]
                hist['progress_kinds'][prog[0]] = hist['progress_kinds'].get(prog[0], 0) + 1
                name, status, lp = make_group(rng, mains[dn], N, M, tool, parms, target, prog)
                groups.append({'name': name, 'dset': dn, 'tool': tool, 'parms': parms, 'progress': prog, 'status': status, 'last_pixel': lp})
            # a source with the same leaf name living elsewhere in the source file (only distinguishable by provenance)
            twin = None
            if separate and rng.random() < 0.35:
                twin = gen.write_layout(f, lay, group='Measurement_001/Channel_000', main_name=this_d)
                prog = ('complete', [1] * N, None)
                name, status, lp = make_group(rng, twin, N, M, this_t, this_p, target, prog)
                groups.append({'name': name, 'dset': 'Measurement_001/' + this_d, 'tool': this_t, 'parms': this_p, 'progress': prog,
                               'status': status, 'last_pixel': lp})
                hist['twin_source_in_separate_target'] = hist.get('twin_source_in_separate_target', 0) + 1
            parent = (target if mirrored else ft) if separate else (target if same_file_group else grp0)
            if same_file_group:
                # a complete result of the very same process BESIDE the source: it is not in the target location and must not count
                make_group(rng, mains[this_d], N, M, this_t, this_p, None, ('complete', [1] * N, None))
            # seeding a later group constructs a Process, which upgrades every matching legacy group that already exists
            # (known finding KF-C05-CTOR-UPGRADES-LEGACY): put the history back to what was designed
            for g in groups:
                if g['status'] == ('none',) and 'completed_positions' in parent[g['name']]:
                    del parent[g['name']]['completed_positions']
                    hist['legacy_groups_restored_after_seeding'] = hist.get('legacy_groups_restored_after_seeding', 0) + 1
            parent.file.flush()
            before = {g['name']: digest(parent[g['name']]) for g in groups}
            override = (hi % 2 == 0) if hi < 8 else (False if forced else rng.random() < 0.3)
            hist['histories'] += 1
            hist['separate_target'] += int(separate)
            hist['override'] += int(override)
            desc = {'N': N, 'this': (this_d, this_t, {k: repr(v) for k, v in this_p.items()}), 'override': override, 'separate_target': separate, 'target_is_another_group_of_the_source_file': same_file_group,
                    'groups': [{k: (repr(v) if k in ('parms',) else v) for k, v in g.items() if k != 'status'} for g in groups]}
            # ---------------- the real thing
            try:
                with common.quiet():
                    p = procutil.MapProc(mains[this_d], name=this_t, parms=dict(this_p), h5_target_group=target, cores=1)
            except Exception as e:
                hist['ctor_raised'] += 1
                violate('Process.__init__', 'any', 'constructor_raises', '%r with %s' % (e, desc), desc)
                continue
            dup = [g.name.split('/')[-1] for g in p.duplicate_h5_groups]
            par = [g.name.split('/')[-1] for g in p.partial_h5_groups]
            # the user points the process at a group that is not one of its resumable groups -- with a mirrored target, a group of
            # the SOURCE file that has the very path of the resumable group in the target: refused, and without effect
            foreign = grp0.require_group(par[-1] if (mirrored and par) else 'not_a_results_group')
            with common.quiet():
                rp = procutil.refused_choice(p, foreign)
            if rp:
                violate('Process.use_partial_computation', 'any', 'unsuitable_group_not_refused', '%s; %s' % (rp, desc), desc)
            after_ctor = {g['name']: digest(parent[g['name']]) for g in groups}
            procutil.LOG['path'] = log
            try:
                with common.quiet():
                    res = p.compute(override=override)
                rname = res.name.split('/')[-1]
                exc = None
            except Exception as e:
                rname, exc = None, repr(e)[:200]
            finally:
                procutil.LOG['path'] = None
            calls, _ = procutil.read_log(log, M)
            after = {g['name']: digest(parent[g['name']]) for g in groups if g['name'] in parent}
            names = [g['name'] for g in groups]
            if rname is None:
                decision = 'raised'
            elif rname not in names:
                decision = 'fresh'
            elif calls:
                decision = 'resume'
            else:
                decision = 'return' if rname in dup else 'resume'
            hist['decisions'][decision] = hist['decisions'].get(decision, 0) + 1
            desc.update({'duplicates': dup, 'partials': par, 'returned': rname, 'decision': decision, 'map_calls': calls, 'exception': exc})
            # ---------------- Coq case: groups in h5py key order
            gs_sorted = sorted(groups, key=lambda g: g['name'])
            cases.append(cpair('%d%%nat' % N, clist(gs_sorted, lambda g: '(mkG (s_of %s) (write_attrs [] %s) %s %s)' % (
                cs(g['name']), cparms(g['parms']), cstatus(g['status']), copt(g['last_pixel'], cZ))),
                cs(this_d), cs(this_t), cparms(this_p), cbool(override),
                clist(dup, cs), clist(par, cs),
                '%d%%nat' % {'return': 0, 'resume': 1, 'fresh': 2, 'raised': 3}[decision], cs(rname if decision in ('return', 'resume') else '')))
            meta.append(desc)
            # ---------------- oracle: the property itself
            def well_formed(g):
                k = g['progress'][0]
                if k in ('complete', 'partial'):
                    return 'complete' if k == 'complete' else 'partial'
                if k == 'legacy':
                    lp = g['progress'][1]
                    if lp == N:
                        return 'complete'
                    if 0 <= lp < N:
                        return 'partial'
                    return 'malformed'
                return 'malformed'
            mine = [g for g in groups if g['dset'] == this_d and g['tool'] == this_t and c16_equal(g['parms'], this_p)]
            complete = [g['name'] for g in mine if well_formed(g) == 'complete']
            partial = [g['name'] for g in mine if well_formed(g) == 'partial']
            cls = 'any'
            if twin is not None:
                cls = 'separate_target_holds_results_of_another_source_with_the_same_leaf_name'
            if any(g['progress'][0] == 'legacy' and not (0 <= g['progress'][1] <= N) for g in mine):
                cls = 'legacy_last_pixel_out_of_range'
            if override:
                if decision != 'fresh':
                    violate('Process.compute(override=True)', cls, 'forced_computation_did_not_start_fresh', str(desc), desc)
                changed = [n for n in names if n in after and after[n] != before[n]]
                if changed:
                    ckinds = sorted({g['progress'][0] for g in groups if g['name'] in changed})
                    violate('Process.__init__ / compute(override=True)', 'existing_group_with_progress_' + '+'.join(ckinds),
                            'forced_computation_altered_existing_group', 'changed: %s in %s' % (changed, desc), desc)
            else:
                if decision == 'return':
                    if rname not in complete:
                        violate('Process.compute', cls, 'returned_group_not_a_complete_result_of_this_dataset_tool_parameters', str(desc), desc)
                    elif calls:
                        violate('Process.compute', cls, 'computed_although_results_returned', str(desc), desc)
                elif decision == 'resume':
                    if rname not in partial:
                        violate('Process.compute', cls, 'resumed_group_not_a_matching_incomplete_result', str(desc), desc)
                    elif partial and rname != sorted(partial)[-1]:
                        violate('Process.compute', cls, 'resumed_group_not_the_most_recent', str(desc), desc)
                    elif complete:
                        violate('Process.compute', cls, 'resumed_although_complete_results_exist', str(desc), desc)
                elif decision == 'fresh':
                    if complete or partial:
                        violate('Process.compute', cls, 'fresh_computation_although_reusable_results_exist', str(desc), desc)
                    elif sorted(calls) != list(range(N)):
                        violate('Process.compute', cls, 'fresh_computation_incomplete', str(desc), desc)
                else:
                    violate('Process.compute', cls, 'compute_raises', str(desc), desc)
            if rname is not None:
                try:
                    st_ret = [int(x) for x in res['completed_positions'][()]]
                except Exception as e:
                    st_ret = repr(e)[:80]
                if st_ret != [1] * N:
                    violate('Process.compute', 'any', 'returned_group_not_marked_complete', 'completion record of %s: %s; %s' % (rname, st_ret if not isinstance(st_ret, list) else st_ret[:40], desc), desc)
            if len(groups) >= 2:
                distinct.add(repr(desc['groups']) + repr(desc['this']) + str(override))
            if len(out.samples) < 3 and len(groups) >= 2:
                out.samples.append(desc)
        finally:
            f.close()
            if ft is not None:
                ft.close()
    bad, err = common.coq_eval_cases(ctx, HEADER, cases, 'check05', case_type='case05', per_file=200)
    out.corr_error = err
    out.disagreements = [meta[i] for i in bad]
    out.evaluations = len(cases)
    out.distinct_nontrivial = len(distinct)
    out.rule = ('histories of 0..5 earlier result groups over datasets {Raw, Raw_Data} (one name is a prefix of the other) and tools {Fit, SHO_Fit, Fit2, Fit_2}, '
                'parameter dictionaries differing in one value / type / length / extra key, progress records: complete, partial (arbitrary masks), both '
                'records, legacy last_pixel (0, N/2, N-1, N, N+3, -1), marks other than 0/1, wrong dtype, wrong length, a group instead of a dataset, '
                'none; same-file and separate-file targets; then the real Process is constructed and compute(override F/T) run with a call log and '
                'per-group digests; non-trivial = history with >= 2 earlier groups (distinct)')
    out.histogram = hist
    out.trusted = ['group digests (datasets + non-reference attributes) as the notion of "unchanged"', 'models of C13 (names) and C16 (parameters) composed in Proc/Reuse.v']
    return out


def c16_equal(a, b):
    """exact equality of two parameter dictionaries as the property means it (every requested parameter equals the stored one)"""
    for k, v in b.items():
        if v is None:
            continue                    # "entries whose value is None are ignored" (C16)
        if k not in a:
            return False
        x = a[k]
        if isinstance(v, (list, tuple)) != isinstance(x, (list, tuple)):
            return False
        if isinstance(v, (list, tuple)):
            if len(v) != len(x) or any(p != q for p, q in zip(v, x)):
                return False
        elif isinstance(v, str) != isinstance(x, str) or v != x:
            return False
    return True
