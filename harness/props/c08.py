"""C08 -- generated ancillary matrices are exact Cartesian products in documented order."""
import itertools
import os

import h5py
import numpy as np

import common
from common import cnat, cZ, cbool, clist, cpair, copt

PID = 'C08'
PROP_V = 'Props/C08.v'
CORR_V = ('Corr/CorrC08.v',)
HEADER = 'Require Import V.Corr.CorrC08.\n'


def unit_vals(d, size, kind):
    i = np.arange(size, dtype=np.float64)
    if kind == 0:
        return (d + 1) * 0.5 + i * 0.25
    if kind == 1:
        return -1.0 * d + i * i * 0.75 + 2.5      # non-uniform
    return 3.0 - i * 0.5 + (i % 2) * 4.0          # non-monotone


def z4(a):
    return [[int(round(float(x) * 4)) for x in row] for row in np.atleast_2d(a)]


def mat(a):
    return [[int(x) for x in row] for row in np.atleast_2d(a)]


def cmat(m, f):
    return clist(m, lambda r: clist(r, f))


def oracle_build(sizes, vals, is_spectral, ind, val):
    """definitional check: first dimension fastest, every combination exactly once, values = value_d[index_d]"""
    N = int(np.prod(sizes))
    ind = np.asarray(ind)
    val = np.asarray(val)
    if not is_spectral:
        ind, val = ind.T, val.T
    if ind.shape != (len(sizes), N) or val.shape != (len(sizes), N):
        return 'wrong_shape'
    combos = list(itertools.product(*[range(s) for s in reversed(sizes)]))   # last dim slowest
    for n, combo in enumerate(combos):
        idx = list(reversed(combo))          # idx[d] for dimension d, first dimension fastest
        for d in range(len(sizes)):
            if int(ind[d, n]) != idx[d]:
                return 'index_not_cartesian_fastest_first'
            if float(val[d, n]) != float(np.float32(vals[d][idx[d]])):
                return 'value_not_value_of_index'
    if len(set(map(tuple, ind.T.tolist()))) != N:
        return 'combination_repeated'
    return None


def scribble(*arrays):
    """the caller owns what a builder returned: overwriting it must not influence any later call (every size tuple is
    requested several times in a run)"""
    for a in arrays:
        try:
            a[...] = 7
        except (ValueError, TypeError):
            pass


def fastest_first(sizes):
    N = int(np.prod(sizes))
    n = np.arange(N, dtype=np.int64)
    rows = []
    stride = 1
    for sz in sizes:
        rows.append((n // stride) % sz)
        stride *= sz
    return np.array(rows)


def run(ctx, build):
    import pyUSID as usid
    from pyUSID.io import anc_build_utils as abu
    from pyUSID.io.hdf_utils import write_ind_val_dsets
    out = common.Outcome()
    rng = ctx.rng
    all_sizes = [t for k in range(1, 5) for t in itertools.product(range(1, 5), repeat=k)]
    if ctx.quick():
        sizes_list = [t for t in all_sizes if len(t) <= 2] + rng.sample([t for t in all_sizes if len(t) > 2], 90)
    else:
        sizes_list = all_sizes
        out.exhaustive = True
    bcases, wcases, mcases = [], [], []
    bmeta, wmeta, mmeta = [], [], []
    hist = {'dims': {}, 'with_unit_dim': 0, 'build': 0, 'write': 0, 'make_indices': 0, 'make_indices_rejected': 0}
    distinct = set()
    path = os.path.join(ctx.tmp, 'c08.h5')
    h5 = h5py.File(path, 'w')
    gi = 0
    for sizes in sizes_list:
        sizes = list(sizes)
        k = len(sizes)
        kind = rng.randint(0, 2)
        vals = [unit_vals(d, s, kind) for d, s in enumerate(sizes)]
        hist['dims'][k] = hist['dims'].get(k, 0) + 1
        if 1 in sizes:
            hist['with_unit_dim'] += 1
        for is_spectral in (True, False):
            try:
                ind, val = abu.build_ind_val_matrices([v for v in vals], is_spectral=is_spectral)
            except Exception as e:
                out.violations.append({'call_site': 'anc_build_utils.build_ind_val_matrices', 'input_class': 'any', 'failure_mode': 'raises',
                                       'what': 'sizes %s is_spectral %s: %r (after earlier calls whose results were overwritten by the caller)' % (sizes, is_spectral, e),
                                       'case': {'sizes': sizes, 'is_spectral': is_spectral, 'history': 'same sizes requested before; returned arrays overwritten'}})
                continue
            hist['build'] += 1
            bcases.append(cpair(clist([[int(round(float(x) * 4)) for x in v] for v in vals], lambda r: clist(r, cZ)),
                                cbool(is_spectral), cmat(mat(ind), cnat), cmat(z4(val), cZ)))
            bmeta.append({'sizes': sizes, 'is_spectral': is_spectral, 'value_kind': kind})
            mode = oracle_build(sizes, vals, is_spectral, ind, val)
            if mode is None and (ind.dtype != np.uint32 or val.dtype != np.float32):
                mode = 'wrong_dtype'
            scribble(ind, val)
            if mode:
                out.violations.append({'call_site': 'anc_build_utils.build_ind_val_matrices', 'input_class': 'any',
                                       'failure_mode': mode, 'what': 'sizes %s is_spectral %s' % (sizes, is_spectral),
                                       'case': bmeta[-1]})
            for s2f in (False, True):
                if ctx.quick() and k >= 3 and rng.random() < 0.5:
                    continue
                grp = h5.create_group('g%05d' % gi)
                gi += 1
                dims = [usid.Dimension('L%d' % d, 'U%d' % d, vals[d]) for d in range(k)]
                try:
                    with common.quiet():
                        if k >= 2 and gi % 3 == 0:
                            # the caller's list is used for another write first: it must come back unchanged
                            hist['descriptor_list_reused'] = hist.get('descriptor_list_reused', 0) + 1
                            write_ind_val_dsets(h5.create_group('pre%05d' % gi), dims, is_spectral=is_spectral, slow_to_fast=s2f)
                        hi, hv = write_ind_val_dsets(grp, dims, is_spectral=is_spectral, slow_to_fast=s2f)
                except Exception as e:
                    out.violations.append({'call_site': 'hdf_utils.write_ind_val_dsets', 'input_class': 'any', 'failure_mode': 'raises',
                                           'what': 'sizes %s is_spectral %s slow_to_fast %s: %r' % (sizes, is_spectral, s2f, e),
                                           'case': {'sizes': sizes, 'is_spectral': is_spectral, 'slow_to_fast': s2f,
                                                    'history': 'same sizes requested before; returned arrays overwritten'}})
                    continue
                base = 'Spectroscopic_' if is_spectral else 'Position_'
                ri, rv = grp[base + 'Indices'], grp[base + 'Values']
                oi, ov = ri[()], rv[()]
                labs = [x.decode() if isinstance(x, bytes) else str(x) for x in ri.attrs['labels']]
                units = [x.decode() if isinstance(x, bytes) else str(x) for x in ri.attrs['units']]
                labs_v = [x.decode() if isinstance(x, bytes) else str(x) for x in rv.attrs['labels']]
                units_v = [x.decode() if isinstance(x, bytes) else str(x) for x in rv.attrs['units']]
                hist['write'] += 1
                try:
                    lab_ids = [int(l[1:]) for l in labs]
                    unit_ids = [int(u[1:]) for u in units]
                except ValueError:
                    lab_ids, unit_ids = [999], [999]
                wcases.append(cpair(clist([cpair(cnat(d), clist([int(round(float(x) * 4)) for x in vals[d]], cZ)) for d in range(k)]),
                                    cbool(is_spectral), cbool(s2f), cmat(mat(oi), cnat), cmat(z4(ov), cZ),
                                    clist(lab_ids, cnat), clist(unit_ids, cnat)))
                m = {'sizes': sizes, 'is_spectral': is_spectral, 'slow_to_fast': s2f, 'labels_read': labs}
                wmeta.append(m)
                # oracle: stored dims slowest first; stored order = caller's order iff slow_to_fast
                stored = list(range(k)) if s2f else list(reversed(range(k)))     # stored[i] = caller's dim at row i
                fast_first = list(reversed(stored))
                o_i = oi if is_spectral else oi.T
                o_v = ov if is_spectral else ov.T
                mode = None
                if labs != ['L%d' % d for d in stored] or units != ['U%d' % d for d in stored] or labs_v != labs or units_v != units:
                    mode = 'labels_or_units_not_aligned_with_rows'
                elif o_i.shape != (k, int(np.prod(sizes))):
                    mode = 'wrong_shape'
                else:
                    N = int(np.prod(sizes))
                    for n in range(N):
                        rem = n
                        for d in fast_first:
                            idx = rem % sizes[d]
                            rem //= sizes[d]
                            row = stored.index(d)
                            if int(o_i[row, n]) != idx or float(o_v[row, n]) != float(np.float32(vals[d][idx])):
                                mode = 'written_matrix_not_cartesian_slowest_first'
                                break
                        if mode:
                            break
                if mode is None and (ri.dtype != np.uint32 or rv.dtype != np.float32):
                    mode = 'wrong_dtype'
                if mode:
                    out.violations.append({'call_site': 'hdf_utils.write_ind_val_dsets', 'input_class': 'any',
                                           'failure_mode': mode, 'what': str(m), 'case': m})
                if k >= 2 and len(set(sizes)) > 1:
                    distinct.add((tuple(sizes), is_spectral, s2f))
                if len(out.samples) < 3 and k >= 2:
                    out.samples.append({'write_ind_val_dsets': m, 'indices': mat(oi)})
        # make_indices_matrix
        for is_pos in (True, False):
            try:
                r = abu.make_indices_matrix(list(sizes), is_position=is_pos)
                obs = mat(r)
                if r.dtype != np.uint32:
                    out.violations.append({'call_site': 'anc_build_utils.make_indices_matrix', 'input_class': 'any',
                                           'failure_mode': 'wrong_dtype', 'what': str(sizes), 'case': {'sizes': sizes}})
            except ValueError:
                obs = None
                hist['make_indices_rejected'] += 1
            hist['make_indices'] += 1
            if obs is not None:
                scribble(r)
            mcases.append(cpair(clist(sizes, cnat), cbool(is_pos), copt(obs, lambda m: cmat(m, cnat))))
            mmeta.append({'num_steps': sizes, 'is_position': is_pos, 'observed': obs})
            if obs is not None and all(s >= 2 for s in sizes):
                a = np.array(obs)
                a = a.T if is_pos else a
                N = int(np.prod(sizes))
                ok = a.shape == (k, N)
                if ok:
                    for n in range(N):
                        rem = n
                        for d in range(k):
                            if a[d, n] != rem % sizes[d]:
                                ok = False
                            rem //= sizes[d]
                if not ok:
                    out.violations.append({'call_site': 'anc_build_utils.make_indices_matrix', 'input_class': 'any',
                                           'failure_mode': 'not_cartesian_fastest_first', 'what': str(sizes),
                                           'case': {'sizes': sizes, 'is_position': is_pos}})
    # designed, seed-independent: a long fast dimension under a short slow one, every length up to a bound (index arithmetic
    # done in floating point must not slip at a block boundary); integer oracle for all, the model for a few
    top = 260 if ctx.quick() else 1200
    in_model = {49, 98, 103, 107, 161, 187, 196}
    big = [[q, 2] for q in range(5, top + 1)] + [[7, 7, 3], [7, 14, 2], [14, 14, 2], [3, 49, 2], [2, 103, 3], [70001, 2]]   # the last: more steps than 16 bits hold
    hist['long_dimension_cases'] = 0
    for sizes in big:
        exp = fastest_first(sizes)
        hist['long_dimension_cases'] += 1
        for is_pos in (True, False):
            r = abu.make_indices_matrix(list(sizes), is_position=is_pos)
            a = np.array(r, dtype=np.int64)
            a = a.T if is_pos else a
            if a.shape != exp.shape or not np.array_equal(a, exp):
                out.violations.append({'call_site': 'anc_build_utils.make_indices_matrix', 'input_class': 'any',
                                       'failure_mode': 'not_cartesian_fastest_first', 'what': str(sizes),
                                       'case': {'sizes': sizes, 'is_position': is_pos}})
            if sizes[0] in in_model and len(sizes) == 2 and is_pos:
                mcases.append(cpair(clist(sizes, cnat), cbool(is_pos), copt(mat(r), lambda m: cmat(m, cnat))))
                mmeta.append({'num_steps': sizes, 'is_position': is_pos, 'observed': 'long dimension'})
            scribble(r)
        vals = [np.arange(sz, dtype=np.float64) * 0.5 for sz in sizes]
        ind, val = abu.build_ind_val_matrices([v for v in vals], is_spectral=True)
        if np.asarray(ind).shape != exp.shape or not np.array_equal(np.asarray(ind, dtype=np.int64), exp) or \
                not np.array_equal(np.asarray(val, dtype=np.float64), exp * 0.5):
            out.violations.append({'call_site': 'anc_build_utils.build_ind_val_matrices', 'input_class': 'any',
                                   'failure_mode': 'index_not_cartesian_fastest_first', 'what': 'sizes %s' % sizes,
                                   'case': {'sizes': sizes, 'is_spectral': True}})
        scribble(ind, val)
    # designed: dimensions whose values arrive in DIFFERENT element types (integers first, fractions / negative numbers later):
    # the values matrix holds value_d[index_d] whatever type each dimension was supplied in
    hist['mixed_value_types'] = 0
    for mixed in ([np.arange(3), np.array([0.5, 1.5])], [[0, 1, 2], [0.5, 1.5]],
                  [np.array([0, 1], dtype=np.uint8), np.array([-1.5, 2.25, 3.0]), np.array([1, 2], dtype=np.int16)],
                  [np.array([2, 4, 6], dtype=np.int64), np.array([0.25, -0.75], dtype=np.float32)]):
        sizes = [len(v) for v in mixed]
        fvals = [[float(x) for x in v] for v in mixed]
        for is_spectral in (True, False):
            hist['mixed_value_types'] += 1
            try:
                ind, val = abu.build_ind_val_matrices([np.array(v, copy=True) if isinstance(v, np.ndarray) else list(v) for v in mixed], is_spectral=is_spectral)
            except Exception as e:
                out.violations.append({'call_site': 'anc_build_utils.build_ind_val_matrices', 'input_class': 'mixed_value_types', 'failure_mode': 'raises',
                                       'what': 'values %s: %r' % (fvals, e), 'case': {'values': fvals, 'is_spectral': is_spectral}})
                continue
            bcases.append(cpair(clist([[int(round(x * 4)) for x in v] for v in fvals], lambda r: clist(r, cZ)),
                                cbool(is_spectral), cmat(mat(ind), cnat), cmat(z4(val), cZ)))
            bmeta.append({'sizes': sizes, 'is_spectral': is_spectral, 'values': fvals, 'value_types': [str(np.asarray(v).dtype) for v in mixed]})
            mode = oracle_build(sizes, fvals, is_spectral, ind, val)
            if mode:
                out.violations.append({'call_site': 'anc_build_utils.build_ind_val_matrices', 'input_class': 'mixed_value_types',
                                       'failure_mode': mode, 'what': 'values %s is_spectral %s' % (fvals, is_spectral), 'case': bmeta[-1]})
    # designed: WRITTEN matrices with far more entries than any block size a writer might use (and a number of points that is
    # not a multiple of a power of two): every entry against the integer oracle, all four orientation / ordering combinations
    hist['large_written_grids'] = 0
    for sizes in [[250, 180], [181, 211], [37, 41, 29]] + ([] if ctx.quick() else [[7, 11, 13, 17], [300, 301]]):
        k = len(sizes)
        vals = [np.arange(sz, dtype=np.float64) * 0.5 - d for d, sz in enumerate(sizes)]
        for is_spectral in (True, False):
            for s2f in (False, True):
                hist['large_written_grids'] += 1
                grp = h5.create_group('big%05d' % gi)
                gi += 1
                dims = [usid.Dimension('L%d' % d, 'U%d' % d, vals[d]) for d in range(k)]
                m = {'sizes': sizes, 'is_spectral': is_spectral, 'slow_to_fast': s2f, 'designed': 'large written grid'}
                try:
                    with common.quiet():
                        write_ind_val_dsets(grp, dims, is_spectral=is_spectral, slow_to_fast=s2f)
                except Exception as e:
                    out.violations.append({'call_site': 'hdf_utils.write_ind_val_dsets', 'input_class': 'large_grid', 'failure_mode': 'raises', 'what': '%s: %r' % (m, e), 'case': m})
                    continue
                base = 'Spectroscopic_' if is_spectral else 'Position_'
                oi, ov = grp[base + 'Indices'][()], grp[base + 'Values'][()]
                o_i = (oi if is_spectral else oi.T).astype(np.int64)
                o_v = (ov if is_spectral else ov.T).astype(np.float64)
                stored = list(range(k)) if s2f else list(reversed(range(k)))      # stored[i] = caller's dimension at row i, slowest first
                ff = fastest_first([sizes[d] for d in reversed(stored)])          # rows: fastest dimension first
                exp_i = np.array([ff[list(reversed(stored)).index(d)] for d in stored])
                exp_v = np.array([np.float32(vals[d])[exp_i[row]] for row, d in enumerate(stored)], dtype=np.float64)
                if o_i.shape != exp_i.shape or not np.array_equal(o_i, exp_i) or not np.array_equal(o_v, exp_v):
                    bad_at = None
                    if o_i.shape == exp_i.shape:
                        w = np.argwhere((o_i != exp_i) | (o_v != exp_v))
                        bad_at = [int(x) for x in w[0]] if len(w) else None
                    out.violations.append({'call_site': 'hdf_utils.write_ind_val_dsets', 'input_class': 'large_grid', 'failure_mode': 'written_matrix_not_cartesian_slowest_first',
                                           'what': '%s first wrong entry (row, point) %s' % (m, bad_at), 'case': m})
                del h5[grp.name]
    # designed: reference values that are NEARLY 0, 1, 2, ... (exact float32 comparison, outside the dyadic value model), and a
    # second write into the same group under the same names with OTHER values (refused, or written correctly -- never the old values)
    hist['near_integer_value_cases'] = 0
    for vals0 in ([0.0, 1.000004, 2.000007, 2.99998], [3e-9, 1.0, 2.0, 3.0], [0.0, 1.0, 2.0, 3.0], [0.0, 1.0 + 2 ** -20, 2.0]):
        vs = [np.array(vals0, dtype=np.float64), np.array([0.5, 1.5], dtype=np.float64)]
        exp_i = fastest_first([len(v) for v in vs])
        hist['near_integer_value_cases'] += 1
        for is_spectral in (True, False):
            ind, val = abu.build_ind_val_matrices([v for v in vs], is_spectral=is_spectral)
            i2, v2 = (np.asarray(ind), np.asarray(val)) if is_spectral else (np.asarray(ind).T, np.asarray(val).T)
            want_v = np.array([np.float32(vs[d])[exp_i[d]] for d in range(2)])
            if not np.array_equal(i2.astype(np.int64), exp_i) or not np.array_equal(v2.astype(np.float32), want_v):
                out.violations.append({'call_site': 'anc_build_utils.build_ind_val_matrices', 'input_class': 'any', 'failure_mode': 'value_not_value_of_index',
                                       'what': 'values %s is_spectral %s -> %s' % (vals0, is_spectral, v2.tolist()), 'case': {'values': vals0, 'is_spectral': is_spectral}})
            grp = h5.create_group('near%05d' % gi)
            gi += 1
            dims1 = [usid.Dimension('L0', 'U0', vs[0]), usid.Dimension('L1', 'U1', vs[1])]
            dims2 = [usid.Dimension('L0', 'U0', vs[0] + 1.0), usid.Dimension('L1', 'U1', vs[1] * 3.0)]
            base = 'Spectroscopic_' if is_spectral else 'Position_'
            with common.quiet():
                write_ind_val_dsets(grp, dims1, is_spectral=is_spectral, slow_to_fast=False)
            got1 = grp[base + 'Values'][()]
            got1 = got1 if is_spectral else got1.T
            if not np.array_equal(got1.astype(np.float32), want_v[::-1]):
                out.violations.append({'call_site': 'hdf_utils.write_ind_val_dsets', 'input_class': 'any', 'failure_mode': 'written_matrix_not_cartesian_slowest_first',
                                       'what': 'values %s is_spectral %s -> %s' % (vals0, is_spectral, got1.tolist()), 'case': {'values': vals0, 'is_spectral': is_spectral}})
            try:
                with common.quiet():
                    hi2, hv2 = write_ind_val_dsets(grp, dims2, is_spectral=is_spectral, slow_to_fast=False)
                got2 = hv2[()] if is_spectral else hv2[()].T
                want2 = np.array([np.float32(vs[1] * 3.0)[exp_i[1]], np.float32(vs[0] + 1.0)[exp_i[0]]])
                if not np.array_equal(got2.astype(np.float32), want2):
                    out.violations.append({'call_site': 'hdf_utils.write_ind_val_dsets', 'input_class': 'any', 'failure_mode': 'second_write_returns_values_of_the_first',
                                           'what': 'second write into the same group (other values) returned %s' % got2.tolist(),
                                           'case': {'values': vals0, 'is_spectral': is_spectral, 'history': 'two writes into one group'}})
            except Exception:
                pass                                   # refusing the second write is fine
    # designed: the step counts arrive as a numpy array of a narrow integer type (the running products must not wrap in it)
    hist['narrow_typed_step_arrays'] = 0
    for dt, sizes in ((np.uint8, [20, 20, 2]), (np.int8, [12, 11, 3]), (np.uint16, [300, 300, 2]), (np.int16, [200, 200, 3]), (np.uint8, [16, 16, 2]),
                      (np.int32, [5, 4, 3])):
        exp = fastest_first(sizes)
        hist['narrow_typed_step_arrays'] += 1
        for is_pos in (True, False):
            try:
                r = abu.make_indices_matrix(np.array(sizes, dtype=dt), is_position=is_pos)
                a = np.array(r, dtype=np.int64)
                a = a.T if is_pos else a
                okn = a.shape == exp.shape and np.array_equal(a, exp)
            except Exception as e:
                okn = False
            if not okn:
                out.violations.append({'call_site': 'anc_build_utils.make_indices_matrix', 'input_class': 'any',
                                       'failure_mode': 'not_cartesian_fastest_first', 'what': '%s as %s array' % (sizes, np.dtype(dt).name),
                                       'case': {'sizes': sizes, 'is_position': is_pos, 'num_steps_dtype': np.dtype(dt).name}})
    h5.close()
    bad1, e1 = common.coq_eval_cases(ctx, HEADER, bcases, 'check08b', case_type='case08b', tag='b')
    bad2, e2 = common.coq_eval_cases(ctx, HEADER, wcases, 'check08w', case_type='case08w', tag='w')
    bad3, e3 = common.coq_eval_cases(ctx, HEADER, mcases, 'check08m', case_type='case08m', tag='m')
    out.corr_error = e1 or e2 or e3
    out.disagreements = [bmeta[i] for i in bad1] + [wmeta[i] for i in bad2] + [mmeta[i] for i in bad3]
    out.evaluations = len(bcases) + len(wcases) + len(mcases)
    out.distinct_nontrivial = len(distinct)
    out.rule = ('size tuples with 1..4 dimensions, sizes 1..4 (%s), three value families (uniform, non-uniform, non-monotone; dyadic), '
                'is_spectral F/T, slow_to_fast F/T, raw h5py read-back of datasets and labels/units; non-trivial = >=2 dimensions with '
                'unequal sizes (distinct (sizes, is_spectral, slow_to_fast)); plus every (q, 2) with q = 5..260 (thorough 1200) and five triples through both builders against an integer oracle, returned arrays overwritten after every call' % ('exhaustive: all 340' if not ctx.quick() else 'all with <=2 dims + 90 sampled'))
    out.histogram = hist
    out.trusted = ['uint32 / float32 casts (sizes < 2^32, dyadic values exactly representable)', 'numpy tile/repeat/flipud/fliplr as modelled in Base/Matrix.v']
    return out
