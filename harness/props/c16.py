"""C16 -- stored parameters match a query exactly when every queried value is equal."""
import copy
import os
from fractions import Fraction

import h5py
import numpy as np

import common
from common import cnat, clist, cpair

PID = 'C16'
PROP_V = 'Props/C16.v'
CORR_V = ('Corr/CorrC16.v',)
HEADER = 'From Coq Require Import QArith.\nRequire Import V.H5.Attrs V.Corr.CorrC16.\n'

STRS = ['', 'a', 'ab', 'abc', 'abcd', 'Bias', 'V', 'ch_1', 'ch_10', 'x y', 'nm']


def cQ(x):
    fr = Fraction(x)
    return '(%d # %d)' % (fr.numerator, fr.denominator)


def cval(v):
    """Python value -> Coq pyval (booleans and ints are numbers; strings become identifiers)"""
    if v is None:
        return 'PNone'
    if isinstance(v, (bool, np.bool_)):
        return '(PNum %s)' % cQ(int(v))
    if isinstance(v, (int, float, np.integer, np.floating)):
        return '(PNum %s)' % cQ(v)
    if isinstance(v, str):
        return '(PStr %d%%nat)' % STRS.index(v)
    seq = list(v.tolist() if isinstance(v, np.ndarray) else v)
    if seq and all(isinstance(x, str) for x in seq):
        return '(PStrs %s)' % clist(seq, lambda s: '%d%%nat' % STRS.index(s))
    return '(PNums %s)' % clist(seq, lambda x: cQ(int(x) if isinstance(x, (bool, np.bool_)) else x))


def kind(v):
    if v is None:
        return 'none'
    if isinstance(v, bool):
        return 'bool'
    if isinstance(v, int):
        return 'int'
    if isinstance(v, float):
        return 'float'
    if isinstance(v, str):
        return 'str'
    seq = list(v)
    if seq and all(isinstance(x, str) for x in seq):
        return 'strlist'
    return 'numlist'


def gen_value(rng):
    r = rng.random()
    if r < 0.15:
        return rng.choice([0, 1, -7, 42, 2 ** 40 + 3, 2 ** 62])
    if r < 0.3:
        return rng.choice([0.0, 1.5, -2.25, 1e-3, 3.0, 1e9 + 0.5, 0.1])
    if r < 0.4:
        return rng.choice([True, False])
    if r < 0.55:
        return rng.choice(STRS[1:])
    if r < 0.6:
        return [rng.choice([1, 2, 3, 5, 8, 13]) for _ in range(rng.randint(0, 4))]
    if r < 0.7:
        return [rng.choice([7, 2.5])] * rng.randint(1, 3)
    if r < 0.82:
        return [rng.choice([0.5, 1.25, -3.0, 2.0, 0.1, 7.0]) for _ in range(rng.randint(1, 4))]
    if r < 0.94:
        return [rng.choice(STRS[1:]) for _ in range(rng.randint(1, 3))]
    if r < 0.97:
        return tuple(rng.choice([1, 2, 3]) for _ in range(rng.randint(1, 3)))
    return None


def same_kind_perturbations(rng, v):
    """(perturbed value, label) pairs that the property requires to be reported as a mismatch"""
    k = kind(v)
    out = []
    if k == 'bool':
        out.append((not v, 'value'))
    elif k == 'int':
        out.append((v + rng.choice([1, -1, 1000]), 'value'))
    elif k == 'float':
        out.append((v + rng.choice([0.5, -1.0, 1e-3]), 'value'))
        out.append((v * (1 + 2 ** -30) if v else 2 ** -40, 'value_tiny'))
    elif k == 'str':
        out.append((rng.choice([s for s in STRS if s != v]), 'value'))
    elif k in ('numlist', 'strlist'):
        seq = list(v)
        pool = STRS[1:] if k == 'strlist' else [1, 2, 3, 5, 0.5, 7.0]
        out.append((seq + [rng.choice(pool)], 'length+1'))
        if seq:
            out.append((seq[:-1], 'length-1'))
            out.append((seq + seq, 'length_doubled'))
            i = rng.randrange(len(seq))
            s2 = list(seq)
            if k == 'strlist':
                s2[i] = rng.choice([s for s in STRS if s != seq[i]])
                out.append((s2, 'element'))
                s3 = list(seq)
                s3[i] = seq[i] + '0' if (seq[i] + '0') in STRS else seq[i] + 'd' if (seq[i] + 'd') in STRS else STRS[0]
                out.append((s3, 'element_extended'))
            else:
                s2[i] = seq[i] + rng.choice([1, -1, 0.5])
                out.append((s2, 'element'))
                s3 = list(seq)
                s3[i] = float(seq[i]) * (1 + 2 ** -30) + 2 ** -40
                out.append((s3, 'element_within_allclose_tolerance'))
                out.append((np.array(s2), 'element_as_ndarray'))
    return out


def cross_kind(rng, v):
    """perturbations to another kind: only 'never raises' (and agreement with the model) is demanded"""
    k = kind(v)
    cands = [5, 2.5, True, 'ab', [1, 2], ['a'], [], (1,), 'abc']
    out = [c for c in cands if kind(c) != k][:4]
    # a sequence of the SAME length but of the other element kind (numbers stored / strings queried and the reverse)
    if k == 'numlist' and len(v) > 0:
        out += [[STRS[1 + i % (len(STRS) - 1)] for i in range(len(v))]]
    elif k == 'strlist' and len(v) > 0:
        out += [[i + 1 for i in range(len(v))], [0.5] * len(v)]
    return out


def snapshot(obj):
    return sorted((k, repr(np.asarray(obj.attrs[k]).tolist()), str(np.asarray(obj.attrs[k]).dtype)) for k in obj.attrs.keys())


def run(ctx, build):
    from pyUSID.io.hdf_utils import check_for_matching_attrs
    from sidpy.hdf.hdf_utils import write_simple_attrs
    out = common.Outcome()
    rng = ctx.rng
    n_dicts = 90 if ctx.quick() else 2500
    cases, meta = [], []
    hist = {'kinds': {}, 'perturbations': {}, 'raised': 0, 'carrier': {'group': 0, 'dataset': 0}, 'comparisons': 0}
    distinct = set()
    path = os.path.join(ctx.tmp, 'c16.h5')
    f = h5py.File(path, 'w')

    def violate(cls, mode, what, case):
        out.violations.append({'call_site': 'hdf_utils.check_for_matching_attrs', 'input_class': cls, 'failure_mode': mode,
                               'what': what, 'case': case})

    def compare(obj, written, query, expect, cls, label):
        before = snapshot(obj)
        q0 = copy.deepcopy(query)
        try:
            with common.quiet():
                r = bool(check_for_matching_attrs(obj, new_parms=query))
            obs = 1 if r else 0
        except Exception as e:
            obs = 2
            hist['raised'] += 1
        hist['comparisons'] += 1
        cases.append(cpair(clist(list(written.items()), lambda kv: cpair('%d%%nat' % int(kv[0][1:]), cval(kv[1]))),
                           clist(list(query.items()), lambda kv: cpair('%d%%nat' % int(kv[0][1:]), cval(kv[1]))), '%d%%nat' % obs))
        m = {'written': {k: repr(v) for k, v in written.items()}, 'query': {k: repr(v) for k, v in query.items()}, 'observed': obs, 'what': label}
        meta.append(m)
        if obs == 2:
            violate(cls, 'comparison_raises', str(m), m)
        elif expect is not None and obs != expect:
            violate(cls, 'match_expected_%d_got_%d' % (expect, obs), str(m), m)
        if snapshot(obj) != before or repr(q0) != repr(query):
            violate(cls, 'object_or_query_modified', str(m), m)

    for di in range(n_dicts):
        n = rng.randint(1, 6)
        d = {'k%d' % i: gen_value(rng) for i in rng.sample(range(9), n)}
        if di % 2 == 0:
            obj = f.create_group('g%05d' % di)
            hist['carrier']['group'] += 1
        else:
            obj = f.create_dataset('d%05d' % di, data=np.arange(3))
            hist['carrier']['dataset'] += 1
        if rng.random() < 0.3:
            obj.attrs['k8'] = 99          # a prior attribute (overwritten if the dictionary has k8)
            obj.attrs['unrelated'] = 'x'
        with common.quiet():
            write_simple_attrs(obj, d)
        for v in d.values():
            hist['kinds'][kind(v)] = hist['kinds'].get(kind(v), 0) + 1
        if len(d) >= 2:
            distinct.add(repr(sorted(d.items(), key=lambda kv: kv[0])))
        # (1) reflexive
        compare(obj, d, dict(d), 1, 'any', 'the written dictionary itself')
        # (1b) equal values given as other containers
        q = {k: (tuple(v) if isinstance(v, list) else np.array(v) if isinstance(v, tuple) else v) for k, v in d.items()}
        compare(obj, d, q, 1, 'any', 'same values as tuple / ndarray')
        # (2) every single-entry perturbation
        for k, v in d.items():
            for pv, label in same_kind_perturbations(rng, v):
                q = dict(d)
                q[k] = pv
                hist['perturbations'][label] = hist['perturbations'].get(label, 0) + 1
                if label in ('element_within_allclose_tolerance',):
                    cls = 'numeric_list_element_perturbed_within_allclose_tolerance'
                else:
                    cls = 'any'
                compare(obj, d, q, 0, cls, 'entry %s perturbed: %s' % (k, label))
            # container-changing replacements built from the value itself: a scalar against sequences that broadcast to it
            if kind(v) in ('int', 'float', 'bool', 'str'):
                for pv, label in (([v, v], 'scalar_to_repeated_list'), ([], 'scalar_to_empty_list')):
                    q = dict(d)
                    q[k] = pv
                    hist['perturbations'][label] = hist['perturbations'].get(label, 0) + 1
                    compare(obj, d, q, 0, 'any', 'entry %s perturbed: %s' % (k, label))
            elif kind(v) in ('numlist', 'strlist') and len(list(v)) >= 1:
                seq = list(v)
                q = dict(d)
                q[k] = [seq[0]] * (len(seq) + 2)
                hist['perturbations']['list_to_longer_constant_list'] = hist['perturbations'].get('list_to_longer_constant_list', 0) + 1
                compare(obj, d, q, 0, 'any', 'entry %s perturbed: list_to_longer_constant_list' % k)
                if len(seq) >= 2 and len(set(map(repr, seq))) == 1:
                    q = dict(d)
                    q[k] = [seq[0]]
                    compare(obj, d, q, 0, 'any', 'entry %s perturbed: constant_list_to_one_element' % k)
            for pv in cross_kind(rng, v):
                q = dict(d)
                q[k] = pv
                hist['perturbations']['cross_kind'] = hist['perturbations'].get('cross_kind', 0) + 1
                compare(obj, d, q, None, 'any', 'entry %s replaced by another kind' % k)
        # (2b) a queried entry that is not stored
        q = dict(d)
        q['k9'] = gen_value(rng) or 1
        compare(obj, d, q, 0, 'any', 'extra key that is not stored')
        # (3) None entries are ignored
        q = dict(d)
        q['k9'] = None
        if d:
            q[rng.choice(list(d))] = None
        compare(obj, d, q, 1, 'any', 'entries set to None')
        if len(out.samples) < 3:
            out.samples.append({'written': {k: repr(v) for k, v in d.items()}})
    f.close()
    bad, err = common.coq_eval_cases(ctx, HEADER, cases, 'check16', case_type='case16', per_file=400)
    out.corr_error = err
    out.disagreements = [meta[i] for i in bad]
    out.evaluations = len(cases)
    out.distinct_nontrivial = len(distinct)
    out.rule = ('dictionaries of 1..6 entries over ints (up to 2^62), dyadic and non-dyadic floats, bools, strings, lists / tuples / arrays of numbers, '
                'lists of strings, empty list, None; groups and datasets as carriers, prior attributes present; for every entry: every same-kind '
                'perturbation (value, tiny value, element, element within tolerance, string extended, length +1/-1/doubled), up to 4 cross-kind '
                'replacements, an extra unstored key, None entries; non-trivial = dictionary with >= 2 entries (distinct)')
    out.histogram = hist
    out.trusted = ['write_simple_attrs / get_attr round trip as abstracted in H5/Attrs.v (numbers -> exact rationals, strings -> identifiers)',
                   'np.allclose(rtol=1e-5, atol=1e-8) over exact rationals; float rounding in allclose not modelled']
    out.assumptions = ['NaN excluded from the float domain (NaN != NaN: reflexivity cannot hold; recorded in DESIGN.md)']
    return out
