"""C09 -- sizes, change-rate order and unit values are recovered from any regular grid."""
import itertools
import os

import dask.array as da
import h5py
import numpy as np

import common
from common import cnat, cZ, cbool, clist, cpair, copt
import gen
import gridcorr as gc

PID = 'C09'
PROP_V = 'Props/C09.v'
CORR_V = ('Corr/CorrGrid.v',)
HEADER = 'Require Import V.Corr.CorrGrid.\n'
CODES = {'ValueError': 1, 'TypeError': 2, 'KeyError': 3, 'IndexError': 4, 'NotImplementedError': 5}


def z4(a):
    return [[int(round(float(x) * 4)) for x in row] for row in np.atleast_2d(np.asarray(a))]


def cmatZ(m):
    return clist(m, lambda r: clist(r, cZ))


def side_class(k, N, shape):
    """input class of a matrix handed to a shape-guessing function"""
    if k > N:
        return 'more_dimensions_than_points'
    if k == N:
        return 'as_many_dimensions_as_points'
    return 'any'


def order_ok(sizes, order, got):
    """got ranks the dimensions fastest -> slowest; ties only among size-1 dimensions"""
    if sorted(got) != list(range(len(sizes))):
        return False
    return [d for d in got if sizes[d] > 1] == [d for d in order if sizes[d] > 1]


def run(ctx, build):
    import pyUSID as usid
    from pyUSID.io.hdf_utils import get_sort_order, get_dimensionality, get_unit_values
    from pyUSID.io.anc_build_utils import create_spec_inds_from_vals
    out = common.Outcome()
    rng = ctx.rng
    hist = {'sides': 0, 'square': 0, 'dims_gt_points': 0, 'unit_dims': 0, 'accessor_calls': 0, 'exceptions': {}}
    distinct = set()
    scases, smeta, ucases, umeta, ccases, cmeta = [], [], [], [], [], []
    # ---- sides: exhaustive small scope (thorough) or a sample, plus the "few points, many dimensions" family
    sides = gc.small_scope(max_dims=3, sizes=(1, 2, 3))
    if ctx.quick():
        sides = rng.sample(sides, 70)
    else:
        out.exhaustive = True
    sides += [([2, 1], [0, 1]), ([2, 1], [1, 0]), ([1, 2], [0, 1]), ([3, 1, 1], [0, 1, 2]), ([1, 1], [0, 1]), ([2, 1, 1], [2, 0, 1]),
              ([2, 2], [1, 0]), ([2, 3, 4], [1, 2, 0]), ([4, 2, 3, 2], [3, 1, 0, 2]), ([1], [0]), ([2, 1, 2, 1], [1, 0, 3, 2])]
    path = os.path.join(ctx.tmp, 'c09.h5')

    def violate(site, cls, mode, what, case):
        out.violations.append({'call_site': site, 'input_class': cls, 'failure_mode': mode, 'what': what, 'case': case})

    for si, (sz, order) in enumerate(sides):
        k, N = len(sz), int(np.prod(sz))
        lay = gen.Layout(sz, order, sz, order, dtype='f8', vkind=si % 2)
        spec_i, spec_v = lay.spec_inds(), lay.spec_vals()
        pos_i, pos_v = lay.pos_inds(), lay.pos_vals()
        hist['sides'] += 1
        hist['square'] += int(k == N)
        hist['dims_gt_points'] += int(k > N)
        hist['unit_dims'] += int(1 in sz)
        desc = {'sizes': sz, 'order_fast_to_slow': order}
        if len([s for s in sz if s > 1]) >= 2 and list(order) != list(range(k)):
            distinct.add((tuple(sz), tuple(order)))
        # ---------- get_sort_order / get_dimensionality on both shapes
        for shape_name, m in (('spectroscopic-shaped', spec_i), ('position-shaped', pos_i)):
            variants = [m]
            if si % 3 == 0:
                variants.append(da.from_array(m, chunks=m.shape))
            for mv in variants:
                try:
                    so = [int(x) for x in get_sort_order(mv)]
                    dims = [int(x) for x in get_dimensionality(mv, so)]
                    code = 0
                except Exception as e:
                    so, dims, code = [], [], CODES.get(type(e).__name__, 6)
                    hist['exceptions'][type(e).__name__] = hist['exceptions'].get(type(e).__name__, 0) + 1
                if code == 0:
                    scases.append(cpair(gc.cmat(gc.mat(m)), clist(so, cnat), clist(dims, cnat)))
                    smeta.append(dict(desc, given=shape_name, order=so, sizes_reported=dims))
                # which shape relation makes the guess wrong is part of the input class
                rows, cols = m.shape
                guess_ok = (shape_name == 'spectroscopic-shaped' and rows <= cols) or (shape_name == 'position-shaped' and rows > cols)
                cls = 'any' if guess_ok else ('%s_matrix_with_%s' % (shape_name, 'dims>=points' if shape_name.startswith('pos') else 'dims>points'))
                mode = None
                if code:
                    mode = 'raises'
                elif not order_ok(sz, order, so):
                    mode = 'order_not_fast_to_slow'
                elif dims != [sz[d] for d in so]:
                    mode = 'sizes_wrong'
                if mode:
                    violate('hdf_utils.get_sort_order/get_dimensionality', cls, mode, '%s %s -> order %s sizes %s' % (shape_name, desc, so, dims),
                            dict(desc, given=shape_name))
        # ---------- get_unit_values (free function, numpy inputs with names)
        names = ['D%d' % d for d in range(k)]
        expect = [[float(np.float32(x)) for x in gen.unit_values(d + 10, sz[d], lay.vkind)] for d in range(k)]
        for shape_name, mi, mv_ in (('spectroscopic-shaped', spec_i, spec_v), ('position-shaped', pos_i, pos_v)):
            for isp in (None, shape_name.startswith('spec')):
                if shape_name.startswith('pos'):
                    expect_here = [[float(np.float32(x)) for x in gen.unit_values(d, sz[d], lay.vkind)] for d in range(k)]
                else:
                    expect_here = expect
                try:
                    with common.quiet():
                        uv = get_unit_values(mi, mv_, all_dim_names=names, is_spec=isp)
                    obs = [[float(x) for x in uv[nm]] for nm in names]
                    code = 0
                except Exception as e:
                    obs, code = [], CODES.get(type(e).__name__, 6)
                    hist['exceptions'][type(e).__name__] = hist['exceptions'].get(type(e).__name__, 0) + 1
                ucases.append(cpair(gc.cmat(gc.mat(mi)), cmatZ(z4(mv_)), copt(isp, cbool), cnat(k), cnat(code),
                                    clist([[int(round(x * 4)) for x in r] for r in obs], lambda r: clist(r, cZ))))
                umeta.append(dict(desc, given=shape_name, is_spec=isp, code=code))
                rows, cols = mi.shape
                guess_ok = isp is not None or (rows != cols and ((rows < cols) == shape_name.startswith('spec')))
                cls = 'any' if guess_ok else 'is_spec_guessed_on_%s_matrix_%dx%d' % (shape_name, rows, cols) if False else \
                    ('any' if guess_ok else 'is_spec_guessed_with_dims>=points')
                if code:
                    violate('hdf_utils.get_unit_values', cls, 'raises', '%s is_spec=%s on %s' % (shape_name, isp, desc), dict(desc, given=shape_name, is_spec=isp))
                elif obs != expect_here:
                    violate('hdf_utils.get_unit_values', cls, 'unit_values_wrong', '%s is_spec=%s on %s: %s' % (shape_name, isp, desc, obs),
                            dict(desc, given=shape_name, is_spec=isp))
        # ---------- create_spec_inds_from_vals
        try:
            ri = create_spec_inds_from_vals(np.asarray(spec_v))
            obs = gc.mat(ri)
        except Exception as e:
            obs = None
        if obs is not None:
            ccases.append(cpair(cmatZ(z4(spec_v)), gc.cmat(obs)))
            cmeta.append(desc)
        if obs is None or obs != gc.mat(spec_i):
            violate('anc_build_utils.create_spec_inds_from_vals', 'any', 'indices_not_reproduced', str(desc), desc)
        # ---------- dataset object accessors
        if si % 2 == 0 or not ctx.quick():
            lay2 = gen.Layout(sz, order, sides[(si * 5 + 1) % len(sides)][0], sides[(si * 5 + 1) % len(sides)][1], dtype='f8', vkind=si % 2)
            if lay2.N * lay2.M <= 2000:
                with h5py.File(path, 'w') as h5:
                    main = gen.write_layout(h5, lay2)
                    hist['accessor_calls'] += 1
                    d2 = lay2.describe()
                    cls = 'more_dimensions_than_points_on_a_side' if gc.more_dims_than_points(lay2) else \
                        ('as_many_dimensions_as_points_on_a_side' if gc.dims_ge_points(lay2) else 'any')
                    try:
                        with common.quiet():
                            u = usid.USIDataset(main)
                            gen.Bystander.get(ctx.tmp).touch()
                        sizes = ([int(x) for x in u.pos_dim_sizes], [int(x) for x in u.spec_dim_sizes], [int(x) for x in u.n_dim_sizes])
                        if sizes != (lay2.pos_sizes, lay2.spec_sizes, lay2.pos_sizes + lay2.spec_sizes):
                            violate('USIDataset.pos_dim_sizes/spec_dim_sizes/n_dim_sizes', cls, 'sizes_wrong', '%s on %s' % (sizes, d2), d2)
                        for d, nm in enumerate(lay2.pos_labels):
                            with common.quiet():
                                got = [float(x) for x in u.get_pos_values(nm)]
                            if got != [float(np.float32(x)) for x in lay2.pos_unit(d)]:
                                violate('USIDataset.get_pos_values', cls, 'unit_values_wrong', '%s: %s on %s' % (nm, got, d2), d2)
                        for d, nm in enumerate(lay2.spec_labels):
                            with common.quiet():
                                got = [float(x) for x in u.get_spec_values(nm)]
                            if got != [float(np.float32(x)) for x in lay2.spec_unit(d)]:
                                violate('USIDataset.get_spec_values', cls, 'unit_values_wrong', '%s: %s on %s' % (nm, got, d2), d2)
                    except Exception as e:
                        hist['exceptions'][type(e).__name__] = hist['exceptions'].get(type(e).__name__, 0) + 1
                        violate('USIDataset accessors', cls, 'raises_' + type(e).__name__, '%r on %s' % (e, d2), d2)
        if len(out.samples) < 4 and k >= 2:
            out.samples.append(dict(desc, spec_indices=gc.mat(spec_i)))
    # ---- designed, seed-independent, integer / exact-float oracle only (too large or outside the dyadic value model)
    hist['designed_wide_cases'] = 0
    # (a) reference values that differ by far less than any "closeness" tolerance must still count as different values
    for base, step in ((1.0, 1e-7), (300000.0, 1.0), (2e-9, 1e-12)):
        for sz, order in (([4, 3], [0, 1]), ([3, 4], [1, 0]), ([2, 3, 2], [0, 2, 1])):
            lay = gen.Layout(sz, order, sz, order)
            inds = lay.spec_inds()
            vals = np.array([base * (d + 1) + inds[d] * step for d in range(len(sz))], dtype=np.float64)
            desc = {'sizes': sz, 'order_fast_to_slow': order, 'values': 'base %g step %g' % (base, step)}
            hist['designed_wide_cases'] += 1
            try:
                ri = create_spec_inds_from_vals(vals)
                okc = np.array_equal(np.asarray(ri, dtype=np.int64), inds.astype(np.int64))
            except Exception as e:
                okc = False
            if not okc:
                violate('anc_build_utils.create_spec_inds_from_vals', 'closely_spaced_values', 'indices_not_reproduced', str(desc), desc)
    # (a') reference values held in float64 that float32 cannot tell apart: the unit values reported must be the values themselves
    for base, step in ((0.1, 1e-9), (1600000000.0, 1.0), (1000000.1, 0.1)):
        for sz, order in (([3, 2], [0, 1]), ([2, 3], [1, 0])):
            lay = gen.Layout(sz, order, sz, order)
            inds = lay.spec_inds()
            uv = [base * (d + 1) + np.arange(sz[d]) * step for d in range(len(sz))]
            vals = np.array([uv[d][inds[d]] for d in range(len(sz))], dtype=np.float64)
            desc = {'sizes': sz, 'order_fast_to_slow': order, 'values': 'float64 base %r step %r' % (base, step)}
            hist['designed_wide_cases'] += 1
            names = ['d%d' % d for d in range(len(sz))]
            for shape_name, (ii, vv, isp) in (('spectroscopic-shaped', (inds, vals, True)), ('position-shaped', (inds.T, vals.T, False))):
                try:
                    got = get_unit_values(ii, vv, all_dim_names=names, is_spec=isp)
                    okv = all([float(x) for x in got[names[d]]] == [float(x) for x in uv[d]] for d in range(len(sz)))
                except Exception as e:
                    okv = False
                if not okv:
                    violate('hdf_utils.get_unit_values', 'float64_reference_values', 'unit_values_wrong', '%s on %s' % (shape_name, desc), dict(desc, given=shape_name))
    # (b) index matrices stored in a narrow integer type whose range a dimension fills exactly; (c) more points than 16 bits count
    wide = [(np.uint8, [256, 2], [0, 1]), (np.uint8, [2, 256], [0, 1]), (np.uint16, [65536, 2], [0, 1]), (np.uint32, [3, 21846], [0, 1]),
            (np.uint32, [13108, 5], [0, 1]), (np.uint32, [21846, 3], [1, 0])]
    for dt, sz, order in wide:
        lay = gen.Layout(sz, order, sz, order)
        inds = lay.spec_inds().astype(dt)
        desc = {'sizes': sz, 'order_fast_to_slow': order, 'index_dtype': np.dtype(dt).name}
        hist['designed_wide_cases'] += 1
        for shape_name, arr in (('spectroscopic-shaped', inds), ('position-shaped', inds.T)):
            try:
                so = [int(x) for x in get_sort_order(inds)]
                dims = [int(x) for x in get_dimensionality(arr)]
            except Exception as e:
                violate('hdf_utils.get_sort_order / get_dimensionality', 'wide_or_narrow_typed_grid', 'raises_' + type(e).__name__, '%r on %s' % (e, desc), desc)
                continue
            if so != list(order):
                violate('hdf_utils.get_sort_order', 'wide_or_narrow_typed_grid', 'order_wrong', '%s on %s' % (so, desc), desc)
            if dims != list(sz):
                violate('hdf_utils.get_dimensionality', 'wide_or_narrow_typed_grid', 'sizes_wrong', '%s: %s on %s' % (shape_name, dims, desc), desc)
    b1, e1 = common.coq_eval_cases(ctx, HEADER, scases, 'check09s', case_type='case09s', tag='s')
    b2, e2 = common.coq_eval_cases(ctx, HEADER, ucases, 'check09u', case_type='case09u', tag='u')
    b3, e3 = common.coq_eval_cases(ctx, HEADER, ccases, 'check09c', case_type='case09c', tag='c')
    out.corr_error = e1 or e2 or e3
    out.disagreements = [smeta[i] for i in b1] + [umeta[i] for i in b2] + [cmeta[i] for i in b3]
    out.evaluations = len(scases) + len(ucases) + len(ccases)
    out.distinct_nontrivial = len(distinct)
    out.rule = ('grids with <= 3 dimensions, sizes 1..3, every storage permutation (%s) plus a hand-picked family with as many / more '
                'dimensions than points, square matrices and 4 dimensions; each grid is given spectroscopic- and position-shaped, as numpy / dask, '
                'to get_sort_order, get_dimensionality, get_unit_values (is_spec explicit and guessed), create_spec_inds_from_vals, and through '
                'USIDataset accessors; designed: closely spaced reference values, uint8 / uint16 index matrices with a dimension of 256 / 65536 steps, grids of 65 538 / 65 540 points (exact oracle only); non-trivial = >= 2 dimensions of size >= 2 not stored fastest-first (distinct (sizes, order))'
                % ('exhaustive' if not ctx.quick() else 'sample of 70'))
    out.histogram = hist
    out.trusted = ['numpy unique/where/diff/argsort as mirrored in the model', 'float32 dyadic values compared exactly after scaling by 4']
    out.assumptions = ['unit-value extraction and the values->indices rebuild are tied by correspondence; their grid theorems are not proved (partial)']
    return out
