"""C14 -- work is partitioned across ranks without gaps or overlap."""
import os
import shutil
import sys
import types

import h5py
import numpy as np

import common
from common import cnat, cZ, clist, cpair
import gen
import gen_kernels

PID = 'C14'
PROP_V = 'Props/C14.v'
CORR_V = ('Corr/CorrC14.v',)
HEADER = 'Require Import V.Corr.CorrC14.\n'


def regenerate(ctx):
    return gen_kernels.regenerate(ctx.repo, common.COQ, which=('jobs',))


def make_base(ctx, path, N, M, mask):
    """source file + a pre-seeded partial results group with the given completion mask"""
    import procutil
    lay = gen.Layout([N], [0], [M], [0], dtype='f8')
    with h5py.File(path, 'w') as h5:
        main = gen.write_layout(h5, lay)
        with common.quiet():
            p = procutil.MapProc(main)
            p._create_results_datasets()
        grp = p.h5_results_grp
        grp.create_dataset('completed_positions', data=np.array(mask, dtype=np.uint8))
        res = grp['Results']
        for pos, m in enumerate(mask):
            if m:
                res[pos, 0] = procutil.expected_result(M, pos)
        h5.flush()
    return lay


def run_rank(ctx, base, N, M, R, r, maxpos):
    import procutil
    path = os.path.join(ctx.tmp, 'rank.h5')
    shutil.copy(base, path)
    with h5py.File(path, 'r+') as h5:
        main = h5['Measurement_000/Channel_000/Raw_Data']
        with common.quiet():
            p = procutil.MapProc(main, cores=1)
            p.mpi_rank, p.mpi_size = r, R
            p._max_pos_per_read = maxpos
            grp = p.compute()
        status = [int(x) for x in grp['completed_positions'][()]]
        results = [float(x) for x in grp['Results'][:, 0]]
        batches = p.batches_seen
    os.remove(path)
    return batches, status, results


def gen_case(ctx, rng, quick):
    N = rng.randint(1, 14 if quick else 40)
    M = rng.randint(1, 3)
    kind = rng.random()
    if kind < 0.25:
        mask = [0] * N
    elif kind < 0.5:
        k = rng.randint(0, N - 1)
        mask = [1] * k + [0] * (N - k)
    else:
        mask = [rng.randint(0, 1) for _ in range(N)]
        if all(mask):
            mask[rng.randrange(N)] = 0
    n = mask.count(0)
    R = rng.randint(1, 6 if quick else 9)
    if rng.random() < 0.2:
        R = n + rng.randint(1, 3)      # fewer pending positions than ranks
    maxpos = rng.randint(1, max(1, n + 2))
    return N, M, mask, R, maxpos


def fake_mpi(names, rank):
    class Comm:
        def Get_size(self):
            return len(names)

        def Get_rank(self):
            return rank

        def allgather(self, x):
            return list(names)

        def barrier(self):
            pass

    MPI = types.SimpleNamespace(COMM_WORLD=Comm(), Get_processor_name=lambda: names[rank])
    mod = types.ModuleType('mpi4py')
    mod.MPI = MPI
    return mod


def run(ctx, build):
    import procutil
    from pyUSID.processing import comp_utils
    out = common.Outcome()
    rng = ctx.rng
    n_cases = 45 if ctx.quick() else 500
    cases, meta = [], []
    hist = {'R': {}, 'n_lt_R': 0, 'mask_kind': {}, 'rank_runs': 0}
    distinct = set()
    base = os.path.join(ctx.tmp, 'base.h5')
    for ci in range(n_cases):
        N, M, mask, R, maxpos = gen_case(ctx, rng, ctx.quick())
        make_base(ctx, base, N, M, mask)
        pend = [i for i, m in enumerate(mask) if m == 0]
        hist['R'][R] = hist['R'].get(R, 0) + 1
        if len(pend) < R:
            hist['n_lt_R'] += 1
        per_rank = []
        for r in range(R):
            try:
                batches, status, results = run_rank(ctx, base, N, M, R, r, maxpos)
                exc = None
            except Exception as e:     # a rank that raises is a disagreement with the model (which never fails for maxpos>=1)
                batches, status, results, exc = [], list(mask), [], repr(e)
            hist['rank_runs'] += 1
            per_rank.append((batches, status, results, exc))
            cases.append(cpair(clist(mask, cnat), cnat(R), cnat(r), cZ(maxpos),
                               clist(batches, lambda b: clist(b, cnat)), clist(status, cnat)))
            meta.append({'N': N, 'M': M, 'mask': mask, 'R': R, 'r': r, 'maxpos': maxpos, 'obs_batches': batches,
                         'obs_status': status, 'exception': exc})
        # ---- independent oracle on the real outputs: the property itself
        allpos = [p for (b, _, _, _) in per_rank for bb in b for p in bb]
        desc = {'N': N, 'mask': mask, 'R': R, 'maxpos': maxpos,
                'batches_per_rank': [b for (b, _, _, _) in per_rank]}
        what = None
        if any(e for (_, _, _, e) in per_rank):
            what = 'a rank raised: %s' % [e for (_, _, _, e) in per_rank if e][0]
            mode = 'rank_raises'
        elif sorted(allpos) != pend:
            dup = len(allpos) != len(set(allpos))
            mode = 'ranks_overlap' if dup else 'ranks_leave_gap'
            what = 'union of rank ranges %s != pending %s' % (sorted(allpos), pend)
        else:
            for r, (b, status, results, _) in enumerate(per_rank):
                mine = [p for bb in b for p in bb]
                marked = [i for i in range(N) if status[i] == 1 and mask[i] == 0]
                if sorted(marked) != sorted(mine):
                    mode, what = 'marks_foreign_positions', 'rank %d marked %s but processed %s' % (r, marked, mine)
                    break
                if any(len(bb) > maxpos or len(bb) == 0 for bb in b):
                    mode, what = 'batch_limit_exceeded', 'rank %d batches %s exceed limit %d' % (r, b, maxpos)
                    break
                if any(abs(results[p] - procutil.expected_result(M, p)) > 0 for p in mine):
                    mode, what = 'wrong_result', 'rank %d stored a wrong result' % r
                    break
        if what:
            out.violations.append({'call_site': 'Process.compute (simulated ranks)', 'input_class': 'any',
                                   'failure_mode': mode, 'what': what, 'case': desc})
        if len(pend) >= 2 and R >= 2:
            distinct.add((tuple(mask), R, maxpos))
        if len(out.samples) < 4:
            out.samples.append(desc)
    # ---- designed (independent of the seed): a LEGACY results group (only the 'last_pixel' attribute) with the same parameters
    # lies beside the group that is computed -- a partial group chosen with use_partial_computation(), or a fresh one
    # (override=True).  The ranks must partition the pending set of the group that IS computed, and mark it there.
    hist['legacy_group_beside'] = 0
    for (N, M, lp, mmask, R, maxpos, how) in ((16, 2, 10, [1, 1, 0, 0, 1, 0, 1, 1, 0, 0, 0, 1, 0, 0, 0, 1], 3, 2, 'chosen_partial_group'),
                                               (12, 1, 5, None, 3, 3, 'override'),
                                               (9, 2, 4, [0, 1, 0, 1, 0, 1, 0, 1, 0], 2, 1, 'chosen_partial_group')):
        hist['legacy_group_beside'] += 1
        lay = gen.Layout([N], [0], [M], [0], dtype='f8')
        with h5py.File(base, 'w') as h5:
            main = gen.write_layout(h5, lay)
            modern_name = procutil.seed_partial_group(main, mmask).name if mmask else None
            legacy_name = procutil.seed_partial_group(main, [1] * lp + [0] * (N - lp), with_status=False, last_pixel=lp).name
        mask = list(mmask) if mmask else [0] * N
        pend = [i for i, m in enumerate(mask) if m == 0]
        desc = {'N': N, 'mask': mask, 'R': R, 'maxpos': maxpos, 'legacy_group_last_pixel': lp, 'computed_group': how}
        per_rank, what, mode = [], None, None
        for r in range(R):
            path = os.path.join(ctx.tmp, 'rank.h5')
            shutil.copy(base, path)
            try:
                with h5py.File(path, 'r+') as h5:
                    main = h5['Measurement_000/Channel_000/Raw_Data']
                    with common.quiet():
                        p = procutil.MapProc(main, cores=1)
                        p.mpi_rank, p.mpi_size = r, R
                        if how == 'override':
                            p._max_pos_per_read = maxpos
                            grp = p.compute(override=True)
                        else:
                            p.use_partial_computation(h5_partial_group=h5[modern_name])
                            p._max_pos_per_read = maxpos
                            grp = p.compute()
                    gname = grp.name
                    status = [int(x) for x in grp['completed_positions'][()]] if 'completed_positions' in grp else None
                    results = [float(x) for x in grp['Results'][:, 0]]
                    batches = p.batches_seen
            except Exception as e:
                what, mode = 'rank %d raised %r' % (r, e), 'rank_raises'
                break
            finally:
                if os.path.exists(path):
                    os.remove(path)
            hist['rank_runs'] += 1
            per_rank.append((batches, status, results))
            if status is not None:
                cases.append(cpair(clist(mask, cnat), cnat(R), cnat(r), cZ(maxpos), clist(batches, lambda b: clist(b, cnat)), clist(status, cnat)))
                meta.append(dict(desc, r=r, obs_batches=batches, obs_status=status))
            mine = [q for bb in batches for q in bb]
            if (how == 'override' and gname in (legacy_name, modern_name)) or (how != 'override' and gname != modern_name):
                what, mode = 'rank %d computed in %s' % (r, gname), 'wrong_group_computed'
            elif status is None:
                what, mode = 'rank %d: the computed group %s has no completion-status dataset' % (r, gname), 'marks_foreign_positions'
            elif sorted(i for i in range(N) if status[i] == 1 and mask[i] == 0) != sorted(mine):
                what, mode = 'rank %d marked %s in the computed group but processed %s' % (r, [i for i in range(N) if status[i] == 1 and mask[i] == 0], mine), 'marks_foreign_positions'
            elif any(len(bb) > maxpos or len(bb) == 0 for bb in batches):
                what, mode = 'rank %d batches %s exceed limit %d' % (r, batches, maxpos), 'batch_limit_exceeded'
            elif any(results[q] != procutil.expected_result(M, q) for q in mine):
                what, mode = 'rank %d stored a wrong result' % r, 'wrong_result'
            if what:
                break
        if not what:
            allpos = sorted(q for (b, _, _) in per_rank for bb in b for q in bb)
            if allpos != pend:
                mode = 'ranks_overlap' if len(allpos) != len(set(allpos)) else 'ranks_leave_gap'
                what = 'union of rank ranges %s != pending positions %s of the computed group' % (allpos, pend)
        if what:
            out.violations.append({'call_site': 'Process.compute (simulated ranks)', 'input_class': 'legacy_group_beside_' + how,
                                   'failure_mode': mode, 'what': what, 'case': desc})
        distinct.add((tuple(mask), R, maxpos, how))
    # ---- sockets through a fake mpi4py
    scases = []
    vocab = ['nodeA', 'nodeB', 'node-10', 'node-2', 'x']
    n_s = 60 if ctx.quick() else 1000
    for si in range(n_s):
        R = rng.randint(1, 9)
        names = [rng.choice(vocab[:rng.randint(1, len(vocab))]) for _ in range(R)]
        # designed, seed-independent: more ranks than the small-array fast paths of numpy's sorts cover, placed block-wise and
        # round-robin on 2 / 3 names
        big = [(18, 2, 'block'), (18, 2, 'robin'), (24, 3, 'block'), (40, 3, 'robin'), (33, 2, 'block'), (64, 4, 'robin'), (130, 3, 'block')]
        if si < len(big):
            R, nn, how = big[si]
            names = [vocab[(q * nn // R) if how == 'block' else (q % nn)] for q in range(R)]
        ids = {nm: i for i, nm in enumerate(sorted(set(names)))}
        sys.modules['mpi4py'] = fake_mpi(names, rng.randrange(R))
        try:
            if R == 1:
                # get_MPI() returns None for a single rank; call through the module object directly
                comp_utils_get = comp_utils.get_MPI
                comp_utils.get_MPI = lambda: sys.modules['mpi4py'].MPI
                try:
                    masters = [int(x) for x in comp_utils.group_ranks_by_socket()]
                finally:
                    comp_utils.get_MPI = comp_utils_get
            else:
                masters = [int(x) for x in comp_utils.group_ranks_by_socket()]
        finally:
            del sys.modules['mpi4py']
        scases.append(cpair(clist([ids[nm] for nm in names], cnat), clist(masters, cnat)))
        exp = [names.index(nm) for nm in names]
        if masters != exp:
            out.violations.append({'call_site': 'comp_utils.group_ranks_by_socket', 'input_class': 'any',
                                   'failure_mode': 'master_not_lowest_rank',
                                   'what': 'names %s -> masters %s, expected %s' % (names, masters, exp),
                                   'case': {'names': names}})
        if len(set(names)) >= 2 and len(names) > len(set(names)):
            distinct.add(tuple(names))
    if len(out.samples) < 6:
        out.samples.append({'socket_names': names, 'masters': masters})
    bad, err = common.coq_eval_cases(ctx, HEADER, cases, 'check14', case_type='case14')
    bad2, err2 = common.coq_eval_cases(ctx, HEADER, scases, 'check14s', tag='sock')
    out.corr_error = err or err2
    for i in bad:
        out.disagreements.append(meta[i])
    for i in bad2:
        out.disagreements.append({'socket_case': scases[i]})
    out.evaluations = len(cases) + len(scases)
    out.distinct_nontrivial = len(distinct)
    out.rule = ('random (N<=%d, completion masks: none/prefix/arbitrary, R ranks incl. R > pending, batch limit 1..n+2); every rank of '
                'every case is run on the real Process with mpi_rank/mpi_size set; non-trivial = >=2 pending and >=2 ranks '
                '(distinct (mask,R,limit)), or a socket naming with >=2 names and a repeated name' % (14 if ctx.quick() else 40))
    out.histogram = hist
    out.trusted = ['translator harness/translate.py + gen_kernels.py (Python ast -> Gallina, table of attribute names)',
                   'ranks are simulated by setting Process.mpi_rank/mpi_size on copies of one file; real MPI is absent',
                   'fake mpi4py module for group_ranks_by_socket; uint16 master array (R < 65536)']
    out.assumptions = ['real MPI collective I/O not modelled (partial)', 'joblib not involved (cores=1)']
    return out
