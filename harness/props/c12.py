"""C12 -- reducing named dimensions equals the axis reduction, in memory and on file."""
import os

import dask.array as da
import h5py
import numpy as np

import common
from common import cnat, cZ, cbool, clist, cpair, copt
import gen
import gridcorr as gc
from props import c06
from props.c02 import dump_group

PID = 'C12'
PROP_V = 'Props/C12.v'
CORR_V = ('Corr/CorrC12.v',)
HEADER = 'Require Import V.Usid.Reduce V.Corr.CorrC12.\n'

def cfrac(x):
    """a floating-point number as the exact binary fraction (numerator, denominator); not finite -> denominator 0 (never close)"""
    x = float(np.real(x))
    if not np.isfinite(x):
        return cpair(cZ(0), cZ(0))
    n, d = x.as_integer_ratio()
    return cpair(cZ(n), cZ(d))


FNS = [('sum', da.sum, np.sum, 0), ('max', da.max, np.max, 1), ('min', da.min, np.min, 2), ('mean', da.mean, np.mean, None), ('std', da.std, np.std, None)]


def run(ctx, build):
    import pyUSID as usid
    out = common.Outcome()
    rng = ctx.rng
    lays = [l for l in gc.layouts_for(ctx, 26 if ctx.quick() else 350, dtypes=('f8', 'i4', 'f4'), max_elems=120 if ctx.quick() else 500, max_dims=3)
            if not gc.dims_ge_points(l)]
    # designed: a grid whose HDF5 chunks line up neither with the position nor with the spectroscopic grid
    lays.insert(0, gen.Layout([7, 3], [0, 1], [3, 2], [0, 1], dtype='f8', vkind=2))
    cases, meta = [], []
    vcases, vmeta = [], []
    mcases, mmeta = [], []
    hist = {'datasets': 0, 'reductions': 0, 'functions': {}, 'reduced': {'some_pos': 0, 'all_pos': 0, 'some_spec': 0, 'all_spec': 0, 'both_sides': 0},
            'axes_left': {}, 'written': 0, 'raised_on_write': {}, 'in_memory_only': 0}
    distinct = set()
    path = os.path.join(ctx.tmp, 'c12.h5')

    def violate(cls, mode, what, case):
        out.violations.append({'call_site': 'USIDataset.reduce', 'input_class': cls, 'failure_mode': mode, 'what': what, 'case': case})
    for li, lay in enumerate(lays):
        if os.path.exists(path):
            os.remove(path)
        with h5py.File(path, 'w') as f:
            # every third dataset (and the designed first one) is stored in chunks that do not line up with its grids
            chunks = (min(lay.N, 4), min(lay.M, 5)) if li % 3 == 0 and lay.N * lay.M > 1 else None
            hist['misaligned_chunks'] = hist.get('misaligned_chunks', 0) + int(chunks is not None)
            main = gen.write_layout(f, lay, chunks=chunks)
            hist['datasets'] += 1
            labels = lay.pos_labels + lay.spec_labels
            sizes = lay.pos_sizes + lay.spec_sizes
            kp, ks = len(lay.pos_sizes), len(lay.spec_sizes)
            exp_nd = gc.expected_nd(lay).astype(np.float64)          # axes in file label order, element = identity
            ids = lay.main_ids()
            subsets = []
            for _ in range(4 if ctx.quick() else 7):
                k = rng.randint(1, len(labels))
                subsets.append(rng.sample(labels, k))
            subsets.append(list(lay.pos_labels))
            subsets.append(list(lay.spec_labels))
            for dims in subsets:
                name, dfn, nfn, code = FNS[rng.randrange(len(FNS))]
                to_file = rng.random() < 0.75
                sort_dims = rng.random() < 0.15
                with common.quiet():
                    u = usid.USIDataset(main, sort_dims=sort_dims)
                    gen.Bystander.get(ctx.tmp).touch()
                hist['reductions'] += 1
                hist['functions'][name] = hist['functions'].get(name, 0) + 1
                rp = [l for l in lay.pos_labels if l in dims]
                rs = [l for l in lay.spec_labels if l in dims]
                if rp:
                    hist['reduced']['all_pos' if len(rp) == kp else 'some_pos'] += 1
                if rs:
                    hist['reduced']['all_spec' if len(rs) == ks else 'some_spec'] += 1
                if rp and rs:
                    hist['reduced']['both_sides'] += 1
                left = len(labels) - len(dims)
                hist['axes_left'][str(left)] = hist['axes_left'].get(str(left), 0) + 1
                axes = tuple(labels.index(d) for d in dims)
                want = nfn(exp_nd, axis=axes)
                desc = {'layout': lay.describe(), 'dims': dims, 'function': name, 'to_hdf5': to_file, 'sort_dims': sort_dims}
                before = dump_group(main.parent)
                red = new = None
                exc = None
                mom_mem = mom_file = None
                try:
                    with common.quiet():
                        red, new = u.reduce(dims, ufunc=dfn, to_hdf5=to_file)
                        got = np.asarray(red.compute())
                except Exception as e:
                    exc = e
                omem, ofile = 'None', 'None'
                cls = 'all_dims_of_a_side' if (len(rp) == kp or len(rs) == ks) else 'some_dims'
                if not to_file:
                    hist['in_memory_only'] += 1
                    if exc is not None:
                        violate(cls, 'in_memory_reduction_raises', '%r %s' % (exc, desc), desc)
                        continue
                if exc is None:
                    if got.shape != want.shape or not np.allclose(got, want, rtol=(1e-5 if lay.dtype == 'f4' else 1e-12), atol=(1e-3 if lay.dtype == 'f4' else 1e-9)):
                        violate(cls, 'returned_array_differs_from_axis_reduction', '%s vs %s | %s' % (got.shape, want.shape, desc), desc)
                    if code is not None:
                        omem = '(Some %s)' % cpair(clist(list(got.shape), cnat), clist([int(round(float(x))) for x in got.ravel()], cZ))
                    mom_mem = got
                else:
                    kk = type(exc).__name__
                    hist['raised_on_write'][kk] = hist['raised_on_write'].get(kk, 0) + 1
                    # raising is allowed by the property; the in-memory result is then checked through a second, memory-only call
                    try:
                        with common.quiet():
                            red2, _ = u.reduce(dims, ufunc=dfn, to_hdf5=False)
                            got = np.asarray(red2.compute())
                        if got.shape != want.shape or not np.allclose(got, want, rtol=(1e-5 if lay.dtype == 'f4' else 1e-12), atol=(1e-3 if lay.dtype == 'f4' else 1e-9)):
                            violate(cls, 'returned_array_differs_from_axis_reduction', '%s vs %s | %s' % (got.shape, want.shape, desc), desc)
                        if code is not None:
                            omem = '(Some %s)' % cpair(clist(list(got.shape), cnat), clist([int(round(float(x))) for x in got.ravel()], cZ))
                        mom_mem = got
                    except Exception as e2:
                        violate(cls, 'in_memory_reduction_raises', '%r %s' % (e2, desc), desc)
                if to_file and exc is None:
                    hist['written'] += 1
                    nm = f[new.name]
                    problems = []
                    d6 = c06.describe(f, nm, [])
                    if not c06.is_main_spec(d6):
                        problems.append(('result_not_a_valid_main', str(d6)[:300]))
                    else:
                        sides = []
                        coords = {}
                        for side, names, red_names, unit, off, axis in (('pos', lay.pos_labels, rp, lay.pos_unit, 0, 0), ('spec', lay.spec_labels, rs, lay.spec_unit, kp, 1)):
                            hi = f[nm.attrs['Position_Indices' if axis == 0 else 'Spectroscopic_Indices']]
                            hv = f[nm.attrs['Position_Values' if axis == 0 else 'Spectroscopic_Values']]
                            src_hi = f[main.attrs['Position_Indices' if axis == 0 else 'Spectroscopic_Indices']]
                            nl = [x.decode() if isinstance(x, bytes) else str(x) for x in np.atleast_1d(hi.attrs['labels'])]
                            inds, vals = hi[()], hv[()]
                            it, vt = (inds, vals) if axis == 0 else (inds.T, vals.T)
                            if not red_names:
                                if hi.name != src_hi.name:
                                    problems.append(('untouched_side_not_reused', side))
                                sides.append('None')
                                for d, lab in enumerate(names):
                                    coords[lab] = [int(x) for x in (src_hi[()][:, d] if axis == 0 else src_hi[()][d, :])]
                                continue
                            remaining = [l for l in names if l not in red_names]
                            if remaining and nl != remaining:
                                problems.append(('reduced_side_has_wrong_dimensions', '%s: %s vs %s' % (side, nl, remaining)))
                            if not remaining and (nl != ['Single_Step'] or it.shape != (1, 1)):
                                problems.append(('fully_reduced_side_without_placeholder', '%s: %s' % (side, nl)))
                            lab_ids = []
                            for j, lab in enumerate(nl):
                                if lab in names:
                                    d = names.index(lab)
                                    lab_ids.append(off + d)
                                    uv = [float(np.float32(x)) for x in unit(d)]
                                    col = [uv.index(float(x)) if float(x) in uv else 999 for x in vt[:, j]]
                                    coords[lab] = col
                                    if col != [int(x) for x in it[:, j]]:
                                        problems.append(('reduced_side_values_not_the_original_unit_values', '%s %s' % (side, lab)))
                                else:
                                    lab_ids.append((kp if axis == 0 else kp + ks))
                            # the values matrix of the rebuilt side against the model (spectroscopic-shaped, dyadic values x 4)
                            src_hv = f[main.attrs['Position_Values' if axis == 0 else 'Spectroscopic_Values']]
                            s_i, s_v = (src_hi[()].T, src_hv[()].T) if axis == 0 else (src_hi[()], src_hv[()])
                            n_v = vals.T if axis == 0 else vals
                            z4 = lambda m: [[int(round(float(x) * 4)) for x in row] for row in m]
                            vcases.append(cpair(clist([[int(x) for x in row] for row in s_i], lambda r: clist(r, cnat)), clist(z4(s_v), lambda r: clist(r, cZ)),
                                                clist([names.index(l) for l in red_names], cnat), clist(z4(n_v), lambda r: clist(r, cZ))))
                            vmeta.append(dict(desc, rebuilt_side=side))
                            imat = [[int(x) for x in row] for row in inds]
                            sides.append('(Some %s)' % cpair(clist(lab_ids, cnat), clist(imat, lambda r: clist(r, cnat))))
                        data = nm[()]
                        if data.ndim != 2:
                            problems.append(('result_not_2d', str(data.shape)))
                        else:
                            mom_file = data
                            rem = [l for l in labels if l not in dims]
                            bad_el = None
                            for r in range(data.shape[0]):
                                for c in range(data.shape[1]):
                                    idx = []
                                    for lab in rem:
                                        col = coords.get(lab)
                                        pos_side = lab in lay.pos_labels
                                        i0 = col[r if pos_side else c] if col is not None and len(col) > (r if pos_side else c) else 999
                                        idx.append(i0)
                                    if any(i0 >= sizes[labels.index(lab)] for i0, lab in zip(idx, rem)):
                                        bad_el = bad_el or 'element (%d,%d) has no valid coordinates' % (r, c)
                                        continue
                                    w = want[tuple(idx)] if idx else want
                                    if not np.isclose(float(np.real(data[r, c])), float(w), rtol=(1e-5 if lay.dtype == 'f4' else 1e-9), atol=(1e-3 if lay.dtype == 'f4' else 1e-9)):
                                        bad_el = bad_el or 'element (%d,%d)=%s but the reduction over its coordinates %s is %s' % (r, c, data[r, c], idx, w)
                            if bad_el:
                                problems.append(('file_element_is_not_the_reduction_of_its_fibre', bad_el))
                            if data.size != want.size:
                                problems.append(('file_element_count_wrong', '%d vs %d' % (data.size, want.size)))
                            if code is not None and len(sides) == 2:
                                ofile = '(Some %s)' % cpair(cnat(data.shape[0]), cnat(data.shape[1]), clist([int(round(float(np.real(x)))) for x in data.ravel()], cZ), sides[0], sides[1])
                    for mode, what in problems:
                        violate(cls, mode, '%s | %s' % (what, desc), desc)
                    grp_name = nm.parent.name.split('/')[-1]
                    after = dump_group(main.parent)
                    changed = [k0 for k0 in before if after.get(k0) != before[k0]]
                    if changed:
                        violate(cls, 'source_modified', str(changed), desc)
                    del main.parent[grp_name]
                elif to_file:
                    # clean whatever the failed call left behind so that the next call starts from the same state
                    for k0 in list(main.parent.keys()):
                        if '-Reduce_' in k0:
                            del main.parent[k0]
                if code is None and (mom_mem is not None or to_file):
                    # mean / std against the exact rational moments of the model (Usid/ReduceMoments.v)
                    o_m = 'None' if mom_mem is None else '(Some %s)' % cpair(clist(list(mom_mem.shape), cnat), clist(list(mom_mem.ravel()), cfrac))
                    o_f = 'None' if mom_file is None else '(Some %s)' % cpair(cnat(mom_file.shape[0]), cnat(mom_file.shape[1]), clist(list(mom_file.ravel()), cfrac))
                    mcases.append(cpair(clist([[int(x) for x in row] for row in ids], lambda r: clist(r, cZ)), gc.cmat(gc.mat(lay.pos_inds())), gc.cmat(gc.mat(lay.spec_inds())),
                                        clist([labels.index(d) for d in dims], cnat), cnat(0 if name == 'mean' else 1), cbool(to_file), cpair(o_m, o_f)))
                    mmeta.append(desc)
                    hist['moments_cases'] = hist.get('moments_cases', 0) + 1
                if code is not None and (exc is None or to_file):
                    if not to_file:
                        continue
                    pos_m, spec_m = gc.mat(lay.pos_inds()), gc.mat(lay.spec_inds())
                    cases.append(cpair(clist([[int(x) for x in row] for row in ids], lambda r: clist(r, cZ)), gc.cmat(pos_m), gc.cmat(spec_m),
                                       cpair(clist(lay.pos_sizes, cnat), clist(lay.pos_order, cnat), clist(lay.spec_sizes, cnat), clist(lay.spec_order, cnat)),
                                       clist([labels.index(d) for d in dims], cnat), cnat(code), cpair(omem, ofile)))
                    meta.append(desc)
                distinct.add((lay.key(), tuple(sorted(dims)), name, to_file))
                if len(out.samples) < 4 and to_file:
                    out.samples.append(dict(desc, raised=repr(exc)[:120] if exc else None))
    # ---- designed (exact oracle only): reference values stored as float64 that float32 cannot tell apart (time stamps, large offsets):
    # a rebuilt side must carry exactly the original values
    hist['float64_reference_values'] = 0
    for tf_name, tf in (('1e6 + 0.1 v', lambda a: 1000000.0 + a * 0.1), ('1.7e9 + v', lambda a: 1700000000.0 + a)):
        lay = gen.Layout([3, 2], [0, 1], [2, 2], [1, 0], dtype='f8', vkind=0)
        if os.path.exists(path):
            os.remove(path)
        with h5py.File(path, 'w') as f:
            main = gen.write_layout(f, lay, val_dtype=np.float64, val_transform=tf)
            with common.quiet():
                u = usid.USIDataset(main)
            for dims in ([lay.pos_labels[0]], [lay.spec_labels[1]], [lay.pos_labels[1], lay.spec_labels[0]]):
                desc = {'layout': lay.describe(), 'dims': dims, 'function': 'sum', 'to_hdf5': True, 'reference_values': 'float64: ' + tf_name}
                hist['float64_reference_values'] += 1
                try:
                    with common.quiet():
                        red, new = u.reduce(dims, ufunc=da.sum, to_hdf5=True)
                except Exception:
                    continue                                    # raising instead of writing is allowed
                nm = f[new.name]
                for axis, names, unit, anc in ((0, lay.pos_labels, lay.pos_unit, 'Position'), (1, lay.spec_labels, lay.spec_unit, 'Spectroscopic')):
                    if not any(l in dims for l in names):
                        continue
                    hi, hv = f[nm.attrs[anc + '_Indices']], f[nm.attrs[anc + '_Values']]
                    nl = [x.decode() if isinstance(x, bytes) else str(x) for x in np.atleast_1d(hi.attrs['labels'])]
                    ii, vv = (hi[()], hv[()]) if axis == 0 else (hi[()].T, hv[()].T)
                    for j, lab in enumerate(nl):
                        if lab not in names:
                            continue
                        orig = tf(np.asarray(unit(names.index(lab)), dtype=np.float64))
                        if [float(x) for x in vv[:, j]] != [float(orig[int(k0)]) for k0 in ii[:, j]]:
                            violate('float64_reference_values', 'reduced_side_values_not_the_original_unit_values',
                                    '%s: %s instead of %s | %s' % (lab, [float(x) for x in vv[:, j]][:4], [float(orig[int(k0)]) for k0 in ii[:, j]][:4], desc), desc)
                del main.parent[nm.parent.name.split('/')[-1]]
    # ---- designed (oracle only): (a) complex elements -- sum / mean / std keep both parts; (b) the same reduction asked for again
    # after the source was overwritten in place -- what is returned and written is the reduction of the source as it is NOW
    def same_values(a, b):
        a, b = np.asarray(a).ravel(), np.asarray(b).ravel()
        if a.size != b.size:
            return False
        key = lambda z: (round(float(np.real(z)), 6), round(float(np.imag(z)), 6))
        return np.allclose(np.array(sorted(a, key=key)), np.array(sorted(b, key=key)), rtol=1e-9, atol=1e-9)
    hist['complex_reductions'] = 0
    hist['repeated_after_source_change'] = 0
    lay = gen.Layout([3, 2], [1, 0], [2, 2], [0, 1], dtype='c16')
    if os.path.exists(path):
        os.remove(path)
    with h5py.File(path, 'w') as f:
        main = gen.write_layout(f, lay)
        labels = lay.pos_labels + lay.spec_labels
        ids_nd = gc.expected_nd(lay).astype(np.float64)
        cexp = ids_nd + 1j * (ids_nd + 0.5)
        with common.quiet():
            u = usid.USIDataset(main)
        for dims in ([lay.pos_labels[0]], [lay.spec_labels[1]], [lay.pos_labels[1], lay.spec_labels[0]], list(lay.spec_labels)):
            for name, dfn, nfn in (('sum', da.sum, np.sum), ('mean', da.mean, np.mean), ('std', da.std, np.std)):
                hist['complex_reductions'] += 1
                desc = {'layout': lay.describe(), 'dims': dims, 'function': name, 'to_hdf5': True, 'elements': 'complex128'}
                want = nfn(cexp, axis=tuple(labels.index(d) for d in dims))
                try:
                    with common.quiet():
                        red, new = u.reduce(dims, ufunc=dfn, to_hdf5=True)
                        got = np.asarray(red.compute())
                except Exception as e:
                    try:
                        with common.quiet():
                            red, _ = u.reduce(dims, ufunc=dfn, to_hdf5=False)
                            got = np.asarray(red.compute())
                        new = None
                    except Exception as e2:
                        violate('complex_elements', 'in_memory_reduction_raises', '%r %s' % (e2, desc), desc)
                        continue
                if got.shape != want.shape or not np.allclose(got, want, rtol=1e-9, atol=1e-9):
                    violate('complex_elements', 'returned_array_differs_from_axis_reduction', '%s vs %s | %s' % (got.ravel()[:3], want.ravel()[:3], desc), desc)
                if new is not None:
                    nm = f[new.name]
                    if not same_values(nm[()], want):
                        violate('complex_elements', 'file_element_is_not_the_reduction_of_its_fibre', '%s vs %s | %s' % (nm[()].ravel()[:3], want.ravel()[:3], desc), desc)
                    del main.parent[nm.parent.name.split('/')[-1]]
    lay = gen.Layout([3, 2], [0, 1], [2, 3], [0, 1], dtype='f8')
    if os.path.exists(path):
        os.remove(path)
    with h5py.File(path, 'w') as f:
        main = gen.write_layout(f, lay)
        labels = lay.pos_labels + lay.spec_labels
        for dims in ([lay.pos_labels[0]], [lay.spec_labels[0], lay.pos_labels[1]]):
            axes = tuple(labels.index(d) for d in dims)
            for step in range(3):
                hist['repeated_after_source_change'] += 1
                desc = {'layout': lay.describe(), 'dims': dims, 'function': 'sum', 'to_hdf5': True,
                        'history': 'call %d of the same reduction; the source was overwritten in place before each later call; earlier results are still in the file' % (step + 1)}
                if step:
                    main[...] = main[()] * 2.0 + step
                cur = main[()]
                nd_now = np.zeros(lay.pos_sizes + lay.spec_sizes)
                ids_nd = gc.expected_nd(lay)
                for idx in np.ndindex(*ids_nd.shape):
                    nd_now[idx] = cur[ids_nd[idx] // lay.M, ids_nd[idx] % lay.M]
                want = np.sum(nd_now, axis=axes)
                try:
                    with common.quiet():
                        u = usid.USIDataset(main)
                        red, new = u.reduce(dims, ufunc=da.sum, to_hdf5=True)
                        got = np.asarray(red.compute())
                except Exception as e:
                    continue                                     # raising instead of writing is allowed
                if got.shape != want.shape or not np.allclose(got, want):
                    violate('repeated_call', 'returned_array_differs_from_axis_reduction', str(desc), desc)
                if not same_values(f[new.name][()], want):
                    violate('repeated_call', 'file_element_is_not_the_reduction_of_its_fibre',
                            'written %s, reduction of the current source %s | %s' % (f[new.name][()].ravel()[:4], want.ravel()[:4], desc), desc)
            for k0 in list(main.parent.keys()):
                if '-Reduce_' in k0:
                    del main.parent[k0]
            main[...] = lay.main_data()
    bad, err = common.coq_eval_cases(ctx, HEADER, cases, 'check12', case_type='case12', per_file=40)
    bad2, err2 = common.coq_eval_cases(ctx, HEADER, vcases, 'check12v', case_type='case12v', per_file=150, tag='vals')
    bad3, err3 = common.coq_eval_cases(ctx, HEADER, mcases, 'check12m', case_type='case12m', per_file=40, tag='moments')
    out.corr_error = err or err2 or err3
    out.disagreements = [meta[i] for i in bad] + [vmeta[i] for i in bad2] + [dict(mmeta[i], moments=True) for i in bad3]
    out.evaluations = len(cases) + len(vcases) + len(mcases)
    out.distinct_nontrivial = len(distinct)
    out.rule = ('generator datasets in every storage order (1-3 dimensions per side, 3 dtypes); random non-empty subsets of the dimension names plus "all position" '
                'and "all spectroscopic"; sum / max / min / mean / std; in memory and written back; wrappers with sort_dims on and off; oracle: returned array '
                'against numpy on the N-D form built from the generator\'s coordinates, validity, every file element located by the values of its remaining '
                'dimensions equals the reduction of its fibre, untouched sides reused, reduced sides keep labels / original unit values, placeholder, source '
                'unchanged; raising on write is accepted; model evaluated on sum / max / min (exact integers) and on mean / std (exact rational moments of the model against the returned / written floating-point numbers as exact binary fractions, relative tolerance 2^-16); non-trivial = distinct (layout, subset, function, mode)')
    out.histogram = hist
    out.trusted = ['mean and std: the model carries exact (sum, sum of squares, count) per fibre; the floating-point division / square root of dask is compared inside a relative tolerance of 2^-16, not modelled bit for bit (partial)',
                   'joint proof that reshape_from_n_dims places the fibres correctly is not available (C10 theorem missing): decided by correspondence + oracle']
    return out
