"""C15 -- batch sizing honours the memory/core budget and compute() always terminates."""
import math
import os
import signal
from fractions import Fraction

import h5py
import numpy as np

import common
from common import cZ, cbool, cpair
import gen
import gen_kernels

PID = 'C15'
PROP_V = 'Props/C15.v'
CORR_V = ('Corr/CorrC15.v',)
HEADER = 'From Coq Require Import QArith.\nRequire Import V.Corr.CorrC15.\n'

CODES = {'TypeError': 1, 'ValueError': 2, 'ZeroDivisionError': 3}


def regenerate(ctx):
    return gen_kernels.regenerate(ctx.repo, common.COQ, which=('jobs', 'budget'))


def cQ(x):
    fr = Fraction(x)
    return '(%d # %d)' % (fr.numerator, fr.denominator)


class Timeout(BaseException):
    pass


def _alarm(signum, frame):
    raise Timeout()


def near_boundary(q):
    """exact quotient within 2^-40 (relative) of an integer: float rounding may decide; excluded"""
    r = round(q)
    return abs(q - r) <= Fraction(max(1, abs(r)), 2 ** 40) and q != r or (q == r and False)


def run(ctx, build):
    import procutil
    import pyUSID.processing.process as proc_mod
    import pyUSID.processing.comp_utils as cu
    out = common.Outcome()
    rng = ctx.rng
    hist = {'mem_cases': 0, 'mem_errors': {}, 'near_float_boundary_excluded': 0, 'zero_budget': 0, 'pos_ge_1': 0,
            'recommend_cases': 0, 'recommend_errors': {}, 'compute_runs': 0, 'monotone_pairs': 0}
    distinct = set()
    path = os.path.join(ctx.tmp, 'c15.h5')
    dsets = []
    h5 = h5py.File(path, 'w')
    for gi, (N, M, dt) in enumerate([(6, 3, 'f8'), (5, 1, 'u2'), (4, 100, 'c16'), (3, 7, 'f4'), (2, 1000, 'f8')]):
        lay = gen.Layout([N], [0], [M], [0], dtype=dt)
        main = gen.write_layout(h5, lay, group='Measurement_%03d/Channel_000' % gi)
        dsets.append((main, lay))
    real_avail = proc_mod.get_available_memory
    real_cpu = proc_mod.psutil.cpu_count
    state = {'avail': 2 ** 33, 'ncpu': 8}
    proc_mod.get_available_memory = lambda: state['avail']
    proc_mod.psutil.cpu_count = lambda *a, **k: state['ncpu']
    mcases, mmeta = [], []
    try:
        procs = []
        for main, lay in dsets:
            with common.quiet():
                procs.append(procutil.MapProc(main))
        n_mem = 700 if ctx.quick() else 20000

        def one(cfg):
            """runs the real code; returns (code, cores, pos)"""
            p, (main, lay) = procs[cfg['d']], dsets[cfg['d']]
            state['avail'], state['ncpu'] = cfg['avail'], cfg['ncpu']
            try:
                with common.quiet():
                    p._set_memory_and_cores(cores=cfg['cores'], man_mem_limit=cfg['limit'], mem_multiplier=cfg['mult'])
                return 0, int(p._cores), int(p._max_pos_per_read)
            except (TypeError, ValueError, ZeroDivisionError) as e:
                return CODES[type(e).__name__], 0, 0

        def gen_cfg():
            d = rng.randrange(len(dsets))
            ncpu = rng.choice([1, 2, 3, 4, 5, 8, 16, 64])
            avail = rng.choice([2 ** 20, 2 ** 24, 2 ** 30, 2 ** 33, 3 * 10 ** 9 + 7, rng.randint(1, 2 ** 34)])
            r = rng.random()
            if r < 0.15:
                limit = None
            elif r < 0.9:
                limit = int(2 ** rng.uniform(0, 16))
                if rng.random() < 0.1:
                    limit = -limit
            elif r < 0.95:
                limit = 0
            else:
                limit = 12.5           # wrong type
            r = rng.random()
            if r < 0.3:
                mult = float(rng.choice([1.0, 1.5, 2.0, 4.0, 64.0]))
            elif r < 0.75:
                mult = rng.uniform(1.0, 64.0)
            elif r < 0.85:
                mult = 10.0 ** rng.randint(3, 12)      # budget admits few or no rows
            elif r < 0.9:
                mult = -rng.uniform(1.0, 8.0)
            elif r < 0.95:
                mult = rng.uniform(-0.99, 0.99)        # ValueError
            else:
                mult = 2                                # TypeError (int)
            r = rng.random()
            if r < 0.2:
                cores = None
            elif r < 0.9:
                cores = rng.randint(-3, 2 * ncpu)
            else:
                cores = 2.0                             # TypeError
            return {'d': d, 'ncpu': ncpu, 'avail': avail, 'limit': limit, 'mult': mult, 'cores': cores}

        def emit(cfg, obs):
            main, lay = dsets[cfg['d']]
            itemsize, ncols = main.dtype.itemsize, main.shape[1]
            cores, limit, mult = cfg['cores'], cfg['limit'], cfg['mult']
            ci = isinstance(cores, int)
            mf = isinstance(mult, float)
            li = isinstance(limit, int)
            return cpair(cZ(cfg['ncpu']), cZ(cfg['avail']), cZ(itemsize), cZ(ncols),
                         cbool(cores is None), cbool(ci), cZ(cores if ci else 0),
                         cbool(mf), cQ(mult if mf else 1), cbool(limit is None), cbool(li), cZ(limit if li else 0),
                         cZ(obs[0]), cZ(obs[1]), cZ(obs[2]))

        def exact(cfg, cores_used):
            main, lay = dsets[cfg['d']]
            rowbytes = main.dtype.itemsize * main.shape[1]
            granted = cfg['avail'] if cfg['limit'] is None else min(cfg['avail'], abs(cfg['limit']) * 2 ** 20)
            q = Fraction(granted) / cores_used / (rowbytes * abs(Fraction(cfg['mult'])))
            return granted, rowbytes, q

        def oracle(cfg, obs):
            code, cores, pos = obs
            if code != 0:
                legal = (isinstance(cfg['cores'], int) or cfg['cores'] is None) and isinstance(cfg['mult'], float) and \
                    abs(cfg['mult']) >= 1 and (cfg['limit'] is None or isinstance(cfg['limit'], int))
                if legal:
                    return 'legal_config_rejected', 'legal configuration raised (code %d)' % code
                return None
            if not (1 <= cores <= cfg['ncpu']):
                return 'cores_out_of_range', 'cores=%d not in [1,%d]' % (cores, cfg['ncpu'])
            granted, rowbytes, q = exact(cfg, cores)
            used = Fraction(pos) * rowbytes * abs(Fraction(cfg['mult'])) * cores
            if pos < 0:
                return 'negative_batch', 'pos=%d' % pos
            if used > granted and not near_boundary(q):
                return 'budget_exceeded', 'pos=%d uses %s bytes > granted %d' % (pos, float(used), granted)
            return None

        for i in range(n_mem):
            cfg = gen_cfg()
            obs = one(cfg)
            hist['mem_cases'] += 1
            if obs[0]:
                hist['mem_errors'][obs[0]] = hist['mem_errors'].get(obs[0], 0) + 1
            else:
                granted, rowbytes, q = exact(cfg, obs[1])
                if near_boundary(q):
                    hist['near_float_boundary_excluded'] += 1
                    continue
                if obs[2] == 0:
                    hist['zero_budget'] += 1
                else:
                    hist['pos_ge_1'] += 1
                distinct.add((cfg['d'], cfg['ncpu'], cfg['avail'], cfg['limit'], cfg['mult'], cfg['cores']))
            mcases.append(emit(cfg, obs))
            mmeta.append({'cfg': cfg, 'observed(code,cores,pos)': obs})
            v = oracle(cfg, obs)
            if v:
                out.violations.append({'call_site': 'Process._set_memory_and_cores', 'input_class': 'any',
                                       'failure_mode': v[0], 'what': v[1], 'case': cfg})
            # monotonicity: same configuration with a larger budget
            if obs[0] == 0 and isinstance(cfg['limit'], int) and rng.random() < 0.5:
                cfg2 = dict(cfg)
                cfg2['limit'] = abs(cfg['limit']) + rng.randint(0, 64)
                obs2 = one(cfg2)
                hist['monotone_pairs'] += 1
                g1, rb, q1 = exact(cfg, obs[1])
                if obs2[0] == 0:
                    g2, rb, q2 = exact(cfg2, obs2[1])
                    if not near_boundary(q2):
                        mcases.append(emit(cfg2, obs2))
                        mmeta.append({'cfg': cfg2, 'observed(code,cores,pos)': obs2})
                    if obs2[2] < obs[2] and not near_boundary(q1) and not near_boundary(q2):
                        out.violations.append({'call_site': 'Process._set_memory_and_cores', 'input_class': 'any',
                                               'failure_mode': 'batch_not_monotone',
                                               'what': 'limit %s->%s gives pos %d->%d' % (cfg['limit'], cfg2['limit'], obs[2], obs2[2]),
                                               'case': [cfg, cfg2]})
            if len(out.samples) < 3 and obs[0] == 0:
                out.samples.append({'set_memory_and_cores': cfg, 'cores': obs[1], 'max_pos_per_read': obs[2]})
    finally:
        proc_mod.get_available_memory = real_avail
        proc_mod.psutil.cpu_count = real_cpu

    # ---------------- recommend_cpu_cores grid
    rcases, rmeta = [], []
    real_cc = cu.cpu_count
    try:
        grid_cpu = [1, 2, 4, 5, 8, 16] if ctx.quick() else [1, 2, 3, 4, 5, 6, 8, 12, 16, 32, 64]
        for ncpu in grid_cpu:
            cu.cpu_count = lambda n=ncpu: n
            reqs = [None] + list(range(-3, 2 * ncpu + 1)) + [2.5]
            jobs_l = [1, 2, 19, 20, 39, 40, 41, 79, 80, 81, 400, 1000, 0, -1] + ([] if ctx.quick() else list(range(100, 700, 37)))
            for req in reqs:
                for jobs in jobs_l:
                    for lengthy in (False, True):
                        if ctx.quick() and rng.random() < 0.6:
                            continue
                        minfree = None if rng.random() < 0.7 else rng.randint(-1, ncpu)
                        try:
                            v = cu.recommend_cpu_cores(jobs, requested_cores=req, min_free_cores=minfree,
                                                       lengthy_computation=lengthy)
                            code = 0
                        except (TypeError, ValueError, ZeroDivisionError) as e:
                            v, code = 0, CODES[type(e).__name__]
                        ri = isinstance(req, int)
                        rcases.append(cpair(cZ(ncpu), cZ(jobs), 'true', cbool(req is None), cbool(ri), cZ(req if ri else 0),
                                            cbool(minfree is None), cZ(minfree if minfree is not None else 0),
                                            cbool(lengthy), cZ(code), cZ(v)))
                        m = {'ncpu': ncpu, 'num_jobs': jobs, 'requested': req, 'min_free': minfree, 'lengthy': lengthy,
                             'observed': v, 'code': code}
                        rmeta.append(m)
                        hist['recommend_cases'] += 1
                        if code:
                            hist['recommend_errors'][code] = hist['recommend_errors'].get(code, 0) + 1
                            legal = (req is None or (ri and req != 0)) and jobs >= 1 and \
                                (minfree is None or 0 <= minfree < ncpu)
                            if legal:
                                out.violations.append({'call_site': 'comp_utils.recommend_cpu_cores', 'input_class': 'any',
                                                       'failure_mode': 'legal_request_rejected', 'what': str(m), 'case': m})
                        else:
                            if not (1 <= v <= ncpu):
                                out.violations.append({'call_site': 'comp_utils.recommend_cpu_cores',
                                                       'input_class': 'requested_cores_0' if req == 0 else 'any',
                                                       'failure_mode': 'cores_out_of_range', 'what': str(m), 'case': m})
                            distinct.add(('r', ncpu, jobs, req, minfree, lengthy))
        if rmeta:
            out.samples.append({'recommend_cpu_cores': rmeta[len(rmeta) // 2]})
    finally:
        cu.cpu_count = real_cc

    # ---------------- compute(): terminates with everything done, or errs and marks nothing
    n_comp = 10 if ctx.quick() else 120
    signal.signal(signal.SIGALRM, _alarm)
    for i in range(n_comp):
        N = rng.randint(1, 12)
        M = rng.randint(1, 4)
        lay = gen.Layout([N], [0], [M], [0], dtype='f8')
        gname = 'Comp_%03d/Channel_000' % i
        main = gen.write_layout(h5, lay, group=gname)
        zero = (i % 2 == 0)
        mult = 1e15 if zero else float(rng.choice([1.0, 2.0]))
        limit = 1 if zero else rng.randint(1, 4)
        desc = {'N': N, 'M': M, 'max_mem_mb': limit, 'mem_multiplier': mult}
        hist['compute_runs'] += 1
        with common.quiet():
            p = procutil.MapProc(main, max_mem_mb=limit, mem_multiplier=mult, cores=1)
        if not zero and rng.random() < 0.5:
            p._max_pos_per_read = rng.randint(1, N)      # small batches: several loop iterations
        pos = p._max_pos_per_read
        desc['max_pos_per_read'] = pos
        # repeating timer: a timeout raised inside a callback that swallows exceptions is raised again a second later
        signal.setitimer(signal.ITIMER_REAL, 30, 1)
        exc = None
        try:
            try:
                with common.quiet():
                    p.compute()
            finally:
                signal.setitimer(signal.ITIMER_REAL, 0)
        except Timeout:
            exc = 'TIMEOUT'
        except Exception as e:
            exc = type(e).__name__
        signal.setitimer(signal.ITIMER_REAL, 0)
        grp = p.h5_results_grp
        status = [int(x) for x in grp['completed_positions'][()]] if grp is not None and 'completed_positions' in grp else None
        desc['exception'] = exc
        desc['status'] = status
        mode = None
        if pos >= 1:
            if exc is not None or status != [1] * N:
                mode = 'compute_did_not_finish'
        else:
            if exc is None:
                mode = 'zero_budget_completed_silently'
            elif exc == 'TIMEOUT':
                mode = 'zero_budget_loops_forever'
            elif status is not None and any(status):
                mode = 'zero_budget_marked_positions'
        if mode:
            out.violations.append({'call_site': 'Process.compute', 'input_class': 'any', 'failure_mode': mode,
                                   'what': str(desc), 'case': desc})
        if len([s for s in out.samples if 'compute' in s]) < 2:
            out.samples.append({'compute': desc})
        distinct.add(('c', N, M, pos))
    h5.close()

    bad, err = common.coq_eval_cases(ctx, HEADER, mcases, 'check15m', case_type='case15m')
    bad2, err2 = common.coq_eval_cases(ctx, HEADER, rcases, 'check15r', case_type='case15r', tag='rec')
    out.corr_error = err or err2
    out.disagreements = [mmeta[i] for i in bad] + [rmeta[i] for i in bad2]
    out.evaluations = len(mcases) + len(rcases) + n_comp
    out.distinct_nontrivial = len(distinct)
    out.rule = ('random configurations (avail, ncpu patched inside the harness process; max_mem_mb log-uniform 1..2^16, None, 0, negative, '
                'wrong type; mem_multiplier dyadic/non-dyadic 1..64, huge, negative, <1, wrong type; cores None/-3..2*ncpu/wrong type; '
                '5 datasets with row sizes 2 B .. 8 kB) run through Process._set_memory_and_cores; full grid for recommend_cpu_cores; '
                'compute() under a 30 s watchdog with budgets admitting >=1 row and none. Non-trivial = accepted configuration '
                '(distinct tuple) whose exact quotient is not within 2^-40 of an integer')
    out.histogram = hist
    out.trusted = ['translator harness/translate.py + gen_kernels.py',
                   'exact-rational idealisation of the float arithmetic in __set_memory (cases within 2^-40 of an integer quotient are excluded and counted)',
                   'get_available_memory / psutil.cpu_count / multiprocessing.cpu_count patched inside the harness process']
    out.assumptions = ['IEEE rounding in __set_memory not modelled (partial)',
                       'MPI branch of __set_cores hand-modelled only as a source-shape check in the translator']
    return out
