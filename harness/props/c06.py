"""C06 -- Main-dataset recognition is total and matches the structural definition."""
import itertools
import os

import h5py
import numpy as np

import common
from common import cnat, cbool, clist, cpair
import gen

PID = 'C06'
PROP_V = 'Props/C06.v'
CORR_V = ('Corr/CorrC06.v',)
HEADER = 'Require Import V.Corr.CorrC06.\n'

ANC = ['Position_Indices', 'Position_Values', 'Spectroscopic_Indices', 'Spectroscopic_Values']


# ------------------------------------------------------------------ corruptions (each takes the group g holding a valid Main 'Raw_Data')
def _main(g):
    return g['Raw_Data']


def _anc(g, name):
    return g[name]


def c_main_rank1(g):
    d = _main(g)
    attrs = dict(d.attrs)
    del g['Raw_Data']
    n = g.create_dataset('Raw_Data', data=np.arange(d.shape[0] if False else 6))
    for k, v in attrs.items():
        n.attrs[k] = v


def c_main_rank3(g):
    d = _main(g)
    attrs = dict(d.attrs)
    shape = d.shape
    del g['Raw_Data']
    n = g.create_dataset('Raw_Data', data=np.zeros(shape + (2,)))
    for k, v in attrs.items():
        n.attrs[k] = v


def attr_missing(key):
    def f(g):
        del _main(g).attrs[key]
    return f


def attr_numeric(key):
    def f(g):
        _main(g).attrs[key] = 5
    return f


def link_missing(name):
    def f(g):
        del _main(g).attrs[name]
    return f


def link_string(name):
    def f(g):
        _main(g).attrs[name] = 'not a reference'
    return f


def link_dangling(name):
    def f(g):
        # the attribute keeps a reference to an object that no longer exists
        del g[name]
    return f


def link_to_group(name):
    def f(g):
        grp = g.require_group('some_group')
        _main(g).attrs[name] = grp.ref
    return f


def anc_replace(name, maker):
    def f(g):
        old = g[name]
        attrs = dict(old.attrs)
        data = old[()]
        del g[name]
        n = g.create_dataset(name, data=maker(data))
        for k, v in attrs.items():
            n.attrs[k] = v
        _main(g).attrs[name] = n.ref
    return f


def anc_attr_missing(name, key):
    def f(g):
        del g[name].attrs[key]
    return f


def anc_attr_numeric(name, key):
    def f(g):
        g[name].attrs[key] = 7
    return f


def anc_attr_truncated(name, key):
    def f(g):
        v = g[name].attrs[key]
        g[name].attrs[key] = v[:-1] if len(v) > 1 else np.array([v[0], v[0]])
    return f


def anc_attr_extended(name, key):
    def f(g):
        v = list(g[name].attrs[key])
        g[name].attrs[key] = np.array(v + [b'extra'], dtype='S')
    return f


def anc_attr_renamed(name, key):
    def f(g):
        v = list(g[name].attrs[key])
        v[0] = b'changed'
        g[name].attrs[key] = np.array(v, dtype='S')
    return f


def corruptions():
    cs = [('main_rank1', c_main_rank1), ('main_rank3', c_main_rank3)]
    for key in ('quantity', 'units'):
        cs.append(('%s_missing' % key, attr_missing(key)))
        cs.append(('%s_numeric' % key, attr_numeric(key)))
    for name in ANC:
        short = ''.join(w[0] for w in name.split('_'))
        cs.append(('%s_link_missing' % short, link_missing(name)))
        cs.append(('%s_link_is_string' % short, link_string(name)))
        cs.append(('%s_link_dangling' % short, link_dangling(name)))
        cs.append(('%s_link_to_group' % short, link_to_group(name)))
        cs.append(('%s_rank0' % short, anc_replace(name, lambda a: np.array(a.ravel()[0]))))
        cs.append(('%s_rank1' % short, anc_replace(name, lambda a: a.ravel())))
        cs.append(('%s_rank3' % short, anc_replace(name, lambda a: a.reshape(a.shape + (1,)))))
        cs.append(('%s_extra_row' % short, anc_replace(name, lambda a: np.vstack([a, a[-1:]]))))
        cs.append(('%s_extra_col' % short, anc_replace(name, lambda a: np.hstack([a, a[:, -1:]]))))
        for key in ('labels', 'units'):
            cs.append(('%s_%s_missing' % (short, key), anc_attr_missing(name, key)))
            cs.append(('%s_%s_numeric' % (short, key), anc_attr_numeric(name, key)))
            cs.append(('%s_%s_truncated' % (short, key), anc_attr_truncated(name, key)))
            cs.append(('%s_%s_extended' % (short, key), anc_attr_extended(name, key)))
            cs.append(('%s_%s_renamed' % (short, key), anc_attr_renamed(name, key)))
    return cs


# ------------------------------------------------------------------ descriptor (abstraction function, raw h5py only)
def attr_desc(obj, key):
    """(code, ids): 0 missing, 1 list of strings, 2 single string, 3 number(s)"""
    if key not in obj.attrs:
        return 0, []
    v = obj.attrs[key]
    if isinstance(v, (bytes, str, np.bytes_, np.str_)):
        return 2, []
    a = np.asarray(v)
    if a.dtype.kind in 'SUO' and a.ndim == 1:
        return 1, [x.decode() if isinstance(x, bytes) else str(x) for x in a]
    return 3, []


def describe(f, obj, strings):
    def sid(s):
        if s not in strings:
            strings.append(s)
        return strings.index(s)
    d = {'is_dset': isinstance(obj, h5py.Dataset), 'shape': list(obj.shape) if isinstance(obj, h5py.Dataset) else []}
    for key in ('quantity', 'units'):
        if not isinstance(obj, h5py.Dataset) or key not in obj.attrs:
            d[key] = 0
        else:
            v = obj.attrs[key]
            d[key] = 1 if isinstance(v, (bytes, str, np.bytes_, np.str_)) else 2
    d['anc'] = []
    for name in ANC:
        a = {'link': 0, 'shape': [], 'labels': (0, []), 'units': (0, [])}
        if isinstance(obj, h5py.Dataset) and name in obj.attrs:
            ref = obj.attrs[name]
            if not isinstance(ref, h5py.Reference):
                a['link'] = 1
            else:
                try:
                    t = f[ref]
                    if isinstance(t, h5py.Dataset):
                        a['link'] = 4
                        a['shape'] = list(t.shape)
                        for key in ('labels', 'units'):
                            code, vals = attr_desc(t, key)
                            a[key] = (code, [sid(x) for x in vals])
                    else:
                        a['link'] = 3
                except Exception:
                    a['link'] = 2
        d['anc'].append(a)
    return d


def is_main_spec(d):
    """the structural definition (independent oracle)"""
    if not d['is_dset'] or len(d['shape']) != 2:
        return False
    if d['quantity'] != 1 or d['units'] != 1:
        return False
    pi, pv, si, sv = d['anc']
    for a in (pi, pv, si, sv):
        if a['link'] != 4 or len(a['shape']) != 2:
            return False
        if a['labels'][0] != 1 or a['units'][0] != 1:
            return False
    if pi['shape'] != pv['shape'] or si['shape'] != sv['shape']:
        return False
    if pi['shape'][0] != d['shape'][0] or si['shape'][1] != d['shape'][1]:
        return False
    for inds, vals, dim in ((pi, pv, 1), (si, sv, 0)):
        if inds['labels'][1] != vals['labels'][1] or inds['units'][1] != vals['units'][1]:
            return False
        if len(inds['labels'][1]) != len(inds['units'][1]) or len(inds['labels'][1]) != inds['shape'][dim]:
            return False
    return True


def cdesc(d):
    def canc(a):
        return cpair(cnat(a['link']), clist(a['shape'], cnat), cpair(cnat(a['labels'][0]), clist(a['labels'][1], cnat)),
                     cpair(cnat(a['units'][0]), clist(a['units'][1], cnat)))
    return cpair(cbool(d['is_dset']), clist(d['shape'], cnat), cnat(d['quantity']), cnat(d['units']), clist(d['anc'], canc))


def run(ctx, build):
    import pyUSID as usid
    from pyUSID.io.hdf_utils import check_if_main, get_all_main
    out = common.Outcome()
    rng = ctx.rng
    cs = corruptions()
    lays = [gen.Layout([2, 3], [1, 0], [2], [0]), gen.Layout([3], [0], [2, 2], [0, 1]), gen.Layout([2], [0], [3], [0], dtype='c16')]
    if not ctx.quick():
        lays += [gen.random_layout(rng, max_elems=200) for _ in range(10)]
    singles = [(c,) for c in cs]
    pairs = list(itertools.combinations(cs, 2))
    rng.shuffle(pairs)
    # designed pairs (independent of the seed): the same kind of damage to BOTH descriptive attributes of one ancillary dataset,
    # so that each dataset stays self-consistent while Indices and Values disagree
    byname = dict(cs)
    designed = []
    for name in ANC:
        short = ''.join(w[0] for w in name.split('_'))
        for kind in ('truncated', 'extended', 'renamed', 'missing', 'numeric'):
            a, b = '%s_labels_%s' % (short, kind), '%s_units_%s' % (short, kind)
            designed.append(((a, byname[a]), (b, byname[b])))
    plan = [()] + singles + designed + pairs[:(160 if ctx.quick() else 4000)]
    plan = [(combo, lays[oi % len(lays)]) for oi, combo in enumerate(plan)]
    # designed (independent of the seed): sides with more dimensions than points and single-point sides, valid and with the
    # same shape damage to BOTH matrices of a side (the label count must be compared with the right axis, whatever the shape)
    degenerate = [gen.Layout([1, 1], [0, 1], [3], [0]), gen.Layout([2], [0], [1, 1, 1], [0, 1, 2]), gen.Layout([1], [0], [1], [0]),
                  gen.Layout([1], [0], [2, 2], [1, 0])]
    shape_pairs = [(('%s_extra_%s' % (a, k), byname['%s_extra_%s' % (a, k)]), ('%s_extra_%s' % (b, k), byname['%s_extra_%s' % (b, k)]))
                   for a, b in (('PI', 'PV'), ('SI', 'SV')) for k in ('row', 'col')]
    # valid encodings of the two descriptive attributes of the Main dataset (fixed-length byte strings as written by older tools)
    def enc(keys, mk):
        def fn(g):
            for key in keys:
                v = g['Raw_Data'].attrs[key]
                v = v.decode() if isinstance(v, bytes) else str(v)
                del g['Raw_Data'].attrs[key]
                g['Raw_Data'].attrs[key] = mk(v)
        return fn
    encodings = [(('enc_quantity_fixed_bytes', enc(['quantity'], lambda v: np.bytes_(v))),),
                 (('enc_units_fixed_bytes', enc(['units'], lambda v: np.bytes_(v))),),
                 (('enc_both_fixed_bytes', enc(['quantity', 'units'], lambda v: np.bytes_(v))),),
                 (('enc_both_numpy_str', enc(['quantity', 'units'], lambda v: np.str_(v))),)]
    plan += [(e, lays[i % len(lays)]) for i, e in enumerate(encodings)]
    for dl in degenerate:
        plan += [((), dl)] + [(sp, dl) for sp in shape_pairs] + [((c,), dl) for c in cs if '_extra_' in c[0] or '_truncated' in c[0]]
    cases, meta = [], []
    hist = {'valid_datasets_inside_search_trees': 0, 'objects': 0, 'valid': 0, 'single_corruptions': 0, 'pairs': 0, 'raised': {}, 'trees': 0, 'unapplicable_combinations': 0}
    distinct = set()
    path = os.path.join(ctx.tmp, 'c06.h5')

    def violate(site, cls, mode, what, case):
        out.violations.append({'call_site': site, 'input_class': cls, 'failure_mode': mode, 'what': what, 'case': case})

    tree_items = []
    with h5py.File(path, 'w') as f:
        for oi, (combo, lay) in enumerate(plan):
            g = f.create_group('obj%05d' % oi)
            gen.write_layout(f, lay, group=g.name, main_name='Raw_Data')
            names = [c[0] for c in combo]
            try:
                with common.quiet():
                    early = usid.USIDataset(g['Raw_Data'])      # a wrapper obtained while the dataset was still valid
            except Exception as e:
                violate('USIDataset.__init__', 'valid_dataset', 'valid_dataset_refused', '%r for the undamaged dataset of %s' % (e, lay.describe()),
                        {'layout': lay.describe(), 'corruptions': []})
                del f[g.name]
                continue
            try:
                for _, fn in combo:
                    fn(g)
            except Exception:
                hist['unapplicable_combinations'] += 1      # e.g. second corruption needs an object the first one removed
                del f[g.name]
                continue
            obj = g['Raw_Data']
            strings = []
            d = describe(f, obj, strings)
            want = is_main_spec(d)
            hist['objects'] += 1
            hist['valid'] += int(want)
            hist['single_corruptions'] += int(len(combo) == 1)
            hist['pairs'] += int(len(combo) == 2)
            if len(combo) >= 1:
                distinct.add(tuple(names))
            m = {'corruptions': names, 'layout': lay.describe(), 'descriptor': d, 'rules_hold': want}
            try:
                with common.quiet():
                    r = check_if_main(obj)
                obs = 1 if bool(r) else 0
                if not isinstance(r, (bool, np.bool_)):
                    violate('hdf_utils.check_if_main', 'any', 'result_not_boolean', str(m), m)
            except Exception as e:
                obs = 2
                m['exception'] = repr(e)[:150]
                hist['raised'][type(e).__name__] = hist['raised'].get(type(e).__name__, 0) + 1
            m['observed'] = obs
            cases.append(cpair(cdesc(d), cnat(obs)))
            meta.append(m)
            cls = 'any'
            if obs == 2:
                violate('hdf_utils.check_if_main', cls, 'raises', str(m)[:600], m)
            elif obs != int(want):
                violate('hdf_utils.check_if_main', cls, 'returns_%d_but_rules_%s' % (obs, 'hold' if want else 'fail'), str(m)[:600], m)
            # the wrapper can be constructed exactly for valid objects, TypeError otherwise
            try:
                with common.quiet():
                    usid.USIDataset(obj)
                built = 'ok'
            except TypeError:
                built = 'TypeError'
            except Exception as e:
                built = type(e).__name__
            if (built == 'ok') != want or (not want and built != 'TypeError'):
                violate('USIDataset.__init__', cls, 'wrapper_%s_but_rules_%s' % (built, 'hold' if want else 'fail'), str(m)[:600], m)
            # ... and through the wrapper obtained before the damage
            if not any(n.startswith('main_') for n in names):
                try:
                    with common.quiet():
                        usid.USIDataset(early)
                    built2 = 'ok'
                except TypeError:
                    built2 = 'TypeError'
                except Exception as e:
                    built2 = type(e).__name__
                if (built2 == 'ok') != want or (not want and built2 != 'TypeError'):
                    violate('USIDataset.__init__ (from an earlier wrapper)', cls, 'wrapper_%s_but_rules_%s' % (built2, 'hold' if want else 'fail'), str(m)[:600], m)
            tree_items.append((g.name, want, obs, combo, lay))
            if len(out.samples) < 4 and combo:
                out.samples.append({'corruptions': names, 'observed': obs, 'rules_hold': want})
        # ---- anonymous datasets (created without a name: they have no path): plain, and carrying every attribute of a valid Main
        anon_src = f.create_group('anon_src')
        src_main = gen.write_layout(f, lays[0], group=anon_src.name, main_name='Raw_Data')
        for label, mk in (('anonymous_plain_2d', lambda: f.create_dataset(None, data=np.zeros((2, 3)))),
                          ('anonymous_plain_1d', lambda: f.create_dataset(None, data=np.zeros(3))),
                          ('anonymous_with_all_main_attributes', None)):
            if mk is None:
                obj = f.create_dataset(None, data=src_main[()])
                for k0, v0 in src_main.attrs.items():
                    obj.attrs[k0] = v0
            else:
                obj = mk()
            d = describe(f, obj, [])
            want = is_main_spec(d)
            m = {'corruptions': [label], 'layout': lays[0].describe(), 'descriptor': d, 'rules_hold': want}
            hist['anonymous_objects'] = hist.get('anonymous_objects', 0) + 1
            try:
                with common.quiet():
                    r = check_if_main(obj)
                if bool(r) != want:
                    violate('hdf_utils.check_if_main', 'anonymous_dataset', 'answer_differs_from_structural_definition', '%s -> %s' % (label, r), m)
            except Exception as e:
                violate('hdf_utils.check_if_main', 'anonymous_dataset', 'raises', '%r for %s' % (e, label), m)
            try:
                with common.quiet():
                    usid.USIDataset(obj)
                built = 'ok'
            except TypeError:
                built = 'TypeError'
            except Exception as e:
                built = type(e).__name__
            if (built == 'ok') != want or (not want and built != 'TypeError'):
                violate('USIDataset.__init__', 'anonymous_dataset', 'wrapper_%s_but_rules_%s' % (built, 'hold' if want else 'fail'), label, m)
        # ---- valid by every structural rule, yet unusual: a side with NO points; positions that do not form a complete grid (an
        # aborted scan: no N-D form exists).  The wrapper must be constructible for them in BOTH views.
        def hand_made(gname, main_shape, pi, si):
            g = f.create_group(gname)
            mk = lambda nm, arr, labs, dt: (lambda d: (d.attrs.__setitem__('labels', np.array(labs, dtype='S')),
                                                      d.attrs.__setitem__('units', np.array(['u'] * len(labs), dtype='S')), d)[-1])(
                g.create_dataset(nm, data=np.asarray(arr, dtype=dt).reshape(np.asarray(arr).shape)))
            kp, ks = np.asarray(pi).shape[1], np.asarray(si).shape[0]
            a = mk('Position_Indices', pi, ['p%d' % i for i in range(kp)], np.uint32)
            b = mk('Position_Values', pi, ['p%d' % i for i in range(kp)], np.float32)
            c = mk('Spectroscopic_Indices', si, ['s%d' % i for i in range(ks)], np.uint32)
            d = mk('Spectroscopic_Values', si, ['s%d' % i for i in range(ks)], np.float32)
            m = g.create_dataset('Raw_Data', data=np.zeros(main_shape))
            m.attrs['quantity'], m.attrs['units'] = 'Q', 'U'
            for nm, ds in (('Position_Indices', a), ('Position_Values', b), ('Spectroscopic_Indices', c), ('Spectroscopic_Values', d)):
                m.attrs[nm] = ds.ref
            return m
        unusual = [('no_positions', hand_made('unusual_0', (0, 3), np.zeros((0, 1)), [[0, 1, 2]])),
                   ('no_spectral_points', hand_made('unusual_1', (2, 0), [[0], [1]], np.zeros((1, 0)))),
                   ('incomplete_position_grid', hand_made('unusual_2', (3, 2), [[0, 0], [1, 0], [0, 1]], [[0, 1]])),
                   ('incomplete_spectroscopic_grid', hand_made('unusual_3', (2, 3), [[0], [1]], [[0, 1, 0], [0, 0, 1]]))]
        for label, obj in unusual:
            d = describe(f, obj, [])
            want = is_main_spec(d)
            m = {'corruptions': [label], 'descriptor': d, 'rules_hold': want}
            hist['unusual_valid_objects'] = hist.get('unusual_valid_objects', 0) + int(want)
            try:
                with common.quiet():
                    r = check_if_main(obj)
                if bool(r) != want:
                    violate('hdf_utils.check_if_main', 'unusual_valid_dataset', 'answer_differs_from_structural_definition', '%s -> %s' % (label, r), m)
            except Exception as e:
                violate('hdf_utils.check_if_main', 'unusual_valid_dataset', 'raises', '%r for %s' % (e, label), m)
            for sd in (False, True):
                try:
                    with common.quiet():
                        usid.USIDataset(obj, sort_dims=sd)
                    built = 'ok'
                except TypeError:
                    built = 'TypeError'
                except Exception as e:
                    built = type(e).__name__
                if (built == 'ok') != want or (not want and built != 'TypeError'):
                    violate('USIDataset.__init__', 'unusual_valid_dataset', 'wrapper_%s_but_rules_%s' % (built, 'hold' if want else 'fail'),
                            '%s sort_dims=%s' % (label, sd), dict(m, sort_dims=sd))
        # ---- recursive search over trees mixing valid, corrupted and unrelated objects
        n_trees = 12 if ctx.quick() else 150
        for ti in range(n_trees):
            chosen = rng.sample(tree_items, min(len(tree_items), rng.randint(2, 6)))
            # every tree holds at least one (every other tree two) valid Main datasets, so that the search has something to return
            valid_items = [it for it in tree_items if it[1] and (not it[3] or it[3][0][0].startswith('enc_'))]
            if valid_items:
                chosen += [valid_items[ti % len(valid_items)]] + ([valid_items[(ti * 7 + 3) % len(valid_items)]] if ti % 2 else [])
            t = f.create_group('tree%04d' % ti)
            t.create_dataset('unrelated', data=np.arange(4))
            t.create_group('sub').create_dataset('plain', data=[1.0])
            wanted = []
            any_raises = False
            for ci, (gname, want, obs, combo, lay) in enumerate(chosen):
                # the same object built again inside the tree (h5py's copy would drop the reference attributes), every third
                # one a level deeper; judged as it is NOW: a "dangling" link only dangles once the last open handle of the
                # deleted ancillary is gone
                rel = ('m%d' % ci) if ci % 3 else ('deeper/m%d' % ci)
                sub = t.create_group(rel)
                gen.write_layout(f, lay, group=sub.name, main_name='Raw_Data')
                try:
                    for _, fn in combo:
                        fn(sub)
                except Exception:
                    pass
                cp = sub.get('Raw_Data')
                if cp is not None and is_main_spec(describe(f, cp, [])):
                    wanted.append(sub.name + '/Raw_Data')
                any_raises |= obs == 2
            # links: a soft link back to the tree root (a cycle for anything that follows soft links), a dangling soft link, and a
            # valid member reachable under a second (hard-linked) name -- every valid dataset must still be reported exactly once
            t['sub/back_to_root'] = h5py.SoftLink(t.name)
            t['sub/nowhere'] = h5py.SoftLink('/does/not/exist')
            if wanted and ti % 2 == 0:
                t['alias_of_member'] = f[wanted[0]].parent
                hist['trees_with_hard_linked_member'] = hist.get('trees_with_hard_linked_member', 0) + 1
            addr = lambda o: h5py.h5o.get_info(o.id).addr
            hist['trees'] += 1
            hist['valid_datasets_inside_search_trees'] += len(wanted)
            try:
                with common.quiet():
                    found = get_all_main(t)
                got = sorted(x.name for x in found)
                if sorted(addr(x) for x in found) != sorted(addr(f[w]) for w in wanted):
                    diag = []
                    for ci, (gname, want, obs, combo, lay) in enumerate(chosen):
                        o = t[('m%d' % ci) if ci % 3 else ('deeper/m%d' % ci)].get('Raw_Data')
                        try:
                            with common.quiet():
                                r = None if o is None else bool(check_if_main(o))
                        except Exception as e2:
                            r = repr(e2)[:80]
                        diag.append({'source': gname, 'rules_hold_for_source': want, 'check_if_main_on_source': obs, 'check_if_main_on_copy': r,
                                     'copy_descriptor_valid': None if o is None else is_main_spec(describe(f, o, []))})
                    violate('hdf_utils.get_all_main', 'any', 'search_result_not_exact', 'got %s want %s; %s' % (got, wanted, diag), {'tree': [c[0] for c in chosen], 'diagnosis': diag})
            except Exception as e:
                cls = 'tree_contains_object_on_which_check_if_main_raises' if any_raises else 'any'
                violate('hdf_utils.get_all_main', cls, 'raises', '%r for %s' % (e, [c[0] for c in chosen]), {'tree': [c[0] for c in chosen]})
    bad, err = common.coq_eval_cases(ctx, HEADER, cases, 'check06', case_type='case06', per_file=300)
    out.corr_error = err
    out.disagreements = [meta[i] for i in bad]
    out.evaluations = len(cases) + hist['trees']
    out.distinct_nontrivial = len(distinct)
    out.rule = ('valid generator datasets x every single structural corruption (%d kinds: main rank, quantity/units missing or numeric, each ancillary link '
                'missing / not a reference / dangling / to a group, ancillary rank 0/1/3, extra row / column, labels / units missing, numeric, '
                'truncated, extended, renamed) and %d sampled pairs; trees mixing valid, corrupted and unrelated objects for the recursive search; '
                'non-trivial = object with >= 1 corruption (distinct combinations)' % (len(cs), 160 if ctx.quick() else 4000))
    out.histogram = hist
    out.trusted = ['abstraction function file -> descriptor (raw h5py) in harness/props/c06.py', 'h5py reference resolution / attribute access']
    return out
