"""C04 -- checkpoints are crash-consistent; interrupted runs resume to the same result.

Crash injection: every file-modifying h5py entry point (and File.flush) is wrapped at class level inside this process;
the k-th outermost call raises an exception derived from BaseException *instead of* executing (what Ctrl-C / a kill
looks like).  'graceful' = the files are closed and survive as they are; 'kill' = each file survives as the byte copy
taken right after its last flush() returned (its state before the run if it was never flushed)."""
import os
import shutil

import h5py
import numpy as np

import common
from common import cnat, cZ, clist, cpair, copt
import gen
import gen_kernels

PID = 'C04'
PROP_V = 'Props/C04.v'
CORR_V = ('Corr/CorrC04.v',)
HEADER = 'Require Import V.Corr.CorrC04.\n'


def regenerate(ctx):
    return gen_kernels.regenerate(ctx.repo, common.COQ, which=('jobs',))


class Crash(BaseException):
    pass


class Injector:
    """counts outermost file-modifying calls; raises Crash at the chosen one; snapshots files at flush"""
    TARGETS = [(h5py.Dataset, ['__setitem__', 'resize', 'write_direct', 'flush']),
               (h5py.AttributeManager, ['__setitem__', 'create', 'modify', '__delitem__']),
               (h5py.Group, ['create_dataset', 'create_group', '__delitem__', '__setitem__', 'require_dataset', 'require_group', 'copy', 'move']),
               (h5py.File, ['flush'])]

    def __init__(self):
        self.depth = 0
        self.count = 0
        self.crash_at = None
        self.events = []
        self.snap_dir = None
        self.flush_hooks = []
        self.saved = []
        self.active = False
        self.pending = None
        self.committed = None

    def install(self):
        inj = self
        for cls, names in self.TARGETS:
            for nm in names:
                if nm not in cls.__dict__:
                    continue
                orig = cls.__dict__[nm]
                self.saved.append((cls, nm, orig))

                def make(orig, cls, nm):
                    def wrapper(self_, *a, **k):
                        if not inj.active or inj.depth > 0:
                            return orig(self_, *a, **k)
                        idx = inj.count
                        inj.count += 1
                        inj.events.append('%s.%s' % (cls.__name__, nm))
                        is_flush = nm == 'flush'      # File.flush, or Dataset.flush (flushes that dataset only)
                        if inj.crash_at is not None and idx == inj.crash_at:
                            if is_flush:
                                inj.pending = None       # died in the middle of the checkpoint step: it does not count
                            raise Crash('%s.%s #%d' % (cls.__name__, nm, idx))
                        if not is_flush and inj.pending is not None:
                            inj.committed = inj.pending   # the checkpoint step (one or more flushes) is over
                            inj.pending = None
                        inj.depth += 1
                        try:
                            r = orig(self_, *a, **k)
                        finally:
                            inj.depth -= 1
                        if nm == 'flush':
                            # whatever is on disk when a flush call returns is what a kill leaves behind
                            inj.on_flush(self_.file if cls is h5py.Dataset else self_)
                        return r
                    return wrapper
                setattr(cls, nm, make(orig, cls, nm))

    def uninstall(self):
        for cls, nm, orig in self.saved:
            setattr(cls, nm, orig)
        self.saved = []

    def on_flush(self, f):
        path = f.filename
        shutil.copyfile(path, path + '.durable')
        for h in self.flush_hooks:
            h(f)


def expected(M, p):
    import procutil
    return procutil.expected_result(M, p)


def read_group_state(grp, N, M):
    """(status or None, result ids or None) of a results group; result id = p if the final result is stored, None if untouched (0.0)"""
    st = [int(x) for x in grp['completed_positions'][()]] if 'completed_positions' in grp and isinstance(grp['completed_positions'], h5py.Dataset) else None
    res = None
    if 'Results' in grp and isinstance(grp['Results'], h5py.Dataset):
        res = []
        for p, v in enumerate(grp['Results'][:, 0]):
            if float(v) == expected(M, p):
                res.append(p)
            elif float(v) == 0.0:
                res.append(None)
            else:
                res.append(4999)
    return st, res


def run(ctx, build):
    import procutil
    out = common.Outcome()
    rng = ctx.rng
    inj = Injector()
    hist = {'configs': 0, 'crash_runs': 0, 'crash_in_group_creation': 0, 'crash_in_loop': 0, 'events_per_run': [], 'swallowed_crashes': 0,
            'sequences_of_2': 0, 'kill': 0, 'graceful': 0, 'resumed': 0, 'fresh_after_crash': 0, 'separate_target': 0}
    cases, meta = [], []
    distinct = set()

    def violate(cls, mode, what, case):
        out.violations.append({'call_site': 'Process.compute / Process.__init__ (interrupted)', 'input_class': cls, 'failure_mode': mode,
                               'what': what, 'case': case})

    src0 = os.path.join(ctx.tmp, 'src0.h5')
    work = os.path.join(ctx.tmp, 'work')
    os.makedirs(work, exist_ok=True)

    def fresh_files(cfg):
        """source file (+ empty target file) in a clean working directory; returns paths"""
        for fn in os.listdir(work):
            os.remove(os.path.join(work, fn))
        src = os.path.join(work, 'src.h5')
        tgt = os.path.join(work, 'tgt.h5')
        lay = gen.Layout([cfg['N']], [0], [cfg['M']], [0])
        with h5py.File(src, 'w') as f:
            main = gen.write_layout(f, lay)
            main.parent.create_group('not_a_results_group')
            if cfg['premask'] is not None and not cfg['separate']:
                procutil.seed_partial_group(main, cfg['premask'])
                # seed results carry the final values for completed positions (a previous, properly checkpointed run)
                g = [k for k in main.parent.keys() if k.startswith('Raw_Data-')][0]
                for p, m in enumerate(cfg['premask']):
                    if m:
                        main.parent[g]['Results'][p, 0] = expected(cfg['M'], p)
        if cfg['separate']:
            with h5py.File(tgt, 'w') as ft:
                ft.attrs['made_by'] = 'harness'
                ft.create_group('not_a_results_group')
        for pth in (src, tgt):
            if os.path.exists(pth):
                shutil.copyfile(pth, pth + '.durable')
        return src, tgt

    def attempt(cfg, src, tgt, crash_at, maxpos, log_path):
        """one construction + compute() with a crash at the given event; returns info about what happened"""
        info = {'crashed': False, 'events': 0, 'exception': None, 'flush_marks': None, 'start_state': None, 'group': None}
        f = h5py.File(src, 'r+')
        ft = h5py.File(tgt, 'r+') if cfg['separate'] else None
        inj.count, inj.events, inj.crash_at, inj.depth = 0, [], crash_at, 0
        inj.pending, inj.committed = None, None
        marks_at_flush = {}

        def hook(ff):
            # what was marked (volatile) when the per-batch checkpoint of compute() returned
            if info.get('proc') is not None and info['proc'].h5_results_grp is not None:
                g = info['proc'].h5_results_grp
                if 'completed_positions' in g:
                    inj.pending = [int(x) for x in g['completed_positions'][()]]
        inj.flush_hooks = [hook]
        procutil.LOG['path'] = log_path
        try:
            main = f['Measurement_000/Channel_000/Raw_Data']
            inj.active = True
            with common.quiet():
                p = procutil.MapProc(main, cores=1, h5_target_group=ft)
                info['proc'] = p
                info['duplicates'] = [g.name for g in p.duplicate_h5_groups]
                info['partials'] = [g.name for g in p.partial_h5_groups]
                if p.partial_h5_groups and not p.duplicate_h5_groups:
                    g = p.partial_h5_groups[-1]
                    info['start_state'] = read_group_state(g, cfg['N'], cfg['M'])
                    info['group'] = g.name
                p._max_pos_per_read = maxpos
                if crash_at is None:
                    # before resuming, the user points the process at a group that is not resumable: refused, and without effect
                    info['refusal_problem'] = procutil.refused_choice(p, (ft if ft is not None else main.parent)['not_a_results_group'])
                res = p.compute()
                info['returned'] = res.name
        except Crash as e:
            info['crashed'] = True
            info['exception'] = str(e)
        except Exception as e:
            info['exception'] = 'ERROR ' + repr(e)[:200]
        finally:
            inj.active = False
            procutil.LOG['path'] = None
            info['events'] = inj.count
            info['event_names'] = list(inj.events)
            info['flush_marks'] = inj.committed if info['crashed'] else (inj.pending or inj.committed)
            if info.get('proc') is not None and info['proc'].h5_results_grp is not None and info['group'] is None:
                try:
                    info['group'] = info['proc'].h5_results_grp.name
                except Exception:
                    pass
            info.pop('proc', None)
            inj.flush_hooks = []
            f.close()
            if ft is not None:
                ft.close()
        return info

    def survive(cfg, src, tgt, mode):
        """apply the death mode: after 'kill' every file is what its last flush left"""
        if mode == 'kill':
            for pth in (src, tgt):
                if os.path.exists(pth + '.durable'):
                    shutil.copyfile(pth + '.durable', pth)
        else:
            for pth in (src, tgt):
                if os.path.exists(pth):
                    shutil.copyfile(pth, pth + '.durable')      # a gracefully closed file is durable as it is

    def check_survivor(cfg, src, tgt, desc, cls, flush_marks, mode, group_name):
        """oracle (1): marked => final result stored, in every results group; oracle (4): durability of marks"""
        pth = tgt if cfg['separate'] else src
        with h5py.File(pth, 'r') as f:
            parent = f if cfg['separate'] else f['Measurement_000/Channel_000']
            for k in parent.keys():
                if not k.startswith('Raw_Data-') or not isinstance(parent[k], h5py.Group):
                    continue
                st, res = read_group_state(parent[k], cfg['N'], cfg['M'])
                if st is not None:
                    if res is None:
                        violate(cls, 'status_without_results_dataset', str(desc), desc)
                    else:
                        badp = [p for p in range(cfg['N']) if st[p] == 1 and res[p] != p]
                        if badp:
                            violate(cls, 'position_marked_complete_without_its_result', 'positions %s in %s; %s' % (badp, k, desc), desc)
            if mode == 'kill' and flush_marks is not None and group_name is not None:
                leaf = group_name.split('/')[-1]
                st = None
                if leaf in parent:
                    st, _ = read_group_state(parent[leaf], cfg['N'], cfg['M'])
                lost = [p for p, m in enumerate(flush_marks) if m == 1 and (st is None or st[p] != 1)]
                if lost:
                    violate('results_in_separate_target_file' if cfg['separate'] else cls, 'marks_written_before_last_checkpoint_lost_after_kill',
                            'positions %s; %s' % (lost, desc), desc)

    def finish_and_check(cfg, src, tgt, desc, cls):
        """re-construct + uninterrupted compute() with another batch size: resumes / recomputes minimally, ends equal to an uninterrupted run"""
        log2 = os.path.join(work, 'calls2.log')
        if os.path.exists(log2):
            os.remove(log2)
        pth = tgt if cfg['separate'] else src
        before = {}
        with h5py.File(pth, 'r') as f:
            parent = f if cfg['separate'] else f['Measurement_000/Channel_000']
            for k in parent.keys():
                if k.startswith('Raw_Data-') and isinstance(parent[k], h5py.Group):
                    before[k] = read_group_state(parent[k], cfg['N'], cfg['M'])
        info = attempt(cfg, src, tgt, None, rng.randint(1, cfg['N'] + 1), log2)
        if info.get('refusal_problem'):
            violate(cls, 'unsuitable_group_not_refused', '%s; %s' % (info['refusal_problem'], desc), desc)
        if info['exception']:
            violate(cls, 'reconstruction_or_resume_raises', '%s; %s' % (info['exception'], desc), desc)
            return
        calls, _ = procutil.read_log(log2, cfg['M'])
        with h5py.File(pth, 'r') as f:
            g = f[info['returned']]
            st, res = read_group_state(g, cfg['N'], cfg['M'])
            leaf = info['returned'].split('/')[-1]
        if st != [1] * cfg['N'] or res != list(range(cfg['N'])):
            violate(cls, 'final_results_differ_from_uninterrupted_run', 'status %s results %s; %s' % (st, res, desc), desc)
        # the interrupted group is resumable as soon as its completion record exists (it is the last thing compute() creates);
        # then the run must continue IN it -- the most recent such group -- and not open another one
        resumable = sorted(k for k, (st0, res0) in before.items() if st0 is not None and res0 is not None and list(st0) != [1] * cfg['N'])
        complete = [k for k, (st0, res0) in before.items() if st0 is not None and list(st0) == [1] * cfg['N']]
        if resumable and not complete and leaf != resumable[-1]:
            violate(cls, 'resumable_group_not_resumed', 'continued in %s although %s is resumable (marks %s); %s' % (leaf, resumable[-1], before[resumable[-1]][0], desc), desc)
        if leaf in before and before[leaf][0] is not None:
            hist['resumed'] += 1
            unmarked = [p for p, m in enumerate(before[leaf][0]) if m != 1]
            if sorted(calls) != unmarked:
                violate(cls, 'resume_did_not_recompute_exactly_the_unmarked_positions', 'calls %s unmarked %s; %s' % (sorted(calls), unmarked, desc), desc)
        else:
            hist['fresh_after_crash'] += 1
            if sorted(calls) != list(range(cfg['N'])) and calls:
                violate(cls, 'fresh_run_after_crash_incomplete', 'calls %s; %s' % (sorted(calls), desc), desc)

    inj.install()
    try:
        configs = [{'N': 5, 'M': 2, 'maxpos': 2, 'premask': None, 'separate': False},
                   {'N': 6, 'M': 1, 'maxpos': 3, 'premask': [1, 0, 0, 1, 0, 0], 'separate': False},
                   {'N': 4, 'M': 2, 'maxpos': 2, 'premask': None, 'separate': True}]
        # many positions, interrupted in a last tiny batch: less than 0.5 % left unmarked
        configs.append({'N': 250, 'M': 1, 'maxpos': 83, 'premask': None, 'separate': False, 'tail_only': 9})
        if not ctx.quick():
            for _ in range(9):
                N = rng.randint(3, 9)
                pm = None if rng.random() < 0.5 else [1 if rng.random() < 0.4 else 0 for _ in range(N)]
                if pm is not None and all(pm):
                    pm[0] = 0
                configs.append({'N': N, 'M': rng.randint(1, 3), 'maxpos': rng.randint(1, N), 'premask': pm, 'separate': rng.random() < 0.4})
        log1 = os.path.join(work, 'calls1.log')
        for cfg in configs:
            hist['configs'] += 1
            hist['separate_target'] += int(cfg['separate'])
            src, tgt = fresh_files(cfg)
            dry = attempt(cfg, src, tgt, None, cfg['maxpos'], log1)
            E = dry['events']
            hist['events_per_run'].append(E)
            if dry['exception']:
                violate('any', 'uninterrupted_run_raises', '%s %s' % (dry['exception'], cfg), cfg)
                continue
            points = list(range(E))
            if cfg.get('tail_only'):
                points = list(range(E - cfg['tail_only'], E))
            elif ctx.quick() and E > 45:
                # keep every event of the compute loop (the tail) and a sample of the group-creation phase
                loop_start = max(0, E - 30)
                points = sorted(set(rng.sample(range(loop_start), 15)) | set(range(loop_start, E)))
            for i in points:
                for mode in ('graceful', 'kill'):
                    src, tgt = fresh_files(cfg)
                    info = attempt(cfg, src, tgt, i, cfg['maxpos'], log1)
                    hist['crash_runs'] += 1
                    hist[mode] += 1
                    desc = {'config': cfg, 'crash_at_event': i, 'event': info['exception'], 'mode': mode}
                    if not info['crashed']:
                        hist['swallowed_crashes'] += 1
                    in_loop = info['start_state'] is not None or (info.get('group') is not None and i >= E - 4 * (cfg['N'] // cfg['maxpos'] + 1) - 2)
                    hist['crash_in_loop' if in_loop else 'crash_in_group_creation'] += 1
                    survive(cfg, src, tgt, mode)
                    cls = 'results_in_separate_target_file' if cfg['separate'] else 'any'
                    check_survivor(cfg, src, tgt, desc, cls, info['flush_marks'], mode, info.get('group'))
                    # ---- membership in the model's crash-state set (only when the attempt resumed a group with a status record)
                    if info['start_state'] is not None and info['start_state'][0] is not None and info['start_state'][1] is not None:
                        pth = tgt if cfg['separate'] else src
                        with h5py.File(pth, 'r') as f:
                            st1, res1 = read_group_state(f[info['group']], cfg['N'], cfg['M'])
                        st0, res0 = info['start_state']
                        if st1 is not None and res1 is not None:
                            cases.append(cpair(clist(st0, cnat), clist(res0, lambda x: copt(x, cnat)), cZ(cfg['maxpos']),
                                               clist(st1, cnat), clist(res1, lambda x: copt(x, cnat))))
                            meta.append(dict(desc, start=(st0, res0), survivor=(st1, res1)))
                    # ---- optionally a second interruption, then the final uninterrupted run
                    if rng.random() < (0.15 if ctx.quick() else 0.4):
                        info2 = attempt(cfg, src, tgt, rng.randrange(max(1, E)), rng.randint(1, cfg['N']), log1)
                        mode2 = rng.choice(['graceful', 'kill'])
                        survive(cfg, src, tgt, mode2)
                        desc = dict(desc, second_crash=info2['exception'], second_mode=mode2)
                        hist['sequences_of_2'] += 1
                        check_survivor(cfg, src, tgt, desc, cls, info2['flush_marks'], mode2, info2.get('group'))
                    finish_and_check(cfg, src, tgt, desc, cls)
                    distinct.add((cfg['N'], cfg['maxpos'], str(cfg['premask']), cfg['separate'], i, mode))
                    if len(out.samples) < 4 and in_loop:
                        out.samples.append(desc)
    finally:
        inj.uninstall()
    bad, err = common.coq_eval_cases(ctx, HEADER, cases, 'check04', case_type='case04', per_file=300)
    out.corr_error = err
    out.disagreements = [meta[i] for i in bad]
    out.evaluations = hist['crash_runs']
    out.distinct_nontrivial = len(distinct)
    out.rule = ('fault enumeration: for each configuration (positions, spectral length, batch limit, pre-existing partial group with a non-contiguous mask, '
                'same-file / separate-file target) the run is interrupted at EVERY outermost file-modifying h5py call%s, x {graceful close, kill = '
                'bytes as of the last flush of each file}; some runs get a second interruption; then the process is constructed again and '
                'compute() run with another batch size. Non-trivial = distinct (configuration, crash point, mode)'
                % (' (quick: every event of the compute loop + a sample of the group-creation phase)' if ctx.quick() else ''))
    out.histogram = hist
    out.extra = {'traces_validated_against_impl': len(cases)}
    out.trusted = ['crash injection by wrapping h5py entry points inside the harness process (crash = the call does not happen)',
                   '"bytes as of the last flush" = byte copy of the file taken when flush() returned; OS / HDF5 caching between flushes not modelled',
                   'translator: statement order of the compute() loop (compute, write, cursor, flush, mark, read next)']
    out.assumptions = ['torn writes inside one HDF5 call cannot be exhibited (partial)']
    return out
