"""C03 -- compute() maps every pending position exactly once and records it."""
import os

import h5py
import numpy as np

import common
from common import cnat, cZ, clist, cpair, copt
import gen
import gen_kernels

PID = 'C03'
PROP_V = 'Props/C03.v'
CORR_V = ('Corr/CorrC03.v',)
HEADER = 'Require Import V.Corr.CorrC03.\n'


def regenerate(ctx):
    return gen_kernels.regenerate(ctx.repo, common.COQ, which=('jobs',))


def run_one(ctx, cfg):
    """returns dict with observed batches, log, status, results (floats)"""
    import procutil
    N, M, mask = cfg['N'], cfg['M'], cfg['mask']
    src = os.path.join(ctx.tmp, 'src.h5')
    tgt = os.path.join(ctx.tmp, 'tgt.h5')
    log = os.path.join(ctx.tmp, 'calls.log')
    for f in (src, tgt, log):
        if os.path.exists(f):
            os.remove(f)
    lay = gen.Layout([N], [0], [M], [0], dtype=cfg.get('dtype', 'f8'))
    h5 = h5py.File(src, 'w')
    h5t = h5py.File(tgt, 'w') if cfg['separate'] else None
    try:
        main = gen.write_layout(h5, lay)
        target = h5t if cfg['separate'] else None
        if cfg.get('legacy_before') is not None:
            # an OLDER interrupted group of the same process that only carries the legacy record (last_pixel); the computation
            # must run in, read its pending positions from and mark the NEWER group
            lg = procutil.seed_partial_group(main, [1] * cfg['legacy_before'] + [0] * (N - cfg['legacy_before']), target=target,
                                             with_status=False, last_pixel=cfg['legacy_before'])
        if any(mask):
            procutil.seed_partial_group(main, mask, target=target)
        if cfg.get('legacy_before') is not None and 'completed_positions' in lg:
            del lg['completed_positions']          # seeding the second group upgraded the first (known finding of C05): undo
        with common.quiet():
            p = procutil.MapProc(main, cores=cfg['cores'], lazy=cfg['lazy'], h5_target_group=target)
            if cfg['maxpos'] is not None:
                p._max_pos_per_read = cfg['maxpos']
            refusal_problem = None
            if cfg.get('refused_choice'):
                foreign = (target if target is not None else main.parent).require_group('not_a_results_group')
                refusal_problem = procutil.refused_choice(p, foreign)
        procutil.LOG['path'] = log
        try:
            with common.quiet():
                if cfg.get('extra_args'):
                    grp = p.compute(False, 2.5, -2.5, offset=0.0)
                else:
                    grp = p.compute()
        finally:
            procutil.LOG['path'] = None
        rows, pids = procutil.read_log(log, M)
        return {'batches': p.batches_seen, 'log': rows, 'workers': len(pids),
                'status': [int(x) for x in grp['completed_positions'][()]],
                'results': [float(x) for x in grp['Results'][:, 0]],
                'maxpos_used': int(p._max_pos_per_read), 'group': grp.name, 'refusal_problem': refusal_problem}
    finally:
        h5.close()
        if h5t is not None:
            h5t.close()


def res_id(M, p, v):
    import procutil
    if v == procutil.expected_result(M, p):
        return p
    if v == procutil.sentinel(p):
        return 2000 + p
    if v == 0.0:
        return None
    return 4999


def gen_cfg(rng, quick, big=False):
    if big:
        N = rng.randint(85, 200)
    else:
        N = rng.randint(1, 30 if quick else 60)
    M = rng.randint(1, 5)
    k = rng.random()
    if k < 0.3:
        mask = [0] * N
    elif k < 0.5:
        j = rng.randint(0, N - 1)
        mask = [1] * j + [0] * (N - j)
    else:
        mask = [1 if rng.random() < 0.4 else 0 for _ in range(N)]
        if all(mask):
            mask[rng.randrange(N)] = 0
    n = mask.count(0)
    r = rng.random()
    if big:
        maxpos = rng.choice([N, N + 3, max(85, n // 2 + 1)])
    elif r < 0.15:
        maxpos = 1
    elif r < 0.3:
        maxpos = n + rng.randint(0, 3)
    else:
        maxpos = rng.randint(1, max(1, n))
    return {'N': N, 'M': M, 'mask': mask, 'maxpos': maxpos, 'cores': rng.choice([2, 4]) if big else 1,
            'lazy': rng.random() < 0.4, 'separate': rng.random() < 0.3, 'extra_args': rng.random() < 0.5}


def oracle(cfg, obs):
    import procutil
    N, M, mask, maxpos = cfg['N'], cfg['M'], cfg['mask'], cfg['maxpos']
    pend = [i for i in range(N) if mask[i] == 0]
    flat = [p for b in obs['batches'] for p in b]
    if sorted(obs['log']) != pend:
        extra = [p for p in obs['log'] if mask[p]]
        if extra:
            return 'map_called_on_completed_position', 'map function called on completed %s' % extra[:5]
        return 'map_not_exactly_once', 'call log %s vs pending %s' % (sorted(obs['log'])[:20], pend[:20])
    if flat != pend:
        return 'batches_not_partition_of_pending', 'batches %s vs pending %s' % (obs['batches'][:4], pend[:20])
    if any(len(b) == 0 or len(b) > maxpos for b in obs['batches']):
        return 'batch_limit_exceeded', 'batch sizes %s, limit %d' % ([len(b) for b in obs['batches']], maxpos)
    if obs['status'] != [1] * N:
        return 'status_not_all_one', 'status %s' % obs['status'][:30]
    for p in range(N):
        want = procutil.sentinel(p) if mask[p] else procutil.expected_result(M, p)
        if obs['results'][p] != want:
            return ('completed_result_overwritten' if mask[p] else 'wrong_result'), \
                'position %d holds %r, expected %r' % (p, obs['results'][p], want)
    return None


def run(ctx, build):
    out = common.Outcome()
    rng = ctx.rng
    n_small = 70 if ctx.quick() else 900
    n_big = 3 if ctx.quick() else 40
    cases, meta = [], []
    hist = {'cores': {}, 'lazy': 0, 'separate_target': 0, 'mask_nonprefix': 0, 'multi_worker_runs': 0, 'single_batch': 0,
            'multi_batch': 0, 'exceptions': 0}
    distinct = set()
    cfgs = [gen_cfg(rng, ctx.quick()) for _ in range(n_small)] + [gen_cfg(rng, ctx.quick(), big=True) for _ in range(n_big)]
    # designed, seed-independent: large datasets that are all but complete (a decision taken on a rounded percentage must not
    # mistake them for finished ones)
    cfgs += [{'N': 12, 'M': 2, 'mask': [1, 1, 0, 0, 1, 0, 0, 0, 0, 1, 0, 0], 'maxpos': 4, 'cores': 1, 'lazy': False, 'separate': False, 'refused_choice': True},
             {'N': 9, 'M': 1, 'mask': [0] * 9, 'maxpos': 4, 'cores': 1, 'lazy': True, 'separate': True, 'refused_choice': True}]
    cfgs += [{'N': 130, 'M': 2, 'mask': [0] * 130, 'maxpos': 55, 'cores': 2, 'lazy': False, 'separate': False, 'extra_args': True},
             {'N': 24, 'M': 2, 'mask': [1 if i in (0, 1, 2, 3, 4, 12, 13, 14, 15) else 0 for i in range(24)], 'maxpos': 5, 'cores': 1, 'lazy': False,
              'separate': False, 'legacy_before': 9},
             {'N': 24, 'M': 1, 'mask': [1 if i % 3 == 0 else 0 for i in range(24)], 'maxpos': 7, 'cores': 1, 'lazy': True,
              'separate': True, 'legacy_before': 9, 'extra_args': True}]
    cfgs += [{'N': 400, 'M': 2, 'mask': [0 if i == 137 else 1 for i in range(400)], 'maxpos': 50, 'cores': 1, 'lazy': False, 'separate': False},
             {'N': 250, 'M': 1, 'mask': [0 if i == 249 else 1 for i in range(250)], 'maxpos': 3, 'cores': 1, 'lazy': True, 'separate': True}]
    for cfg in cfgs:
        try:
            obs = run_one(ctx, cfg)
        except Exception as e:
            hist['exceptions'] += 1
            out.violations.append({'call_site': 'Process.compute', 'input_class': 'any', 'failure_mode': 'compute_raises',
                                   'what': 'compute() raised %r' % (e,), 'case': cfg})
            continue
        N, M, mask = cfg['N'], cfg['M'], cfg['mask']
        hist['cores'][cfg['cores']] = hist['cores'].get(cfg['cores'], 0) + 1
        hist['lazy'] += int(cfg['lazy'])
        hist['separate_target'] += int(cfg['separate'])
        if obs['workers'] > 1:
            hist['multi_worker_runs'] += 1
        if len(obs['batches']) > 1:
            hist['multi_batch'] += 1
        else:
            hist['single_batch'] += 1
        if any(mask[i] and not mask[i + 1] for i in range(N - 1)) and any((not mask[i]) and mask[i + 1] for i in range(N - 1)):
            hist['mask_nonprefix'] += 1
        log = obs['log'] if obs['workers'] <= 1 else sorted(obs['log'])
        # call order inside a parallel batch is scheduler-dependent: compared as a sorted list (pending is ascending)
        old = [(2000 + p) if mask[p] else None for p in range(N)]
        cases.append(cpair(clist(mask, cnat), clist(old, lambda x: copt(x, cnat)), cZ(cfg['maxpos']),
                           clist(obs['batches'], lambda b: clist(b, cnat)), clist(log, cnat), clist(obs['status'], cnat),
                           clist([res_id(M, p, v) for p, v in enumerate(obs['results'])], lambda x: copt(x, cnat))))
        meta.append({'cfg': cfg, 'observed': {k: obs[k] for k in ('batches', 'log', 'status', 'workers')}})
        v = oracle(cfg, obs)
        if obs.get('refusal_problem'):
            v = v or ('unsuitable_group_not_refused', obs['refusal_problem'])
        if v:
            out.violations.append({'call_site': 'Process.compute', 'input_class': 'any', 'failure_mode': v[0],
                                   'what': v[1], 'case': cfg})
        # serial vs multi-core: identical results in identical order
        if cfg['cores'] > 1:
            cfg1 = dict(cfg)
            cfg1['cores'] = 1
            obs1 = run_one(ctx, cfg1)
            if obs1['results'] != obs['results'] or obs1['batches'] != obs['batches']:
                out.violations.append({'call_site': 'Process.compute', 'input_class': 'any',
                                       'failure_mode': 'serial_differs_from_parallel',
                                       'what': 'cores=1 and cores=%d disagree' % cfg['cores'], 'case': cfg})
        if mask.count(0) >= 2 and len(obs['batches']) >= 2:
            distinct.add((tuple(mask), cfg['maxpos'], cfg['cores'], cfg['lazy'], cfg['separate']))
        if len(out.samples) < 4:
            out.samples.append({'cfg': cfg, 'batches': obs['batches'], 'workers': obs['workers']})
    bad, err = common.coq_eval_cases(ctx, HEADER, cases, 'check03', case_type='case03')
    out.corr_error = err
    out.disagreements = [meta[i] for i in bad]
    out.evaluations = len(cases)
    out.distinct_nontrivial = len(distinct)
    out.rule = ('random (N 1..%d plus runs with N 85..200 so that joblib really uses >1 worker; spectral length 1..5; masks none/prefix/'
                'arbitrary; batch limit 1..n+3; lazy F/T; same-file / separate-file target); each run is a real Process.compute() whose '
                'batches, call log (file written by the map function, works across processes), status and results are compared with '
                'the model inside coqc; non-trivial = >=2 pending positions and >=2 batches (distinct configuration)' % (30 if ctx.quick() else 60))
    out.histogram = hist
    out.trusted = ['translator (cursor arithmetic of _read_data_chunk / __assign_job_indices regenerated from process.py)',
                   'joblib.Parallel returns results in input order; call order inside a parallel batch is compared as a sorted list',
                   'the harness Process subclass (canonical pattern of the test-suite; materialises the dask batch in lazy mode)']
    out.assumptions = ['thread/process interleavings inside joblib not modelled (partial)']
    return out
