"""C02 -- writing a Main dataset yields a valid, coordinate-faithful structure; a rejected call leaves the group as found."""
import copy
import os

import dask.array as da
import h5py
import numpy as np

import common
from common import cnat, cbool, clist, cpair, cstr, copt
import gen
from props import c06

PID = 'C02'
PROP_V = 'Props/C02.v'
CORR_V = ('Corr/CorrC02.v',)
HEADER = 'Require Import V.H5.Naming V.H5.IsMain V.H5.WriteMain V.Corr.CorrC02.\n'

CODES = {TypeError: 1, ValueError: 2, KeyError: 3, NotImplementedError: 4, IndexError: 5}
DEFECTS = ['pos_size_mismatch', 'spec_size_mismatch', 'main_name_taken_by_dataset', 'main_name_taken_by_group', 'pos_prefix_taken',
           'spec_prefix_taken', 'spec_dims_wrong_type', 'pos_dims_wrong_type', 'quantity_not_string', 'units_empty', 'name_not_string',
           'spec_prefix_not_string', 'main_data_wrong_type', 'main_rank1', 'main_rank3', 'shape_without_dtype', 'shape_three_numbers',
           'shape_with_zero', 'bad_creation_kwargs', 'unwritable_attrs', 'spec_mixed_modes', 'pos_incomplete_mode', 'spec_dependent_mode',
           'reuse_wrong_shape', 'reuse_shapes_differ', 'reuse_from_two_files', 'reuse_without_attrs', 'copy_target_differs',
           'copy_target_is_group', 'not_a_group', 'read_only_file', 'reuse_not_a_dataset', 'empty_dims_list', 'copy_rewrites_attrs_then_fails']
MODES = {0: 'DEFAULT', 1: 'INCOMPLETE', 2: 'DEPENDENT'}


class Tables:
    def __init__(self):
        self.strings = []
        self.values = {}

    def sid(self, s):
        if isinstance(s, bytes):
            s = s.decode()
        if s not in self.strings:
            self.strings.append(s)
        return self.strings.index(s)

    def vid(self, x):
        x = float(x)
        if x not in self.values:
            self.values[x] = len(self.values) + 100
        return self.values[x]

    def mat(self, arr):
        a = np.asarray(arr)
        if a.ndim != 2:
            return []
        if a.dtype.kind in 'iu':
            return [[int(x) for x in row] for row in a]
        return [[self.vid(x) for x in row] for row in a]


def dim_values(d, size):
    """float32-exact, distinct across dimensions"""
    return (16.0 * (d + 1) + 0.25 * np.arange(size) + 0.5 * (np.arange(size) ** 2)).astype(np.float32)


_SCENARIO_NO = [0]


def base_scenario(rng):
    # successive scenarios use other reference values under the same names, units and lengths (a writer that remembers
    # matrices by anything less than the values themselves must not go unnoticed)
    _SCENARIO_NO[0] += 1
    voff = 10 * (_SCENARIO_NO[0] % 4)
    k, q = rng.randint(1, 3), rng.randint(1, 3)
    pos_sizes = [rng.randint(1, 3) for _ in range(k)]
    spec_sizes = [rng.randint(1, 4) for _ in range(q)]
    if rng.random() < 0.3:
        pos_sizes[rng.randrange(k)] = 1
    sc = {
        'prior': [], 's2f': rng.random() < 0.5,
        'name': rng.choice(['Main', 'Raw_Data', ' My-Data ', 'a-b-c', 'Filtered_Data\t']),
        'quantity': rng.choice(['Current', '  Deflection ', 'q']), 'units': rng.choice(['nA', ' V ', 'a.u.']),
        'data': rng.choice(['numpy', 'numpy', 'dask', 'empty']), 'dtype': rng.choice(['f8', 'f4', 'i4', 'c16']),
        'kwargs': rng.choice([{}, {}, {'chunks': True}, {'compression': 'gzip'}]),
        'attrs': rng.choice([None, {'alpha': 1, 'beta': 'two', 'gamma': [1, 2, 3]}, 5]),
        'defect': None, 'grp': 'group',
    }
    for side, sizes, lab in (('pos', pos_sizes, 'X'), ('spec', spec_sizes, 'S')):
        r = rng.random()
        dims = [{'label': '%s%d' % (lab, i), 'unit': rng.choice(['um', 'V', '']), 'size': sizes[i], 'mode': 0, 'd': i + (0 if side == 'pos' else 5) + voff}
                for i in range(len(sizes))]
        if r < 0.6:
            prefix = {'pos': 'Position_', 'spec': 'Spectroscopic_'}[side] if rng.random() < 0.6 else rng.choice(['My-%s' % side, 'Anc_%s_' % side, side.upper()])
            sc[side] = {'kind': 'fresh', 'prefix': prefix, 'dims': dims, 'single': len(dims) == 1 and rng.random() < 0.5}
        else:
            sc[side] = {'kind': 'reuse', 'where': rng.choice(['same', 'same', 'other']), 'dims': dims, 'names': rng.choice([('Position_Indices', 'Position_Values'), ('PI', 'PV')])
                        if side == 'pos' else rng.choice([('Spectroscopic_Indices', 'Spectroscopic_Values'), ('SI', 'SV')]), 'copy_exists': None}
            if sc[side]['where'] == 'other' and rng.random() < 0.3:
                sc[side]['copy_exists'] = 'equal'
    for _ in range(rng.randint(0, 2)):
        sc['prior'].append((rng.choice(['Other', 'Misc_000', 'Notes', 'Position', 'Spectroscopic_Extra']), rng.choice(['grp', 'dset'])))
    sc['prior'] = list(dict(sc['prior']).items())
    return sc


def clean(name):
    return name.strip().replace('-', '_')


def prefix_clean(p):
    if not p.endswith('_'):
        p += '_'
    return p.replace('-', '_')


def apply_defect(sc, defect, rng):
    sc = copy.deepcopy(sc)
    sc['defect'] = defect
    fresh = lambda side: sc[side]['kind'] == 'fresh'

    def make_fresh(side):
        if not fresh(side):
            sc[side] = {'kind': 'fresh', 'prefix': {'pos': 'Position_', 'spec': 'Spectroscopic_'}[side], 'dims': sc[side]['dims'], 'single': False}

    def make_reuse(side, where='same'):
        if fresh(side):
            sc[side] = {'kind': 'reuse', 'where': where, 'dims': sc[side]['dims'], 'copy_exists': None,
                        'names': ('Position_Indices', 'Position_Values') if side == 'pos' else ('Spectroscopic_Indices', 'Spectroscopic_Values')}
        else:
            sc[side]['where'] = where
    if defect in ('pos_size_mismatch', 'spec_size_mismatch'):
        side = defect[:3] if defect.startswith('pos') else 'spec'
        make_fresh(side)
        sc[side]['dims'][rng.randrange(len(sc[side]['dims']))]['size_given'] = True
    elif defect == 'main_name_taken_by_dataset':
        sc['prior'].append((clean(sc['name']), 'dset'))
    elif defect == 'main_name_taken_by_group':
        sc['prior'].append((clean(sc['name']), 'grp'))
    elif defect in ('pos_prefix_taken', 'spec_prefix_taken'):
        side = 'pos' if defect.startswith('pos') else 'spec'
        make_fresh(side)
        sc['prior'].append((prefix_clean(sc[side]['prefix']) + rng.choice(['Indices', 'Values']), rng.choice(['dset', 'grp'])))
    elif defect in ('spec_dims_wrong_type', 'pos_dims_wrong_type'):
        side = 'pos' if defect.startswith('pos') else 'spec'
        make_fresh(side)
        sc[side]['bad_dims'] = rng.choice(['strings', 'not_sequence'])
    elif defect == 'quantity_not_string':
        sc['quantity'] = 5
    elif defect == 'units_empty':
        sc['units'] = '   '
    elif defect == 'name_not_string':
        sc['name'] = 3.5
    elif defect == 'spec_prefix_not_string':
        make_fresh('spec')
        sc['spec']['prefix'] = 7
    elif defect == 'main_data_wrong_type':
        sc['data'] = 'wrong_type'
    elif defect == 'main_rank1':
        sc['data'] = 'rank1'
    elif defect == 'main_rank3':
        sc['data'] = 'rank3'
    elif defect == 'shape_without_dtype':
        sc['data'] = 'empty_nodtype'
    elif defect == 'shape_three_numbers':
        sc['data'] = 'empty_three'
    elif defect == 'shape_with_zero':
        sc['data'] = 'empty_zero'
    elif defect == 'bad_creation_kwargs':
        sc['kwargs'] = {'compression': 'nope'}
    elif defect == 'unwritable_attrs':
        sc['attrs'] = {'nested': {'inner': 1}}
    elif defect == 'spec_mixed_modes':
        make_fresh('spec')
        sc['spec']['single'] = False
        if len(sc['spec']['dims']) < 2:
            sc['spec']['dims'].append({'label': 'S9', 'unit': 'V', 'size': 1, 'mode': 0, 'd': 9})
        sc['spec']['dims'][-1]['mode'] = 1
    elif defect == 'pos_incomplete_mode':
        make_fresh('pos')
        sc['pos']['single'] = False
        sz = rng.randint(2, 3)
        sc['pos']['dims'] = [{'label': 'X%d' % i, 'unit': 'um', 'size': sz, 'mode': 1, 'd': i} for i in range(2)]
    elif defect == 'spec_dependent_mode':
        make_fresh('spec')
        for d in sc['spec']['dims']:
            d['mode'] = 2
    elif defect == 'reuse_wrong_shape':
        side = rng.choice(['pos', 'spec'])
        make_reuse(side, rng.choice(['same', 'other']))
        sc[side]['src_extra'] = 1
    elif defect == 'reuse_shapes_differ':
        side = rng.choice(['pos', 'spec'])
        make_reuse(side)
        sc[side]['vals_truncated'] = True
    elif defect == 'reuse_from_two_files':
        side = rng.choice(['pos', 'spec'])
        make_reuse(side, 'other')
        sc[side]['vals_in_third_file'] = True
    elif defect == 'reuse_without_attrs':
        side = rng.choice(['pos', 'spec'])
        make_reuse(side, rng.choice(['same', 'other']))
        sc[side]['no_attrs'] = True
    elif defect in ('copy_target_differs', 'copy_target_is_group'):
        side = rng.choice(['pos', 'spec'])
        make_reuse(side, 'other')
        sc[side]['copy_exists'] = 'different' if defect == 'copy_target_differs' else 'group'
    elif defect == 'copy_rewrites_attrs_then_fails':
        make_reuse('pos', 'other')
        sc['pos']['copy_exists'] = 'equal_old_labels'
        make_fresh('spec')
        sc['spec']['dims'][0]['size_given'] = True
    elif defect == 'not_a_group':
        sc['grp'] = 'dataset'
    elif defect == 'read_only_file':
        sc['grp'] = 'read_only'
        for side in ('pos', 'spec'):
            make_fresh(side)
    elif defect == 'reuse_not_a_dataset':
        side = rng.choice(['pos', 'spec'])
        make_reuse(side)
        sc[side]['inds_is_group'] = True
    elif defect == 'empty_dims_list':
        side = rng.choice(['pos', 'spec'])
        make_fresh(side)
        sc[side]['dims'] = []
        sc[side]['single'] = False
    return sc


def sizes_of(sc, side):
    return [d['size'] for d in sc[side]['dims']]


def dump_group(g):
    """canonical content of a group: names, kinds, dataset values and attributes (recursive)"""
    out = {}

    def attrs(o):
        r = {}
        for k in sorted(o.attrs.keys()):
            v = o.attrs[k]
            r[k] = ('ref', g.file[v].name) if isinstance(v, h5py.Reference) else (str(np.asarray(v).dtype), np.asarray(v).tolist())
        return r

    def visit(name, o):
        if isinstance(o, h5py.Dataset):
            out[name] = ('dset', o.shape, str(o.dtype), np.asarray(o[()]).tolist() if o.dtype.kind != 'O' else None, attrs(o))
        else:
            out[name] = ('grp', attrs(o))
    g.visititems(visit)
    return out


class Run:
    """executes one scenario against the real writer and describes it for the model"""

    def __init__(self, sc, tmp, tabs):
        self.sc, self.tmp, self.t = sc, tmp, tabs

    def go(self, retry_of=None):
        import pyUSID as usid
        from pyUSID.io import hdf_utils as hu
        from pyUSID.io.dimension import Dimension, DimType
        sc, t = self.sc, self.t
        paths = [os.path.join(self.tmp, n) for n in ('t.h5', 'o.h5', 'o2.h5')]
        for p in paths:
            if os.path.exists(p):
                os.remove(p)
        res = {}
        f = h5py.File(paths[0], 'w')
        fo = h5py.File(paths[1], 'w')
        fo2 = h5py.File(paths[2], 'w')
        try:
            tgt = f.create_group('Target')
            g_model = []
            for name, kind in sc['prior']:
                if kind == 'grp':
                    tgt.create_group(name)
                    g_model.append((name, 'EOther false'))
                else:
                    tgt.create_dataset(name, data=np.arange(3))
                    g_model.append((name, 'EOther true'))
            pos_sizes, spec_sizes = sizes_of(sc, 'pos'), sizes_of(sc, 'spec')
            N, M = int(np.prod(pos_sizes)), int(np.prod(spec_sizes))
            lay = gen.Layout(pos_sizes, list(range(len(pos_sizes))), spec_sizes, list(range(len(spec_sizes))))
            # ---- the data
            dt = gen.DTYPES[sc['dtype']]
            data_np = (np.arange(N * M).reshape(N, M) + 1).astype(dt)
            if sc['dtype'] == 'c16':
                data_np = data_np + 0.5j
            kwargs = {}
            if sc['kwargs'].get('chunks'):
                kwargs['chunks'] = (max(1, N // 2), max(1, M))
            if 'compression' in sc['kwargs']:
                kwargs['compression'] = sc['kwargs']['compression']
            kind = sc['data']
            if kind == 'numpy':
                main_data, marg = data_np, 'MArray %d %d false' % (N, M)
            elif kind == 'dask':
                # irregular row chunks (a larger first chunk, a remainder after it) whenever there are >= 3 rows
                row_chunks = (N // 2 + 1, N - N // 2 - 1) if N >= 3 else (N,)
                main_data, marg = da.from_array(data_np, chunks=(row_chunks, (M,))), 'MArray %d %d true' % (N, M)
            elif kind == 'empty':
                main_data, marg = rng_choice_shape(N, M, sc), 'MShape true [%d; %d] true true' % (N, M)
                kwargs['dtype'] = dt
            elif kind == 'empty_nodtype':
                main_data, marg = (N, M), 'MShape true [%d; %d] false true' % (N, M)
            elif kind == 'empty_three':
                main_data, marg = (N, M, 1), 'MShape true [%d; %d; 1] true true' % (N, M)
                kwargs['dtype'] = dt
            elif kind == 'empty_zero':
                main_data, marg = [N, 0], 'MShape false [%d; 0] true true' % N
                kwargs['dtype'] = dt
            elif kind == 'rank1':
                main_data, marg = data_np.ravel(), 'MArrayRank 1'
            elif kind == 'rank3':
                main_data, marg = data_np.reshape(N, M, 1), 'MArrayRank 3'
            else:
                main_data, marg = 'not an array', 'MOther'
            # ---- the two sides
            side_terms, call_kw = {}, {}
            pyargs = {}
            for side in ('pos', 'spec'):
                s = sc[side]
                is_spec = side == 'spec'
                if s['kind'] == 'fresh':
                    dims_py, dims_model = [], []
                    for d in s['dims']:
                        size = d['size'] + (1 if d.get('size_given') else 0)
                        vals = dim_values(d['d'], size)
                        dims_py.append(Dimension(d['label'], d['unit'], vals, mode=getattr(DimType, MODES[d['mode']])))
                        dims_model.append('(mkDim %d %d %s %d)' % (t.sid(d['label']), t.sid(d['unit'].strip()), clist([t.vid(v) for v in vals], cnat), d['mode']))
                    if s.get('bad_dims') == 'strings':
                        dims_py, dterm = [d['label'] for d in s['dims']], 'DBad'
                    elif s.get('bad_dims') == 'not_sequence':
                        dims_py, dterm = 42, 'DBad'
                    elif s.get('single'):
                        dims_py, dterm = dims_py[0], '(DSingle %s)' % dims_model[0]
                    else:
                        dterm = '(DList %s)' % clist(dims_model)
                    pyargs[side + '_dims'] = dims_py
                    pfx = s['prefix']
                    call_kw['aux_%s_prefix' % side] = pfx
                    side_terms[side] = '(Fresh %s %s)' % (('(Some (s_of %s))' % cstr(pfx)) if isinstance(pfx, str) else 'None', dterm)
                else:
                    pyargs[side + '_dims'] = None
                    where = f if s['where'] == 'same' else fo
                    sg = where.require_group('Src/Chan')
                    inds = lay.spec_inds() if is_spec else lay.pos_inds()
                    vals = lay.spec_vals() if is_spec else lay.pos_vals()
                    labels = lay.spec_labels if is_spec else lay.pos_labels
                    units = lay.spec_units if is_spec else lay.pos_units
                    if s.get('src_extra'):
                        pad = [(0, 0), (0, 1)] if is_spec else [(0, 1), (0, 0)]
                        inds, vals = np.pad(inds, pad), np.pad(vals, pad)
                    ni, nv = s['names']
                    if s.get('inds_is_group'):
                        h_i = sg.create_group(ni)
                    else:
                        h_i = gen.write_anc(sg, ni, inds, labels, units, np.uint32)
                    vwhere = fo2.require_group('Src/Chan') if s.get('vals_in_third_file') else sg
                    vv = vals[:, :-1] if (s.get('vals_truncated') and is_spec and vals.shape[1] > 1) else (vals[:-1] if s.get('vals_truncated') else vals)
                    h_v = gen.write_anc(vwhere, nv, vv, labels, units, np.float32)
                    if s.get('no_attrs'):
                        for h in (h_i, h_v):
                            for kk in ('labels', 'units'):
                                del h.attrs[kk]
                    if s['where'] == 'other' and s.get('copy_exists'):
                        for nm, arr, dty in ((ni, inds, np.uint32), (nv, vals, np.float32)):
                            if nm in tgt:
                                continue
                            if s['copy_exists'] == 'group':
                                tgt.create_group(nm)
                                g_model.append((nm, 'EOther false'))
                            else:
                                arr2 = arr.copy()
                                if s['copy_exists'] == 'different':
                                    arr2.flat[0] += 1
                                hh = gen.write_anc(tgt, nm, arr2, (['old'] * len(labels)) if s['copy_exists'] == 'equal_old_labels' else labels, units, dty)
                                g_model.append((nm, 'EAd %s' % self.adset(hh)))
                    call_kw['h5_%s_inds' % side] = h_i
                    call_kw['h5_%s_vals' % side] = h_v
                    side_terms[side] = '(Reuse %s %s)' % (self.xd(h_i, f), self.xd(h_v, f))
            # ---- the group argument
            grp_code = 0
            target = tgt
            if sc['grp'] == 'dataset':
                target = tgt.create_dataset('plain', data=[1, 2])
                g_model.append(('plain', 'EOther true'))
                grp_code = 1
            elif sc['grp'] == 'read_only':
                f.close()
                f = h5py.File(paths[0], 'r')
                tgt = target = f['Target']
                grp_code = 2
            str_code = 0
            for v in (sc['quantity'], sc['units'], sc['name']):
                if not isinstance(v, str):
                    str_code = 1
                    break
                if not v.strip():
                    str_code = 2
                    break
            kw_ok = sc['kwargs'].get('compression') != 'nope'
            attrs_ok = not (isinstance(sc['attrs'], dict) and any(isinstance(v, dict) for v in sc['attrs'].values()))
            name_term = '(s_of %s)' % cstr(sc['name'] if isinstance(sc['name'], str) else '')
            args_term = '(mkArgs %d %d %s (%s) 7 %s %s %s %s %s)' % (grp_code, str_code, name_term, marg, side_terms['pos'], side_terms['spec'],
                                                                  cbool(sc['s2f']), cbool(kw_ok), cbool(attrs_ok))
            g_term = clist(['(s_of %s, %s)' % (cstr(n), e) for n, e in g_model])
            # ---- the call
            before = dump_group(tgt)
            before_names = sorted(tgt.keys())
            code, exc, ret = 0, None, None
            try:
                with common.quiet():
                    ret = hu.write_main_dataset(target, main_data, sc['name'], sc['quantity'], sc['units'], pyargs['pos_dims'], pyargs['spec_dims'],
                                                main_dset_attrs=sc['attrs'], slow_to_fast=sc['s2f'], **call_kw, **kwargs)
            except Exception as e:
                exc = e
                code = CODES.get(type(e), 6)
                for cls, c in CODES.items():
                    if code == 6 and isinstance(e, cls):
                        code = c
            after_names = sorted(tgt.keys())
            res.update(code=code, exc=repr(exc)[:200] if exc else None, before_names=before_names, after_names=after_names)
            ok_term = 'None'
            problems = []
            if code == 0:
                name = clean(sc['name'])
                main = tgt[name] if name in tgt else None
                if main is None or not isinstance(main, h5py.Dataset):
                    problems.append(('accepted_but_main_missing', 'no dataset %r in the group' % name))
                else:
                    desc = c06.describe(f, main, t.strings)
                    if not c06.is_main_spec(desc):
                        problems.append(('result_not_a_valid_main', str(desc)[:300]))
                    if tuple(main.shape) != (N, M):
                        problems.append(('stored_shape_wrong', '%s vs %s' % (main.shape, (N, M))))
                    elif kind in ('numpy', 'dask'):
                        if main.dtype != data_np.dtype or not np.array_equal(main[()], data_np):
                            problems.append(('stored_values_differ_from_input', 'dtype %s vs %s' % (main.dtype, data_np.dtype)))
                    elif kind == 'empty':
                        if main.dtype != np.dtype(dt) or np.any(main[()] != 0):
                            problems.append(('empty_dataset_wrong_dtype_or_contents', str(main.dtype)))
                    for key, want in (('quantity', sc['quantity']), ('units', sc['units'])):
                        got = main.attrs.get(key)
                        got = got.decode() if isinstance(got, bytes) else got
                        if got != want.strip():
                            problems.append(('quantity_or_units_not_stored', '%s: %r vs %r' % (key, got, want)))
                    if isinstance(sc['attrs'], dict):
                        for kk, vv in sc['attrs'].items():
                            got = main.attrs.get(kk)
                            got = got.decode() if isinstance(got, bytes) else got
                            if not np.array_equal(np.asarray(got), np.asarray(vv)):
                                problems.append(('user_attribute_not_stored', kk))
                    # links
                    links = []
                    for ai, nm in enumerate(c06.ANC):
                        try:
                            tg = f[main.attrs[nm]]
                        except Exception:
                            links.append(cpair('[]', '(0, [])', '(0, [])', '[]', 'None'))
                            continue
                        a = desc['anc'][ai]
                        local = tg.parent == tgt
                        links.append(cpair(clist(a['shape'], cnat), cpair(cnat(a['labels'][0]), clist(a['labels'][1], cnat)),
                                           cpair(cnat(a['units'][0]), clist(a['units'][1], cnat)),
                                           clist(t.mat(tg[()]), lambda r: clist(r, cnat)), copt(cstr(tg.name.split('/')[-1]) if local else None)))
                    ok_term = '(Some %s)' % cpair(clist(list(main.shape), cnat), clist(links))
                    problems += self.coordinate_oracle(f, main, call_kw)
                # prior members untouched
                after = dump_group(tgt)
                for k0, v0 in before.items():
                    if after.get(k0) != v0 and not (k0 in after and after[k0][:4] == v0[:4] and v0[0] == 'dset'):   # copy_dataset documents that it copies attributes
                        problems.append(('existing_member_changed_by_accepted_call', k0))
            else:
                after = dump_group(tgt)
                if after != before:
                    left = sorted(set(after) - set(before))
                    changed = sorted(k0 for k0 in before if k0 in after and after[k0] != before[k0])
                    gone = sorted(set(before) - set(after))
                    problems.append(('rejected_call_changed_the_group', 'left behind %s, changed %s, removed %s after %s' % (left, changed, gone, res['exc'])))
            # ---- history: the caller's descriptor objects are reused for a second dataset (another channel)
            if code == 0 and grp_code == 0 and any(sc[sd]['kind'] == 'fresh' and not sc[sd].get('single') for sd in ('pos', 'spec')) and kind in ('numpy', 'empty'):
                try:
                    tgt2 = f.create_group('Target2')
                    with common.quiet():
                        hu.write_main_dataset(tgt2, main_data, sc['name'], sc['quantity'], sc['units'], pyargs['pos_dims'], pyargs['spec_dims'],
                                              main_dset_attrs=sc['attrs'], slow_to_fast=sc['s2f'], **call_kw, **kwargs)
                    main2 = tgt2[clean(sc['name'])]
                    if not c06.is_main_spec(c06.describe(f, main2, t.strings)):
                        problems.append(('second_dataset_from_same_descriptors_invalid', ''))
                    problems += [('second_dataset_from_same_descriptors: ' + m0, w0) for m0, w0 in self.coordinate_oracle(f, main2, call_kw)]
                    res['second'] = True
                except Exception as e:
                    problems.append(('second_dataset_from_same_descriptors_rejected', repr(e)[:200]))
            res['problems'] = problems
            res['case'] = cpair(g_term, args_term, cpair(cnat(code), clist([cstr(n) for n in after_names]), ok_term))
            # ---- corrected retry on the same group
            if code != 0 and retry_of is not None and grp_code == 0:
                try:
                    names = set(tgt.keys())
                    nm = 'Retry_Main'
                    pd = [Dimension('RX%d' % i, 'um', dim_values(i, s)) for i, s in enumerate(retry_of['pos'])]
                    sd = [Dimension('RS%d' % i, 'V', dim_values(i + 5, s)) for i, s in enumerate(retry_of['spec'])]
                    pp = 'Position_' if not ({'Position_Indices', 'Position_Values'} & names) else 'Retry_Pos_'
                    sp = 'Spectroscopic_' if not ({'Spectroscopic_Indices', 'Spectroscopic_Values'} & names) else 'Retry_Spec_'
                    n2, m2 = int(np.prod(retry_of['pos'])), int(np.prod(retry_of['spec']))
                    with common.quiet():
                        hu.write_main_dataset(tgt, np.zeros((n2, m2)), nm, 'q', 'u', pd, sd, aux_pos_prefix=pp, aux_spec_prefix=sp)
                    res['retry'] = 'ok'
                except Exception as e:
                    res['retry'] = repr(e)[:200]
        finally:
            for h in (f, fo, fo2):
                try:
                    h.close()
                except Exception:
                    pass
        return res

    def adset(self, h):
        t = self.t
        lab = c06.attr_desc(h, 'labels')
        un = c06.attr_desc(h, 'units')
        return '(mkAd %s %s %s %s)' % (clist(list(h.shape), cnat), cpair(cnat(lab[0]), clist([t.sid(x) for x in lab[1]], cnat)),
                                       cpair(cnat(un[0]), clist([t.sid(x) for x in un[1]], cnat)), clist(t.mat(h[()]), lambda r: clist(r, cnat)))

    def xd(self, h, f):
        if not isinstance(h, h5py.Dataset):
            return '(mkX false %d (s_of %s) (mkAd [] (0, []) (0, []) []))' % (0 if h.file == f else 1, cstr(h.name.split('/')[-1]))
        fid = 0 if h.file == f else (1 if h.file.filename.endswith('o.h5') else 2)
        return '(mkX true %d (s_of %s) %s)' % (fid, cstr(h.name.split('/')[-1]), self.adset(h))

    def coordinate_oracle(self, f, main, call_kw):
        """independent of the model: every row / column carries the coordinates the caller described"""
        sc = self.sc
        problems = []
        for side, key_i, key_v, axis in (('pos', 'Position_Indices', 'Position_Values', 0), ('spec', 'Spectroscopic_Indices', 'Spectroscopic_Values', 1)):
            s = sc[side]
            try:
                hi, hv = f[main.attrs[key_i]], f[main.attrs[key_v]]
            except Exception:
                problems.append(('link_unresolvable', key_i))
                continue
            inds, vals = hi[()], hv[()]
            if axis == 1:
                inds, vals = inds.T, vals.T
            labels = [x.decode() if isinstance(x, bytes) else str(x) for x in np.atleast_1d(hi.attrs['labels'])]
            units = [x.decode() if isinstance(x, bytes) else str(x) for x in np.atleast_1d(hi.attrs['units'])]
            if s['kind'] == 'fresh':
                dims = s['dims']
                order = dims[::-1] if sc['s2f'] else dims          # fastest first, as the caller declared it
                n = int(np.prod([d['size'] for d in dims]))
                if sorted(labels) != sorted(d['label'] for d in dims) or inds.shape != (n, len(dims)) or vals.shape != inds.shape:
                    problems.append(('ancillary_shape_or_labels_wrong', '%s: labels %s shape %s' % (side, labels, inds.shape)))
                    continue
                seen = set()
                for r in range(n):
                    rem = r
                    tup = []
                    for d in order:
                        idx = rem % d['size']
                        rem //= d['size']
                        col = labels.index(d['label'])
                        tup.append(idx)
                        if int(inds[r, col]) != idx or float(vals[r, col]) != float(dim_values(d['d'], d['size'])[idx]):
                            problems.append(('element_lost_its_coordinates', '%s row %d dimension %s' % (side, r, d['label'])))
                            break
                        if units[col] != d['unit'].strip():
                            problems.append(('unit_not_aligned_with_dimension', '%s %s' % (side, d['label'])))
                    seen.add(tuple(tup))
                if len(seen) != n:
                    problems.append(('cartesian_product_incomplete', side))
                stored_slowest_first = [d['label'] for d in order[::-1]]
                if labels != stored_slowest_first:
                    problems.append(('dimensions_not_stored_slowest_first', '%s: %s' % (side, labels)))
            else:
                src_i, src_v = call_kw['h5_%s_inds' % side], call_kw['h5_%s_vals' % side]
                si, sv = src_i[()], src_v[()]
                if axis == 1:
                    si, sv = si.T, sv.T
                if not (np.array_equal(si, inds) and np.array_equal(sv, vals)):
                    problems.append(('linked_ancillary_differs_from_supplied', side))
                if s['where'] == 'same' and (hi.name != src_i.name or hv.name != src_v.name):
                    problems.append(('same_file_ancillary_not_linked_directly', side))
                if s['where'] == 'other' and hi.file.filename != main.file.filename:
                    problems.append(('link_points_into_other_file', side))
        return problems


def rng_choice_shape(N, M, sc):
    return (N, M) if len(str(sc['name'])) % 2 else [N, M]


def long_dimension_cases(ctx, out, hist):
    """designed, seed-independent: one dimension with more steps than fit 16 bits, on either side, both orderings, numpy and
    multi-chunk dask data with a remainder; judged by the integer oracle only (too large for the in-Coq evaluation)"""
    import pyUSID as usid
    from pyUSID.io.hdf_utils import write_main_dataset
    hist['long_dimension_calls'] = 0
    path = os.path.join(ctx.tmp, 'c02_long.h5')
    L = 70001
    for ci, (side, s2f, kind) in enumerate([('pos', False, 'numpy'), ('spec', True, 'dask'), ('pos', True, 'dask')]):
        if os.path.exists(path):
            os.remove(path)
        small = 2
        N, M = (L * small, 3) if side == 'pos' else (3, L * small)
        data = (np.arange(N, dtype=np.float32)[:, None] * 0.5 + np.arange(M, dtype=np.float32)[None, :] * 1024.0)
        long_dims = [usid.Dimension('Time', 's', np.arange(L) * 0.25), usid.Dimension('Rep', 'a.u.', small)]   # first fastest
        other = [usid.Dimension('Bias' if side == 'pos' else 'X', 'V', 3)]
        given = list(reversed(long_dims)) if s2f else long_dims
        pos_d, spec_d = (given, other) if side == 'pos' else (other, given)
        md = data if kind == 'numpy' else da.from_array(data, chunks=((N // 2 + 7, N - N // 2 - 7), (M,)))
        desc = {'long_side': side, 'steps': L, 'slow_to_fast': s2f, 'data': kind}
        with h5py.File(path, 'w') as f:
            grp = f.create_group('g')
            try:
                with common.quiet():
                    h = write_main_dataset(grp, md, 'Raw', 'q', 'u', pos_d, spec_d, slow_to_fast=s2f)
            except Exception as e:
                out.violations.append({'call_site': 'write_main_dataset', 'input_class': 'valid_arguments', 'failure_mode': 'valid_call_rejected',
                                       'what': '%r for %s' % (e, desc), 'case': desc})
                continue
            hist['long_dimension_calls'] += 1
            inds = grp['Position_Indices' if side == 'pos' else 'Spectroscopic_Indices'][()]
            vals = grp['Position_Values' if side == 'pos' else 'Spectroscopic_Values'][()]
            labs = [x.decode() if isinstance(x, bytes) else str(x) for x in grp['Position_Indices' if side == 'pos' else 'Spectroscopic_Indices'].attrs['labels']]
            if side == 'pos':
                inds, vals = inds.T, vals.T
            n = np.arange(L * small, dtype=np.int64)
            want = {'Time': n % L, 'Rep': n // L}
            bad = None
            if sorted(labs) != ['Rep', 'Time'] or inds.shape != (2, L * small):
                bad = 'ancillary shape / labels %s %s' % (inds.shape, labs)
            else:
                for row, lab in enumerate(labs):
                    if not np.array_equal(inds[row].astype(np.int64), want[lab]):
                        k = int(np.argmax(inds[row].astype(np.int64) != want[lab]))
                        bad = 'index of %s at point %d is %d, expected %d' % (lab, k, int(inds[row][k]), int(want[lab][k]))
                        break
                    ref = want[lab] * (0.25 if lab == 'Time' else 1.0)
                    if not np.array_equal(vals[row].astype(np.float64), ref.astype(np.float32).astype(np.float64)):
                        bad = 'value row of %s does not equal value[index]' % lab
                        break
            if bad:
                out.violations.append({'call_site': 'write_main_dataset', 'input_class': 'valid_arguments', 'failure_mode': 'coordinates_not_cartesian_product',
                                       'what': '%s for %s' % (bad, desc), 'case': desc})
            stored = h[()]
            if stored.shape != data.shape or not np.array_equal(stored, data):
                k = np.argwhere(stored != data)
                out.violations.append({'call_site': 'write_main_dataset', 'input_class': 'valid_arguments', 'failure_mode': 'stored_values_differ',
                                       'what': 'first difference at %s for %s' % (k[0].tolist() if len(k) else stored.shape, desc), 'case': desc})
    if os.path.exists(path):
        os.remove(path)


def run(ctx, build):
    out = common.Outcome()
    rng = ctx.rng
    n = 220 if ctx.quick() else 3000
    tabs = Tables()
    cases, meta = [], []
    hist = {'calls': 0, 'accepted': 0, 'rejected': 0, 'exceptions': {}, 'defects': {}, 'data_kinds': {}, 'slow_to_fast': {'True': 0, 'False': 0},
            'fresh_sides': 0, 'second_dataset_same_descriptor_objects': 0, 'reused_same_file': 0, 'reused_other_file': 0, 'retries_after_rejection': 0}
    distinct = set()

    def violate(cls, mode, what, case):
        out.violations.append({'call_site': 'write_main_dataset', 'input_class': cls, 'failure_mode': mode, 'what': what, 'case': case})
    for i in range(n):
        base = base_scenario(rng)
        if i % 5 < 2:
            sc = apply_defect(base, DEFECTS[(i // 5 * 2 + i % 5) % len(DEFECTS)] if i < 5 * len(DEFECTS) else rng.choice(DEFECTS), rng)
        else:
            sc = base
        r = Run(sc, ctx.tmp, tabs).go(retry_of={'pos': sizes_of(base, 'pos'), 'spec': sizes_of(base, 'spec')})
        hist['calls'] += 1
        hist['accepted' if r['code'] == 0 else 'rejected'] += 1
        if r['exc']:
            k = r['exc'].split('(')[0]
            hist['exceptions'][k] = hist['exceptions'].get(k, 0) + 1
        hist['defects'][str(sc['defect'])] = hist['defects'].get(str(sc['defect']), 0) + 1
        hist['data_kinds'][sc['data']] = hist['data_kinds'].get(sc['data'], 0) + 1
        hist['slow_to_fast'][str(sc['s2f'])] += 1
        for side in ('pos', 'spec'):
            if sc[side]['kind'] == 'fresh':
                hist['fresh_sides'] += 1
            else:
                hist['reused_same_file' if sc[side]['where'] == 'same' else 'reused_other_file'] += 1
        desc = {'scenario': sc, 'exception': r['exc'], 'members_before': r['before_names'], 'members_after': r['after_names']}
        if sc['defect'] is None and r['code'] != 0:
            violate('valid_arguments', 'valid_call_rejected', '%s for %s' % (r['exc'], sc), desc)
        if sc['defect'] is not None and r['code'] == 0 and sc['defect'] not in ():
            violate(sc['defect'], 'inconsistent_arguments_accepted', str(sc), desc)
        for mode, what in r['problems']:
            violate(sc['defect'] or 'valid_arguments', mode, what, desc)
        if r.get('second'):
            hist['second_dataset_same_descriptor_objects'] += 1
        if 'retry' in r:
            hist['retries_after_rejection'] += 1
            if r['retry'] != 'ok':
                violate(sc['defect'] or 'valid_arguments', 'corrected_retry_fails', r['retry'], desc)
        cases.append(r['case'])
        meta.append(desc)
        if r['code'] == 0 and len(sizes_of(sc, 'pos')) + len(sizes_of(sc, 'spec')) >= 3:
            distinct.add((tuple(sizes_of(sc, 'pos')), tuple(sizes_of(sc, 'spec')), sc['s2f'], sc['pos']['kind'], sc['spec']['kind'], sc['data']))
        if sc['defect']:
            distinct.add(('defect', sc['defect'], sc['pos']['kind'], sc['spec']['kind']))
        if len(out.samples) < 4 and (i % 5 == 0 or i % 5 == 3):
            out.samples.append({'scenario': {k: v for k, v in sc.items() if k != 'attrs'}, 'result': r['exc'] or 'accepted', 'members_after': r['after_names']})
    long_dimension_cases(ctx, out, hist)
    bad, err = common.coq_eval_cases(ctx, HEADER, cases, 'check02', case_type='case02', per_file=40)
    out.corr_error = err
    out.disagreements = [meta[i] for i in bad]
    out.evaluations = len(cases)
    out.distinct_nontrivial = len(distinct)
    out.rule = ('three designed calls with a 70 001-step dimension (either side, both orderings, numpy and irregularly chunked dask; integer oracle only); '
                'calls of write_main_dataset on groups with prior members: numpy / dask (irregular row chunks) / empty-with-dtype data of 4 dtypes, 1-3 dimensions per side with sizes 1-4, '
                'both ordering flags, default and custom prefixes (with "-", without trailing "_"), single Dimension objects, ancillaries reused from the same file and '
                'from another file (copy, copy onto an equal existing dataset), creation kwargs, user attributes; 40 %% of the calls carry one of %d defects '
                '(size mismatch per side, taken names, wrong types, ranks, shape lists, kwargs, attributes, dimension modes, reuse defects, read-only / non-group target); '
                'observed: exception class, member names afterwards, full read-back of the new dataset and its four links; oracle: independent structural validator, '
                'coordinates per row / column recomputed from the caller\'s description, byte-level dump of the group before / after, a corrected retry after each rejection; '
                'non-trivial = accepted call with >= 3 dimensions in total, or a rejected call, by distinct configuration' % len(DEFECTS))
    out.histogram = hist
    out.trusted = ['h5py / dask primitives; sidpy validate_string_args, contains_integers, validate_dtype, copy_dataset and write_simple_attrs are mirrored from their observed behaviour',
                   'argument classification flags (strings ok, kwargs accepted, attributes writable) are computed by the harness']
    return out
