"""Shared machinery of the checks: Coq build + obligations + assumptions,
in-assistant evaluation of correspondence cases, verdicts, evidence."""
import fcntl
import hashlib
import json
import os
import random
import re
import shutil
import subprocess
import sys
import tempfile
import time

VERIF = os.path.dirname(os.path.dirname(os.path.abspath(__file__)))
COQ = os.path.join(VERIF, 'coq')
REPO = os.environ.get('PYUSID_REPO', '/repo')
FORBIDDEN = re.compile(r'\b(Admitted|admit|Axiom|Axioms|Parameter|Parameters|Conjecture|Conjectures|Admit Obligations|'
                       r'Unset Guard Checking|Unset Positivity Checking|Unset Universe Checking|bypass_check|'
                       r'Hypothesis|Hypotheses|Variable|Variables)\b')
AXIOM_WHITELIST = ('functional_extensionality_dep', 'proof_irrelevance', 'classic', 'JMeq_eq', 'Eq_rect_eq.eq_rect_eq',
                   'Eqdep.Eq_rect_eq.eq_rect_eq')

GLOBAL_TRUSTED = [
    'Coq 8.16.1 kernel incl. vm_compute (no native_compute, no extraction)',
    'harness: generators, canonicalisers, cases emitter (harness/*.py), independent Python oracles',
    'numpy/h5py/dask/sidpy primitives as mirrored in the model (validated by the correspondence run, not verified)',
]


class Ctx:
    def __init__(self, pid, tier, seed):
        self.pid = pid
        self.tier = tier
        self.seed = seed
        self.repo = REPO
        self.t0 = time.time()
        self.tmp = tempfile.mkdtemp(prefix='verif_%s_' % pid, dir=os.environ.get('VERIF_TMP', '/var/tmp'))
        self.rng = random.Random(seed * 1000003 + int(hashlib.sha1(pid.encode()).hexdigest()[:6], 16))
        self.notes = []

    def cleanup(self):
        shutil.rmtree(self.tmp, ignore_errors=True)

    def quick(self):
        return self.tier == 'quick'


# --------------------------------------------------------------------- Coq build

def _coq_files():
    out = []
    for line in open(os.path.join(COQ, '_CoqProject')):
        line = line.strip()
        if line.endswith('.v'):
            out.append(line)
    return out


def _deps_cone(target_v):
    """Transitive .v dependencies of target (paths relative to COQ) via coqdep."""
    files = _coq_files()
    p = subprocess.run(['coqdep', '-Q', '.', 'V'] + files, cwd=COQ, capture_output=True, text=True)
    deps = {}
    for line in p.stdout.splitlines():
        if ':' not in line:
            continue
        lhs, rhs = line.split(':', 1)
        tgts = [t for t in lhs.split() if t.endswith('.vo')]
        ds = [d[:-1] for d in rhs.split() if d.endswith('.vo') and not d.startswith('/')]
        for t in tgts:
            deps[t[:-1]] = [d for d in ds]
    cone, todo = [], [target_v]
    while todo:
        f = todo.pop()
        f = os.path.normpath(f)
        if f in cone:
            continue
        cone.append(f)
        todo += deps.get(f, [])
    return sorted(cone)


def scan_forbidden(files):
    bad = []
    for f in files:
        txt = open(os.path.join(COQ, f)).read()
        txt_nc = re.sub(r'\(\*.*?\*\)', '', txt, flags=re.S)
        for m in FORBIDDEN.finditer(txt_nc):
            w = m.group(1)
            if w in ('Variable', 'Variables', 'Hypothesis', 'Hypotheses'):
                # allowed only inside a Section
                before = txt_nc[:m.start()]
                if len(re.findall(r'^\s*Section\s', before, flags=re.M)) > len(re.findall(r'^\s*End\s', before, flags=re.M)):
                    continue
            bad.append('%s: %s' % (f, w))
    return bad


class Build:
    def __init__(self):
        self.ok = False
        self.log = ''
        self.cmd = ''
        self.files = []
        self.obligations = 0
        self.discharged = 0
        self.assumptions = []   # list of (theorem, text)
        self.axioms_ok = True
        self.theorems = []
        self.forbidden = []
        self.failed_at = None


def build_props(ctx, prop_v, timeout=1500, extra=()):
    """make the dependency cone of Props/Cxx.v (full .vo build) and collect obligations/assumptions."""
    b = Build()
    lock = open(os.path.join(COQ, '.build.lock'), 'w')
    fcntl.flock(lock, fcntl.LOCK_EX)
    try:
        if not os.path.exists(os.path.join(COQ, 'Makefile')) or \
                os.path.getmtime(os.path.join(COQ, 'Makefile')) < os.path.getmtime(os.path.join(COQ, '_CoqProject')):
            subprocess.run(['coq_makefile', '-f', '_CoqProject', '-o', 'Makefile'], cwd=COQ, capture_output=True)
        b.files = _deps_cone(prop_v)
        b.forbidden = scan_forbidden(b.files)
        target = prop_v + 'o'
        # Print Assumptions output is produced when Props/Cxx.v compiles: always recompile that one file
        try:
            os.remove(os.path.join(COQ, target))
        except OSError:
            pass
        b.cmd = 'make -C coq -j8 %s   (coq_makefile; full .vo build; coqc 8.16.1)' % target
        try:
            p = subprocess.run(['timeout', str(timeout), 'make', '-j8', target] + [e + 'o' for e in extra], cwd=COQ,
                               capture_output=True, text=True)
            b.log = p.stdout + p.stderr
            b.ok = p.returncode == 0
        except Exception as e:   # pragma: no cover
            b.log = str(e)
            b.ok = False
    finally:
        fcntl.flock(lock, fcntl.LOCK_UN)
        lock.close()
    # obligations: statements closed by Qed/Defined in the cone
    for f in b.files:
        txt = open(os.path.join(COQ, f)).read()
        txt = re.sub(r'\(\*.*?\*\)', '', txt, flags=re.S)
        n = len(re.findall(r'\b(Qed|Defined)\s*\.', txt))
        b.obligations += n
        vo = os.path.join(COQ, f + 'o')
        if os.path.exists(vo) and os.path.getmtime(vo) >= os.path.getmtime(os.path.join(COQ, f)):
            b.discharged += n
    ptxt = re.sub(r'\(\*.*?\*\)', '', open(os.path.join(COQ, prop_v)).read(), flags=re.S)
    b.theorems = re.findall(r'^\s*(?:Theorem|Lemma|Corollary)\s+(\w+)', ptxt, flags=re.M)
    printed = re.findall(r'Print Assumptions\s+(\w+)\s*\.', ptxt)
    if b.ok:
        # the log interleaves; split on the two possible headers
        chunks = re.split(r'(?=Closed under the global context|Axioms:)', b.log)
        chunks = [c for c in chunks if c.startswith('Closed under') or c.startswith('Axioms:')]
        for name, c in zip(printed, chunks):
            c = c.strip()
            if c.startswith('Closed'):
                b.assumptions.append((name, 'Closed under the global context'))
            else:
                b.assumptions.append((name, c))
                for ax in re.findall(r'^(\S+)\s*:', c.split('\n', 1)[1] if '\n' in c else '', flags=re.M):
                    if not any(ax.endswith(w) for w in AXIOM_WHITELIST):
                        b.axioms_ok = False
        if len(chunks) != len(printed) or set(printed) != set(b.theorems):
            b.axioms_ok = False
            b.log += '\n[harness] Print Assumptions coverage mismatch: theorems=%s printed=%s outputs=%d' % (
                b.theorems, printed, len(chunks))
    else:
        m = re.search(r'File "\./([^"]+)", line (\d+)', b.log)
        if m:
            b.failed_at = '%s:%s' % (m.group(1), m.group(2))
    if b.forbidden:
        b.ok = False
        b.log += '\n[harness] forbidden vernacular: %s' % b.forbidden
    return b


# ------------------------------------------------------- evaluating cases in Coq

def coq_eval_cases(ctx, header, cases, check_fn, case_type=None, per_file=300, timeout=600, tag='cases'):
    """cases: list of Coq terms (strings).  Evaluates `check_fn case` (a bool) for each with
    vm_compute inside coqc and returns (bad_indices, error_or_None).  header: Coq text with the
    Require lines."""
    if not cases:
        return [], None
    files = []
    for k in range(0, len(cases), per_file):
        chunk = cases[k:k + per_file]
        name = '%s_%s_%d' % (tag, ctx.pid, k // per_file)
        path = os.path.join(ctx.tmp, name + '.v')
        ty = (' : list (%s)' % case_type) if case_type else ''
        with open(path, 'w') as f:
            f.write(header + '\n')
            f.write('From Coq Require Import List ZArith String. Import ListNotations.\n')
            f.write('Require Import V.Base.CorrAux.\n')
            f.write('Definition the_cases%s := [\n' % ty)
            f.write(';\n'.join(chunk))
            f.write('\n].\n')
            f.write('Set Printing Width 1000000. Set Printing Depth 1000000.\n')
            f.write('Eval vm_compute in (bad_indices (%s) the_cases).\n' % check_fn)
        files.append((k, path))
    procs = []
    maxpar = 12
    bad, err = [], None
    pending = list(files)
    running = []
    while pending or running:
        while pending and len(running) < maxpar:
            k, path = pending.pop(0)
            p = subprocess.Popen(['timeout', str(timeout), 'coqc', '-Q', COQ, 'V', '-w', '-all', path],
                                 cwd=ctx.tmp, stdout=subprocess.PIPE, stderr=subprocess.PIPE, text=True)
            running.append((k, path, p))
        k, path, p = running.pop(0)
        out, e = p.communicate()
        if p.returncode != 0:
            err = 'coqc failed on %s: %s' % (os.path.basename(path), (e or out)[-2000:])
            continue
        m = re.search(r'=\s*\[(.*?)\]\s*:\s*list nat', out, flags=re.S)
        if not m:
            err = 'unparseable coqc output for %s: %s' % (os.path.basename(path), out[-500:])
            continue
        body = m.group(1).replace('%nat', '').strip()
        if body:
            bad += [k + int(x) for x in re.split(r'[;\s]+', body) if x.strip()]
    return sorted(bad), err


def coq_eval_terms(ctx, header, terms, timeout=300, tag='show'):
    """Evaluate a few Coq terms and return their printed values (for replay files)."""
    path = os.path.join(ctx.tmp, '%s_%s.v' % (tag, ctx.pid))
    with open(path, 'w') as f:
        f.write(header + '\nFrom Coq Require Import List. Import ListNotations.\n')
        f.write('Set Printing Width 1000000. Set Printing Depth 1000000.\n')
        for t in terms:
            f.write('Eval vm_compute in (%s).\n' % t)
    p = subprocess.run(['timeout', str(timeout), 'coqc', '-Q', COQ, 'V', '-w', '-all', path], cwd=ctx.tmp,
                       capture_output=True, text=True)
    if p.returncode != 0:
        return ['<coqc error: %s>' % (p.stderr or p.stdout)[-500:]] * len(terms)
    vals = re.findall(r'^\s*=\s*(.*?)\n\s*:\s', p.stdout, flags=re.S | re.M)
    vals = [re.sub(r'\s+', ' ', v) for v in vals]
    return vals + ['<missing>'] * (len(terms) - len(vals))


# ------------------------------------------------------------------ Coq literals

def cnat(n):
    return '%d' % int(n)


def cZ(n):
    n = int(n)
    return '(%d)%%Z' % n


def cbool(b):
    return 'true' if b else 'false'


def clist(xs, f=None):
    return '[' + '; '.join((f(x) if f else x) for x in xs) + ']'


def cstr(s):
    return '"' + s.replace('"', '""') + '"%string'


def copt(x, f=None):
    return 'None' if x is None else '(Some %s)' % (f(x) if f else x)


def cpair(*xs):
    return '(' + ', '.join(xs) + ')'


# ------------------------------------------------------------------ findings

def load_findings(pid):
    path = os.path.join(VERIF, 'known_findings.json')
    if not os.path.exists(path):
        return []
    data = json.load(open(path))
    return [e for e in data.get('findings', []) if e.get('property') == pid]


def match_finding(v, findings):
    for e in findings:
        if e.get('status') != 'open':
            continue
        if e['call_site'] == v.get('call_site') and e['input_class'] == v.get('input_class') and \
                e['failure_mode'] == v.get('failure_mode'):
            return e
    return None


class Outcome:
    """What a property module returns from run()."""

    LAST = None

    def __init__(self):
        Outcome.LAST = self
        self.evaluations = 0
        self.distinct_nontrivial = 0
        self.rule = ''
        self.samples = []
        self.histogram = {}
        self.disagreements = []     # model vs implementation: list of dicts
        self.corr_error = None      # coqc / harness failure text
        self.violations = []        # property failures shown on the real code: dicts with call_site,input_class,failure_mode,what,case
        self.extra = {}
        self.trusted = []
        self.assumptions = []
        self.exhaustive = False


def write_replay(ctx, name, payload):
    d = os.path.join(VERIF, 'replays', ctx.pid)
    os.makedirs(d, exist_ok=True)
    h = hashlib.sha1(json.dumps(payload, sort_keys=True, default=str).encode()).hexdigest()[:12]
    path = os.path.join(d, '%s_%s.json' % (name, h))
    with open(path, 'w') as f:
        json.dump(payload, f, indent=1, sort_keys=True, default=str)
    return path


def finish(ctx, mod, build, gen_status, out, search=None):
    """Verdict + evidence.  Returns the exit code."""
    findings = load_findings(ctx.pid)
    lines = []
    exit_code = 0
    n_viol = 0
    known_seen = {}

    def triage(vs):
        nonlocal exit_code, n_viol
        fresh = []
        for v in vs:
            e = match_finding(v, findings)
            if e is not None:
                known_seen.setdefault(e['id'], [0, e])[0] += 1
            else:
                fresh.append(v)
        # one VIOLATION line per distinct (call_site, input_class, failure_mode)
        seen = set()
        for v in fresh:
            key = (v.get('call_site'), v.get('input_class'), v.get('failure_mode'))
            n_viol += 1
            if key in seen:
                continue
            seen.add(key)
            path = write_replay(ctx, 'violation', {'property': ctx.pid, 'seed': ctx.seed, 'tier': ctx.tier, **v})
            if len([l for l in lines if l.startswith('VIOLATION')]) < 12:       # keep the output readable; every replay file is written
                lines.append('VIOLATION property=%s replay=%s' % (ctx.pid, path))
            exit_code = 1
        return fresh

    fresh = triage(out.violations)

    broken = []
    if gen_status:
        for k, v in gen_status.items():
            if v:
                broken.append({'kind': 'translator', 'what': 'Gen_%s: %s' % (k, v)})
    if not build.ok:
        broken.append({'kind': 'proof', 'what': 'Coq build of %s failed at %s' % (mod.PROP_V, build.failed_at),
                       'log_tail': build.log[-3000:]})
    elif not build.axioms_ok:
        broken.append({'kind': 'assumptions', 'what': 'Print Assumptions not closed / not whitelisted',
                       'assumptions': build.assumptions, 'log_tail': build.log[-1500:]})
    if out.corr_error:
        broken.append({'kind': 'correspondence', 'what': 'correspondence could not be evaluated: %s' % out.corr_error})
    if out.disagreements:
        broken.append({'kind': 'correspondence',
                       'what': '%d model/implementation disagreements' % len(out.disagreements),
                       'first': out.disagreements[:5]})
    if broken and not fresh:
        # nothing failing found so far: extended search on the implementation
        found = []
        if search is not None:
            try:
                found = search(ctx) or []
            except Exception as e:   # pragma: no cover
                ctx.notes.append('extended search crashed: %r' % (e,))
        fresh2 = triage(found)
        if not fresh2:
            path = write_replay(ctx, 'unproved', {'property': ctx.pid, 'seed': ctx.seed, 'tier': ctx.tier,
                                                  'no_longer_checks': broken})
            lines.append('VIOLATION property=%s replay=%s no-failing-input-found' % (ctx.pid, path))
            n_viol += 1
            exit_code = 1
    for fid, (cnt, e) in sorted(known_seen.items()):
        lines.append('KNOWN-FINDING: property=%s %s [%s, seen %d times]' % (ctx.pid, e['what_fails'], fid, cnt))

    cov = {
        'obligations': build.obligations,
        'discharged': build.discharged if build.ok else min(build.discharged, max(build.obligations - 1, 0)),
        'checker_cmd': build.cmd,
        'trusted_base': GLOBAL_TRUSTED + list(out.trusted),
        'theorems': build.theorems,
        'axioms': ['%s: %s' % a for a in build.assumptions],
        'coq_files': build.files,
        'translator': gen_status or {},
        'evaluations': out.evaluations,
        'distinct_nontrivial': out.distinct_nontrivial,
        'rule': out.rule,
        'samples': out.samples[:8] if out.samples else ['<none>'],
        'input_histogram': out.histogram,
        'model_vs_impl_disagreements': len(out.disagreements),
        'disagreement_samples': out.disagreements[:6],
        'known_findings_seen': {k: v[0] for k, v in known_seen.items()},
        'exhaustive': bool(out.exhaustive),
        'notes': ctx.notes,
    }
    cov.update(out.extra)
    ev = {
        'property_id': ctx.pid,
        'tier': ctx.tier,
        'seed': ctx.seed,
        'level': 'proof',
        'coverage': cov,
        'assumptions': list(out.assumptions),
        'wall_s': round(time.time() - ctx.t0, 2),
        'violations': n_viol,
    }
    evdir = os.environ.get('VERIF_EVIDENCE_DIR', os.path.join(VERIF, 'evidence'))   # mutation self-tests write elsewhere
    os.makedirs(evdir, exist_ok=True)
    with open(os.path.join(evdir, ctx.pid + '.json'), 'w') as f:
        json.dump(ev, f, indent=1, sort_keys=True, default=str)
    for l in lines:
        print(l)
    if out.corr_error:
        print('[correspondence error] ' + str(out.corr_error)[-600:])
    print('%s %s: obligations %d/%d, %d evaluations (%d non-trivial), %d disagreements, %d violations, %.1fs -> exit %d' % (
        ctx.pid, ctx.tier, cov['discharged'], cov['obligations'], out.evaluations, out.distinct_nontrivial,
        len(out.disagreements), n_viol, time.time() - ctx.t0, exit_code))
    return exit_code


def silence():
    """Silence pyUSID's chatty prints/warnings inside the harness process."""
    import warnings
    warnings.filterwarnings('ignore')


class quiet:
    """Context manager: swallow stdout (pyUSID prints a lot)."""

    def __enter__(self):
        self._old = sys.stdout
        sys.stdout = open(os.devnull, 'w')
        return self

    def __exit__(self, *a):
        sys.stdout.close()
        sys.stdout = self._old
        return False
