#!/bin/bash
# Runs every seeded change under /verif/seeded against the check(s) of its property (quick tier) and records the outcome in
# seeded/MATRIX.tsv.  Each change is applied to /repo's working tree, checked, and reverted (harness/mutest.sh).
# *-control-* entries are harmless rewrites: exit 0 expected.
# usage: harness/mutation_matrix.sh [id-prefix ...]
cd /verif || exit 2
out=${MATRIX_OUT:-seeded/MATRIX.tsv}
tmp=$(mktemp /var/tmp/matrix.XXXXXX)
printf "seeded_id\tproperty\texit\tsummary_line\n" > "$tmp"
if [ $# -gt 0 ] && [ -f "$out" ]; then
  # partial run: keep the rows of the changes that are not re-run
  tail -n +2 "$out" | while IFS= read -r line; do
    id=${line%%$'\t'*}; keep=1
    for p in "$@"; do case "$id" in $p*) keep=0;; esac; done
    [ $keep -eq 1 ] && printf "%s\n" "$line" >> "$tmp"
  done
fi
for d in seeded/*/; do
  id=$(basename "$d")
  if [ $# -gt 0 ]; then ok=0; for p in "$@"; do case "$id" in $p*) ok=1;; esac; done; [ $ok -eq 1 ] || continue; fi
  [ -f "$d/patch.diff" ] || continue
  prop=${id%%-*}
  extra=""
  [ "$id" = "C11-A" ] && extra="C07"
  [ "$id" = "C09-control-vectorised" ] && extra="C01 C10"
  if ! (cd /repo && git apply --check "/verif/$d/patch.diff" 2>/dev/null); then
    printf "%s\t%s\t-\tpatch does not apply to the current tree (superseded, kept for the record)\n" "$id" "$prop" >> "$tmp"; continue
  fi
  for pr in $prop $extra; do
    line=$(harness/mutest.sh "/verif/$d/patch.diff" "$pr" | grep -E "exit [01]" | tail -1)
    ex=$(echo "$line" | sed 's/.*-> exit //')
    printf "%s\t%s\t%s\t%s\n" "$id" "$pr" "$ex" "$line" >> "$tmp"
  done
done
(head -1 "$tmp"; tail -n +2 "$tmp" | sort) > "$out"; rm -f "$tmp"
cat "$out"
