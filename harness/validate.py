"""validate MANIFEST.json and evidence/*.json against the schemas (run with python3-vt)"""
import glob, json, sys
import jsonschema
ok = True
m = json.load(open('/verif/MANIFEST.json'))
jsonschema.validate(m, json.load(open('/root/.vp/MANIFEST.schema.json')))
es = json.load(open('/root/.vp/EVIDENCE.schema.json'))
for f in sorted(glob.glob('/verif/evidence/*.json')):
    try:
        jsonschema.validate(json.load(open(f)), es)
    except Exception as e:
        ok = False
        print('INVALID', f, str(e)[:300])
print('manifest ok; evidence', 'ok' if ok else 'BAD')
sys.exit(0 if ok else 1)
