"""Fail-closed Python-ast -> Gallina translator for the integer / rational kernels
of pyUSID/processing (C14, C15).

The translator symbolically executes a straight-line Python function body
(assignments, if/elif/else, raise, return) over an environment that maps Python
names / ``self`` attributes to Coq expression strings.  Every expression is
inlined (no lets), ``if`` joins become Coq ``if .. then .. else``, and ``raise``
statements become guards of the final ``res`` value.  Anything it does not know
is a TranslateError: the check that depends on the generated file then reports
that the model could not be regenerated from the source.

Two arithmetic modes:
  'Z' : integers only (``//`` -> Z.div, ``/`` rejected)
  'Q' : exact rationals (``/`` -> Qdiv, ``int(np.floor(x))`` -> Qfloor, ints
        injected with inject_Z where they meet rationals)
"""
import ast
import copy


class TranslateError(Exception):
    pass


def _src(node):
    return ast.unparse(node)


class Val:
    """A Coq expression with a type tag: 'Z', 'Q', 'B' (bool), 'O' (opaque)."""
    __slots__ = ('s', 't')

    def __init__(self, s, t):
        self.s = s
        self.t = t

    def __repr__(self):
        return 'Val(%r,%r)' % (self.s, self.t)


def toQ(v):
    if v.t == 'Q':
        return v.s
    if v.t == 'Z':
        return '(inject_Z %s)' % v.s
    raise TranslateError('cannot use %r as a rational' % (v,))


class Kernel:
    """Symbolic executor for one function body."""

    def __init__(self, attr_table, name_table, drop_if, skip_stmts, isinstance_table, mode='Z'):
        self.attr_table = attr_table        # unparse text -> Val  (reads)
        self.name_table = dict(name_table)  # python local name -> Val
        self.drop_if = drop_if              # predicate on the *test source* of an if to drop (body must be effect-free)
        self.skip_stmts = skip_stmts        # exact unparse text -> None | callable(env)
        self.isinstance_table = isinstance_table  # (name, typename) -> bool
        self.mode = mode
        self.div_guard = (mode == 'Q')      # Python raises ZeroDivisionError; the model must not totalise x/0
        self.env = {}                       # tracked store: key text -> Val
        self.guards = []                    # list of (cond coq string, exn name)
        self.path = 'true'                  # current path condition (coq bool expr)
        self.returned = None

    # ---------------------------------------------------------------- expr
    def expr(self, n):
        src = _src(n)
        if src in self.env:
            return self.env[src]
        if src in self.attr_table:
            return self.attr_table[src]
        if isinstance(n, ast.Constant):
            if isinstance(n.value, bool):
                return Val('true' if n.value else 'false', 'B')
            if isinstance(n.value, int):
                return Val('(%d)' % n.value, 'Z')
            if isinstance(n.value, float):
                num, den = n.value.as_integer_ratio()
                return Val('(%d # %d)' % (num, den), 'Q')
            if n.value is None:
                return Val('None', 'O')
            raise TranslateError('constant ' + src)
        if isinstance(n, ast.Name):
            if n.id in self.name_table:
                return self.name_table[n.id]
            raise TranslateError('unknown name ' + n.id)
        if isinstance(n, ast.BinOp):
            a, b = self.expr(n.left), self.expr(n.right)
            return self.binop(n.op, a, b, src)
        if isinstance(n, ast.UnaryOp):
            a = self.expr(n.operand)
            if isinstance(n.op, ast.Not):
                self.need(a, 'B', src)
                return Val('(negb %s)' % a.s, 'B')
            if isinstance(n.op, ast.USub):
                if a.t == 'Z':
                    return Val('(- %s)' % a.s, 'Z')
                if a.t == 'Q':
                    return Val('(Qopp %s)' % a.s, 'Q')
            raise TranslateError('unary ' + src)
        if isinstance(n, ast.BoolOp):
            vs = [self.expr(v) for v in n.values]
            for v in vs:
                self.need(v, 'B', src)
            op = 'andb' if isinstance(n.op, ast.And) else 'orb'
            s = vs[0].s
            for v in vs[1:]:
                s = '(%s %s %s)' % (op, s, v.s)
            return Val(s, 'B')
        if isinstance(n, ast.Compare):
            if len(n.ops) != 1:
                raise TranslateError('chained comparison ' + src)
            op = n.ops[0]
            if isinstance(op, (ast.Is, ast.IsNot)):
                rhs = n.comparators[0]
                if not (isinstance(rhs, ast.Constant) and rhs.value is None):
                    raise TranslateError('is ' + src)
                a = self.expr(n.left)
                if a.t != 'O':
                    # a tracked optional parameter: its is-None flag is looked up in the name table
                    key = _src(n.left) + ' is None'
                    if key in self.name_table:
                        v = self.name_table[key]
                        return v if isinstance(op, ast.Is) else Val('(negb %s)' % v.s, 'B')
                    raise TranslateError('is None on non-optional ' + src)
                r = 'true' if a.s == 'None' else 'false'
                if isinstance(op, ast.IsNot):
                    r = 'false' if r == 'true' else 'true'
                return Val(r, 'B')
            a, b = self.expr(n.left), self.expr(n.comparators[0])
            return self.cmp(op, a, b, src)
        if isinstance(n, ast.Call):
            return self.call(n, src)
        raise TranslateError('expression ' + src)

    def need(self, v, t, src):
        if v.t != t:
            raise TranslateError('type %s expected in %s, got %r' % (t, src, v))

    def binop(self, op, a, b, src):
        if self.div_guard and isinstance(op, (ast.Div, ast.FloorDiv, ast.Mod)):
            z = '(%s =? 0)' % b.s if b.t == 'Z' else '(Qeq_bool %s 0)' % toQ(b)
            self.guards.append(('(andb %s %s)' % (self.path, z), 'ZeroDivisionError'))
        if a.t == 'Z' and b.t == 'Z':
            if isinstance(op, ast.Add):
                return Val('(%s + %s)' % (a.s, b.s), 'Z')
            if isinstance(op, ast.Sub):
                return Val('(%s - %s)' % (a.s, b.s), 'Z')
            if isinstance(op, ast.Mult):
                return Val('(%s * %s)' % (a.s, b.s), 'Z')
            if isinstance(op, ast.FloorDiv):
                return Val('(%s / %s)' % (a.s, b.s), 'Z')
            if isinstance(op, ast.Pow):
                return Val('(%s ^ %s)' % (a.s, b.s), 'Z')
            if isinstance(op, ast.Div) and self.mode == 'Q':
                return Val('(Qdiv %s %s)' % (toQ(a), toQ(b)), 'Q')
            raise TranslateError('integer operator ' + src)
        if self.mode == 'Q' and a.t in 'ZQ' and b.t in 'ZQ':
            f = {ast.Add: 'Qplus', ast.Sub: 'Qminus', ast.Mult: 'Qmult', ast.Div: 'Qdiv'}.get(type(op))
            if f is None:
                raise TranslateError('rational operator ' + src)
            return Val('(%s %s %s)' % (f, toQ(a), toQ(b)), 'Q')
        raise TranslateError('operator types ' + src)

    def cmp(self, op, a, b, src):
        if a.t == 'Z' and b.t == 'Z':
            f = {ast.Lt: '<?', ast.LtE: '<=?', ast.Eq: '=?'}.get(type(op))
            if f:
                return Val('(%s %s %s)' % (a.s, f, b.s), 'B')
            if isinstance(op, ast.Gt):
                return Val('(%s <? %s)' % (b.s, a.s), 'B')
            if isinstance(op, ast.GtE):
                return Val('(%s <=? %s)' % (b.s, a.s), 'B')
            if isinstance(op, ast.NotEq):
                return Val('(negb (%s =? %s))' % (a.s, b.s), 'B')
        elif self.mode == 'Q' and a.t in 'ZQ' and b.t in 'ZQ':
            qa, qb = toQ(a), toQ(b)
            if isinstance(op, ast.Lt):
                return Val('(negb (Qle_bool %s %s))' % (qb, qa), 'B')
            if isinstance(op, ast.LtE):
                return Val('(Qle_bool %s %s)' % (qa, qb), 'B')
            if isinstance(op, ast.Gt):
                return Val('(negb (Qle_bool %s %s))' % (qa, qb), 'B')
            if isinstance(op, ast.GtE):
                return Val('(Qle_bool %s %s)' % (qb, qa), 'B')
            if isinstance(op, ast.Eq):
                return Val('(Qeq_bool %s %s)' % (qa, qb), 'B')
        raise TranslateError('comparison ' + src)

    def call(self, n, src):
        f = _src(n.func)
        if n.keywords:
            raise TranslateError('keyword call ' + src)
        args = n.args
        if f in ('min', 'max'):
            vs = [self.expr(a) for a in args]
            if len(vs) != 2:
                raise TranslateError('min/max arity ' + src)
            a, b = vs
            if a.t == 'Z' and b.t == 'Z':
                return Val('(Z.%s %s %s)' % (f, a.s, b.s), 'Z')
            if self.mode == 'Q' and a.t in 'ZQ' and b.t in 'ZQ':
                return Val('(Q%s %s %s)' % (f, toQ(a), toQ(b)), 'Q')
            raise TranslateError('min/max types ' + src)
        if f == 'abs' and len(args) == 1:
            a = self.expr(args[0])
            if a.t == 'Z':
                return Val('(Z.abs %s)' % a.s, 'Z')
            if a.t == 'Q':
                return Val('(Qabs %s)' % a.s, 'Q')
        if f == 'int' and len(args) == 1:
            a = self.expr(args[0])
            if a.t == 'Z':
                return a
            if a.t == 'B':
                return Val('(Z.b2z %s)' % a.s, 'Z')
            if a.t == 'Q':
                # int() truncates toward zero
                return Val('(Qtrunc %s)' % a.s, 'Z')
        if f == 'np.floor' and len(args) == 1:
            a = self.expr(args[0])
            if a.t == 'Q':
                return Val('(inject_Z (Qfloor %s))' % a.s, 'Q')
            if a.t == 'Z':
                return a
        if f == 'isinstance' and len(args) == 2:
            key = (_src(args[0]), _src(args[1]))
            if key in self.isinstance_table:
                v = self.isinstance_table[key]
                if isinstance(v, Val):
                    return v
                return Val('true' if v else 'false', 'B')
        raise TranslateError('call ' + src)

    # ---------------------------------------------------------------- stmts
    def effect_free(self, stmts):
        for s in stmts:
            if isinstance(s, ast.Expr) and isinstance(s.value, ast.Call) and _src(s.value.func) in ('print', 'warn'):
                continue
            if isinstance(s, ast.Expr) and isinstance(s.value, ast.Constant):
                continue
            if isinstance(s, ast.Assign) and all(isinstance(t, ast.Name) for t in s.targets):
                # local scratch names used only for printing
                for t in s.targets:
                    self.name_table.pop(t.id, None)
                continue
            if isinstance(s, ast.If):
                if self.effect_free(s.body) and self.effect_free(s.orelse):
                    continue
            return False
        return True

    def run(self, stmts):
        for s in stmts:
            if self.returned is not None:
                raise TranslateError('statement after return: ' + _src(s))
            self.stmt(s)

    def stmt(self, s):
        src = _src(s)
        if src in self.skip_stmts:
            h = self.skip_stmts[src]
            if h is not None:
                h(self)
            return
        if isinstance(s, ast.Expr):
            if isinstance(s.value, ast.Constant):
                return  # docstring / comment string
            if isinstance(s.value, ast.Call) and _src(s.value.func) in ('print', 'warn'):
                return
            raise TranslateError('expression statement ' + src)
        if isinstance(s, ast.Assign):
            if len(s.targets) != 1:
                raise TranslateError('multi-assign ' + src)
            key = _src(s.targets[0])
            self.assign(key, self.expr(s.value))
            return
        if isinstance(s, ast.AugAssign):
            key = _src(s.target)
            cur = self.expr(s.target)
            self.assign(key, self.binop(s.op, cur, self.expr(s.value), src))
            return
        if isinstance(s, ast.Raise):
            exn = _src(s.exc.func) if isinstance(s.exc, ast.Call) else _src(s.exc)
            self.guards.append((self.path, exn))
            self.path = 'false'
            return
        if isinstance(s, ast.Return):
            self.returned = self.expr(s.value) if s.value is not None else Val('tt', 'O')
            return
        if isinstance(s, ast.If):
            test_src = _src(s.test)
            if self.drop_if(test_src):
                if not (self.effect_free(s.body) and self.effect_free(s.orelse)):
                    raise TranslateError('dropped if has effects: ' + src)
                return
            c = self.expr(s.test)
            self.need(c, 'B', src)
            if c.s == 'true':
                self.run(s.body)
                return
            if c.s == 'false':
                self.run(s.orelse)
                return
            k1, k2 = copy.copy(self), copy.copy(self)
            for k in (k1, k2):
                k.env = dict(self.env)
                k.name_table = dict(self.name_table)
                k.guards = []
            k1.path = '(andb %s %s)' % (self.path, c.s)
            k2.path = '(andb %s (negb %s))' % (self.path, c.s)
            k1.run(s.body)
            k2.run(s.orelse)
            if k1.returned is not None or k2.returned is not None:
                raise TranslateError('return inside if: ' + src)
            self.guards += k1.guards + k2.guards
            dead1, dead2 = k1.path == 'false', k2.path == 'false'
            for store in ('env', 'name_table'):
                a, b, cur = getattr(k1, store), getattr(k2, store), getattr(self, store)
                for key in set(a) | set(b):
                    va, vb = a.get(key), b.get(key)
                    if store == 'env':
                        # a tracked attribute not yet assigned keeps its initial (symbolic) value
                        va = va or self.attr_table.get(key)
                        vb = vb or self.attr_table.get(key)
                    if dead1:
                        va = vb
                    if dead2:
                        vb = va
                    if va is None or vb is None:
                        cur.pop(key, None)     # defined on one path only: unusable afterwards
                        continue
                    if va.s == vb.s and va.t == vb.t:
                        cur[key] = va
                        continue
                    if va.t != vb.t:
                        if self.mode == 'Q' and va.t in 'ZQ' and vb.t in 'ZQ':
                            va, vb = Val(toQ(va), 'Q'), Val(toQ(vb), 'Q')
                        else:
                            raise TranslateError('join of different types for %s in %s' % (key, src))
                    cur[key] = Val('(if %s then %s else %s)' % (c.s, va.s, vb.s), va.t)
            if dead1 and dead2:
                self.path = 'false'
            return
        raise TranslateError('statement ' + src)

    def assign(self, key, v):
        if key.startswith('self.') or '.' in key or '[' in key:
            self.env[key] = v
        else:
            self.name_table[key] = v

    # result: res-wrapped expression
    def result(self, ok_expr):
        s = 'Ok %s' % ok_expr
        for cond, exn in reversed(self.guards):
            s = 'if %s then Err %s else (%s)' % (cond, exn, s)
        return s


def find_function(tree, qualname):
    parts = qualname.split('.')
    body = tree.body
    node = None
    for p in parts:
        node = None
        for n in body:
            if isinstance(n, (ast.FunctionDef, ast.ClassDef)) and n.name == p:
                node = n
                break
        if node is None:
            raise TranslateError('function %s not found' % qualname)
        body = node.body
    return node


def strip_doc(body):
    if body and isinstance(body[0], ast.Expr) and isinstance(body[0].value, ast.Constant) and isinstance(body[0].value.value, str):
        return body[1:]
    return body
