"""Dataset generator G: writes USID files with raw h5py only (independent of
pyUSID's own writer) and gives the oracle-side description of the layout."""
import itertools

import h5py
import numpy as np

DTYPES = {
    'f8': np.float64, 'f4': np.float32, 'i4': np.int32, 'u2': np.uint16, 'c16': np.complex128,
    'cmp': np.dtype([('re', np.float32), ('im', np.float32)]),
}


def stride_of(sizes, order, d):
    s = 1
    for e in order:
        if e == d:
            return s
        s *= sizes[e]
    raise ValueError


def coord(sizes, order, n, d):
    return (n // stride_of(sizes, order, d)) % sizes[d]


def point(sizes, order, idx):
    """inverse of coord: flat row/column number of the multi-index idx (file order)."""
    n, s = 0, 1
    for e in order:
        n += idx[e] * s
        s *= sizes[e]
    return n


def index_matrix(sizes, order):
    """N x k matrix (position-shaped), column d = index along dimension d (file order)."""
    N = int(np.prod(sizes)) if len(sizes) else 1
    m = np.zeros((N, len(sizes)), dtype=np.uint32)
    for d in range(len(sizes)):
        st = stride_of(sizes, order, d)
        m[:, d] = (np.arange(N) // st) % sizes[d]
    return m


def unit_values(d, size, kind=0):
    """dyadic reference values of dimension d: kinds 0 / 1 increasing (uniform / not), 2 decreasing, 3 not monotone"""
    i = np.arange(size, dtype=np.float64)
    if kind == 2:          # strictly decreasing (e.g. a sweep from + to -)
        return (d + 1) * 0.5 + (size - 1 - i) * 0.25
    if kind == 3:          # neither increasing nor decreasing: neighbours swapped pairwise
        j = np.arange(size)
        sw = np.where((j ^ 1) < size, j ^ 1, j).astype(np.float64)
        return (d + 1) * 0.5 + sw * 0.25
    return (d + 1) * 0.5 + i * 0.25 + (i * i) * 0.5 * (kind % 2)


_LABELS = {
    'pos': {1: [['X']], 2: [['Y', 'X'], ['b', 'A'], ['X', 'Y']], 3: [['Y', 'Z', 'X'], ['Z', 'x', 'Y'], ['b', 'C', 'a']]},
    'spec': {1: [['Bias']], 2: [['Cycle', 'Bias'], ['w', 'F'], ['Bias', 'Cycle']], 3: [['Freq', 'Cycle', 'DC'], ['t', 'V', 'f'], ['Step', 'Field', 'Phase']]},
}


def default_labels(side, sizes):
    k = len(sizes)
    opts = _LABELS[side].get(k)
    if opts:
        return list(opts[(sum(sizes) + k) % len(opts)])
    base = ['%s%d' % ('P' if side == 'pos' else 'S', i) for i in range(k)]
    return base[1:] + base[:1]


class Layout:
    def __init__(self, pos_sizes, pos_order, spec_sizes, spec_order, dtype='f8', pos_labels=None, spec_labels=None,
                 vkind=1):
        self.pos_sizes = list(pos_sizes)
        self.pos_order = list(pos_order)
        self.spec_sizes = list(spec_sizes)
        self.spec_order = list(spec_order)
        self.dtype = dtype
        # default names are NOT in alphabetical order in file order (a change that sorts names must not go unnoticed);
        # chosen from the sizes only, so independent of the seed
        self.pos_labels = pos_labels or default_labels('pos', pos_sizes)
        self.spec_labels = spec_labels or default_labels('spec', spec_sizes)
        self.pos_units = ['pu%d' % i for i in range(len(pos_sizes))]
        self.spec_units = ['su%d' % i for i in range(len(spec_sizes))]
        self.vkind = vkind
        self.N = int(np.prod(self.pos_sizes))
        self.M = int(np.prod(self.spec_sizes))

    def key(self):
        return (tuple(self.pos_sizes), tuple(self.pos_order), tuple(self.spec_sizes), tuple(self.spec_order), self.dtype)

    def describe(self):
        return {'pos_sizes': self.pos_sizes, 'pos_order_fast_to_slow': self.pos_order,
                'spec_sizes': self.spec_sizes, 'spec_order_fast_to_slow': self.spec_order, 'dtype': self.dtype}

    def nontrivial(self):
        def side(sz, order):
            big = [d for d in range(len(sz)) if sz[d] >= 2]
            return len(big) >= 2 and list(order) != list(range(len(sz)))
        return side(self.pos_sizes, self.pos_order) or side(self.spec_sizes, self.spec_order)

    def pos_inds(self):
        return index_matrix(self.pos_sizes, self.pos_order)

    def spec_inds(self):
        return index_matrix(self.spec_sizes, self.spec_order).T.copy()

    def pos_unit(self, d):
        return unit_values(d, self.pos_sizes[d], self.vkind)

    def spec_unit(self, d):
        return unit_values(d + 10, self.spec_sizes[d], self.vkind)

    def pos_vals(self):
        pi = self.pos_inds()
        out = np.zeros(pi.shape, dtype=np.float32)
        for d in range(len(self.pos_sizes)):
            out[:, d] = self.pos_unit(d)[pi[:, d]]
        return out

    def spec_vals(self):
        si = self.spec_inds()
        out = np.zeros(si.shape, dtype=np.float32)
        for d in range(len(self.spec_sizes)):
            out[d, :] = self.spec_unit(d)[si[d, :]]
        return out

    def main_ids(self):
        """main[r, c] = r*M + c : every element carries its own identity"""
        return np.arange(self.N * self.M, dtype=np.int64).reshape(self.N, self.M)

    def main_data(self):
        ids = self.main_ids()
        dt = DTYPES[self.dtype]
        if self.dtype == 'cmp':
            a = np.zeros(ids.shape, dtype=dt)
            a['re'] = ids
            a['im'] = -ids
            return a
        if self.dtype == 'c16':
            return ids.astype(np.float64) + 1j * (ids.astype(np.float64) + 0.5)
        return ids.astype(dt)


def ids_of(arr, dtype):
    """recover element identities from data of the given generator dtype"""
    a = np.asarray(arr)
    if dtype == 'cmp':
        return np.asarray(a['re']).astype(np.int64)
    if dtype == 'c16':
        return np.real(a).astype(np.int64)
    return a.astype(np.int64)


def write_anc(grp, name, data, labels, units, dtype):
    d = grp.create_dataset(name, data=data.astype(dtype))
    d.attrs['labels'] = np.array(labels, dtype='S')
    d.attrs['units'] = np.array(units, dtype='S')
    return d


def write_layout(h5, lay, group='Measurement_000/Channel_000', main_name='Raw_Data', chunks=None, compression=None,
                 val_dtype=np.float32, val_transform=None, fillvalue=None):
    """val_dtype / val_transform: ancillary Values stored in another element type, mapped through a function first"""
    vt = val_transform or (lambda a: a)
    grp = h5.require_group(group)
    pi = write_anc(grp, 'Position_Indices', lay.pos_inds(), lay.pos_labels, lay.pos_units, np.uint32)
    pv = write_anc(grp, 'Position_Values', vt(lay.pos_vals().astype(np.float64)), lay.pos_labels, lay.pos_units, val_dtype)
    si = write_anc(grp, 'Spectroscopic_Indices', lay.spec_inds(), lay.spec_labels, lay.spec_units, np.uint32)
    sv = write_anc(grp, 'Spectroscopic_Values', vt(lay.spec_vals().astype(np.float64)), lay.spec_labels, lay.spec_units, val_dtype)
    kw = {}
    if chunks:
        kw['chunks'] = chunks
    if compression:
        kw['compression'] = compression
    if fillvalue is not None:
        kw['fillvalue'] = fillvalue
    main = grp.create_dataset(main_name, data=lay.main_data(), **kw)
    main.attrs['quantity'] = 'Current'
    main.attrs['units'] = 'nA'
    for nm, ds in (('Position_Indices', pi), ('Position_Values', pv), ('Spectroscopic_Indices', si),
                   ('Spectroscopic_Values', sv)):
        main.attrs[nm] = ds.ref
    return main


def all_orders(k):
    return list(itertools.permutations(range(k)))


def random_layout(rng, max_dims=3, max_size=4, max_elems=2000, dtypes=('f8',), min_side=1):
    while True:
        kp = rng.randint(1, max_dims)
        ks = rng.randint(1, max_dims)
        ps = [rng.randint(1, max_size) for _ in range(kp)]
        ss = [rng.randint(1, max_size) for _ in range(ks)]
        if int(np.prod(ps)) * int(np.prod(ss)) > max_elems:
            continue
        if int(np.prod(ps)) < min_side or int(np.prod(ss)) < min_side:
            continue
        po = list(range(kp))
        so = list(range(ks))
        rng.shuffle(po)
        rng.shuffle(so)
        return Layout(ps, po, ss, so, dtype=rng.choice(list(dtypes)), vkind=rng.randint(0, 3))


def heuristic_safe(lay):
    """the tall-matrix orientation guesses of pyUSID are harmless: strictly fewer dimensions than points per side"""
    return len(lay.pos_sizes) < lay.N and len(lay.spec_sizes) < lay.M


class Bystander:
    """Another Main dataset in ANOTHER file (same internal paths), kept open for a whole run.  Objects are made for it and used
    between the construction and the use of the object under test: state shared between dataset objects, or caches keyed by
    HDF5 path / request only, then show up as wrong answers of the object under test."""
    _inst = {}

    @classmethod
    def get(cls, tmpdir):
        import os
        if tmpdir not in cls._inst or not cls._inst[tmpdir].f:
            cls._inst[tmpdir] = cls(os.path.join(tmpdir, 'bystander.h5'))
        return cls._inst[tmpdir]

    def __init__(self, path):
        self.f = h5py.File(path, 'w')
        self.main = write_layout(self.f, Layout([3, 2], [1, 0], [2, 3], [0, 1], dtype='f8'))
        self.n = 0
        self.keep = None

    def touch(self):
        import pyUSID as usid
        u = usid.USIDataset(self.main, sort_dims=bool(self.n % 2))
        self.n += 1
        u.get_n_dim_form()
        u.slice({u.pos_dim_labels[0]: [0, 1], u.spec_dim_labels[-1]: 0}, ndim_form=False)
        u.get_pos_values(u.pos_dim_labels[0])
        u.get_spec_values(u.spec_dim_labels[0])
        if self.n % 3 == 0:
            u.toggle_sorting()
            u.get_n_dim_form()
        self.keep = u

    def lazy_form(self):
        """lazy N-D form of the bystander (same internal path, other file): evaluated TOGETHER with the form under test"""
        import pyUSID as usid
        return usid.USIDataset(self.main).get_n_dim_form(lazy=True)
