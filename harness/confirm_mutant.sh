#!/bin/bash
# usage: confirm_mutant.sh <mutant dir with patch.diff demo.py meta.json> <seeded id, e.g. C14-A>
# Re-verifies an agent-produced change in a fresh scratch worktree and, if confirmed, stores it under /verif/seeded/<id>/
src="$1"; id="$2"
wt=/tmp/cw_$id
git -C /repo worktree add --detach "$wt" HEAD -q || exit 2
cleanup() { git -C /repo worktree remove --force "$wt"; }
trap cleanup EXIT
ok=1
(cd /tmp && PYTHONPATH=$wt timeout 600 /venv/bin/python "$src/demo.py" >/tmp/cw_$id.demo0 2>&1); r0=$?
git -C "$wt" apply "$src/patch.diff" || { echo "patch does not apply"; exit 2; }
(cd /tmp && PYTHONPATH=$wt timeout 600 /venv/bin/python "$src/demo.py" >/tmp/cw_$id.demo1 2>&1); r1=$?
(cd "$wt" && timeout 1200 /venv/bin/python -m pytest -q -p no:cacheprovider --timeout=900 2>&1 | grep -E "^FAILED|passed|failed" | sed 's/ - .*//' | sed 's/ in [0-9.]*s.*//' | sed 's/, [0-9]* warnings//' > /tmp/cw_$id.tests)
sed 's/ in [0-9.]*s.*//; s/, [0-9]* warnings//' /tmp/baseline_failures.txt > /tmp/cw_$id.base
if diff -q /tmp/cw_$id.base /tmp/cw_$id.tests >/dev/null; then ts=same; else ts=DIFFERENT; ok=0; fi
[ $r0 -eq 0 ] || ok=0
[ $r1 -ne 0 ] || ok=0
echo "$id: demo on HEAD exit=$r0, demo with patch exit=$r1, test-suite vs baseline: $ts -> confirmed=$ok"
if [ $ok -eq 1 ]; then
  mkdir -p /verif/seeded/$id
  cp "$src/patch.diff" "$src/demo.py" /verif/seeded/$id/
  /venv/bin/python - "$src/meta.json" "/verif/seeded/$id/meta.json" "$id" "$r0" "$r1" <<'PY' 2>/dev/null
import json,sys
m=json.load(open(sys.argv[1]))
m['seeded_id']=sys.argv[3]
m['confirmed_by_builder']={'scratch_worktree':'/tmp/cw_'+sys.argv[3]+' (removed)','demo_exit_on_HEAD':int(sys.argv[4]),'demo_exit_with_patch':int(sys.argv[5]),
  'test_suite':'identical to baseline (11 failed, 348 passed, same ids)','cmd':'harness/confirm_mutant.sh'}
json.dump(m,open(sys.argv[2],'w'),indent=1)
PY
fi
rm -f /tmp/cw_$id.*
