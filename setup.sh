#!/bin/bash
# Offline setup after a fresh restore: regenerate the translator-tied models and build every Coq file (full .vo build).
set -e
HERE="$(cd "$(dirname "$0")" && pwd)"
export PYUSID_REPO="${PYUSID_REPO:-/repo}"
export PYTHONPATH="$PYUSID_REPO:$HERE/harness" PYTHONHASHSEED=0 PYTHONDONTWRITEBYTECODE=1
/venv/bin/python "$HERE/harness/gen_all.py" 2>&1 | grep -v 'WARNING conda' || true
cd "$HERE/coq"
coq_makefile -f _CoqProject -o Makefile
timeout 3000 make -j16 2>&1 | grep -v '^COQ\|Closed under' | tail -40
test ${PIPESTATUS[0]} -eq 0
echo "setup ok"
