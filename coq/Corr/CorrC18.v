From Coq Require Import List Bool Arith Ascii.
From Coq Require String.
Notation string := String.string.
Require Import V.Base.CorrAux V.H5.Naming V.H5.IsMain V.H5.EmptyDset.
Import ListNotations.

(* observed: exception code (0 none, 1 TypeError, 2 ValueError, 3 KeyError, 4 NotImplementedError, 5 other), member names of the
   destination group afterwards, and on success: name, (shape, dtype, chunks, compression, content), attributes, is-USIDataset *)
Definition okobs18 := (string * (list nat * nat * list nat * nat * nat) * list (string * aval) * bool)%type.
Definition case18 := (group * req * (nat * list string * option okobs18))%type.

Definition err_code (e : eerr) : nat := match e with ETypeE => 1 | EValueE => 2 | EKeyE => 3 | ENotImplE => 4 end.
Definition smem (n : str) (l : list str) : bool := existsb (str_eqb n) l.
Definition same_set (a b : list str) : bool :=
  Nat.eqb (length a) (length b) && forallb (fun n => smem n b) a && forallb (fun n => smem n a) b.

Definition aval_eqb (a b : aval) : bool :=
  match a, b with
  | ASimple s v, ASimple s' v' => Bool.eqb s s' && Nat.eqb v v'
  | ARef t, ARef t' => Nat.eqb t t'
  | ALocal n, ALocal n' => str_eqb n n'
  | ARegion, ARegion => true
  | _, _ => false
  end.
Definition attrs_match (model : attrs) (obs : list (string * aval)) : bool :=
  Nat.eqb (length model) (length obs)
  && forallb (fun kv => match aget (s_of (fst kv)) model with Some v => aval_eqb v (snd kv) | None => false end) obs.

Definition check18 (c : case18) : bool :=
  let '(g, r, (code, names, ok)) := c in
  match create_empty g r with
  | (EOk (nm, d, usid), g') =>
      Nat.eqb code 0 && same_set (map fst g') (map s_of names)
      && match ok with
         | Some (n, (sh, dt, ch, co, ct), oat, u) =>
             str_eqb nm (s_of n) && nat_list_eqb sh (o_shape d) && Nat.eqb dt (o_dtype d) && nat_list_eqb ch (o_chunks d)
             && Nat.eqb co (o_compr d) && Nat.eqb ct (o_content d) && attrs_match (o_attrs d) oat && Bool.eqb usid u
         | None => false
         end
  | (EErr e, g') => Nat.eqb code (err_code e) && same_set (map fst g') (map s_of names)
  end.
