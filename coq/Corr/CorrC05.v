From Coq Require Import List Bool Arith ZArith QArith.
From Coq Require String.
Require Import V.Base.CorrAux V.H5.Naming V.H5.Attrs V.Proc.Reuse.
Import ListNotations.
Notation string := String.string.

(* (N, groups in key order, dataset, tool, parameters, override, obs duplicates, obs partials, decision code, returned/resumed name) *)
Definition case05 := (nat * list rgroup * string * string * list (nat * pyval) * bool * list string * list string * nat * string)%type.
Definition names_eqb (a : list str) (b : list string) : bool := list_eqb str_eqb a (map s_of b).
Definition check05 (c : case05) : bool :=
  let '(N, groups, dset, tool, parms, override, odup, opar, code, oname) := c in
  let m := matching_groups groups (s_of dset) (s_of tool) parms in
  names_eqb (map g_name (duplicates N m)) odup && names_eqb (map g_name (partials N m)) opar &&
  match decide N groups (s_of dset) (s_of tool) parms override with
  | Return n => Nat.eqb code 0 && str_eqb n (s_of oname)
  | Resume n => Nat.eqb code 1 && str_eqb n (s_of oname)
  | Fresh => Nat.eqb code 2
  end.
