From Coq Require Import List Bool Arith ZArith.
Require Import V.Base.ListAux V.Base.CorrAux V.Base.NdArray V.Usid.AncBuild V.Usid.Translate V.Usid.TranslateNorm.
Import ListNotations.

Fixpoint all2n {A B} (f : A -> B -> bool) (l1 : list A) (l2 : list B) : bool :=
  match l1, l2 with
  | [], [] => true
  | x :: l, y :: m => f x y && all2n f l m
  | _, _ => false
  end.

Inductive case19 :=
| CImage (img : list (list nat)) (obs_rows : list nat) (obs_labels : list nat) (obs_inds obs_vals : list (list nat))
| CSidpy (shape : list nat) (data : list nat) (spatial : list bool)
         (obs_shape : nat * nat) (obs_data : list nat) (plabels : list nat) (pinds : list (list nat)) (slabels : list nat) (sinds : list (list nat))
| CGate (a : at_args) (obs_code : nat) (file_exists_after : bool)
(* normalize=True: the written column as exact binary fractions (numerator, denominator; denominator 0 = NaN) *)
| CImageNorm (img : list (list nat)) (obs : list (Z * Z)).

Definition terr_code (e : option terr) : nat := match e with None => 0 | Some TTypeE => 1 | Some TValueE => 2 | Some TKeyE => 3 end.

Definition check19 (c : case19) : bool :=
  match c with
  | CImage img rows labels inds vals =>
      let u := length img in let v := match img with [] => 0 | r :: _ => length r end in
      let '(wi, wv, wl) := image_pos u v in
      nat_list_eqb (image_rows 0 img) rows && nat_list_eqb wl labels && nat_list2_eqb wi inds && nat_list2_eqb wv vals
  | CSidpy shape data spatial oshape odata pl pinds sl sinds =>
      let a := mkNd shape data in
      let t := sidpy_flat 0 a spatial in
      let sp := map (fun ax => nth ax shape 1) (sp_axes spatial) in
      let sc := map (fun ax => nth ax shape 1) (sc_axes spatial) in
      let '(wpi, _, wpl) := sidpy_pos shape spatial in
      let '(wsi, _, wsl) := sidpy_spec shape spatial in
      Nat.eqb (fst oshape) (prod sp) && Nat.eqb (snd oshape) (prod sc) && nat_list_eqb (nd_data t) odata
      && nat_list_eqb wpl pl && nat_list2_eqb wpi pinds && nat_list_eqb wsl sl && nat_list2_eqb wsi sinds
  | CGate a code fe => Nat.eqb (terr_code (at_gate a)) code && Bool.eqb (at_file_written a) fe
  | CImageNorm img obs => all2n norm_close (image_rows_normalized img) obs
  end.
