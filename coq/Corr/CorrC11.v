From Coq Require Import List Bool Arith.
Require Import V.Base.CorrAux V.Usid.AncBuild V.Usid.SliceDset.
Import ListNotations.

(* observed side: None = the new dataset links to the source's own ancillary datasets; Some (labels as dimension numbers,
   indices, values as source indices) *)
Definition obs_side := option (list nat * list (list nat) * list (list nat))%type.
Definition case11 := (nat * sside * sside * (list (list nat) * obs_side * obs_side))%type.

Definition side_eqb (m : newside) (o : obs_side) : bool :=
  match m, o with
  | Reused, None => true
  | Written wl wi wv, Some (l, i, v) => nat_list_eqb wl l && nat_list2_eqb wi i && nat_list2_eqb wv v
  | _, _ => false
  end.

Definition check11 (c : case11) : bool :=
  let '(M, p, s, (data, op, os)) := c in
  nat_list2_eqb (new_data M p s) data && side_eqb (new_side p false) op && side_eqb (new_side s true) os.
