From Coq Require Import List Bool Arith ZArith.
Require Import V.Base.CorrAux V.Base.Matrix V.Base.NdArray V.Usid.ToND V.Usid.Reduce V.Usid.ReduceVals.
Import ListNotations.

(* observed: in memory Some (shape, flat data) or None when the call raised; on file Some (rows, cols, flat data, sides) or None *)
Definition oside := option (list nat * list (list nat)).
Definition case12 := (list (list Z) * list (list nat) * list (list nat) * (list nat * list nat * list nat * list nat) * list nat * nat
                      * (option (list nat * list Z) * option (nat * nat * list Z * oside * oside)))%type.

Definition fn_of (n : nat) : redfn := match n with 0 => RSum | 1 => RMax | _ => RMin end.
Definition side_ok (m : redside) (o : oside) : bool :=
  match m, o with
  | RReused, None => true
  | RWritten l i, Some (l', i') => nat_list_eqb l l' && nat_list2_eqb i i'
  | _, _ => false
  end.

Definition check12 (c : case12) : bool :=
  let '(main, pos, spec, (szp, sop, szs, sos), dims, fn, (omem, ofile)) := c in
  let f := fn_of fn in
  let kp := ncols pos in
  let pred := filter (fun dm => Nat.ltb dm kp) dims in
  let sred := map (fun dm => dm - kp) (filter (fun dm => negb (Nat.ltb dm kp)) dims) in
  (match reduce_mem main pos spec dims f, omem with
   | Ok red, Some (sh, data) => nat_list_eqb (nd_shape red) sh && Z_list_eqb (nd_data red) data
   | Err _, None => true
   | _, _ => false
   end)
  && (match reduce_file main pos spec dims f, ofile with
      | Ok (r, cl, data, ps, ss), Some (r', cl', data', ps', ss') =>
          Nat.eqb r r' && Nat.eqb cl cl' && Z_list_eqb data data' && side_ok ps ps' && side_ok ss ss'
      | Err _, None => true
      | _, _ => false
      end)
  (* the digit-level description of the kept rows / columns (the one the theorems are about) agrees with the matrix-level one *)
  && nat_list_eqb (reduced_cols (transpose2d 0 pos) pred) (reduced_cols_digits szp sop pred)
  && nat_list_eqb (reduced_cols spec sred) (reduced_cols_digits szs sos sred).

(* the VALUES matrix of a rebuilt side: (source indices, source values x 4, reduced dimensions, observed new values x 4), all
   spectroscopic-shaped (one row per dimension) *)
Definition case12v := (list (list nat) * list (list Z) * list nat * list (list Z))%type.
Definition check12v (c : case12v) : bool :=
  let '(inds, vals, red, obs) := c in Z_list2_eqb (write_reduced_vals inds vals red) obs.

(* mean / std: observed floating-point numbers as exact binary fractions (numerator, denominator); compared with the exact
   rational mean / variance of the model's moments inside the tolerance of ReduceMoments.mean_close / std_close.
   (main, pos, spec, dims, kind 0 = mean 1 = std, written back?, (in memory (shape, flat), on file (rows, cols, flat))) *)
Require Import V.Usid.ReduceMoments.
Fixpoint all2 {A B} (f : A -> B -> bool) (l1 : list A) (l2 : list B) : bool :=
  match l1, l2 with
  | [], [] => true
  | x :: l, y :: m => f x y && all2 f l m
  | _, _ => false
  end.
Definition case12m := (list (list Z) * list (list nat) * list (list nat) * list nat * nat * bool
                       * (option (list nat * list (Z * Z)) * option (nat * nat * list (Z * Z))))%type.
Definition check12m (c : case12m) : bool :=
  let '(main, pos, spec, dims, kind, tofile, (omem, ofile)) := c in
  let close := match kind with 0 => mean_close | _ => std_close end in
  (match reduce_mem_moments main pos spec dims, omem with
   | Ok red, Some (sh, obs) => nat_list_eqb (nd_shape red) sh && all2 close (nd_data red) obs
   | Err _, None => true
   | _, _ => false
   end)
  && (if tofile then
        match reduce_file_moments main pos spec dims, ofile with
        | Ok (r, cl, data, _, _), Some (r', cl', obs) => Nat.eqb r r' && Nat.eqb cl cl' && all2 close data obs
        | Err _, None => true
        | _, _ => false
        end
      else true).
