From Coq Require Import List Bool Arith.
Require Import V.Base.CorrAux V.H5.IsMain.
Import ListNotations.
(* descriptor as emitted by the harness: (is_dset, shape, quantity, units, [4 ancillaries as (link, shape, labels, units)]) ; observed 0/1/2(raised) *)
Definition ancd := (nat * list nat * attrd * attrd)%type.
Definition mk (a : ancd) : anc := let '(l, s, lb, un) := a in mkAnc l s lb un.
Definition case06 := ((bool * list nat * nat * nat * list ancd) * nat)%type.
Definition dflt : ancd := (0, [], (0, []), (0, [])).
Definition check06 (c : case06) : bool :=
  let '((isd, sh, q, u, ancs), obs) := c in
  let d := mkDesc isd sh q u (mk (nth 0 ancs dflt)) (mk (nth 1 ancs dflt)) (mk (nth 2 ancs dflt)) (mk (nth 3 ancs dflt)) in
  Nat.eqb obs (if check_if_main d then 1 else 0).
