From Coq Require Import List Bool Arith ZArith.
Require Import V.Base.CorrAux V.Base.ListAux V.Base.Matrix V.Base.NdArray V.Usid.SortOrder V.Usid.ToND V.Usid.Slice V.Corr.CorrGrid.
Import ListNotations.

(* 2-D path: (N, M, pos (N x kp), spec (ks x M), pos sizes, spec sizes, pos sels, spec sels, lazy, obs code, obs rows, obs data) *)
Definition case07a := (nat * nat * list (list nat) * list (list nat) * list nat * list nat * list sel * list sel * bool * nat * nat * list nat)%type.
Definition check07a (c : case07a) : bool :=
  let '(N, M, pos, spec, psz, ssz, ps, ss, lazy, ocode, orows, odata) := c in
  match slice2d 0 (mk_main N M) pos (transpose2d 0 spec) psz ssz ps ss lazy with
  | Err e => Nat.eqb ocode (exn_code e)
  | Ok m => Nat.eqb ocode 0 && Nat.eqb (length m) orows && nat_list_eqb (concat m) odata
  end.

(* N-D path: (N, M, pos, spec, view sorted?, selections in the order of the view's labels, obs code, obs shape, obs data) *)
Definition case07b := (nat * nat * list (list nat) * list (list nat) * bool * list sel * nat * list nat * list nat)%type.
Definition check07b (c : case07b) : bool :=
  let '(N, M, pos, spec, sorted, sels, ocode, oshape, odata) := c in
  match view_init 0 (mk_main N M) pos spec sorted with
  | Err _ => false
  | Ok v =>
    match slice_nd 0 (view_form v) sels with
    | Err e => Nat.eqb ocode (exn_code e)
    | Ok a => Nat.eqb ocode 0 && nat_list_eqb (nd_shape a) oshape && nat_list_eqb (nd_data a) odata
    end
  end.
