From Coq Require Import List Bool Arith.
Require Import V.Base.CorrAux V.Usid.Csv.
Import ListNotations.
(* (k, m, spec descs, pos descs, spec value ids, pos value ids, main ids, dash id, observed table of cell-id words) *)
Definition case17 := (nat * nat * list nat * list nat * list (list nat) * list (list nat) * list (list nat) * nat * list (list (list nat)))%type.
Definition check17 (c : case17) : bool :=
  let '(k, m, sd, pd, sv, pv, main, dash, obs) := c in
  list_eqb (list_eqb nat_list_eqb) (csv_table k m sd pd sv pv main dash) obs.
(* (too_large, force, exists, observed: 0 written, 1 skipped (None returned, nothing written), 2 refused (FileExistsError)) *)
Definition check17d (c : bool * bool * bool * nat) : bool :=
  let '(tl, force, ex, obs) := c in
  Nat.eqb obs (match to_csv_decision tl force ex with Written => 0 | SkippedTooLarge => 1 | RefusedExists => 2 end).
