(** Correspondence checker for C15. *)
From Coq Require Import ZArith QArith List Bool.
Require Import V.Base.CorrAux V.Gen.Gen_Budget.
Import ListNotations.

(* observed outcome: 0 = ok(value(s)), 1 = TypeError, 2 = ValueError, 3 = ZeroDivisionError *)
Definition exn_code (e : exn) : Z := match e with TypeError => 1 | ValueError => 2 | ZeroDivisionError => 3 end%Z.

(* _set_memory_and_cores: (ncpu, avail, itemsize, ncols, cores_none, cores_is_int, cores,
                           mult_is_float, mult, limit_none, limit_is_int, limit_mb, obs_code, obs_cores, obs_pos) *)
Definition case15m := (Z * Z * Z * Z * bool * bool * Z * bool * Q * bool * bool * Z * Z * Z * Z)%type.

Definition check15m (c : case15m) : bool :=
  let '(ncpu, avail, itemsize, ncols, cn, ci, cores, mf, mult, ln, li, lmb, ocode, ocores, opos) := c in
  match set_cores ncpu cn ci cores with
  | Err e => (ocode =? exn_code e)%Z
  | Ok (nc, _, nr) =>
      match set_memory avail nc nr itemsize ncols mf mult ln li lmb with
      | Err e => (ocode =? exn_code e)%Z
      | Ok pos => (ocode =? 0)%Z && (ocores =? nc)%Z && (opos =? pos)%Z
      end
  end.

(* recommend_cpu_cores: (ncpu, num_jobs, jobs_is_int, req_none, req_is_int, req, minfree_none, minfree, lengthy, obs_code, obs) *)
Definition case15r := (Z * Z * bool * bool * bool * Z * bool * Z * bool * Z * Z)%type.
Definition check15r (c : case15r) : bool :=
  let '(ncpu, jobs, ji, rn, ri, req, mn, mfree, lengthy, ocode, obs) := c in
  match recommend_cpu_cores ncpu jobs ji rn ri req mn mfree lengthy with
  | Err e => (ocode =? exn_code e)%Z
  | Ok v => (ocode =? 0)%Z && (obs =? v)%Z
  end.
