(** Correspondence checker for C03: one case = one compute() run of the real Process. *)
From Coq Require Import ZArith List Bool Arith.
Require Import V.Base.CorrAux V.Base.ListAux V.Proc.Jobs V.Proc.Compute.
Import ListNotations.

(* (status before, old results as option ids, maxpos, obs batches, obs call log (sorted within batch), obs status after,
    obs results as option ids) ; result id of position p is p (the harness checks the numeric value f(row p) itself) *)
Definition case03 := (list nat * list (option nat) * Z * list (list nat) * list nat * list nat * list (option nat))%type.

Definition check03 (c : case03) : bool :=
  let '(status, old, maxpos, obs_b, obs_log, obs_status, obs_res) := c in
  match compute (fun p => p) status old maxpos with
  | Some st => nat_list2_eqb (st_batches st) obs_b && nat_list_eqb (st_log st) obs_log &&
               nat_list_eqb (st_status st) obs_status && list_eqb (option_eqb Nat.eqb) (st_results st) obs_res
  | None => false
  end.
