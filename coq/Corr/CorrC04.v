From Coq Require Import List Bool Arith ZArith.
Require Import V.Base.CorrAux V.Base.ListAux V.Proc.Jobs V.Proc.Compute V.Proc.Crash.
Import ListNotations.

Definition store_eqb (a b : @store nat) : bool :=
  nat_list_eqb (s_status a) (s_status b) && list_eqb (option_eqb Nat.eqb) (s_results a) (s_results b).

(* all states a crash can leave behind: every prefix of the event list, gracefully closed or killed *)
Definition crash_states (s0 : @store nat) (maxpos : Z) : list (@store nat) :=
  match rank_batches (pending (s_status s0)) 1 0 maxpos with
  | Some bs =>
      let evs := trace bs in
      flat_map (fun i => let st := exec (fun p => p) (firstn i evs) (mkF s0 s0) in [vol st; dur st]) (seq 0 (S (length evs)))
  | None => [s0]
  end.

(* (status at the start of the attempt, results ids at the start, batch limit, surviving status, surviving results ids) *)
Definition case04 := (list nat * list (option nat) * Z * list nat * list (option nat))%type.
Definition check04 (c : case04) : bool :=
  let '(st0, res0, maxpos, st1, res1) := c in
  existsb (store_eqb (mkS st1 res1)) (crash_states (mkS st0 res0) maxpos).
