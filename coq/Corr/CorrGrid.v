(** Correspondence checkers for C01 / C09 / C10 (shared). *)
From Coq Require Import List Bool Arith ZArith.
Require Import V.Base.CorrAux V.Base.ListAux V.Base.Matrix V.Base.NdArray V.Usid.SortOrder V.Usid.ToND V.Usid.FromND.
Import ListNotations.

Definition exn_code (e : exn) : nat :=
  match e with ValueE => 1 | TypeE => 2 | KeyE => 3 | IndexE => 4 | NotImplE => 5 | OtherE => 6 end.

(* numpy's argsort does not specify the order of equal keys (the vectorised sort it uses for 64-bit keys on x86 is not
   stable). Equal change counts occur only among dimensions of size 1 (C09 theorem so_filter), so two orders / label lists are
   accepted as equal when they agree everywhere except at positions whose size is 1, and are permutations of each other.
   Shapes and data are always compared exactly: moving size-1 axes among themselves changes neither. *)
Definition eq_mod_unit_ties (sizes l1 l2 : list nat) : bool :=
  Nat.eqb (length l1) (length l2)
  && forallb (fun i => Nat.eqb (nth i l1 0) (nth i l2 0) || Nat.eqb (nth i sizes 0) 1) (seq 0 (length l1))
  && forallb (fun x => existsb (Nat.eqb x) l2) l1 && forallb (fun x => existsb (Nat.eqb x) l1) l2.

(* get_sort_order / get_dimensionality on a raw matrix: (matrix, obs order, obs sizes (in that order)) *)
Definition case09s := (list (list nat) * list nat * list nat)%type.
Definition check09s (c : case09s) : bool :=
  let '(m, oo, od) := c in
  let md := get_dimensionality m (get_sort_order m) in
  eq_mod_unit_ties md (get_sort_order m) oo && nat_list_eqb md od.

(* reshape_to_n_dims: (N, M, pos, spec, sort_dims, obs code, obs shape, obs ids, obs labels) ; main[r][c] = r*M + c *)
Definition mk_main (N M : nat) : list (list nat) := map (fun r => map (fun c => r * M + c) (seq 0 M)) (seq 0 N).
Definition case01 := (nat * nat * list (list nat) * list (list nat) * bool * nat * list nat * list nat * list nat)%type.
Definition check01 (c : case01) : bool :=
  let '(N, M, pos, spec, sd, ocode, oshape, odata, olabs) := c in
  match to_nd 0 (mk_main N M) pos spec sd with
  | Err e => Nat.eqb ocode (exn_code e)
  | Ok (a, labs) => Nat.eqb ocode 0 && nat_list_eqb (nd_shape a) oshape && nat_list_eqb (nd_data a) odata && eq_mod_unit_ties (nd_shape a) labs olabs
  end.

(* USIDataset views: (N, M, pos, spec, sort_dims at construction, number of toggles, obs labels, obs sizes, obs shape, obs ids) *)
Definition case01v := (nat * nat * list (list nat) * list (list nat) * bool * nat * list nat * list nat * list nat * list nat)%type.
Definition check01v (c : case01v) : bool :=
  let '(N, M, pos, spec, sd, toggles, olabs, osizes, oshape, odata) := c in
  match view_init 0 (mk_main N M) pos spec sd with
  | Err _ => false
  | Ok v0 =>
    let v := Nat.iter toggles view_toggle v0 in
    eq_mod_unit_ties (view_sizes v) (view_labels v) olabs && nat_list_eqb (view_sizes v) osizes &&
    nat_list_eqb (nd_shape (view_form v)) oshape && nat_list_eqb (nd_data (view_form v)) odata
  end.

(* reshape_from_n_dims: (shape, data ids, pos option, spec option, obs code, obs rows, obs cols, obs data) *)
Definition case10 := (list nat * list nat * option (list (list nat)) * option (list (list nat)) * nat * nat * nat * list nat)%type.
Definition check10 (c : case10) : bool :=
  let '(shape, data, pos, spec, ocode, orows, ocols, odata) := c in
  match from_nd 0 (mkNd shape data) pos spec with
  | Err e => Nat.eqb ocode (exn_code e)
  | Ok (r, cc, dat) => Nat.eqb ocode 0 && Nat.eqb r orows && Nat.eqb cc ocols && nat_list_eqb dat odata
  end.

(* the dataset object has no N-D form (get_n_dim_form raises): the model must fail too *)
Definition case01e := (nat * nat * list (list nat) * list (list nat) * bool)%type.
Definition check01e (c : case01e) : bool :=
  let '(N, M, pos, spec, sd) := c in
  match view_init 0 (mk_main N M) pos spec sd with Err _ => true | Ok _ => false end.

(* get_unit_values: (inds, vals (scaled Z), is_spec option, number of names, obs code, obs unit values per dimension) *)
Require Import V.Usid.UnitValues.
Definition case09u := (list (list nat) * list (list Z) * option bool * nat * nat * list (list Z))%type.
Definition check09u (c : case09u) : bool :=
  let '(inds, vals, isp, nn, ocode, ovals) := c in
  match get_unit_values 0%Z inds vals isp nn with
  | Err e => Nat.eqb ocode (exn_code e)
  | Ok uv => Nat.eqb ocode 0 && Z_list2_eqb uv ovals
  end.

(* create_spec_inds_from_vals: (values (scaled Z), observed indices) *)
Definition case09c := (list (list Z) * list (list nat))%type.
Definition check09c (c : case09c) : bool := nat_list2_eqb (spec_inds_from_vals (fst c)) (snd c).
