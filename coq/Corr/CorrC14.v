(** Correspondence checker for C14: one case = one simulated rank of a run. *)
From Coq Require Import ZArith List Bool Arith.
Require Import V.Base.CorrAux V.Base.ListAux V.Proc.Jobs V.Proc.Compute V.Proc.Sockets.
Import ListNotations.

(* (status before, R, r, maxpos, observed batches, observed status after) *)
Definition case14 := (list nat * nat * nat * Z * list (list nat) * list nat)%type.

Definition check14 (c : case14) : bool :=
  let '(status, R, r, maxpos, obs_batches, obs_after) := c in
  match rank_batches (pending status) R r maxpos with
  | Some bs => nat_list2_eqb bs obs_batches && nat_list_eqb (mark status (concat bs)) obs_after
  | None => false
  end.

(* (processor-name ids per rank, observed master ranks) *)
Definition check14s (c : list nat * list nat) : bool :=
  nat_list_eqb (group_ranks_by_socket (fst c)) (snd c).
