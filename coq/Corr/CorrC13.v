From Coq Require Import List Bool Arith Ascii.
From Coq Require String.
Notation string := String.string.
Require Import V.Base.CorrAux V.H5.Naming.
Import ListNotations.

(* one operation of a history and what the implementation did *)
Inductive op13 :=
| OIdx (base : string) (obs : option string)                 (* create_indexed_group -> new name / raised *)
| ORes (dset tool : string) (obs : option string)            (* create_results_group *)
| ODel (name : string)
| OFind (dset tool : string) (obs : list string)             (* find_results_groups: names in h5py (sorted) order *)
| OSrc (grp : string) (obs : option string).                 (* get_source_dataset -> dataset name / raised *)

Definition ostr_eqb (a : option str) (b : option string) : bool :=
  match a, b with
  | None, None => true
  | Some x, Some y => str_eqb x (s_of y)
  | _, _ => false
  end.

Fixpoint insert_sorted (n : str) (l : list str) : list str :=
  match l with
  | [] => [n]
  | m :: r => if String.leb (String.string_of_list_ascii n) (String.string_of_list_ascii m) then n :: l else m :: insert_sorted n r
  end.
Definition sort_names (l : list str) : list str := fold_right insert_sorted [] l.

Fixpoint run13 (d : dir) (ops : list op13) : bool :=
  match ops with
  | [] => true
  | o :: r =>
    match o with
    | OIdx base obs =>
        match create_indexed_group d (s_of base) with
        | NOk (d', n) => ostr_eqb (Some n) obs && run13 d' r
        | NErr _ => ostr_eqb None obs && run13 d r
        end
    | ORes dset tool obs =>
        match create_results_group d (s_of dset) (s_of tool) with
        | NOk (d', n) => ostr_eqb (Some n) obs && run13 d' r
        | NErr _ => ostr_eqb None obs && run13 d r
        end
    | ODel n => run13 (delete d (s_of n)) r
    | OFind dset tool obs =>
        list_eqb str_eqb (sort_names (find_results_groups d (s_of dset) (s_of tool))) (map s_of obs) && run13 d r
    | OSrc g obs =>
        match get_source_dataset d (s_of g) with
        | NOk a => ostr_eqb (Some a) obs && run13 d r
        | NErr _ => ostr_eqb None obs && run13 d r
        end
    end
  end.

(* (initial members as (name, is_group), operations) *)
Definition case13 := (list (string * bool) * list op13)%type.
Definition check13 (c : case13) : bool :=
  run13 (map (fun e : string * bool => (s_of (fst e), if snd e then KGroup else KDset)) (fst c)) (snd c).
