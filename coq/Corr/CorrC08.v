From Coq Require Import List Bool Arith ZArith.
Require Import V.Base.CorrAux V.Base.ListAux V.Base.Matrix V.Usid.AncBuild.
Import ListNotations.

(* values are scaled integers (Z) *)
(* build_ind_val_matrices: (unit values per dim, is_spectral, observed indices, observed values) *)
Definition case08b := (list (list Z) * bool * list (list nat) * list (list Z))%type.
Definition check08b (c : case08b) : bool :=
  let '(vals, sp, oi, ov) := c in
  let '(i, v) := build_ind_val 0%Z vals sp in nat_list2_eqb i oi && Z_list2_eqb v ov.

(* write_ind_val_dsets: (dims as (label id, values), is_spectral, slow_to_fast, obs indices, obs values, obs labels, obs units) *)
Definition case08w := (list (nat * list Z) * bool * bool * list (list nat) * list (list Z) * list nat * list nat)%type.
Definition check08w (c : case08w) : bool :=
  let '(dims, sp, s2f, oi, ov, ol, ou) := c in
  let '(i, v, l) := write_ind_val 0%Z dims sp s2f in
  nat_list2_eqb i oi && Z_list2_eqb v ov && nat_list_eqb l ol && nat_list_eqb l ou.

(* make_indices_matrix: (num_steps, is_position, observed or None when it raised) *)
Definition case08m := (list nat * bool * option (list (list nat)))%type.
Definition check08m (c : case08m) : bool :=
  let '(ns, ip, o) := c in option_eqb nat_list2_eqb (make_indices_matrix ns ip) o.
