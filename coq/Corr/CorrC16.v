From Coq Require Import List Bool Arith ZArith QArith.
Require Import V.Base.CorrAux V.H5.Attrs.
Import ListNotations.
(* (written dictionary, query, observed: 0 = False, 1 = True, 2 = raised) *)
Definition case16 := (list (nat * pyval) * list (nat * pyval) * nat)%type.
Definition check16 (c : case16) : bool :=
  let '(d, q, obs) := c in
  Nat.eqb obs (if check_for_matching_attrs (write_attrs [] d) q then 1 else 0).
