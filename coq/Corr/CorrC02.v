From Coq Require Import List Bool Arith Ascii.
From Coq Require String.
Notation string := String.string.
Require Import V.Base.CorrAux V.H5.Naming V.H5.IsMain V.H5.WriteMain.
Import ListNotations.

(* observed: exception code (0 none, 1 TypeError, 2 ValueError, 3 KeyError, 4 NotImplementedError, 5 IndexError, 6 other),
   member names of the target group afterwards, and on success the read-back of the new main dataset:
   shape, and per link (shape, labels, units, contents, Some name when the target is a member of the target group) *)
Definition linkobs := (list nat * attrd * attrd * list (list nat) * option string)%type.
Definition okobs := (list nat * list linkobs)%type.
Definition case02 := (grp * args * (nat * list string * option okobs))%type.

Definition err_code (e : werr) : nat :=
  match e with WTypeE => 1 | WValueE => 2 | WKeyE => 3 | WNotImplE => 4 | WIndexE => 5 | WOtherE => 6 end.

Definition smem (n : str) (l : list str) : bool := existsb (str_eqb n) l.
Definition same_set (a b : list str) : bool :=
  Nat.eqb (length a) (length b) && forallb (fun n => smem n b) a && forallb (fun n => smem n a) b.

Definition attrd_eqb (a b : attrd) : bool := Nat.eqb (fst a) (fst b) && nat_list_eqb (snd a) (snd b).

Definition link_ok (l : loc * adset) (o : linkobs) : bool :=
  let '(sh, lab, un, mat, nm) := o in
  nat_list_eqb sh (ad_shape (snd l)) && attrd_eqb lab (ad_labels (snd l)) && attrd_eqb un (ad_units (snd l))
  && nat_list2_eqb mat (ad_mat (snd l))
  && match fst l, nm with
     | Local n, Some n' => str_eqb n (s_of n')
     | Ext _, None => true
     | _, _ => false
     end.

Definition check02 (c : case02) : bool :=
  let '(g, a, (code, names, ok)) := c in
  match write_main g a with
  | (WOk m, g') =>
      Nat.eqb code 0 && same_set (map fst g') (map s_of names)
      && match ok with
         | Some (sh, links) => nat_list_eqb sh (m_shape m) && Nat.eqb (length links) 4
                               && forallb (fun lo => link_ok (fst lo) (snd lo)) (combine (m_links m) links) && Nat.eqb (length (m_links m)) 4
         | None => false
         end
  | (WErr e, g') => Nat.eqb code (err_code e) && same_set (map fst g') (map s_of names)
  end.

(* the unrepaired writer, for the regression witness *)
Definition check02_unrepaired (c : case02) : bool :=
  let '(g, a, (code, names, ok)) := c in
  match write_main_unrepaired g a with
  | (WOk m, g') => Nat.eqb code 0
  | (WErr e, g') => Nat.eqb code (err_code e) && same_set (map fst g') (map s_of names)
  end.
