(** anc_build_utils.build_ind_val_matrices / make_indices_matrix and
    hdf_utils.write_ind_val_dsets: ancillary matrices as Cartesian products. *)
From Coq Require Import List Arith Lia Bool.
Require Import V.Base.ListAux V.Base.Radix V.Base.Matrix.
Import ListNotations.

(** tile_size = [prod(lengths[x:]) for x in range(1, k)] + [1] ; rep_size = [1] + [prod(lengths[:x]) for x in range(1, k)] *)
Definition tile_sizes (lengths : list nat) : list nat :=
  map (fun x => prod (skipn x lengths)) (seq 1 (length lengths - 1)) ++ [1].
Definition rep_sizes (lengths : list nat) : list nat :=
  1 :: map (fun x => prod (firstn x lengths)) (seq 1 (length lengths - 1)).

(** zip(range(k), tile_size, rep_size, unit_values): row d = tile(repeat(vec_d, rs_d), ts_d) *)
Fixpoint build_rows {V} (vecs : list (list V)) (ts rs : list nat) : list (list V) :=
  match vecs, ts, rs with
  | v :: vecs', t :: ts', r :: rs' => tile (repeat_each v r) t :: build_rows vecs' ts' rs'
  | _, _, _ => []
  end.

(** spectroscopic-shaped (one row per dimension) indices and values; first dimension varies fastest *)
Definition build_ind (lengths : list nat) : list (list nat) :=
  build_rows (map (fun len => seq 0 len) lengths) (tile_sizes lengths) (rep_sizes lengths).
Definition build_val {V} (vals : list (list V)) : list (list V) :=
  let lengths := map (@length V) vals in build_rows vals (tile_sizes lengths) (rep_sizes lengths).

(** build_ind_val_matrices(unit_values, is_spectral) : position matrices are the transposes *)
Definition build_ind_val {V} (dv : V) (vals : list (list V)) (is_spectral : bool) : list (list nat) * list (list V) :=
  let i := build_ind (map (@length V) vals) in
  let v := build_val vals in
  if is_spectral then (i, v) else (transpose2d 0 i, transpose2d dv v).

(** write_ind_val_dsets (DimType.DEFAULT): reversal so that the file lists dimensions slowest first *)
Definition write_ind_val {L V} (dv : V) (dims : list (L * list V)) (is_spectral slow_to_fast : bool)
  : list (list nat) * list (list V) * list L :=
  let dims1 := if slow_to_fast then rev dims else dims in            (* fast -> slow *)
  let '(i, v) := build_ind_val dv (map snd dims1) is_spectral in
  let dims2 := rev dims1 in                                          (* slow -> fast, as stored *)
  if is_spectral then (rev i, rev v, map fst dims2)                  (* np.flipud *)
  else (map (@rev nat) i, map (@rev V) v, map fst dims2).            (* np.fliplr *)

(** make_indices_matrix(num_steps, is_position): size-1 dimensions are rejected unless the list is [1] *)
Definition make_indices_row (num_steps : list nat) (indx : nat) : list nat :=
  let part1 := prod (firstn (S indx) num_steps) in
  let part2 := if Nat.eqb indx 0 then 1 else prod (firstn indx num_steps) in
  let part3 := if Nat.eqb (S indx) (length num_steps) then 1 else prod (skipn (S indx) num_steps) in
  tile (map (fun a => a / part2) (seq 0 part1)) part3.

Definition make_indices_matrix (num_steps : list nat) (is_position : bool) : option (list (list nat)) :=
  match num_steps with
  | [] => None
  | [1] => Some (if is_position then [[0]] else [[0]])
  | _ =>
    if forallb (fun s => Nat.leb 2 s) num_steps then
      let rows := map (make_indices_row num_steps) (seq 0 (length num_steps)) in
      Some (if is_position then transpose2d 0 rows else rows)
    else None
  end.

(** * Facts *)

Lemma prod_split (l : list nat) d : d < length l ->
  prod l = prod (firstn d l) * nth d l 1 * prod (skipn (S d) l).
Proof.
  revert d; induction l as [|x l IH]; intros d Hd; simpl in *; [lia|].
  destruct d as [|d]; simpl; [lia|]. rewrite (IH d) by lia. lia.
Qed.

Lemma nth_tile_sizes lengths d : d < length lengths -> nth d (tile_sizes lengths) 0 = prod (skipn (S d) lengths).
Proof.
  intros Hd. unfold tile_sizes.
  destruct (Nat.eq_dec d (length lengths - 1)) as [E|E].
  - rewrite app_nth2 by (rewrite map_length, seq_length; lia).
    rewrite map_length, seq_length. subst d. rewrite Nat.sub_diag.
    replace (S (length lengths - 1)) with (length lengths) by lia. rewrite skipn_all. reflexivity.
  - rewrite app_nth1 by (rewrite map_length, seq_length; lia).
    rewrite (nth_indep _ 0 (prod (skipn 0 lengths))) by (rewrite map_length, seq_length; lia).
    rewrite (map_nth (fun x => prod (skipn x lengths)) (seq 1 (length lengths - 1)) 0 d).
    rewrite seq_nth by lia. reflexivity.
Qed.

Lemma nth_rep_sizes lengths d : d < length lengths -> nth d (rep_sizes lengths) 0 = prod (firstn d lengths).
Proof.
  intros Hd. unfold rep_sizes. destruct d as [|d]; [reflexivity|]. cbn [nth].
  rewrite (nth_indep _ 0 (prod (firstn 0 lengths))) by (rewrite map_length, seq_length; lia).
  rewrite (map_nth (fun x => prod (firstn x lengths)) (seq 1 (length lengths - 1)) 0 d).
  rewrite seq_nth by lia. reflexivity.
Qed.

Lemma tile_sizes_length lengths : length (tile_sizes lengths) = S (length lengths - 1).
Proof. unfold tile_sizes. rewrite app_length, map_length, seq_length. simpl. lia. Qed.
Lemma rep_sizes_length lengths : length (rep_sizes lengths) = S (length lengths - 1).
Proof. unfold rep_sizes. simpl. now rewrite map_length, seq_length. Qed.

Lemma nth_build_rows {V} : forall (vecs : list (list V)) ts rs d,
  d < length vecs -> d < length ts -> d < length rs ->
  nth d (build_rows vecs ts rs) [] = tile (repeat_each (nth d vecs []) (nth d rs 0)) (nth d ts 0).
Proof.
  induction vecs as [|v vecs IH]; intros [|t ts] [|r rs] d H1 H2 H3; simpl in *; try lia.
  destruct d as [|d]; [reflexivity|]. apply IH; lia.
Qed.

Lemma build_rows_length {V} : forall (vecs : list (list V)) ts rs,
  length vecs <= length ts -> length vecs <= length rs -> length (build_rows vecs ts rs) = length vecs.
Proof.
  induction vecs as [|v vecs IH]; intros [|t ts] [|r rs] H1 H2; simpl in *; try lia. rewrite IH; lia.
Qed.

Lemma div_mod_radix n r len : 0 < r -> 0 < len -> (n mod (len * r)) / r = (n / r) mod len.
Proof.
  intros Hr Hl. rewrite (Nat.mul_comm len r). rewrite Nat.mod_mul_r by lia.
  rewrite Nat.mul_comm, Nat.div_add by lia. rewrite Nat.div_small by (apply Nat.mod_upper_bound; lia). reflexivity.
Qed.

(** the element at column [n] of row [d]: value of dimension d at digit d of n (first dimension fastest) *)
Lemma nth_build_val {V} (dv : V) (vals : list (list V)) d n :
  Forall (fun v => 0 < length v) vals -> d < length vals -> n < prod (map (@length V) vals) ->
  nth n (nth d (build_val vals) []) dv = nth (nth d (digits (map (@length V) vals) n) 0) (nth d vals []) dv
  /\ length (nth d (build_val vals) []) = prod (map (@length V) vals).
Proof.
  intros Hpos Hd Hn. unfold build_val. set (lengths := map (@length V) vals) in *.
  assert (Hk : length lengths = length vals) by (unfold lengths; apply map_length).
  assert (Hall : Forall (fun r => 0 < r) lengths).
  { unfold lengths. rewrite Forall_forall in *. intros x Hx. apply in_map_iff in Hx. destruct Hx as (v & <- & Hv). now apply Hpos. }
  rewrite nth_build_rows by (rewrite ?tile_sizes_length, ?rep_sizes_length; lia).
  rewrite nth_tile_sizes, nth_rep_sizes by lia.
  set (r := prod (firstn d lengths)). set (t := prod (skipn (S d) lengths)). set (v := nth d vals []).
  assert (Hlen : nth d lengths 1 = length v).
  { unfold lengths, v. rewrite (nth_indep _ 1 (length (@nil V))) by (rewrite map_length; lia). apply map_nth. }
  assert (Hr : 0 < r) by (apply prod_pos, Forall_forall; intros x Hx; rewrite Forall_forall in Hall; apply Hall; eapply In_firstn; exact Hx).
  assert (Hv : 0 < length v) by (rewrite Forall_forall in Hpos; apply Hpos, nth_In; exact Hd).
  pose proof (prod_split lengths d ltac:(lia)) as Hsplit. fold r t in Hsplit. rewrite Hlen in Hsplit.
  split.
  - rewrite nth_tile by (rewrite repeat_each_length; lia).
    rewrite repeat_each_length.
    rewrite nth_repeat_each; [|exact Hr| apply Nat.mod_upper_bound; lia].
    rewrite div_mod_radix by lia.
    rewrite nth_digits by (try exact Hall; lia). fold r. now rewrite Hlen.
  - rewrite tile_length, repeat_each_length. lia.
Qed.

Lemma build_ind_as_val lengths : build_ind lengths = build_val (map (fun len => seq 0 len) lengths).
Proof.
  unfold build_ind, build_val. rewrite map_map.
  replace (map (fun x => length (seq 0 x)) lengths) with lengths; [reflexivity|].
  induction lengths as [|x l IH]; simpl; [reflexivity|]. now rewrite seq_length, <- IH.
Qed.

Theorem build_ind_is_digits lengths d n :
  Forall (fun r => 0 < r) lengths -> d < length lengths -> n < prod lengths ->
  nth n (nth d (build_ind lengths) []) 0 = nth d (digits lengths n) 0
  /\ length (nth d (build_ind lengths) []) = prod lengths.
Proof.
  intros Hall Hd Hn. rewrite build_ind_as_val.
  set (vals := map (fun len => seq 0 len) lengths).
  assert (Hm : map (@length nat) vals = lengths).
  { unfold vals. rewrite map_map. clear. induction lengths as [|x l IH]; simpl; [reflexivity|]. now rewrite seq_length, IH. }
  destruct (nth_build_val 0 vals d n) as [H1 H2].
  - unfold vals. rewrite Forall_forall in *. intros v Hv. apply in_map_iff in Hv. destruct Hv as (x & <- & Hx).
    rewrite seq_length. now apply Hall.
  - unfold vals. now rewrite map_length.
  - now rewrite Hm.
  - rewrite Hm in *. split; [|exact H2]. rewrite H1.
    assert (Hdig : nth d (digits lengths n) 0 < nth d lengths 1).
    { rewrite nth_digits by assumption. apply Nat.mod_upper_bound.
      rewrite Forall_forall in Hall. specialize (Hall (nth d lengths 1) (nth_In _ _ Hd)). lia. }
    unfold vals. rewrite (nth_indep _ [] (seq 0 0)) by (rewrite map_length; exact Hd).
    rewrite (map_nth (fun len => seq 0 len) lengths 0 d).
    rewrite (nth_indep lengths 0 1) by exact Hd.
    rewrite seq_nth by exact Hdig. reflexivity.
Qed.

Lemma build_val_length {V} (vals : list (list V)) : 0 < length vals -> length (build_val vals) = length vals.
Proof.
  intros H. unfold build_val. apply build_rows_length.
  - rewrite tile_sizes_length, map_length. lia.
  - rewrite rep_sizes_length, map_length. lia.
Qed.

Lemma build_ind_length lengths : 0 < length lengths -> length (build_ind lengths) = length lengths.
Proof. intros H. rewrite build_ind_as_val, build_val_length; rewrite map_length; [reflexivity|exact H]. Qed.

(** ** written datasets (spectroscopic shape): row i describes the (k-1-i)-th fastest dimension, i.e. slowest first,
    and the label / unit attached at position i is that same dimension's *)
Theorem written_spectral_rows {L V} (dv : V) (dl : L) (dims : list (L * list V)) (s2f : bool) i n :
  let dims1 := if s2f then rev dims else dims in
  let lengths := map (fun d => length (snd d)) dims1 in
  let k := length dims in
  let '(wi, wv, wl) := write_ind_val dv dims true s2f in
  Forall (fun d => 0 < length (snd d)) dims -> i < k -> n < prod lengths ->
  nth i wl dl = fst (nth (k - S i) dims1 (dl, [])) /\
  nth n (nth i wi []) 0 = nth (k - S i) (digits lengths n) 0 /\
  nth n (nth i wv []) dv = nth (nth (k - S i) (digits lengths n) 0) (snd (nth (k - S i) dims1 (dl, []))) dv /\
  length wi = k /\ length (nth i wi []) = prod lengths.
Proof.
  cbv zeta. unfold write_ind_val, build_ind_val.
  set (dims1 := if s2f then rev dims else dims).
  assert (Hk1 : length dims1 = length dims) by (unfold dims1; destruct s2f; [apply rev_length|reflexivity]).
  intros Hpos Hi Hn.
  assert (Hpos1 : Forall (fun d => 0 < length (snd d)) dims1).
  { unfold dims1. destruct s2f; [|exact Hpos]. rewrite Forall_forall in *. intros x Hx. apply Hpos. now apply in_rev. }
  set (vals := map snd dims1).
  assert (Hlens : map (@length V) vals = map (fun d => length (snd d)) dims1) by (unfold vals; now rewrite map_map).
  assert (Hvk : length vals = length dims) by (unfold vals; now rewrite map_length).
  assert (Hvpos : Forall (fun v => 0 < length v) vals).
  { unfold vals. rewrite Forall_forall in *. intros v Hv. apply in_map_iff in Hv. destruct Hv as (x & <- & Hx). now apply Hpos1. }
  assert (Hlpos : Forall (fun r => 0 < r) (map (fun d => length (snd d)) dims1)).
  { rewrite Forall_forall in *. intros r Hr. apply in_map_iff in Hr. destruct Hr as (x & <- & Hx). now apply Hpos1. }
  rewrite Hlens.
  set (lengths := map (fun d => length (snd d)) dims1) in *.
  assert (Hlk : length lengths = length dims) by (unfold lengths; now rewrite map_length).
  split; [|split; [|split; [|split]]].
  - rewrite (nth_indep _ dl (fst (dl, @nil V))) by (rewrite map_length, rev_length; lia).
    rewrite (map_nth fst (rev dims1) (dl, []) i). rewrite rev_nth by lia. now rewrite Hk1.
  - rewrite rev_nth by (rewrite build_ind_length; lia). rewrite build_ind_length, Hlk by lia.
    apply (build_ind_is_digits lengths (length dims - S i) n); try assumption; lia.
  - rewrite rev_nth by (rewrite build_val_length; lia). rewrite build_val_length, Hvk by lia.
    destruct (nth_build_val dv vals (length dims - S i) n Hvpos ltac:(lia) ltac:(now rewrite Hlens)) as [H1 _].
    rewrite H1, Hlens. f_equal. unfold vals.
    rewrite (nth_indep _ [] (snd (dl, @nil V))) by (rewrite map_length; lia).
    apply (map_nth snd dims1 (dl, [])).
  - rewrite rev_length, build_ind_length; lia.
  - rewrite rev_nth by (rewrite build_ind_length; lia). rewrite build_ind_length, Hlk by lia.
    apply (build_ind_is_digits lengths (length dims - S i) n); try assumption; lia.
Qed.

(** position matrices are the transposes of the spectroscopic ones (builder) *)
Theorem build_position_is_transpose {V} (dv : V) (vals : list (list V)) d n :
  Forall (fun v => 0 < length v) vals -> d < length vals -> n < prod (map (@length V) vals) ->
  let '(pi, pv) := build_ind_val dv vals false in
  let '(si, sv) := build_ind_val dv vals true in
  nth d (nth n pi []) 0 = nth n (nth d si []) 0 /\ nth d (nth n pv []) dv = nth n (nth d sv []) dv.
Proof.
  intros Hpos Hd Hn. unfold build_ind_val.
  set (lengths := map (@length V) vals).
  assert (Hall : Forall (fun r => 0 < r) lengths).
  { unfold lengths. rewrite Forall_forall in *. intros x Hx. apply in_map_iff in Hx. destruct Hx as (v & <- & Hv). now apply Hpos. }
  assert (Hk : length lengths = length vals) by (unfold lengths; apply map_length).
  split; apply nth_transpose2d.
  - unfold ncols. destruct (build_ind lengths) as [|r0 rest] eqn:E.
    + pose proof (build_ind_length lengths ltac:(lia)) as Hl. rewrite E in Hl. simpl in Hl. lia.
    + destruct (build_ind_is_digits lengths 0 n Hall ltac:(lia) Hn) as [_ Hl]. rewrite E in Hl. simpl in Hl. simpl. unfold lengths in *. lia.
  - unfold ncols. destruct (build_val vals) as [|r0 rest] eqn:E.
    + pose proof (build_val_length vals ltac:(lia)) as Hl. rewrite E in Hl. simpl in Hl. lia.
    + destruct (nth_build_val dv vals 0 n Hpos ltac:(lia) Hn) as [_ Hl]. rewrite E in Hl. simpl in Hl. simpl. unfold lengths in *. lia.
Qed.
