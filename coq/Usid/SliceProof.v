From Coq Require Import List Arith Lia Bool ZArith Sorted.
Require Import V.Base.ListAux V.Base.CorrAux V.Base.Radix V.Base.Matrix V.Base.NdArray V.Usid.ToND V.Usid.Slice.
Import ListNotations.

(** rows of a rectangular matrix recovered from its flattening *)
Lemma rows_of_concat {A} (m : list (list A)) c : rect m c ->
  map (fun i => slice (concat m) (i * c) (S i * c)) (seq 0 (length m)) = m.
Proof.
  induction 1 as [|row m Hrow Hm IH]; [reflexivity|].
  cbn [length seq map concat]. f_equal.
  - unfold slice. simpl. rewrite Nat.add_0_r, Nat.sub_0_r. rewrite <- Hrow. now rewrite firstn_app, Nat.sub_diag, firstn_all, firstn_O, app_nil_r.
  - rewrite <- seq_shift, map_map. rewrite <- IH at 2. apply map_ext. intros i.
    unfold slice. replace (S (S i) * c - S i * c) with c by lia. replace (S i * c - i * c) with c by lia.
    f_equal. replace (S i * c) with (length row + i * c) by (rewrite Hrow; lia).
    rewrite skipn_add. f_equal. rewrite skipn_app, Nat.sub_diag, skipn_all. reflexivity.
Qed.
Lemma col_vector_transpose {A} (d : A) (m : list (list A)) : rect m 1 ->
  transpose2d d [concat m] = m \/ m = [].
Proof.
  intros Hr. destruct m as [|r0 m0]; [now right|left].
  unfold transpose2d, ncols, col.
  assert (Hl : length (concat (r0 :: m0)) = length (r0 :: m0)).
  { induction Hr as [|row m Hrow Hm IH]; [reflexivity|]. simpl in *. rewrite app_length, Hrow, IH. reflexivity. }
  rewrite Hl. clear Hl.
  induction Hr as [|row m Hrow Hm IH]; [reflexivity|].
  destruct row as [|x [|? ?]]; simpl in Hrow; try lia.
  cbn [length seq map concat app nth]. f_equal.
  rewrite <- seq_shift, map_map. rewrite <- IH at 2. apply map_ext. intros i. reflexivity.
Qed.
Theorem fixup_identity {A} (d : A) (m : list (list A)) c : rect m c -> 0 < length m -> 0 < c -> fixup d m = m.
Proof.
  intros Hr Hlen Hc. unfold fixup.
  assert (Hnc : ncols m = c).
  { destruct m as [|row0 m']; [simpl in Hlen; lia|]. simpl. now inversion Hr. }
  rewrite Hnc.
  destruct (Nat.eq_dec (length m) 1) as [Er|Er]; destruct (Nat.eq_dec c 1) as [Ec|Ec].
  - destruct m as [|row1 [|? ?]]; simpl in Er; try lia. inversion Hr as [|? ? Hrow _]. rewrite Ec in Hrow.
    destruct row1 as [|x1 [|? ?]]; simpl in Hrow; try lia. clear Hnc. subst c. reflexivity.
  - destruct m as [|row1 [|? ?]]; simpl in Er; try lia. inversion Hr as [|? ? Hrow _].
    cbn [length filter Nat.eqb negb]. destruct (Nat.eqb_spec c 1) as [E|_]; [contradiction|]. cbn [negb fst snd].
    rewrite (Nat.eqb_refl c). cbn [andb negb seq map concat]. rewrite app_nil_r.
    unfold slice. cbn [skipn Nat.mul Nat.add]. rewrite Nat.add_0_r, Nat.sub_0_r, <- Hrow. now rewrite firstn_all.
  - clear Hnc. subst c. cbn [filter Nat.eqb negb].
    destruct (Nat.eqb_spec (length m) 1) as [E|_]; [contradiction|]. cbn [negb fst snd Nat.eqb].
    destruct (Nat.eqb_spec 1 (length m)) as [E|_]; [lia|]. cbn [andb negb]. rewrite !Nat.eqb_refl. cbn [andb seq map].
    assert (Hflat : length (concat m) = length m).
    { clear - Hr. induction Hr as [|row m Hrow Hm IH]; [reflexivity|]. simpl. rewrite app_length, Hrow, IH. reflexivity. }
    assert (Hs : slice (concat m) (0 * length m) (1 * length m) = concat m) by (unfold slice; simpl; now rewrite Nat.add_0_r, Nat.sub_0_r, <- Hflat, firstn_all).
    rewrite Hs.
    assert (Hn1 : (length m =? 1) = false) by (apply Nat.eqb_neq; exact Er). rewrite Hn1, andb_false_r. cbn [negb andb].
    destruct (col_vector_transpose d m Hr) as [H|H]; [exact H| subst; simpl in Hlen; lia].
  - cbn [filter].
    destruct (Nat.eqb_spec (length m) 1) as [E|_]; [contradiction|]. destruct (Nat.eqb_spec c 1) as [E|_]; [contradiction|].
    cbn [negb fst snd]. rewrite !Nat.eqb_refl. cbn [andb negb]. apply rows_of_concat. exact Hr.
Qed.

Lemma take_rect {A} (d : A) (m : list (list A)) rows cols : rect (take_cols d (take_rows m rows) cols) (length cols).
Proof.
  unfold take_cols, take_rows, rect. apply Forall_forall. intros row Hrow. apply in_map_iff in Hrow.
  destruct Hrow as (x & <- & _). now rewrite map_length.
Qed.

(** eager and lazy 2-D results agree, and both are main[rows][:, cols] *)
Theorem slice2d_lazy_eq_eager {A} (d : A) main pos spec_t psz ssz ps ss m :
  slice2d d main pos spec_t psz ssz ps ss true = Ok m -> m <> [] -> 0 < ncols m ->
  slice2d d main pos spec_t psz ssz ps ss false = Ok m.
Proof.
  unfold slice2d. destruct (resolve_all psz ps) as [pc|e]; [|discriminate]. destruct (resolve_all ssz ss) as [sc|e]; [|discriminate].
  intros [= <-] Hne Hc. f_equal.
  set (rows := select pos pc) in *. set (cols := select spec_t sc) in *.
  apply (fixup_identity d _ (length cols)); [apply take_rect| destruct (take_cols d (take_rows main rows) cols); [contradiction|simpl; lia]|].
  destruct (take_cols d (take_rows main rows) cols) as [|row rest] eqn:E; [contradiction|].
  pose proof (take_rect d main rows cols) as Hr. rewrite E in Hr. inversion Hr; subst. simpl in Hc. lia.
Qed.

(** which rows are selected: exactly those whose index along every dimension is among the chosen ones, in increasing order *)
Theorem select_spec vectors chosen r :
  In r (select vectors chosen) <->
  r < length vectors /\ forall d, d < length chosen -> In (nth d (nth r vectors []) 0) (nth d chosen []).
Proof.
  unfold select. rewrite filter_In, in_seq, forallb_forall. split.
  - intros [[_ Hr] H]. split; [exact Hr|]. intros d Hd. apply existsb_eqb_in. apply H. apply in_seq. lia.
  - intros [Hr H]. split; [lia|]. intros d Hd. apply in_seq in Hd. apply existsb_eqb_in. apply H. lia.
Qed.

Lemma filter_seq_sorted f n : StronglySorted lt (filter f (seq 0 n)).
Proof.
  assert (H : forall a, StronglySorted lt (seq a n)).
  { induction n as [|n IH]; intros a; simpl; [constructor|]. constructor; [apply IH|].
    apply Forall_forall. intros x Hx. apply in_seq in Hx. lia. }
  generalize (seq 0 n) (H 0). intros l Hl. induction Hl as [|x l Hs IH Hall]; simpl; [constructor|].
  destruct (f x); [|exact IH]. constructor; [exact IH|]. rewrite Forall_forall in *. intros y Hy. apply filter_In in Hy. apply Hall, Hy.
Qed.

Theorem select_increasing vectors chosen : StronglySorted lt (select vectors chosen).
Proof. unfold select. apply filter_seq_sorted. Qed.

(** element (i, j) of the 2-D result is main[rows[i]][cols[j]] *)
Theorem slice2d_elements {A} (d : A) main pos spec_t psz ssz ps ss m :
  slice2d d main pos spec_t psz ssz ps ss true = Ok m ->
  exists pc sc, resolve_all psz ps = Ok pc /\ resolve_all ssz ss = Ok sc /\
    let rows := select pos pc in let cols := select spec_t sc in
    length m = length rows /\
    forall i j, i < length rows -> j < length cols ->
      nth j (nth i m []) d = nth (nth j cols 0) (nth (nth i rows 0) main []) d.
Proof.
  unfold slice2d. destruct (resolve_all psz ps) as [pc|e]; [|discriminate]. destruct (resolve_all ssz ss) as [sc|e]; [|discriminate].
  intros [= <-]. exists pc, sc. split; [reflexivity|]. split; [reflexivity|]. cbv zeta.
  unfold take_cols, take_rows. rewrite !map_length. split; [reflexivity|].
  intros i j Hi Hj.
  rewrite (nth_map' _ _ i [] []) by (rewrite map_length; exact Hi).
  rewrite (nth_map' _ _ j 0 d) by exact Hj.
  now rewrite (nth_map' _ _ i 0 []) by exact Hi.
Qed.

(** requests that must be refused on the 2-D path *)
Theorem resolve2d_rejects size s :
  (match s with
   | SInt i => (i < 0 \/ Z.of_nat size <= i)%Z
   | SList l => l = [] \/ Exists (fun i => (i < 0 \/ Z.of_nat size <= i)%Z) l
   | SSlice idxs => idxs = []
   | SAbsent => False
   end) -> exists e, resolve2d size s = Err e.
Proof.
  destruct s as [|i|idxs|l]; simpl; intros H.
  - contradiction.
  - destruct (Z.ltb_spec i 0); [eauto|]. destruct (Z.leb_spec (Z.of_nat size) i); [eauto|]. lia.
  - subst. eauto.
  - destruct l as [|x l]; [eauto|]. destruct H as [H|H]; [discriminate|].
    destruct (existsb (fun i => (i <? 0)%Z) (x :: l)) eqn:E1; [eauto|].
    destruct (existsb (fun i => (Z.of_nat size <=? i)%Z) (x :: l)) eqn:E2; [eauto|].
    exfalso. apply Exists_exists in H. destruct H as (i & Hin & Hi).
    destruct Hi as [Hi|Hi].
    + assert (existsb (fun i => (i <? 0)%Z) (x :: l) = true) by (apply existsb_exists; exists i; split; [exact Hin| now apply Z.ltb_lt]). congruence.
    + assert (existsb (fun i => (Z.of_nat size <=? i)%Z) (x :: l) = true) by (apply existsb_exists; exists i; split; [exact Hin| now apply Z.leb_le]). congruence.
Qed.
