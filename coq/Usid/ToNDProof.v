(** Correctness of reshape_to_n_dims (model: Usid/ToND.v) relative to the sort
    order it computes: if the ancillary matrices are consistent with that order,
    every element lands at the coordinates its row / column carries. *)
From Coq Require Import List Arith Lia Bool.
Require Import V.Base.ListAux V.Base.Radix V.Base.Matrix V.Base.NdArray V.Usid.SortOrder V.Usid.ToND.
Import ListNotations.

(** [is_perm_of l k]: l is a permutation of 0 .. k-1 *)
Definition perm_of (l : list nat) (k : nat) : Prop := NoDup l /\ length l = k /\ forall x, In x l -> x < k.

Lemma perm_of_in l k x : perm_of l k -> x < k -> In x l.
Proof.
  intros (Hnd & Hlen & Hlt) Hx.
  destruct (in_dec Nat.eq_dec x l) as [H|H]; [exact H|exfalso].
  (* pigeonhole: l is a NoDup list of length k inside seq 0 k minus x *)
  assert (Hincl : incl l (remove Nat.eq_dec x (seq 0 k))).
  { intros y Hy. apply in_in_remove; [intro E; subst; contradiction| apply in_seq; specialize (Hlt y Hy); lia]. }
  pose proof (NoDup_incl_length Hnd Hincl) as Hle.
  assert (length (remove Nat.eq_dec x (seq 0 k)) < length (seq 0 k)) as Hrm.
  { apply remove_length_lt. apply in_seq. lia. }
  rewrite seq_length in Hrm. lia.
Qed.

Lemma perm_of_rev l k : perm_of l k -> perm_of (rev l) k.
Proof.
  intros (Hnd & Hlen & Hlt). split; [apply NoDup_rev; exact Hnd|]. split; [now rewrite rev_length|].
  intros x Hx. apply Hlt. now apply in_rev.
Qed.

(** pointwise view of [inbounds] *)
Lemma inbounds_pointwise idx shape :
  inbounds idx shape <-> length idx = length shape /\ forall k, k < length shape -> nth k idx 0 < nth k shape 1.
Proof.
  revert shape; induction idx as [|i idx IH]; intros [|s ss]; simpl; split; try tauto; try (intros [H _]; discriminate).
  - intros _. split; [reflexivity| intros k Hk; lia].
  - intros [Hi H]. apply IH in H. destruct H as [Hl Hp]. split; [now rewrite Hl|].
    intros [|k] Hk; [exact Hi| apply Hp; lia].
  - intros [Hl Hp]. split; [apply (Hp 0); lia|]. apply IH. split; [lia|]. intros k Hk. apply (Hp (S k)). lia.
Qed.

Lemma inb_pointwise ds rs :
  inb ds rs <-> length ds = length rs /\ forall k, k < length rs -> nth k ds 0 < nth k rs 1.
Proof.
  revert rs; induction ds as [|i ds IH]; intros [|s ss]; simpl; split; try tauto; try (intros [H _]; discriminate).
  - intros _. split; [reflexivity| intros k Hk; lia].
  - intros [Hi H]. apply IH in H. destruct H as [Hl Hp]. split; [now rewrite Hl|].
    intros [|k] Hk; [exact Hi| apply Hp; lia].
  - intros [Hl Hp]. split; [apply (Hp 0); lia|]. apply IH. split; [lia|]. intros k Hk. apply (Hp (S k)). lia.
Qed.

(** the inverse of a permutation given as a list *)
Definition inv_perm (L : list nat) : list nat := map (fun lab => index_of lab L) (seq 0 (length L)).

Lemma inv_perm_length L : length (inv_perm L) = length L.
Proof. unfold inv_perm. now rewrite map_length, seq_length. Qed.

Lemma nth_inv_perm L i : i < length L -> nth i (inv_perm L) 0 = index_of i L.
Proof. intros H. unfold inv_perm. now rewrite nth_map_seq. Qed.

Lemma inv_perm_perm L k : perm_of L k -> perm_of (inv_perm L) k.
Proof.
  intros HL. pose proof HL as (Hnd & Hlen & Hlt). split; [|split].
  - unfold inv_perm. apply NoDup_nth with (d := 0). rewrite map_length, seq_length.
    intros i j Hi Hj E. rewrite !nth_map_seq in E by assumption.
    destruct (nth_index_of i L (perm_of_in L k i HL ltac:(lia))) as [Ei _].
    destruct (nth_index_of j L (perm_of_in L k j HL ltac:(lia))) as [Ej _].
    rewrite <- Ei, <- Ej. now rewrite E.
  - now rewrite inv_perm_length.
  - intros x Hx. unfold inv_perm in Hx. apply in_map_iff in Hx. destruct Hx as (lab & <- & Hlab).
    apply in_seq in Hlab. destruct (nth_index_of lab L (perm_of_in L k lab HL ltac:(lia))) as [_ H]. lia.
Qed.

Lemma index_of_inv_perm L k ax : perm_of L k -> ax < k -> index_of ax (inv_perm L) = nth ax L 0.
Proof.
  intros HL Hax. pose proof HL as (Hnd & Hlen & Hlt).
  pose proof (inv_perm_perm L k HL) as (Hnd' & Hlen' & _).
  assert (Hi : nth ax L 0 < k) by (apply Hlt, nth_In; lia).
  rewrite <- (index_of_nth (inv_perm L) Hnd' (nth ax L 0)) by lia.
  f_equal. rewrite nth_inv_perm by lia. symmetry. apply index_of_nth; [exact Hnd|lia].
Qed.

(** scatter along the inverse permutation = gather along the permutation *)
Lemma scatter_inv_perm L k j : perm_of L k ->
  scatter (inv_perm L) j = map (fun ax => nth (nth ax L 0) j 0) (seq 0 k).
Proof.
  intros HL. unfold scatter. rewrite inv_perm_length. destruct HL as (Hnd & Hlen & Hlt). rewrite Hlen.
  apply map_ext_in. intros ax Hax. apply in_seq in Hax.
  rewrite (index_of_inv_perm L k ax) by (try split; auto; lia). reflexivity.
Qed.

Lemma map_nth_index_self l (dg : list nat) : NoDup l -> length dg = length l ->
  map (fun t => nth (index_of t l) dg 0) l = dg.
Proof.
  intros Hnd Hlen. apply nth_ext with (d := 0) (d' := 0); [now rewrite map_length|].
  intros i Hi. rewrite map_length in Hi.
  rewrite (nth_indep _ 0 (nth (index_of 0 l) dg 0)) by (rewrite map_length; exact Hi).
  rewrite (map_nth (fun t => nth (index_of t l) dg 0) l 0 i). now rewrite index_of_nth.
Qed.

Lemma nth_concat_rect {A} (d : A) (m : list (list A)) c : rect m c -> forall r j, r < length m -> j < c ->
  nth (r * c + j) (concat m) d = nth j (nth r m []) d.
Proof.
  induction 1 as [|row m Hrow Hm IH]; intros r j Hr Hj; simpl in *; [lia|].
  destruct r as [|r].
  - simpl. rewrite app_nth1 by lia. reflexivity.
  - rewrite app_nth2 by lia. rewrite Hrow. replace (S r * c + j - c) with (r * c + j) by lia. apply IH; lia.
Qed.

Definition pos_row (pos : list (list nat)) (kp r : nat) : list nat := map (fun d => nth d (nth r pos []) 0) (seq 0 kp).
Definition spec_col (spec : list (list nat)) (ks c : nat) : list nat := map (fun e => nth c (nth e spec []) 0) (seq 0 ks).

Section ToNd.
  Context {A : Type} (d : A).
  Variables (main : list (list A)) (pos spec : list (list nat)).
  Let N := length main.
  Let M := ncols main.
  Let kp := ncols pos.
  Let ks := length spec.
  Let so_p := get_sort_order (transpose2d 0 pos).
  Let so_s := get_sort_order spec.
  Let dims_p := get_dimensionality (transpose2d 0 pos) so_p.
  Let dims_s := get_dimensionality spec so_s.

  Hypothesis Hmain : rect main M.
  Hypothesis Hperm_p : perm_of so_p kp.
  Hypothesis Hperm_s : perm_of so_s ks.
  Hypothesis Hprod_p : prod dims_p = N.
  Hypothesis Hprod_s : prod dims_s = M.
  Hypothesis Hdp : Forall (fun r => 0 < r) dims_p.
  Hypothesis Hds : Forall (fun r => 0 < r) dims_s.
  (** the matrices are consistent with the computed order: digit [index_of d so] of the row number *)
  Hypothesis Hpos : forall r dd, r < N -> dd < kp -> nth dd (nth r pos []) 0 = nth (index_of dd so_p) (digits dims_p r) 0.
  Hypothesis Hspec : forall c e, c < M -> e < ks -> nth c (nth e spec []) 0 = nth (index_of e so_s) (digits dims_s c) 0.

  Let L := rev so_p ++ map (fun e => kp + e) (rev so_s).
  Let K := kp + ks.

  Lemma dims_p_len : length dims_p = kp.
  Proof. unfold dims_p, get_dimensionality. rewrite map_length. apply Hperm_p. Qed.
  Lemma dims_s_len : length dims_s = ks.
  Proof. unfold dims_s, get_dimensionality. rewrite map_length. apply Hperm_s. Qed.

  Lemma L_perm : perm_of L K.
  Proof.
    destruct (perm_of_rev _ _ Hperm_p) as (Hn1 & Hl1 & Hb1). destruct (perm_of_rev _ _ Hperm_s) as (Hn2 & Hl2 & Hb2).
    unfold L, K. split; [|split].
    - apply NoDup_app_intro.
      + exact Hn1.
      + apply NoDup_map_inj; [intros x y E; lia| exact Hn2].
      + intros x H1 H2. apply in_map_iff in H2. destruct H2 as (e & <- & He). specialize (Hb1 _ H1). lia.
    - rewrite app_length, map_length. lia.
    - intros x Hx. apply in_app_or in Hx. destruct Hx as [Hx|Hx]; [specialize (Hb1 _ Hx); lia|].
      apply in_map_iff in Hx. destruct Hx as (e & <- & He). specialize (Hb2 _ He). lia.
  Qed.

  Lemma gather_L r c : r < N -> c < M ->
    map (fun ax => nth (nth ax L 0) (pos_row pos kp r ++ spec_col spec ks c) 0) (seq 0 K)
    = rev (digits dims_p r) ++ rev (digits dims_s c).
  Proof.
    intros Hr Hc. unfold K. rewrite seq_app, map_app. simpl.
    destruct Hperm_p as (Hn1 & Hl1 & Hb1). destruct Hperm_s as (Hn2 & Hl2 & Hb2).
    assert (Hlr : length (pos_row pos kp r) = kp) by (unfold pos_row; now rewrite map_length, seq_length).
    f_equal.
    - rewrite <- (map_nth_index_self so_p (digits dims_p r) Hn1) by (rewrite digits_length, dims_p_len; lia).
      rewrite <- map_rev.
      apply nth_ext with (d := 0) (d' := 0); [rewrite !map_length, seq_length, rev_length; lia|].
      intros i Hi. rewrite map_length, seq_length in Hi.
      rewrite nth_map_seq by exact Hi.
      rewrite (nth_map' (fun t => nth (index_of t so_p) (digits dims_p r) 0) (rev so_p) i 0 0) by (rewrite rev_length; lia).
      assert (E1 : nth i L 0 = nth i (rev so_p) 0) by (unfold L; apply app_nth1; rewrite rev_length; lia).
      rewrite E1.
      assert (Hx : nth i (rev so_p) 0 < kp) by (apply Hb1, in_rev, nth_In; rewrite rev_length; lia).
      rewrite (app_nth1 (pos_row pos kp r)) by lia. unfold pos_row. rewrite nth_map_seq by exact Hx. apply Hpos; assumption.
    - rewrite <- (map_nth_index_self so_s (digits dims_s c) Hn2) by (rewrite digits_length, dims_s_len; lia).
      rewrite <- map_rev.
      apply nth_ext with (d := 0) (d' := 0); [rewrite !map_length, seq_length, rev_length; lia|].
      intros i Hi. rewrite map_length, seq_length in Hi.
      rewrite (nth_map' (fun ax => nth (nth ax L 0) (pos_row pos kp r ++ spec_col spec ks c) 0) (seq kp ks) i 0 0)
        by (rewrite seq_length; exact Hi).
      rewrite seq_nth by exact Hi.
      rewrite (nth_map' (fun t => nth (index_of t so_s) (digits dims_s c) 0) (rev so_s) i 0 0) by (rewrite rev_length; lia).
      assert (E1 : nth (kp + i) L 0 = kp + nth i (rev so_s) 0).
      { unfold L. rewrite app_nth2 by (rewrite rev_length; lia). rewrite rev_length, Hl1.
        replace (kp + i - kp) with i by lia.
        apply (nth_map' (fun e => kp + e) (rev so_s) i 0 0). rewrite rev_length; lia. }
      rewrite E1.
      assert (Hx : nth i (rev so_s) 0 < ks) by (apply Hb2, in_rev, nth_In; rewrite rev_length; lia).
      rewrite (app_nth2 (pos_row pos kp r)) by lia. rewrite Hlr. replace (kp + nth i (rev so_s) 0 - kp) with (nth i (rev so_s) 0) by lia.
      unfold spec_col. rewrite nth_map_seq by exact Hx. apply Hspec; assumption.
  Qed.

  (** the array right after the reshape: slowest-first on each side *)
  Let a0 := mkNd (rev dims_p ++ rev dims_s) (concat main).

  Lemma a0_get r c : r < N -> c < M ->
    nd_get d a0 (rev (digits dims_p r) ++ rev (digits dims_s c)) = nth c (nth r main []) d.
  Proof.
    intros Hr Hc. unfold nd_get, a0. cbn [nd_shape nd_data].
    rewrite ravel_app by (rewrite !rev_length, digits_length; reflexivity).
    rewrite !ravel_rev by (apply digits_length).
    rewrite prod_rev, Hprod_s.
    rewrite !undigits_digits by (try assumption; lia).
    apply nth_concat_rect; assumption.
  Qed.

  Lemma a0_inbounds r c : inbounds (rev (digits dims_p r) ++ rev (digits dims_s c)) (rev dims_p ++ rev dims_s).
  Proof. apply inbounds_app; apply inbounds_rev, digits_inb; assumption. Qed.

  Theorem to_nd_coordinates :
    exists a, to_nd d main pos spec false = Ok (a, seq 0 K) /\
      (forall r c, r < N -> c < M ->
         nd_get d a (pos_row pos kp r ++ spec_col spec ks c) = nth c (nth r main []) d) /\
      length (nd_shape a) = K /\
      (forall r c, r < N -> c < M -> inbounds (pos_row pos kp r ++ spec_col spec ks c) (nd_shape a)).
  Proof.
    pose proof L_perm as HL. pose proof HL as (HLn & HLl & HLb).
    unfold to_nd. fold kp ks so_p so_s dims_p dims_s N M.
    rewrite Hprod_p, Hprod_s, !Nat.eqb_refl. cbn [negb].
    fold L. fold K.
    assert (Hall : forallb (fun lab => existsb (Nat.eqb lab) L) (seq 0 K) = true).
    { apply forallb_forall. intros lab Hlab. apply in_seq in Hlab. apply existsb_eqb_in. apply (perm_of_in L K); [exact HL|lia]. }
    rewrite Hall. cbn [negb].
    replace (map (fun lab => index_of lab L) (seq 0 K)) with (inv_perm L) by (unfold inv_perm; now rewrite HLl).
    fold a0.
    assert (Hlabels : map (fun ax => nth ax L 0) (inv_perm L) = seq 0 K).
    { unfold inv_perm. rewrite map_map, HLl. rewrite <- (map_id (seq 0 K)) at 2. apply map_ext_in.
      intros lab Hlab. apply in_seq in Hlab. apply nth_index_of. apply (perm_of_in L K); [exact HL|lia]. }
    rewrite Hlabels. eexists. split; [reflexivity|].
    assert (Hinb : forall r c, r < N -> c < M ->
              inbounds (pos_row pos kp r ++ spec_col spec ks c) (map (fun ax => nth ax (nd_shape a0) 1) (inv_perm L))).
    { intros r c Hr Hc. apply inbounds_pointwise.
      assert (Hlj : length (pos_row pos kp r ++ spec_col spec ks c) = K).
      { unfold pos_row, spec_col. rewrite app_length, !map_length, !seq_length. reflexivity. }
      split; [rewrite map_length, inv_perm_length; lia|].
      rewrite map_length, inv_perm_length, HLl. intros k Hk.
      rewrite (nth_map' (fun ax => nth ax (nd_shape a0) 1) (inv_perm L) k 0 1) by (rewrite inv_perm_length; lia).
      rewrite nth_inv_perm by lia.
      pose proof (a0_inbounds r c) as Hb. apply inbounds_pointwise in Hb. destruct Hb as [_ Hb].
      destruct (nth_index_of k L (perm_of_in L K k HL Hk)) as [Ek Hik].
      specialize (Hb (index_of k L)). unfold a0 in *. cbn [nd_shape] in *.
      rewrite app_length, !rev_length, dims_p_len, dims_s_len in Hb. specialize (Hb ltac:(lia)).
      rewrite <- (gather_L r c Hr Hc) in Hb.
      rewrite nth_map_seq in Hb by lia. rewrite Ek in Hb. exact Hb. }
    split; [|split].
    - intros r c Hr Hc. rewrite nd_transpose_get by (apply Hinb; assumption).
      rewrite (scatter_inv_perm L K) by exact HL. rewrite gather_L by assumption. apply a0_get; assumption.
    - cbn [nd_transpose nd_shape]. now rewrite map_length, inv_perm_length.
    - intros r c Hr Hc. cbn [nd_transpose nd_shape]. apply Hinb; assumption.
  Qed.
End ToNd.
