(** hdf_utils.reshape_from_n_dims as written. *)
From Coq Require Import List Arith Lia Bool.
Require Import V.Base.ListAux V.Base.CorrAux V.Base.Radix V.Base.Matrix V.Base.NdArray V.Usid.SortOrder V.Usid.AncBuild V.Usid.ToND.
Import ListNotations.

Definition msize {A} (m : list (list A)) : nat := length m * ncols m.

(** result: the 2-D matrix as (rows, cols, flat data) *)
Definition from_nd {A} (d : A) (a : nd A) (pos : option (list (list nat))) (spec : option (list (list nat)))
  : res (nat * nat * list A) :=
  let shape := nd_shape a in
  let ndim := length shape in
  match pos, spec with
  | None, None => Err ValueE
  | _, _ =>
    if Nat.ltb ndim 2 then Ok (0, 0, nd_data a)     (* returned unchanged: flagged by rows = cols = 0 *)
    else
      (* missing side: built slow -> fast from the N-D shape *)
      let built :=
        match pos, spec with
        | Some p, None =>
            let pos_dims := get_dimensionality p (seq 0 (length (orient p))) in
            if negb (list_eqb Nat.eqb (firstn (length pos_dims) shape) pos_dims) then Err ValueE
            else match make_indices_matrix (skipn (length pos_dims) shape) false with
                 | Some s => Ok (p, s)
                 | None => Err ValueE
                 end
        | None, Some s =>
            let spec_dims := get_dimensionality s (seq 0 (length (orient s))) in
            if negb (list_eqb Nat.eqb (skipn (ndim - length spec_dims) shape) spec_dims) then Err ValueE
            else match make_indices_matrix (firstn (ndim - length spec_dims) shape) true with
                 | Some p => Ok (p, s)
                 | None => Err ValueE
                 end
        | Some p, Some s =>
            if negb (Nat.eqb (length p * ncols s) (prod shape)) then Err ValueE
            else if negb (Nat.eqb (ncols p + length s) ndim) then
                   (if negb (Nat.eqb (msize p) 1 || Nat.eqb (msize s) 1) then Err ValueE else Ok (p, s))
            else
              (* every axis must have the size of the dimension it stands for *)
              let pt := transpose2d 0 p in
              let exp_shape := get_dimensionality pt (seq 0 (length (orient pt))) ++ get_dimensionality s (seq 0 (length (orient s))) in
              if negb (list_eqb Nat.eqb shape exp_shape) then Err ValueE else Ok (p, s)
        | None, None => Err ValueE
        end in
      match built with
      | Err e => Err e
      | Ok (p, s) =>
        (* a dummy axis can only have been squeezed out if an axis is missing *)
        let squeezed := negb (Nat.eqb (ncols p + length s) ndim) in
        let pos_sort := if Nat.eqb (msize p) 1 && squeezed then [] else get_sort_order (transpose2d 0 p) in
        let spec_sort := if Nat.eqb (msize s) 1 && squeezed then [] else get_sort_order s in
        let spec_sort := match spec with None => rev spec_sort | _ => spec_sort end in
        let pos_sort := match pos with None => rev pos_sort | _ => pos_sort end in
        let swap := rev pos_sort ++ map (fun e => e + length pos_sort) (rev spec_sort) in
        if negb (is_perm swap ndim) then Err ValueE                 (* numpy: axes don't match array *)
        else
          let t := nd_transpose d a swap in
          if negb (Nat.eqb (prod (nd_shape t)) (length p * ncols s)) then Err ValueE
          else Ok (length p, ncols s, nd_data t)
      end
  end.
