(** reshape_from_n_dims with ONE index matrix: the missing side is built from the N-D shape; the call equals the two-sided call
    with the C-order grid of the remaining axes (all of size >= 2), hence has the same coordinate map. *)
From Coq Require Import List Arith Lia Bool Permutation.
Require Import V.Base.ListAux V.Base.CorrAux V.Base.Radix V.Base.Matrix V.Base.NdArray V.Usid.SortOrder V.Usid.AncBuild V.Usid.ToND V.Usid.ToNDProof
               V.Usid.Grid V.Usid.FromND V.Usid.FromNDProof V.Usid.GridRoundTrip V.Usid.GridFromNd V.Usid.UnitValuesGrid V.Usid.Reduce V.Usid.ReduceGrid V.Usid.ReduceFile.
Import ListNotations.

(** ** what reshape_from_n_dims computes once its checks pass (pure unfolding) *)
Lemma from_nd_two_sided {A} (d : A) (b : nd A) (p s : list (list nat)) :
  let shape := nd_shape b in let ndim := length shape in
  2 <= ndim -> length p * ncols s = prod shape -> ncols p + length s = ndim ->
  shape = get_dimensionality (transpose2d 0 p) (seq 0 (length (orient (transpose2d 0 p)))) ++ get_dimensionality s (seq 0 (length (orient s))) ->
  let swap := rev (get_sort_order (transpose2d 0 p)) ++ map (fun e => e + length (get_sort_order (transpose2d 0 p))) (rev (get_sort_order s)) in
  is_perm swap ndim = true -> prod (nd_shape (nd_transpose d b swap)) = length p * ncols s ->
  from_nd d b (Some p) (Some s) = Ok (length p, ncols s, nd_data (nd_transpose d b swap)).
Proof.
  cbv zeta. intros H2 Hprod Hk Hshape Hperm Hpt. unfold from_nd.
  replace (Nat.ltb (length (nd_shape b)) 2) with false by (symmetry; apply Nat.ltb_ge; exact H2).
  rewrite Hprod, Nat.eqb_refl. cbn [negb]. rewrite Hk, Nat.eqb_refl. cbn [negb].
  rewrite <- Hshape.
  replace (list_eqb Nat.eqb (nd_shape b) (nd_shape b)) with true by (symmetry; apply list_eqb_eq; [apply Nat.eqb_eq|reflexivity]).
  cbn [negb andb]. rewrite !Hk, !Nat.eqb_refl. cbn [negb]. rewrite !andb_false_r. rewrite Hperm. cbn [negb]. rewrite Hpt, Nat.eqb_refl. reflexivity.
Qed.

Lemma from_nd_pos_only {A} (d : A) (b : nd A) (p s : list (list nat)) :
  let shape := nd_shape b in let ndim := length shape in
  let pos_dims := get_dimensionality p (seq 0 (length (orient p))) in
  2 <= ndim -> firstn (length pos_dims) shape = pos_dims ->
  make_indices_matrix (skipn (length pos_dims) shape) false = Some s ->
  ncols p + length s = ndim ->
  let swap := rev (get_sort_order (transpose2d 0 p)) ++ map (fun e => e + length (get_sort_order (transpose2d 0 p))) (rev (rev (get_sort_order s))) in
  is_perm swap ndim = true -> prod (nd_shape (nd_transpose d b swap)) = length p * ncols s ->
  from_nd d b (Some p) None = Ok (length p, ncols s, nd_data (nd_transpose d b swap)).
Proof.
  cbv zeta. intros H2 Hfirst Hmk Hk Hperm Hpt. unfold from_nd.
  replace (Nat.ltb (length (nd_shape b)) 2) with false by (symmetry; apply Nat.ltb_ge; exact H2).
  rewrite Hfirst.
  replace (list_eqb Nat.eqb (get_dimensionality p (seq 0 (length (orient p)))) (get_dimensionality p (seq 0 (length (orient p))))) with true
    by (symmetry; apply list_eqb_eq; [apply Nat.eqb_eq|reflexivity]).
  cbn [negb]. rewrite Hmk. rewrite !Hk, !Nat.eqb_refl. cbn [negb andb]. rewrite !andb_false_r.
  rewrite Hperm. cbn [negb]. rewrite Hpt, Nat.eqb_refl. reflexivity.
Qed.

(** ** the matrix that reshape_from_n_dims builds for the missing side is the grid with the FIRST dimension fastest *)
Lemma prod_firstn_S (l : list nat) : forall i, i < length l -> prod (firstn (S i) l) = prod (firstn i l) * nth i l 1.
Proof.
  induction l as [|x l IH]; intros i Hi; [simpl in Hi; lia|].
  destruct i as [|i]; [cbn [firstn prod nth]; lia|]. change (firstn (S (S i)) (x :: l)) with (x :: firstn (S i) l). change (firstn (S i) (x :: l)) with (x :: firstn i l). change (nth (S i) (x :: l) 1) with (nth i l 1). cbn [prod]. rewrite IH by (simpl in Hi; lia). lia.
Qed.

Lemma make_indices_row_grid (steps : list nat) indx : Forall (fun r => 0 < r) steps -> indx < length steps ->
  make_indices_row steps indx = grid_row steps (seq 0 (length steps)) indx.
Proof.
  intros Hpos Hi. unfold make_indices_row, grid_row.
  assert (Hrad : radices steps (seq 0 (length steps)) = steps).
  { unfold radices. apply (nth_ext _ _ 1 1); [now rewrite map_length, seq_length|]. intros i Hil. rewrite map_length, seq_length in Hil. now rewrite nth_map_seq. }
  rewrite Hrad.
  assert (Hidx : index_of indx (seq 0 (length steps)) = indx).
  { pose proof (index_of_nth (seq 0 (length steps)) (seq_NoDup _ 0) indx ltac:(now rewrite seq_length)) as H. now rewrite seq_nth in H. }
  rewrite Hidx.
  pose proof (prod_split steps indx Hi) as Hsplit.
  set (part2 := prod (firstn indx steps)) in *. set (s := nth indx steps 1) in *. set (part3 := prod (skipn (S indx) steps)) in *.
  assert (Hp2 : 0 < part2) by (apply prod_pos, Forall_forall; intros x Hx; rewrite Forall_forall in Hpos; apply Hpos; eapply In_firstn; exact Hx).
  assert (Hs : 0 < s) by (unfold s; rewrite Forall_forall in Hpos; apply Hpos, nth_In, Hi).
  assert (Hp1 : prod (firstn (S indx) steps) = part2 * s) by (apply prod_firstn_S; exact Hi).
  rewrite Hp1.
  replace (if Nat.eqb indx 0 then 1 else part2) with part2 by (destruct indx; [unfold part2; reflexivity|reflexivity]).
  replace (if Nat.eqb (S indx) (length steps) then 1 else part3) with part3.
  2:{ destruct (Nat.eqb (S indx) (length steps)) eqn:E; [|reflexivity]. apply Nat.eqb_eq in E. unfold part3. rewrite E, skipn_all. reflexivity. }
  apply (nth_ext _ _ 0 0).
  - rewrite tile_length, !map_length, !seq_length. lia.
  - intros n Hn. rewrite tile_length, map_length, seq_length in Hn.
    rewrite nth_tile by (rewrite map_length, seq_length; lia). rewrite map_length, seq_length.
    rewrite nth_map_seq by (apply Nat.mod_upper_bound; nia).
    rewrite nth_map_seq by (rewrite Hsplit; lia).
    rewrite (nth_digits steps Hpos indx n Hi). fold part2 s. rewrite (Nat.mul_comm part2 s). apply AncBuild.div_mod_radix; assumption.
Qed.

Lemma make_indices_matrix_grid (steps : list nat) : Forall (fun s => 2 <= s) steps -> 0 < length steps ->
  make_indices_matrix steps false = Some (grid_spec steps (seq 0 (length steps))).
Proof.
  intros Hall Hq.
  assert (Hpos : Forall (fun r => 0 < r) steps) by (eapply Forall_impl; [|exact Hall]; cbn; lia).
  assert (Hfb : forallb (fun s => Nat.leb 2 s) steps = true) by (apply forallb_forall; intros x Hx; rewrite Forall_forall in Hall; apply Nat.leb_le, Hall, Hx).
  assert (Hrows : map (make_indices_row steps) (seq 0 (length steps)) = grid_spec steps (seq 0 (length steps))).
  { unfold grid_spec. apply map_ext_in. intros indx Hi. apply in_seq in Hi. apply make_indices_row_grid; [exact Hpos|lia]. }
  unfold make_indices_matrix. destruct steps as [|s0 [|r1 rest]]; [simpl in Hq; lia| |].
  - destruct s0 as [|[|s0']]; [inversion Hall; lia|inversion Hall; lia|]. rewrite Hfb, Hrows. reflexivity.
  - destruct s0 as [|[|s0']]; rewrite Hfb, Hrows; reflexivity.
Qed.

(** with every size >= 2 there are no ties: the computed order is the storage order *)
Lemma q_le_prod (steps : list nat) : Forall (fun s => 2 <= s) steps -> length steps <= prod steps.
Proof.
  induction 1 as [|s l Hs Hall IH]; simpl; [lia|].
  assert (1 <= prod l) by (clear -Hall; induction Hall as [|x l Hx _ IH]; simpl; [lia|nia]). nia.
Qed.

Lemma radices_prod_eq (sz order : list nat) : wf_grid sz order -> prod (radices sz order) = prod sz.
Proof.
  intros [Hp _]. unfold radices. apply (prod_map_perm sz order (length sz) Hp). reflexivity.
Qed.

Lemma sort_order_no_ties (steps order : list nat) : wf_grid steps order -> Forall (fun s => 2 <= s) steps ->
  get_sort_order (grid_spec steps order) = order.
Proof.
  intros Hwf Hall.
  assert (Hk : length steps <= prod (radices steps order)).
  { assert (Hp : prod (radices steps order) = prod steps).
    { destruct Hwf as [Hp _]. unfold radices. apply prod_perm.
      assert (HP : Permutation order (seq 0 (length steps))).
      { destruct Hp as (Hnd & Hlen & Hlt). apply NoDup_Permutation_bis; [exact Hnd|rewrite seq_length; lia|]. intros x Hx. apply in_seq. specialize (Hlt x Hx). lia. }
      rewrite (Permutation_map (fun d => nth d steps 1) HP).
      assert (E : map (fun d => nth d steps 1) (seq 0 (length steps)) = steps).
      { apply (nth_ext _ _ 1 1); [now rewrite map_length, seq_length|]. intros i Hi. rewrite map_length, seq_length in Hi. now rewrite nth_map_seq. }
      now rewrite E. }
    rewrite Hp. now apply q_le_prod. }
  pose proof (so_filter steps order Hwf Hk) as Hf.
  pose proof (so_perm steps order Hk) as (_ & _ & Hlt1). destruct Hwf as [(_ & _ & Hlt2) _].
  assert (Hnu : forall d, d < length steps -> negb (Nat.eqb (nth d steps 1) 1) = true).
  { intros d Hd. rewrite Forall_forall in Hall. specialize (Hall (nth d steps 1) (nth_In _ _ Hd)). apply negb_true_iff, Nat.eqb_neq. lia. }
  rewrite !filter_all' in Hf; [exact Hf| |]; intros x Hx; apply Hnu; [apply Hlt2|apply Hlt1]; exact Hx.
Qed.

Lemma perm_of_is_perm L k : perm_of L k -> is_perm L k = true.
Proof.
  intros HL. pose proof HL as (_ & Hl & _). unfold is_perm. rewrite Hl, Nat.eqb_refl. cbn. apply forallb_forall. intros i Hi. apply in_seq in Hi.
  apply existsb_exists. exists i. split; [apply (perm_of_in L k); [exact HL|lia]|apply Nat.eqb_refl].
Qed.

(** ** only the position matrix supplied: the call equals the two-sided call with the C-order grid of the trailing axes *)
Section PosOnly.
  Context {A : Type} (d : A).
  Variables (szp sop steps : list nat) (pos : list (list nat)) (b : nd A).
  Hypothesis Hwfp : wf_grid szp sop.
  Let kp := length szp.
  Let q := length steps.
  Let N := prod (radices szp sop).
  Let M := prod steps.
  Hypothesis Hkp : kp < N.                       (* strictly: the given matrix is taller than wide, so that its orientation is recognised *)
  Hypothesis Hkp0 : 0 < kp.
  Hypothesis Hsteps : Forall (fun s => 2 <= s) steps.
  Hypothesis Hq0 : 0 < q.
  Hypothesis Hpos_t : transpose2d 0 pos = grid_spec szp sop.
  Hypothesis Hpos_c : ncols pos = kp.
  Hypothesis Hb_shape : nd_shape b = szp ++ steps.
  Let sfast := grid_spec steps (seq 0 q).         (* what the function builds: first trailing axis fastest *)
  Let scorder := grid_spec steps (rev (seq 0 q)). (* C order of the trailing axes: last axis fastest *)

  Lemma seq_perm : perm_of (seq 0 q) q.
  Proof. split; [apply seq_NoDup|]. split; [apply seq_length|]. intros x Hx. apply in_seq in Hx. lia. Qed.
  Lemma steps_pos : Forall (fun r => 0 < r) steps.
  Proof. eapply Forall_impl; [|exact Hsteps]. cbn. lia. Qed.
  Lemma wf_fast : wf_grid steps (seq 0 q).
  Proof. split; [exact seq_perm|exact steps_pos]. Qed.
  Lemma wf_corder : wf_grid steps (rev (seq 0 q)).
  Proof. split; [apply perm_of_rev, seq_perm|exact steps_pos]. Qed.

  Lemma radices_prod order : perm_of order q -> prod (radices steps order) = M.
  Proof.
    intros Hp. unfold radices. fold q in Hp. apply (prod_map_perm steps order q Hp). reflexivity.
  Qed.

  Lemma pos_len : length pos = N.
  Proof. apply (pos_rows szp sop Hkp0 pos Hpos_t Hpos_c). Qed.

  Lemma orient_pos : orient pos = grid_spec szp sop.
  Proof. unfold orient. rewrite Hpos_c, pos_len. replace (Nat.ltb kp N) with true by (symmetry; apply Nat.ltb_lt; exact Hkp). exact Hpos_t. Qed.

  Lemma pos_dims_eq : get_dimensionality pos (seq 0 (length (orient pos))) = szp.
  Proof.
    rewrite orient_pos, (G_len szp sop). unfold get_dimensionality. rewrite orient_pos.
    pose proof (dims_file_order szp sop Hwfp ltac:(fold kp N; lia)) as Hd. unfold get_dimensionality in Hd.
    rewrite (orient_G szp sop ltac:(fold kp N; lia)) in Hd. exact Hd.
  Qed.

  Let so_p := get_sort_order (transpose2d 0 pos).
  Let swap := rev so_p ++ map (fun e => e + length so_p) (seq 0 q).

  Lemma so_p_perm : perm_of so_p kp.
  Proof. unfold so_p. rewrite Hpos_t. apply so_perm. fold kp N. lia. Qed.

  Lemma swap_perm : perm_of swap (kp + q).
  Proof.
    destruct (perm_of_rev _ _ so_p_perm) as (Hn1 & Hl1 & Hb1). destruct so_p_perm as (_ & Hl & _).
    unfold swap. rewrite Hl. split; [|split].
    - apply NoDup_app_intro; [exact Hn1|apply NoDup_map_inj; [intros x y E; lia|apply seq_NoDup]|].
      intros x H1 H2. apply in_map_iff in H2. destruct H2 as (e & <- & He). specialize (Hb1 _ H1). lia.
    - rewrite app_length, map_length, seq_length. lia.
    - intros x Hx. apply in_app_or in Hx. destruct Hx as [Hx|Hx]; [specialize (Hb1 _ Hx); lia|].
      apply in_map_iff in Hx. destruct Hx as (e & <- & He). apply in_seq in He. lia.
  Qed.

  Lemma ndim_eq : length (nd_shape b) = kp + q.
  Proof. rewrite Hb_shape, app_length. reflexivity. Qed.

  Lemma prod_transposed : prod (nd_shape (nd_transpose d b swap)) = N * M.
  Proof.
    unfold nd_transpose. cbn [nd_shape]. rewrite (prod_map_perm _ _ (kp + q) swap_perm ndim_eq).
    rewrite Hb_shape, prod_app. f_equal.
    symmetry. apply radices_prod_eq. exact Hwfp.
  Qed.

  Lemma sfast_facts : length sfast = q /\ ncols sfast = M /\ get_sort_order sfast = seq 0 q.
  Proof.
    unfold sfast. split; [apply G_len|]. split.
    - rewrite (G_ncols steps (seq 0 q)); [apply radices_prod, seq_perm| |exact Hq0].
      rewrite (radices_prod _ seq_perm). apply q_le_prod. exact Hsteps.
    - apply sort_order_no_ties; [exact wf_fast|exact Hsteps].
  Qed.
  Lemma scorder_facts : length scorder = q /\ ncols scorder = M /\ get_sort_order scorder = rev (seq 0 q).
  Proof.
    unfold scorder. split; [apply G_len|]. split.
    - rewrite (G_ncols steps (rev (seq 0 q))); [apply radices_prod, perm_of_rev, seq_perm| |exact Hq0].
      rewrite (radices_prod _ (perm_of_rev _ _ seq_perm)). apply q_le_prod. exact Hsteps.
    - apply sort_order_no_ties; [exact wf_corder|exact Hsteps].
  Qed.

  Theorem pos_only_explicit : from_nd d b (Some pos) None = Ok (N, M, nd_data (nd_transpose d b swap)).
  Proof.
    destruct sfast_facts as (Hl & Hc & Hso).
    pose proof (from_nd_pos_only d b pos sfast) as T. cbv zeta in T.
    rewrite pos_dims_eq, Hb_shape in T.
    rewrite firstn_app, firstn_all, Nat.sub_diag in T. cbn [firstn] in T. rewrite app_nil_r in T.
    rewrite skipn_app, skipn_all, Nat.sub_diag in T. cbn [skipn app] in T.
    rewrite Hpos_c, Hl, Hc, Hso, rev_involutive, pos_len in T. fold so_p swap in T. rewrite app_length in T. fold kp q in T.
    apply T.
    - lia.
    - reflexivity.
    - unfold sfast, q. apply make_indices_matrix_grid; assumption.
    - reflexivity.
    - apply perm_of_is_perm, swap_perm.
    - apply prod_transposed.
  Qed.

  Theorem two_sided_corder_explicit : from_nd d b (Some pos) (Some scorder) = Ok (N, M, nd_data (nd_transpose d b swap)).
  Proof.
    destruct scorder_facts as (Hl & Hc & Hso).
    pose proof (from_nd_two_sided d b pos scorder) as T. cbv zeta in T.
    rewrite Hpos_c, Hl, Hc, Hso, rev_involutive, pos_len, ndim_eq in T. fold so_p swap in T.
    apply T.
    - lia.
    - rewrite Hb_shape, prod_app. f_equal. apply radices_prod_eq. exact Hwfp.
    - reflexivity.
    - rewrite Hb_shape, Hpos_t. rewrite (orient_G szp sop ltac:(fold kp N; lia)), (G_len szp sop).
      rewrite (dims_file_order szp sop Hwfp ltac:(fold kp N; lia)). f_equal.
      assert (Hk' : length steps <= prod (radices steps (rev (seq 0 q)))) by (rewrite (radices_prod _ (perm_of_rev _ _ seq_perm)); apply q_le_prod; exact Hsteps).
      unfold scorder. rewrite (orient_G steps (rev (seq 0 q)) Hk'), (G_len steps). symmetry. apply (dims_file_order steps _ wf_corder Hk').
    - apply perm_of_is_perm, swap_perm.
    - apply prod_transposed.
  Qed.

  (** one matrix supplied = both supplied with the C-order grid for the missing side *)
  Theorem pos_only_eq_two_sided : from_nd d b (Some pos) None = from_nd d b (Some pos) (Some scorder).
  Proof. now rewrite pos_only_explicit, two_sided_corder_explicit. Qed.

  (** coordinate map of the one-sided call: columns enumerate the trailing axes in C order *)
  Theorem pos_only_coordinates : length (nd_data b) = prod (nd_shape b) ->
    exists data, from_nd d b (Some pos) None = Ok (N, M, data) /\ length data = N * M /\
      forall r c, r < N -> c < M -> nth (r * M + c) data d = nd_get d b (pos_row pos kp r ++ spec_col scorder q c).
  Proof.
    intros Hdata. rewrite pos_only_eq_two_sided.
    assert (Hk' : length steps <= prod (radices steps (rev (seq 0 q)))) by (rewrite (radices_prod _ (perm_of_rev _ _ seq_perm)); apply q_le_prod; exact Hsteps).
    destruct (grid_from_nd d szp sop steps (rev (seq 0 q)) Hwfp wf_corder ltac:(fold kp N; lia) Hk' Hkp0 Hq0 pos Hpos_t Hpos_c b Hb_shape Hdata)
      as (data & Hf & Hl & Hg).
    rewrite (radices_prod _ (perm_of_rev _ _ seq_perm)) in Hf, Hl, Hg. fold N scorder kp q in Hf, Hl, Hg.
    exists data. auto.
  Qed.
End PosOnly.

(** ** only the spectroscopic matrix supplied *)
Lemma from_nd_spec_only {A} (d : A) (b : nd A) (p s : list (list nat)) :
  let shape := nd_shape b in let ndim := length shape in
  let spec_dims := get_dimensionality s (seq 0 (length (orient s))) in
  2 <= ndim -> skipn (ndim - length spec_dims) shape = spec_dims ->
  make_indices_matrix (firstn (ndim - length spec_dims) shape) true = Some p ->
  ncols p + length s = ndim ->
  let swap := rev (rev (get_sort_order (transpose2d 0 p))) ++ map (fun e => e + length (rev (get_sort_order (transpose2d 0 p)))) (rev (get_sort_order s)) in
  is_perm swap ndim = true -> prod (nd_shape (nd_transpose d b swap)) = length p * ncols s ->
  from_nd d b None (Some s) = Ok (length p, ncols s, nd_data (nd_transpose d b swap)).
Proof.
  cbv zeta. intros H2 Hskip Hmk Hk Hperm Hpt. unfold from_nd.
  replace (Nat.ltb (length (nd_shape b)) 2) with false by (symmetry; apply Nat.ltb_ge; exact H2).
  rewrite Hskip.
  replace (list_eqb Nat.eqb (get_dimensionality s (seq 0 (length (orient s)))) (get_dimensionality s (seq 0 (length (orient s))))) with true
    by (symmetry; apply list_eqb_eq; [apply Nat.eqb_eq|reflexivity]).
  cbn [negb]. rewrite Hmk. rewrite !Hk, !Nat.eqb_refl. cbn [negb andb]. rewrite !andb_false_r.
  rewrite Hperm. cbn [negb]. rewrite Hpt, Nat.eqb_refl. reflexivity.
Qed.

Lemma make_indices_matrix_grid_pos (steps : list nat) : Forall (fun s => 2 <= s) steps -> 0 < length steps ->
  make_indices_matrix steps true = Some (transpose2d 0 (grid_spec steps (seq 0 (length steps)))).
Proof.
  intros Hall Hq.
  assert (Hpos : Forall (fun r => 0 < r) steps) by (eapply Forall_impl; [|exact Hall]; cbn; lia).
  assert (Hfb : forallb (fun s => Nat.leb 2 s) steps = true) by (apply forallb_forall; intros x Hx; rewrite Forall_forall in Hall; apply Nat.leb_le, Hall, Hx).
  assert (Hrows : map (make_indices_row steps) (seq 0 (length steps)) = grid_spec steps (seq 0 (length steps))).
  { unfold grid_spec. apply map_ext_in. intros indx Hi. apply in_seq in Hi. apply make_indices_row_grid; [exact Hpos|lia]. }
  unfold make_indices_matrix. destruct steps as [|s0 [|r1 rest]]; [simpl in Hq; lia| |].
  - destruct s0 as [|[|s0']]; [inversion Hall; lia|inversion Hall; lia|]. rewrite Hfb, Hrows. reflexivity.
  - destruct s0 as [|[|s0']]; rewrite Hfb, Hrows; reflexivity.
Qed.

Section SpecOnly.
  Context {A : Type} (d : A).
  Variables (szs sos steps : list nat) (b : nd A).
  Hypothesis Hwfs : wf_grid szs sos.
  Let ks := length szs.
  Let q := length steps.
  Let M := prod (radices szs sos).
  Let N := prod steps.
  Hypothesis Hks : ks <= M.
  Hypothesis Hks0 : 0 < ks.
  Hypothesis Hsteps : Forall (fun s => 2 <= s) steps.
  Hypothesis Hq0 : 0 < q.
  Hypothesis Hb_shape : nd_shape b = steps ++ szs.
  Let spec := grid_spec szs sos.
  Let pfast := transpose2d 0 (grid_spec steps (seq 0 q)).         (* built by the function *)
  Let pcorder := transpose2d 0 (grid_spec steps (rev (seq 0 q))). (* C order of the leading axes *)
  Let so_s := get_sort_order spec.
  Let swap := seq 0 q ++ map (fun e => e + q) (rev so_s).

  Lemma seq_perm' : perm_of (seq 0 q) q.
  Proof. split; [apply seq_NoDup|]. split; [apply seq_length|]. intros x Hx. apply in_seq in Hx. lia. Qed.
  Lemma steps_pos' : Forall (fun r => 0 < r) steps.
  Proof. eapply Forall_impl; [|exact Hsteps]. cbn. lia. Qed.
  Lemma radices_prod' order : perm_of order q -> prod (radices steps order) = N.
  Proof. intros Hp. unfold radices. fold q in Hp. apply (prod_map_perm steps order q Hp). reflexivity. Qed.
  Lemma wf_order order : perm_of order q -> wf_grid steps order.
  Proof. intros Hp. split; [exact Hp|exact steps_pos']. Qed.
  Lemma k_le order : perm_of order q -> length steps <= prod (radices steps order).
  Proof. intros Hp. rewrite (radices_prod' _ Hp). apply q_le_prod. exact Hsteps. Qed.

  Lemma built_facts order : perm_of order q ->
    let p := transpose2d 0 (grid_spec steps order) in
    length p = N /\ ncols p = q /\ transpose2d 0 p = grid_spec steps order /\ get_sort_order (transpose2d 0 p) = order.
  Proof.
    intros Hp. cbv zeta.
    destruct (ncols_transpose_grid steps order (wf_order _ Hp) (k_le _ Hp) Hq0) as [Hc Ht].
    split; [rewrite transpose2d_length, (G_ncols steps order (k_le _ Hp) Hq0); apply radices_prod'; exact Hp|].
    split; [exact Hc|]. split; [exact Ht|]. rewrite Ht. apply sort_order_no_ties; [apply wf_order; exact Hp|exact Hsteps].
  Qed.

  Lemma so_s_perm : perm_of so_s ks.
  Proof. unfold so_s, spec. apply so_perm. fold ks M. lia. Qed.

  Lemma swap_perm' : perm_of swap (q + ks).
  Proof.
    destruct (perm_of_rev _ _ so_s_perm) as (Hn1 & Hl1 & Hb1). destruct seq_perm' as (Hn0 & Hl0 & Hb0).
    unfold swap. split; [|split].
    - apply NoDup_app_intro; [exact Hn0|apply NoDup_map_inj; [intros x y E; lia|exact Hn1]|].
      intros x H1 H2. apply in_map_iff in H2. destruct H2 as (e & <- & He). specialize (Hb0 _ H1). lia.
    - rewrite app_length, map_length, seq_length. lia.
    - intros x Hx. apply in_app_or in Hx. destruct Hx as [Hx|Hx]; [specialize (Hb0 _ Hx); lia|].
      apply in_map_iff in Hx. destruct Hx as (e & <- & He). specialize (Hb1 _ He). lia.
  Qed.

  Lemma ndim_eq' : length (nd_shape b) = q + ks.
  Proof. rewrite Hb_shape, app_length. reflexivity. Qed.

  Lemma prod_transposed' : prod (nd_shape (nd_transpose d b swap)) = N * M.
  Proof.
    unfold nd_transpose. cbn [nd_shape]. rewrite (prod_map_perm _ _ (q + ks) swap_perm' ndim_eq').
    rewrite Hb_shape, prod_app. f_equal. symmetry. apply radices_prod_eq. exact Hwfs.
  Qed.

  Lemma spec_facts : length spec = ks /\ ncols spec = M /\ get_dimensionality spec (seq 0 (length (orient spec))) = szs.
  Proof.
    unfold spec. split; [apply G_len|]. split; [apply G_ncols; assumption|].
    rewrite (orient_G szs sos Hks), (G_len szs sos). apply dims_file_order; assumption.
  Qed.

  Theorem spec_only_explicit : from_nd d b None (Some spec) = Ok (N, M, nd_data (nd_transpose d b swap)).
  Proof.
    destruct spec_facts as (Hl & Hc & Hd). destruct (built_facts (seq 0 q) seq_perm') as (Hpl & Hpc & Hpt & Hpso). fold pfast in Hpl, Hpc, Hpt, Hpso.
    pose proof (from_nd_spec_only d b pfast spec) as T. cbv zeta in T.
    rewrite Hd, Hb_shape, app_length in T. replace (length steps + length szs - length szs) with (length steps) in T by lia.
    rewrite skipn_app, skipn_all, Nat.sub_diag in T. cbn [skipn app] in T.
    rewrite firstn_app, firstn_all, Nat.sub_diag in T. cbn [firstn] in T. rewrite app_nil_r in T.
    fold ks q in T. rewrite Hpso, rev_involutive, rev_length, seq_length, Hpl, Hpc, Hl, Hc in T. fold so_s swap in T.
    apply T.
    - lia.
    - reflexivity.
    - unfold pfast, q. apply make_indices_matrix_grid_pos; assumption.
    - reflexivity.
    - apply perm_of_is_perm, swap_perm'.
    - apply prod_transposed'.
  Qed.

  Theorem two_sided_corder_explicit' : from_nd d b (Some pcorder) (Some spec) = Ok (N, M, nd_data (nd_transpose d b swap)).
  Proof.
    destruct spec_facts as (Hl & Hc & Hd).
    destruct (built_facts (rev (seq 0 q)) (perm_of_rev _ _ seq_perm')) as (Hpl & Hpc & Hpt & Hpso). fold pcorder in Hpl, Hpc, Hpt, Hpso.
    pose proof (from_nd_two_sided d b pcorder spec) as T. cbv zeta in T.
    rewrite Hpso, rev_involutive, rev_length, seq_length, Hpl, Hpc, Hl, Hc, ndim_eq' in T. fold so_s swap in T.
    apply T.
    - lia.
    - rewrite Hb_shape, prod_app. f_equal. apply radices_prod_eq. exact Hwfs.
    - reflexivity.
    - rewrite Hb_shape, Hpt, Hd. f_equal.
      pose proof (perm_of_rev _ _ seq_perm') as Hpr.
      rewrite (orient_G steps (rev (seq 0 q)) (k_le _ Hpr)), (G_len steps). symmetry. apply (dims_file_order steps _ (wf_order _ Hpr) (k_le _ Hpr)).
    - apply perm_of_is_perm, swap_perm'.
    - apply prod_transposed'.
  Qed.

  Theorem spec_only_eq_two_sided : from_nd d b None (Some spec) = from_nd d b (Some pcorder) (Some spec).
  Proof. now rewrite spec_only_explicit, two_sided_corder_explicit'. Qed.

  Theorem spec_only_coordinates : length (nd_data b) = prod (nd_shape b) ->
    exists data, from_nd d b None (Some spec) = Ok (N, M, data) /\ length data = N * M /\
      forall r c, r < N -> c < M -> nth (r * M + c) data d = nd_get d b (pos_row pcorder q r ++ spec_col spec ks c).
  Proof.
    intros Hdata. rewrite spec_only_eq_two_sided.
    pose proof (perm_of_rev _ _ seq_perm') as Hpr.
    destruct (built_facts (rev (seq 0 q)) Hpr) as (Hpl & Hpc & Hpt & Hpso). fold pcorder in Hpl, Hpc, Hpt, Hpso.
    destruct (grid_from_nd d steps (rev (seq 0 q)) szs sos (wf_order _ Hpr) Hwfs (k_le _ Hpr) Hks Hq0 Hks0 pcorder Hpt Hpc b Hb_shape Hdata)
      as (data & Hf & Hl & Hg).
    rewrite (radices_prod' _ Hpr) in Hf, Hl, Hg. fold M spec ks q in Hf, Hl, Hg.
    exists data. auto.
  Qed.
End SpecOnly.
