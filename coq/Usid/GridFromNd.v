(** reshape_from_n_dims on regular grids: the coordinate map of the flattened matrix, and to_nd (from_nd b) = b. *)
From Coq Require Import List Arith Lia Bool.
Require Import V.Base.ListAux V.Base.Radix V.Base.Matrix V.Base.NdArray V.Usid.SortOrder V.Usid.ToND V.Usid.ToNDProof V.Usid.Grid V.Usid.FromND
               V.Usid.AncBuildPos V.Usid.FromNDProof V.Usid.GridRoundTrip.
Import ListNotations.

(** two arrays of the same (positive) shape and full data that agree at every in-bounds index are equal *)
Lemma nd_ext {A} (d : A) (a b : nd A) :
  nd_shape a = nd_shape b -> Forall (fun s => 0 < s) (nd_shape a) ->
  length (nd_data a) = prod (nd_shape a) -> length (nd_data b) = prod (nd_shape b) ->
  (forall idx, inbounds idx (nd_shape a) -> nd_get d a idx = nd_get d b idx) -> a = b.
Proof.
  destruct a as [sa da], b as [sb db]. cbn [nd_shape nd_data]. intros <- Hpos Hla Hlb Hget. f_equal.
  apply (nth_ext _ _ d d); [lia|]. intros n Hn. rewrite Hla in Hn.
  pose proof (unravel_inbounds' sa Hpos n Hn) as Hi. specialize (Hget _ Hi). unfold nd_get in Hget. cbn [nd_shape nd_data] in Hget.
  now rewrite ravel_unravel in Hget.
Qed.

Lemma inbounds_split idx s1 s2 : inbounds idx (s1 ++ s2) ->
  exists i1 i2, idx = i1 ++ i2 /\ inbounds i1 s1 /\ inbounds i2 s2.
Proof.
  revert idx. induction s1 as [|s s1 IH]; intros idx H; simpl in *.
  - exists [], idx. split; [reflexivity|]. split; [exact I|exact H].
  - destruct idx as [|x idx]; [contradiction|]. destruct H as [Hx H]. destruct (IH idx H) as (i1 & i2 & -> & H1 & H2).
    exists (x :: i1), i2. split; [reflexivity|]. split; [split; assumption|exact H2].
Qed.

Section GridFromNd.
  Context {A : Type} (dflt : A).
  Variables (szp orderp szs orders : list nat).
  Hypothesis Hwfp : wf_grid szp orderp.
  Hypothesis Hwfs : wf_grid szs orders.
  Let kp := length szp.
  Let ks := length szs.
  Let N := prod (radices szp orderp).
  Let M := prod (radices szs orders).
  Hypothesis Hkp : kp <= N.
  Hypothesis Hks : ks <= M.
  Hypothesis Hkp0 : 0 < kp.
  Hypothesis Hks0 : 0 < ks.
  Variable pos : list (list nat).
  Hypothesis Hpos_t : transpose2d 0 pos = grid_spec szp orderp.
  Hypothesis Hpos_c : ncols pos = kp.
  Let spec := grid_spec szs orders.
  Let coords (r c : nat) : list nat := pos_row pos kp r ++ spec_col spec ks c.

  Lemma pos_row_grid r : pos_row pos kp r = map (fun d => nth r (grid_row szp orderp d) 0) (seq 0 kp).
  Proof.
    unfold pos_row. apply map_ext_in. intros dd Hd. apply in_seq in Hd.
    rewrite <- (nth_G szp orderp dd ltac:(unfold kp in *; lia)), <- Hpos_t. symmetry. apply nth_transpose2d. rewrite Hpos_c. lia.
  Qed.
  Lemma spec_col_grid c : spec_col spec ks c = map (fun e => nth c (grid_row szs orders e) 0) (seq 0 ks).
  Proof.
    unfold spec_col. apply map_ext_in. intros e He. apply in_seq in He. unfold spec.
    now rewrite (nth_G szs orders e ltac:(unfold ks in *; lia)).
  Qed.

  (** every in-bounds index of the N-D shape is the coordinate vector of exactly one (row, column) *)
  Lemma coords_cover idx : inbounds idx (szp ++ szs) -> exists r c, r < N /\ c < M /\ coords r c = idx.
  Proof.
    intros H. destruct (inbounds_split idx szp szs H) as (i1 & i2 & -> & H1 & H2).
    destruct (grid_rows_bijection szp orderp Hwfp i1 H1) as (r & Hr & Er & _).
    destruct (grid_rows_bijection szs orders Hwfs i2 H2) as (c & Hc & Ec & _).
    exists r, c. split; [exact Hr|]. split; [exact Hc|]. unfold coords. rewrite pos_row_grid, spec_col_grid. unfold kp, ks. now rewrite Er, Ec.
  Qed.

  Variable b : nd A.
  Hypothesis Hb_shape : nd_shape b = szp ++ szs.
  Hypothesis Hb_data : length (nd_data b) = prod (nd_shape b).

  Let main' : list (list A) := map (fun r => map (fun c => nd_get dflt b (coords r c)) (seq 0 M)) (seq 0 N).

  Lemma main'_rows : length main' = N.
  Proof. unfold main'. now rewrite map_length, seq_length. Qed.
  Lemma main'_rect : rect main' M.
  Proof. unfold rect, main'. apply Forall_forall. intros row Hrow. apply in_map_iff in Hrow. destruct Hrow as (r & <- & _). now rewrite map_length, seq_length. Qed.
  Lemma main'_entry r c : r < N -> c < M -> nth c (nth r main' []) dflt = nd_get dflt b (coords r c).
  Proof.
    intros Hr Hc. unfold main'.
    rewrite (nth_indep _ [] ((fun r => map (fun c => nd_get dflt b (coords r c)) (seq 0 M)) 0)) by (now rewrite map_length, seq_length).
    rewrite (map_nth (fun r => map (fun c => nd_get dflt b (coords r c)) (seq 0 M)) (seq 0 N) 0 r), seq_nth by exact Hr.
    now rewrite nth_map_seq.
  Qed.

  Lemma shape_pos : Forall (fun s => 0 < s) (szp ++ szs).
  Proof. apply Forall_app. split; [apply Hwfp|apply Hwfs]. Qed.

  (** the N-D form of the matrix read off b IS b *)
  Lemma to_nd_of_main' : exists labels, to_nd dflt main' pos spec false = Ok (b, labels).
  Proof.
    destruct (grid_to_nd dflt szp orderp szs orders Hwfp Hwfs Hkp Hks Hkp0 Hks0 main' pos main'_rows main'_rect Hpos_t Hpos_c)
      as (a & Ha & Hget & _ & _).
    fold spec in Ha, Hget.
    destruct (grid_nd_shape dflt szp orderp szs orders Hwfp Hwfs Hkp Hks Hkp0 Hks0 main' pos main'_rows main'_rect Hpos_t Hpos_c a _ Ha) as [Hsa _].
    assert (Hda : length (nd_data a) = prod (nd_shape a)).
    { pose proof (to_nd_value dflt main' pos spec) as T. fold spec in Ha.
      unfold to_nd in Ha. revert Ha.
      repeat match goal with |- context [if ?c then _ else _] => destruct c end; try discriminate.
      intros [= <- _]. unfold nd_transpose. cbn [nd_shape nd_data]. now rewrite map_length, seq_length. }
    assert (a = b) as <-.
    { apply (nd_ext dflt); try assumption.
      - now rewrite Hsa, Hb_shape.
      - rewrite Hsa. apply shape_pos.
      - rewrite Hsa. intros idx Hidx. destruct (coords_cover idx Hidx) as (r & c & Hr & Hc & <-).
        fold N M in Hget. rewrite <- (main'_entry r c Hr Hc). unfold coords, kp, ks. exact (Hget r c Hr Hc). }
    eexists. exact Ha.
  Qed.

  (** coordinate map of reshape_from_n_dims: element (r, c) of the flattened matrix is the element of the N-D array at the
      coordinates that row r / column c of the index matrices carry *)
  Theorem grid_from_nd :
    exists data, from_nd dflt b (Some pos) (Some spec) = Ok (N, M, data) /\ length data = N * M /\
      forall r c, r < N -> c < M -> nth (r * M + c) data dflt = nd_get dflt b (coords r c).
  Proof.
    destruct to_nd_of_main' as (labels & Hto).
    pose proof (grid_round_trip dflt szp orderp szs orders Hwfp Hwfs Hkp Hks Hkp0 Hks0 main' pos main'_rows main'_rect Hpos_t Hpos_c b labels Hto) as Hfrom.
    fold spec N M in Hfrom. exists (concat main'). split; [exact Hfrom|]. split.
    - rewrite (concat_rect_len main' M main'_rect), main'_rows. reflexivity.
    - intros r c Hr Hc. rewrite (nth_concat_rect dflt main' M main'_rect r c) by (try rewrite main'_rows; assumption).
      now apply main'_entry.
  Qed.

  (** to_nd (from_nd b) = b *)
  Theorem grid_to_from_id :
    forall data, from_nd dflt b (Some pos) (Some spec) = Ok (N, M, data) ->
    exists main labels, concat main = data /\ length main = N /\ rect main M /\ to_nd dflt main pos spec false = Ok (b, labels).
  Proof.
    intros data Hf. destruct to_nd_of_main' as (labels & Hto).
    pose proof (grid_round_trip dflt szp orderp szs orders Hwfp Hwfs Hkp Hks Hkp0 Hks0 main' pos main'_rows main'_rect Hpos_t Hpos_c b labels Hto) as Hfrom.
    fold spec N M in Hfrom. rewrite Hfrom in Hf. injection Hf as <-.
    exists main', labels. split; [reflexivity|]. split; [apply main'_rows|]. split; [apply main'_rect|exact Hto].
  Qed.
End GridFromNd.
