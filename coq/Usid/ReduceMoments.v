(** mean / std of USIDataset.reduce: the exact ingredients (sum, sum of squares, count) that every axis mean / standard
    deviation is a function of.  The N-D array is lifted elementwise to (x, x*x, 1) and reduced with componentwise addition;
    mean = S / c and variance = (c*Q - S*S) / (c*c) are then exact rationals, compared with the floating-point numbers the
    library returns inside a stated relative tolerance (Corr/CorrC12.v).  Model only; proofs in ReduceMomentsProof.v. *)
From Coq Require Import List Arith Lia Bool ZArith.
Require Import V.Base.ListAux V.Base.CorrAux V.Base.Radix V.Base.Matrix V.Base.NdArray V.Usid.SortOrder V.Usid.ToND V.Usid.FromND
               V.Usid.Grid V.Usid.SelEnum V.Usid.Reduce.
Import ListNotations.

Definition mom := (Z * Z * nat)%type.
Definition lift (x : Z) : mom := (x, (x * x)%Z, 1).
Definition mom0 : mom := (0%Z, 0%Z, 0).
Definition mom_add (a b : mom) : mom :=
  let '(s, q, c) := a in let '(s', q', c') := b in ((s + s')%Z, (q + q')%Z, c + c').
Definition mom_sum (l : list mom) : mom := fold_right mom_add mom0 l.
Definition nd_lift (a : nd Z) : nd mom := mkNd (nd_shape a) (map lift (nd_data a)).
Definition zsum (l : list Z) : Z := fold_right Z.add 0%Z l.

(** in memory: same N-D form and same axis lookup as [reduce_mem] *)
Definition reduce_mem_moments (main : list (list Z)) (pos spec : list (list nat)) (dims : list nat) : res (nd mom) :=
  match to_nd 0%Z main pos spec false with
  | Err e => Err e
  | Ok (a, labels) =>
      if negb (forallb (fun dm => existsb (Nat.eqb dm) labels) dims) then Err IndexE
      else Ok (nd_reduce (lift 0%Z) mom_sum (nd_lift a) (map (fun dm => index_of dm labels) dims))
  end.

(** written back: the same steps as [reduce_file] on the array of moments *)
Definition reduce_file_moments (main : list (list Z)) (pos spec : list (list nat)) (dims : list nat)
  : res (nat * nat * list mom * redside * redside) :=
  match reduce_mem_moments main pos spec dims with
  | Err e => Err e
  | Ok red =>
      let kp := ncols pos in
      let pred := filter (fun dm => Nat.ltb dm kp) dims in
      let sred := map (fun dm => dm - kp) (filter (fun dm => negb (Nat.ltb dm kp)) dims) in
      let '(pmat, pside) := match pred with
                            | [] => (pos, RReused)
                            | _ => let '(m, l) := write_reduced (transpose2d 0 pos) pred in (transpose2d 0 m, RWritten l (transpose2d 0 m))
                            end in
      let '(smat, sside) := match sred with
                            | [] => (spec, RReused)
                            | _ => let '(m, l) := write_reduced spec sred in (m, RWritten (map (fun e => kp + e) l) m)
                            end in
      match from_nd (lift 0%Z) red (Some pmat) (Some smat) with
      | Err e => Err e
      | Ok (rows, cols, data) =>
          if Nat.eqb rows 0 && Nat.eqb cols 0 then Err ValueE
          else Ok (rows, cols, data, pside, sside)
      end
  end.

(** * comparing an observed floating-point number n/d (d > 0, exact binary fraction) with the exact rational of the model.
    mean: |n/d - S/c| <= 2^-16 (|S|/c + 1);   std: |(n/d)^2 - V| <= 2^-16 (V + 1) with V = (c Q - S^2)/c^2, n >= 0 *)
Definition tol : Z := 65536%Z.
Definition mean_close (m : mom) (o : Z * Z) : bool :=
  let '(s, _, c) := m in let '(n, d) := o in let cz := Z.of_nat c in
  (0 <? d)%Z && (0 <? cz)%Z && (Z.abs (n * cz - s * d) * tol <=? (Z.abs s + cz) * d)%Z.
Definition std_close (m : mom) (o : Z * Z) : bool :=
  let '(s, q, c) := m in let '(n, d) := o in let cz := Z.of_nat c in
  let v := (cz * q - s * s)%Z in
  (0 <? d)%Z && (0 <? cz)%Z && (0 <=? n)%Z && (Z.abs (n * n * (cz * cz) - v * (d * d)) * tol <=? (v + cz * cz) * (d * d))%Z.
