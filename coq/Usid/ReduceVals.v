(** write_reduced_anc_dsets, the VALUES matrix: the same rows and columns as for the indices are kept, so every entry of the new
    values matrix is the original reference value of the index standing at the same place of the new index matrix. *)
From Coq Require Import List Arith Lia Bool ZArith.
Require Import V.Base.ListAux V.Base.Matrix V.Base.NdArray V.Usid.Reduce.
Import ListNotations.

Definition write_reduced_vals (inds : list (list nat)) (vals : list (list Z)) (red : list nat) : list (list Z) :=
  let k := length inds in
  if forallb (is_ax red) (seq 0 k) then [[0%Z]]                       (* 'Single_Step' placeholder *)
  else let keep := filter (fun d => negb (is_ax red d)) (seq 0 k) in
       map (fun d => map (fun c => nth c (nth d vals []) 0%Z) (reduced_cols inds red)) keep.

Lemma reduced_cols_lt inds red c : In c (reduced_cols inds red) -> c < ncols inds.
Proof. unfold reduced_cols. intros H. apply filter_In in H. destruct H as [H _]. apply in_seq in H. lia. Qed.

Theorem reduced_vals_pointwise (inds : list (list nat)) (vals : list (list Z)) (red : list nat) (vf : nat -> nat -> Z) :
  (forall d c, d < length inds -> c < ncols inds -> nth c (nth d vals []) 0%Z = vf d (nth c (nth d inds []) 0)) ->
  forallb (is_ax red) (seq 0 (length inds)) = false ->
  let ri := fst (write_reduced inds red) in
  let keep := snd (write_reduced inds red) in
  let rv := write_reduced_vals inds vals red in
  length rv = length keep /\
  forall i j, i < length keep -> j < length (reduced_cols inds red) ->
    nth j (nth i rv []) 0%Z = vf (nth i keep 0) (nth j (nth i ri []) 0).
Proof.
  intros Hv Hnall. unfold write_reduced, write_reduced_vals. rewrite Hnall. cbn [fst snd].
  set (keep := filter (fun d => negb (is_ax red d)) (seq 0 (length inds))).
  split; [now rewrite map_length|].
  intros i j Hi Hj.
  rewrite (nth_map' _ keep i 0 []) by exact Hi.
  rewrite (nth_map' (fun d => map (fun c => nth c (nth d inds []) 0) (reduced_cols inds red)) keep i 0 []) by exact Hi.
  rewrite (nth_map' _ (reduced_cols inds red) j 0 0%Z) by exact Hj.
  rewrite (nth_map' _ (reduced_cols inds red) j 0 0) by exact Hj.
  apply Hv.
  - assert (Hin : In (nth i keep 0) keep) by (apply nth_In; exact Hi). unfold keep in Hin. apply filter_In in Hin. destruct Hin as [Hin _].
    apply in_seq in Hin. fold keep in Hin. lia.
  - apply (reduced_cols_lt inds red). apply nth_In. exact Hj.
Qed.

(** the placeholder *)
Lemma reduced_vals_all inds vals red : forallb (is_ax red) (seq 0 (length inds)) = true -> write_reduced_vals inds vals red = [[0%Z]].
Proof. intros H. unfold write_reduced_vals. now rewrite H. Qed.

(** * on a regular grid: the new values matrix is the value function of the KEPT dimensions over the new (grid) index matrix,
      hence the unit values reported for the rebuilt side are the original unit values of the kept dimensions *)
Require Import V.Base.Radix V.Usid.SortOrder V.Usid.Grid V.Usid.ReduceGrid V.Usid.UnitValues V.Usid.UnitValuesGrid V.Usid.ToND.

Section ReducedValsGrid.
  Variables (sz so red : list nat) (f : nat -> nat -> Z).
  Hypothesis Hwf : wf_grid sz so.
  Let k := length sz.
  Let N := prod (radices sz so).
  Hypothesis Hkn : k <= N.
  Hypothesis Hk0 : 0 < k.
  Hypothesis Hred : Forall (fun d => d < k) red.
  Hypothesis Hsome : kept k red <> [].
  Let G := grid_spec sz so.
  Let vals := map (fun d => map (f d) (grid_row sz so d)) (seq 0 k).
  Let keep := kept k red.
  Let sz' := red_sz sz red.
  Let so' := red_so sz so red.

  Lemma vals_pointwise d c : d < length G -> c < ncols G -> nth c (nth d vals []) 0%Z = f d (nth c (nth d G []) 0).
  Proof.
    intros Hd Hc. unfold G in Hd, Hc. rewrite (G_len sz so) in Hd. rewrite (G_ncols sz so Hkn Hk0) in Hc. fold k in Hd.
    unfold vals. rewrite nth_map_seq by exact Hd. unfold G. rewrite (nth_G sz so d Hd).
    apply (nth_map' (f d) (grid_row sz so d) c 0 0%Z). now rewrite grid_row_len.
  Qed.

  Lemma not_all : forallb (is_ax red) (seq 0 (length G)) = false.
  Proof.
    unfold G. rewrite (G_len sz so). fold k.
    destruct (forallb (is_ax red) (seq 0 k)) eqn:E; [|reflexivity]. exfalso. apply Hsome. unfold kept.
    rewrite forallb_forall in E. induction (seq 0 k) as [|x l IH]; [reflexivity|]. simpl.
    rewrite (E x) by (now left). simpl. apply IH. intros y Hy. apply E. now right.
  Qed.

  Theorem reduced_vals_grid :
    write_reduced_vals G vals red = map (fun i => map (f (nth i keep 0)) (grid_row sz' so' i)) (seq 0 (length keep)).
  Proof.
    pose proof (reduced_vals_pointwise G vals red f vals_pointwise not_all) as H. cbv zeta in H.
    pose proof (write_reduced_grid sz so red Hwf Hkn Hk0 Hred Hsome) as HG. fold G sz' so' keep in HG.
    rewrite HG in H. cbn [fst snd] in H. destruct H as [Hlen Hent].
    apply (nth_ext _ _ [] []); [now rewrite Hlen, map_length, seq_length|].
    intros i Hi. rewrite Hlen in Hi. rewrite nth_map_seq by exact Hi.
    assert (Hcols : length (reduced_cols G red) = prod (radices sz' so')).
    { assert (E : length (nth i (fst (write_reduced G red)) []) = length (nth i (grid_spec sz' so') [])) by (now rewrite HG).
      unfold write_reduced in E. rewrite not_all in E. cbn [fst] in E.
      replace (filter (fun d => negb (is_ax red d)) (seq 0 (length G))) with keep in E
        by (unfold keep, kept, G; now rewrite (G_len sz so)).
      rewrite (nth_map' _ keep i 0 []) in E by exact Hi. rewrite map_length in E. rewrite E.
      unfold grid_spec. rewrite nth_map_seq by (unfold sz', red_sz; rewrite map_length; fold k keep; exact Hi). apply grid_row_len. }
    assert (Hrow_len : length (nth i (write_reduced_vals G vals red) []) = prod (radices sz' so')).
    { unfold write_reduced_vals. rewrite not_all.
      replace (filter (fun d => negb (is_ax red d)) (seq 0 (length G))) with keep
        by (unfold keep, kept, G; now rewrite (G_len sz so)).
      rewrite (nth_map' _ keep i 0 []) by exact Hi. now rewrite map_length. }
    apply (nth_ext _ _ 0%Z 0%Z); [now rewrite Hrow_len, map_length, grid_row_len|].
    intros j Hj. rewrite Hrow_len in Hj.
    rewrite (Hent i j Hi ltac:(rewrite Hcols; exact Hj)).
    rewrite (nth_map' (f (nth i keep 0)) (grid_row sz' so' i) j 0 0%Z) by (now rewrite grid_row_len).
    f_equal. unfold grid_spec. rewrite nth_map_seq by (unfold sz', red_sz; rewrite map_length; fold k keep; exact Hi). reflexivity.
  Qed.

  (** what get_unit_values then reports for the rebuilt side: for every kept dimension its ORIGINAL unit values, in index order *)
  Theorem reduced_unit_values :
    get_unit_values 0%Z (grid_spec sz' so') (write_reduced_vals G vals red) (Some true) (length sz')
    = Ok (map (fun i => map (f (nth i keep 0)) (seq 0 (nth (nth i keep 0) sz 1))) (seq 0 (length keep))).
  Proof.
    rewrite reduced_vals_grid.
    assert (Hl : length sz' = length keep) by (unfold sz', red_sz; now rewrite map_length).
    pose proof (unit_values_grid 0%Z (fun i => f (nth i keep 0)) sz' so' (wf' sz so red Hwf Hkn Hk0)) as U. cbv zeta in U.
    rewrite Hl in U. rewrite Hl. rewrite U. f_equal. apply map_ext_in. intros i Hi. apply in_seq in Hi. f_equal. f_equal.
    unfold sz', red_sz. fold k keep. rewrite (nth_map' _ keep i 0 1) by lia. reflexivity.
  Qed.
End ReducedValsGrid.
