(** write_ind_val_dsets, position shape: column i of row n describes the (k-1-i)-th fastest dimension (slowest first). *)
From Coq Require Import List Arith Lia Bool.
Require Import V.Base.ListAux V.Base.Radix V.Base.Matrix V.Usid.AncBuild.
Import ListNotations.

Lemma nth_row_transpose_length {A} (d : A) m j : j < ncols m -> length (nth j (transpose2d d m) []) = length m.
Proof.
  intros Hj. unfold transpose2d.
  rewrite (nth_indep _ [] (col d m 0)) by (rewrite map_length, seq_length; exact Hj).
  rewrite (map_nth (col d m) (seq 0 (ncols m)) 0 j). unfold col. now rewrite map_length.
Qed.

Lemma nth_map_rev {A} (m : list (list A)) n : nth n (map (@rev A) m) [] = rev (nth n m []).
Proof. change (@nil A) with (rev (@nil A)) at 1. apply map_nth. Qed.

Lemma ncols_build_ind lengths : Forall (fun r => 0 < r) lengths -> 0 < length lengths -> ncols (build_ind lengths) = prod lengths.
Proof.
  intros Hall Hk. unfold ncols. destruct (build_ind lengths) as [|r0 rest] eqn:E.
  - pose proof (build_ind_length lengths Hk) as Hl. rewrite E in Hl. simpl in Hl. lia.
  - assert (Hp : 0 < prod lengths).
    { clear -Hall. induction Hall as [|x l Hx _ IH]; simpl; [lia|]. apply Nat.mul_pos_pos; assumption. }
    destruct (build_ind_is_digits lengths 0 0 Hall Hk Hp) as [_ Hl]. rewrite E in Hl. exact Hl.
Qed.

Lemma ncols_build_val {V} (dv : V) (vals : list (list V)) :
  Forall (fun v => 0 < length v) vals -> 0 < length vals -> ncols (build_val vals) = prod (map (@length V) vals).
Proof.
  intros Hpos Hk. unfold ncols. destruct (build_val vals) as [|r0 rest] eqn:E.
  - pose proof (build_val_length vals Hk) as Hl. rewrite E in Hl. simpl in Hl. lia.
  - assert (Hp : 0 < prod (map (@length V) vals)).
    { clear -Hpos. induction Hpos as [|x l Hx _ IH]; simpl; [lia|]. apply Nat.mul_pos_pos; assumption. }
    destruct (nth_build_val dv vals 0 0 Hpos Hk Hp) as [_ Hl]. rewrite E in Hl. exact Hl.
Qed.

Theorem written_position_rows {L V} (dv : V) (dl : L) (dims : list (L * list V)) (s2f : bool) i n :
  let dims1 := if s2f then rev dims else dims in
  let lengths := map (fun d => length (snd d)) dims1 in
  let k := length dims in
  let '(wi, wv, wl) := write_ind_val dv dims false s2f in
  Forall (fun d => 0 < length (snd d)) dims -> i < k -> n < prod lengths ->
  nth i wl dl = fst (nth (k - S i) dims1 (dl, [])) /\
  nth i (nth n wi []) 0 = nth (k - S i) (digits lengths n) 0 /\
  nth i (nth n wv []) dv = nth (nth (k - S i) (digits lengths n) 0) (snd (nth (k - S i) dims1 (dl, []))) dv /\
  length wi = prod lengths /\ length (nth n wi []) = k.
Proof.
  cbv zeta. unfold write_ind_val, build_ind_val.
  set (dims1 := if s2f then rev dims else dims).
  assert (Hk1 : length dims1 = length dims) by (unfold dims1; destruct s2f; [apply rev_length|reflexivity]).
  intros Hpos Hi Hn.
  assert (Hpos1 : Forall (fun d => 0 < length (snd d)) dims1).
  { unfold dims1. destruct s2f; [|exact Hpos]. rewrite Forall_forall in *. intros x Hx. apply Hpos. now apply in_rev. }
  set (vals := map snd dims1).
  assert (Hlens : map (@length V) vals = map (fun d => length (snd d)) dims1) by (unfold vals; now rewrite map_map).
  assert (Hvk : length vals = length dims) by (unfold vals; now rewrite map_length).
  assert (Hvpos : Forall (fun v => 0 < length v) vals).
  { unfold vals. rewrite Forall_forall in *. intros v Hv. apply in_map_iff in Hv. destruct Hv as (x & <- & Hx). now apply Hpos1. }
  assert (Hlpos : Forall (fun r => 0 < r) (map (fun d => length (snd d)) dims1)).
  { rewrite Forall_forall in *. intros r Hr. apply in_map_iff in Hr. destruct Hr as (x & <- & Hx). now apply Hpos1. }
  rewrite Hlens.
  set (lengths := map (fun d => length (snd d)) dims1) in *.
  assert (Hlk : length lengths = length dims) by (unfold lengths; now rewrite map_length).
  assert (Hnc : ncols (build_ind lengths) = prod lengths) by (apply ncols_build_ind; [exact Hlpos|lia]).
  assert (Hncv : ncols (build_val vals) = prod lengths) by (rewrite (ncols_build_val dv vals Hvpos) by lia; now rewrite Hlens).
  assert (Hrl : length (nth n (transpose2d 0 (build_ind lengths)) []) = length dims).
  { rewrite nth_row_transpose_length by lia. rewrite build_ind_length; lia. }
  assert (Hrlv : length (nth n (transpose2d dv (build_val vals)) []) = length dims).
  { rewrite nth_row_transpose_length by lia. rewrite build_val_length; lia. }
  split; [|split; [|split; [|split]]].
  - rewrite (nth_indep _ dl (fst (dl, @nil V))) by (rewrite map_length, rev_length; lia).
    rewrite (map_nth fst (rev dims1) (dl, []) i). rewrite rev_nth by lia. now rewrite Hk1.
  - rewrite nth_map_rev, rev_nth by lia. rewrite Hrl, nth_transpose2d by lia.
    apply (build_ind_is_digits lengths (length dims - S i) n); try assumption; lia.
  - rewrite nth_map_rev, rev_nth by lia. rewrite Hrlv, nth_transpose2d by lia.
    destruct (nth_build_val dv vals (length dims - S i) n Hvpos ltac:(lia) ltac:(now rewrite Hlens)) as [H1 _].
    rewrite H1, Hlens. f_equal. unfold vals.
    rewrite (nth_indep _ [] (snd (dl, @nil V))) by (rewrite map_length; lia).
    apply (map_nth snd dims1 (dl, [])).
  - rewrite map_length, transpose2d_length. exact Hnc.
  - rewrite nth_map_rev, rev_length. exact Hrl.
Qed.
