(** USIDataset.reduce(to_hdf5=True) on grid datasets: the written matrix is laid out by the new grids and its element
    (r, c) is the reduced value at the coordinates that row r / column c of the new ancillary matrices carry. *)
From Coq Require Import List Arith Lia Bool ZArith.
Require Import V.Base.ListAux V.Base.CorrAux V.Base.Radix V.Base.Matrix V.Base.NdArray V.Usid.SortOrder V.Usid.ToND V.Usid.ToNDProof V.Usid.Grid V.Usid.SelEnum
               V.Usid.FromND V.Usid.FromNDProof V.Usid.GridRoundTrip V.Usid.GridFromNd V.Usid.Reduce V.Usid.ReduceProof V.Usid.AncBuildPos.
Require Import V.Usid.ReduceGrid.
Import ListNotations.

(** transposing a rectangular matrix twice gives it back *)
Lemma transpose2d_involutive (m : list (list nat)) c : rect m c -> 0 < c -> 0 < length m -> transpose2d 0 (transpose2d 0 m) = m.
Proof.
  intros Hr Hc Hm.
  assert (Hnc : ncols m = c) by (destruct m as [|r0 m]; [simpl in Hm; lia|inversion Hr; subst; reflexivity]).
  assert (Hnct : ncols (transpose2d 0 m) = length m).
  { unfold ncols. destruct (transpose2d 0 m) as [|r0 rest] eqn:E.
    - pose proof (transpose2d_length 0 m) as Hl. rewrite E in Hl. simpl in Hl. lia.
    - assert (H0 : nth 0 (transpose2d 0 m) [] = r0) by (now rewrite E). rewrite <- H0. apply nth_row_transpose_length. lia. }
  apply (nth_ext _ _ [] []); [rewrite transpose2d_length; exact Hnct|].
  intros i Hi. rewrite transpose2d_length, Hnct in Hi.
  assert (Hri : length (nth i m []) = c) by (unfold rect in Hr; rewrite Forall_forall in Hr; apply Hr, nth_In, Hi).
  apply (nth_ext _ _ 0 0); [rewrite nth_row_transpose_length by lia; rewrite transpose2d_length; lia|].
  intros j Hj. rewrite nth_row_transpose_length in Hj by lia. rewrite transpose2d_length, Hnc in Hj.
  rewrite nth_transpose2d by lia. apply nth_transpose2d. lia.
Qed.

(** nothing reduced: the descriptors are the original ones *)
Lemma filter_notred_nil (l : list nat) : filter (fun d => negb (is_ax [] d)) l = l.
Proof. induction l as [|x l IH]; [reflexivity|]. cbn [filter]. change (negb (is_ax [] x)) with true. cbn iota. now rewrite IH. Qed.
Lemma kept_nil k : kept k [] = seq 0 k.
Proof. unfold kept. apply filter_notred_nil. Qed.
Lemma red_sz_nil sz : red_sz sz [] = sz.
Proof.
  unfold red_sz. rewrite kept_nil. apply (nth_ext _ _ 1 1); [now rewrite map_length, seq_length|].
  intros i Hi. rewrite map_length, seq_length in Hi. now rewrite nth_map_seq.
Qed.
Lemma red_so_nil sz so : (forall x, In x so -> x < length sz) -> red_so sz so [] = so.
Proof.
  intros Hlt. unfold red_so. rewrite kept_nil.
  rewrite filter_notred_nil. rewrite <- (map_id so) at 2. apply map_ext_in. intros x Hx. specialize (Hlt x Hx).
  pose proof (index_of_nth (seq 0 (length sz)) (seq_NoDup _ 0) x ltac:(now rewrite seq_length)) as H. now rewrite seq_nth in H.
Qed.

(** the kept part of a shape, by flags, is the list of kept sizes *)
Lemma part_false_flags (shape : list nat) axes : 
  part false (ax_flags (length shape) axes) shape = map (fun d => nth d shape 1) (kept (length shape) axes).
Proof.
  unfold ax_flags, kept.
  assert (Hgen : forall sh off, part false (map (is_ax axes) (seq off (length sh))) sh
                                = map (fun d => nth (d - off) sh 1) (filter (fun d => negb (is_ax axes d)) (seq off (length sh)))).
  { induction sh as [|x sh IH]; intros off; [reflexivity|]. cbn [length seq map part filter].
    destruct (is_ax axes off) eqn:E; cbn [Bool.eqb negb].
    - rewrite IH. apply map_ext_in. intros d Hd. apply filter_In in Hd. destruct Hd as [Hd _]. apply in_seq in Hd.
      replace (d - off) with (S (d - S off)) by lia. reflexivity.
    - cbn [map]. rewrite Nat.sub_diag. cbn [nth]. f_equal. rewrite IH. apply map_ext_in. intros d Hd. apply filter_In in Hd. destruct Hd as [Hd _]. apply in_seq in Hd.
      replace (d - off) with (S (d - S off)) by lia. reflexivity. }
  rewrite (Hgen shape 0). apply map_ext. intros d. now rewrite Nat.sub_0_r.
Qed.

Lemma is_ax_filter_lt dims kp d : d < kp -> is_ax (filter (fun dm => Nat.ltb dm kp) dims) d = is_ax dims d.
Proof.
  intros Hd. unfold is_ax. induction dims as [|x l IH]; [reflexivity|]. simpl.
  destruct (Nat.ltb x kp) eqn:E; simpl; [now rewrite IH|].
  apply Nat.ltb_ge in E. replace (Nat.eqb d x) with false by (symmetry; apply Nat.eqb_neq; lia). exact IH.
Qed.
Lemma is_ax_filter_ge dims kp e :
  is_ax (map (fun dm => dm - kp) (filter (fun dm => negb (Nat.ltb dm kp)) dims)) e = is_ax dims (kp + e).
Proof.
  unfold is_ax. induction dims as [|x l IH]; [reflexivity|]. simpl.
  destruct (Nat.ltb x kp) eqn:E; simpl.
  - apply Nat.ltb_lt in E. replace (Nat.eqb (kp + e) x) with false by (symmetry; apply Nat.eqb_neq; lia). exact IH.
  - apply Nat.ltb_ge in E. rewrite IH. f_equal. destruct (Nat.eqb e (x - kp)) eqn:E1, (Nat.eqb (kp + e) x) eqn:E2; try reflexivity;
      [apply Nat.eqb_eq in E1; apply Nat.eqb_neq in E2; lia|apply Nat.eqb_neq in E1; apply Nat.eqb_eq in E2; lia].
Qed.

Lemma shape_split (szp szs dims : list nat) :
  let kp := length szp in
  map (fun d => nth d (szp ++ szs) 1) (kept (length (szp ++ szs)) dims)
  = red_sz szp (filter (fun dm => Nat.ltb dm kp) dims) ++ red_sz szs (map (fun dm => dm - kp) (filter (fun dm => negb (Nat.ltb dm kp)) dims)).
Proof.
  cbv zeta. unfold red_sz, kept. rewrite app_length, seq_app, filter_app, map_app. f_equal.
  - rewrite (filter_ext_in _ (fun d => negb (is_ax (filter (fun dm => Nat.ltb dm (length szp)) dims) d))).
    + apply map_ext_in. intros d Hd. apply filter_In in Hd. destruct Hd as [Hd _]. apply in_seq in Hd. apply app_nth1. lia.
    + intros d Hd. apply in_seq in Hd. now rewrite is_ax_filter_lt by lia.
  - cbn [Nat.add].
    assert (Hseq : seq (length szp) (length szs) = map (fun e => length szp + e) (seq 0 (length szs))).
    { generalize (length szs). intros n. rewrite <- (Nat.add_0_r (length szp)) at 1. generalize 0. induction n as [|n IH]; intros a; [reflexivity|].
      simpl. f_equal. rewrite <- IH. f_equal. lia. }
    rewrite Hseq. rewrite filter_map_comm, map_map.
    rewrite (filter_ext _ (fun e => negb (is_ax (map (fun dm => dm - length szp) (filter (fun dm => negb (Nat.ltb dm (length szp))) dims)) e)))
      by (intros e; now rewrite is_ax_filter_ge).
    apply map_ext. intros e. rewrite app_nth2 by lia. f_equal. lia.
Qed.

Lemma ncols_transpose_grid sz so : wf_grid sz so -> length sz <= prod (radices sz so) -> 0 < length sz ->
  ncols (transpose2d 0 (grid_spec sz so)) = length sz /\ transpose2d 0 (transpose2d 0 (grid_spec sz so)) = grid_spec sz so.
Proof.
  intros Hwf Hk H0. pose proof (N_pos sz so Hwf) as Hn.
  assert (Hrect : rect (grid_spec sz so) (prod (radices sz so))).
  { unfold rect, grid_spec. apply Forall_forall. intros r Hr. apply in_map_iff in Hr. destruct Hr as (d & <- & _). apply grid_row_len. }
  split; [|apply (transpose2d_involutive _ _ Hrect Hn); rewrite G_len; exact H0].
  unfold ncols. destruct (transpose2d 0 (grid_spec sz so)) as [|r0 rest] eqn:E.
  - pose proof (transpose2d_length 0 (grid_spec sz so)) as Hl. rewrite E, (G_ncols sz so Hk H0) in Hl. simpl in Hl. lia.
  - assert (H1 : nth 0 (transpose2d 0 (grid_spec sz so)) [] = r0) by (now rewrite E). rewrite <- H1.
    rewrite nth_row_transpose_length by (rewrite (G_ncols sz so Hk H0); exact Hn). apply G_len.
Qed.

Definition pbranch (pos : list (list nat)) (pred : list nat) : list (list nat) * redside :=
  match pred with
  | [] => (pos, RReused)
  | _ => let '(m, l) := write_reduced (transpose2d 0 pos) pred in (transpose2d 0 m, RWritten l (transpose2d 0 m))
  end.
Definition sbranch (spec : list (list nat)) (kp : nat) (sred : list nat) : list (list nat) * redside :=
  match sred with
  | [] => (spec, RReused)
  | _ => let '(m, l) := write_reduced spec sred in (m, RWritten (map (fun e => kp + e) l) m)
  end.

Lemma reduce_file_unfold main pos spec dims f :
  reduce_file main pos spec dims f =
  match reduce_mem main pos spec dims f with
  | Err e => Err e
  | Ok red =>
      let kp := ncols pos in
      let '(pmat, pside) := pbranch pos (filter (fun dm => Nat.ltb dm kp) dims) in
      let '(smat, sside) := sbranch spec kp (map (fun dm => dm - kp) (filter (fun dm => negb (Nat.ltb dm kp)) dims)) in
      match from_nd 0%Z red (Some pmat) (Some smat) with
      | Err e => Err e
      | Ok (rows, cols, data) => if Nat.eqb rows 0 && Nat.eqb cols 0 then Err ValueE else Ok (rows, cols, data, pside, sside)
      end
  end.
Proof. reflexivity. Qed.

Lemma pbranch_grid sz so pos red : wf_grid sz so -> length sz <= prod (radices sz so) -> 0 < length sz ->
  transpose2d 0 pos = grid_spec sz so -> ncols pos = length sz ->
  Forall (fun d => d < length sz) red -> kept (length sz) red <> [] ->
  length (red_sz sz red) <= prod (radices (red_sz sz red) (red_so sz so red)) -> 0 < length (red_sz sz red) ->
  exists pm ps, pbranch pos red = (pm, ps) /\ transpose2d 0 pm = grid_spec (red_sz sz red) (red_so sz so red) /\ ncols pm = length (red_sz sz red).
Proof.
  intros Hwf Hk H0 Hpt Hpc Hred Hkeep Hk' H0'. unfold pbranch. destruct red as [|r0 rr].
  - exists pos, RReused. rewrite red_sz_nil, red_so_nil by (apply Hwf). auto.
  - rewrite Hpt, (write_reduced_grid sz so (r0 :: rr) Hwf Hk H0 Hred Hkeep).
    pose proof (wf' sz so (r0 :: rr) Hwf Hk H0) as Hwf'.
    destruct (ncols_transpose_grid _ _ Hwf' Hk' H0') as [Hc Ht].
    eexists. eexists. split; [reflexivity|]. split; [exact Ht|exact Hc].
Qed.

Lemma sbranch_grid sz so kp red : wf_grid sz so -> length sz <= prod (radices sz so) -> 0 < length sz ->
  Forall (fun d => d < length sz) red -> kept (length sz) red <> [] ->
  exists ss, sbranch (grid_spec sz so) kp red = (grid_spec (red_sz sz red) (red_so sz so red), ss).
Proof.
  intros Hwf Hk H0 Hred Hkeep. unfold sbranch. destruct red as [|r0 rr].
  - exists RReused. rewrite red_sz_nil, red_so_nil by (apply Hwf). reflexivity.
  - rewrite (write_reduced_grid sz so (r0 :: rr) Hwf Hk H0 Hred Hkeep). eexists. reflexivity.
Qed.

Section ReduceFile.
  Variables (szp sop szs sos : list nat) (main : list (list Z)) (pos : list (list nat)) (dims : list nat) (f : redfn).
  Hypothesis Hwfp : wf_grid szp sop.
  Hypothesis Hwfs : wf_grid szs sos.
  Let kp := length szp.
  Let ks := length szs.
  Let N := prod (radices szp sop).
  Let M := prod (radices szs sos).
  Hypothesis Hkp : kp <= N.
  Hypothesis Hks : ks <= M.
  Hypothesis Hkp0 : 0 < kp.
  Hypothesis Hks0 : 0 < ks.
  Hypothesis Hmain_rows : length main = N.
  Hypothesis Hmain_rect : rect main M.
  Hypothesis Hpos_t : transpose2d 0 pos = grid_spec szp sop.
  Hypothesis Hpos_c : ncols pos = kp.
  Let spec := grid_spec szs sos.
  Hypothesis Hdims : Forall (fun dm => dm < kp + ks) dims.
  Let pred := filter (fun dm => Nat.ltb dm kp) dims.
  Let sred := map (fun dm => dm - kp) (filter (fun dm => negb (Nat.ltb dm kp)) dims).
  Let szp' := red_sz szp pred.
  Let sop' := red_so szp sop pred.
  Let szs' := red_sz szs sred.
  Let sos' := red_so szs sos sred.
  (** at least one dimension is left on either side, and the orientation heuristic stays harmless after the reduction *)
  Hypothesis Hkeep_p : kept kp pred <> [].
  Hypothesis Hkeep_s : kept ks sred <> [].
  Hypothesis Hkp' : length szp' <= prod (radices szp' sop').
  Hypothesis Hks' : length szs' <= prod (radices szs' sos').
  Let pmat' := transpose2d 0 (grid_spec szp' sop').
  Let smat' := grid_spec szs' sos'.
  Let N' := prod (radices szp' sop').
  Let M' := prod (radices szs' sos').

  Lemma pred_lt : Forall (fun d => d < kp) pred.
  Proof. unfold pred. apply Forall_forall. intros d Hd. apply filter_In in Hd. destruct Hd as [_ Hd]. now apply Nat.ltb_lt. Qed.
  Lemma sred_lt : Forall (fun d => d < ks) sred.
  Proof.
    unfold sred. apply Forall_forall. intros e He. apply in_map_iff in He. destruct He as (dm & <- & Hdm). apply filter_In in Hdm.
    destruct Hdm as [Hin Hge]. apply negb_true_iff, Nat.ltb_ge in Hge. rewrite Forall_forall in Hdims. specialize (Hdims dm Hin). lia.
  Qed.

  Lemma len_szp' : 0 < length szp'.
  Proof. unfold szp', red_sz. rewrite map_length. fold kp. destruct (kept kp pred); [congruence|simpl; lia]. Qed.
  Lemma len_szs' : 0 < length szs'.
  Proof. unfold szs', red_sz. rewrite map_length. fold ks. destruct (kept ks sred); [congruence|simpl; lia]. Qed.

  (** written back: the flattened reduced array is laid out by the NEW grids; element (r, c) is the reduced value at the
      coordinates carried by row r / column c of the new ancillary matrices *)
  Theorem reduce_file_coordinates :
    exists a data pside sside,
      to_nd 0%Z main pos spec false = Ok (a, seq 0 (kp + ks)) /\ nd_shape a = szp ++ szs /\
      reduce_mem main pos spec dims f = Ok (nd_reduce 0%Z (apply_fn f) a dims) /\
      reduce_file main pos spec dims f = Ok (N', M', data, pside, sside) /\ length data = N' * M' /\
      forall r c, r < N' -> c < M' ->
        nth (r * M' + c) data 0%Z
        = nd_get 0%Z (nd_reduce 0%Z (apply_fn f) a dims) (pos_row pmat' (length szp') r ++ spec_col smat' (length szs') c).
  Proof.
    destruct (grid_to_nd 0%Z szp sop szs sos Hwfp Hwfs Hkp Hks Hkp0 Hks0 main pos Hmain_rows Hmain_rect Hpos_t Hpos_c) as (a & Ha & _ & _ & _).
    fold spec kp ks in Ha.
    destruct (grid_nd_shape 0%Z szp sop szs sos Hwfp Hwfs Hkp Hks Hkp0 Hks0 main pos Hmain_rows Hmain_rect Hpos_t Hpos_c a _ Ha) as [Hsa _].
    assert (Hmem : reduce_mem main pos spec dims f = Ok (nd_reduce 0%Z (apply_fn f) a dims)).
    { unfold reduce_mem. rewrite Ha.
      assert (Hall : forallb (fun dm => existsb (Nat.eqb dm) (seq 0 (kp + ks))) dims = true).
      { apply forallb_forall. intros dm Hin. rewrite Forall_forall in Hdims. apply existsb_exists. exists dm.
        split; [apply in_seq; specialize (Hdims dm Hin); lia|apply Nat.eqb_refl]. }
      rewrite Hall. cbn [negb]. f_equal. f_equal.
      rewrite <- (map_id dims) at 2. apply map_ext_in. intros dm Hin. rewrite Forall_forall in Hdims. specialize (Hdims dm Hin).
      pose proof (index_of_nth (seq 0 (kp + ks)) (seq_NoDup _ 0) dm ltac:(now rewrite seq_length)) as Hi.
      rewrite seq_nth in Hi by exact Hdims. exact Hi. }
    set (red := nd_reduce 0%Z (apply_fn f) a dims) in *.
    (* shape and size of the reduced array *)
    assert (Hsred : nd_shape red = szp' ++ szs').
    { unfold red, nd_reduce. cbn [nd_shape]. rewrite Hsa, part_false_flags. apply shape_split. }
    assert (Hdred : length (nd_data red) = prod (nd_shape red)).
    { unfold red, nd_reduce. cbn [nd_shape nd_data]. now rewrite map_length, all_idx_length. }
    (* the new matrices *)
    pose proof (wf' szp sop pred Hwfp Hkp Hkp0) as Hwfp'. fold szp' sop' in Hwfp'.
    pose proof (wf' szs sos sred Hwfs Hks Hks0) as Hwfs'. fold szs' sos' in Hwfs'.
    destruct (ncols_transpose_grid szp' sop' Hwfp' Hkp' len_szp') as [Hpc Hpt]. fold pmat' in Hpc, Hpt.
    destruct (pbranch_grid szp sop pos pred Hwfp Hkp Hkp0 Hpos_t Hpos_c pred_lt Hkeep_p Hkp' len_szp') as (pm & pside & Hpb & Hpm_t & Hpm_c).
    fold szp' sop' in Hpm_t, Hpm_c.
    destruct (sbranch_grid szs sos kp sred Hwfs Hks Hks0 sred_lt Hkeep_s) as (sside & Hsb). fold szs' sos' smat' spec in Hsb.
    destruct (grid_from_nd 0%Z szp' sop' szs' sos' Hwfp' Hwfs' Hkp' Hks' len_szp' len_szs' pm Hpm_t Hpm_c red Hsred Hdred)
      as (data & Hfrom & Hlen & Hget).
    fold smat' N' M' in Hfrom, Hlen, Hget.
    exists a, data, pside, sside. split; [exact Ha|]. split; [exact Hsa|]. split; [exact Hmem|].
    split; [|split; [exact Hlen|]].
    - rewrite reduce_file_unfold, Hmem. cbv zeta. rewrite Hpos_c. fold kp pred sred. rewrite Hpb, Hsb. fold red. rewrite Hfrom.
      assert (HN' : 0 < N') by (apply (N_pos szp' sop' Hwfp')).
      replace (Nat.eqb N' 0) with false by (symmetry; apply Nat.eqb_neq; lia). reflexivity.
    - intros r c Hr Hc. rewrite (Hget r c Hr Hc). f_equal. f_equal.
      (* rows of pm and of pmat' coincide: both are the transposes of the same grid matrix *)
      unfold pos_row. apply map_ext_in. intros d Hd. apply in_seq in Hd.
      rewrite <- (nth_transpose2d 0 pm r d) by (rewrite Hpm_c; lia).
      rewrite <- (nth_transpose2d 0 pmat' r d) by (rewrite Hpc; lia).
      now rewrite Hpm_t, Hpt.
  Qed.
End ReduceFile.
