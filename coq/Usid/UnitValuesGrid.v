(** get_unit_values on (sliced) regular grids: rows have the tile / repeat form, on which the algorithm (minimum positions,
    step sizes, tile starts, identical tiles, positions of change) returns the values at the first occurrence of each index. *)
From Coq Require Import List Arith Lia Bool ZArith Sorted.
Require Import V.Base.ListAux V.Base.CorrAux V.Base.Radix V.Base.Matrix V.Base.NdArray V.Usid.SortOrder V.Usid.ToND V.Usid.ToNDProof V.Usid.UnitValues
               V.Usid.Grid V.Usid.SliceProof V.Usid.SelEnum.
Import ListNotations.

(** ** numpy helpers as filters / maps over index ranges *)
Lemma seq_S_map a n : seq (S a) n = map S (seq a n).
Proof. symmetry. apply seq_shift. Qed.

Lemma where_from_filter l x : forall i,
  where_from l x i = map (fun k => i + k) (filter (fun k => Nat.eqb (nth k l 0) x) (seq 0 (length l))).
Proof.
  induction l as [|y l IH]; intros i; [reflexivity|]. cbn [where_from length seq filter nth].
  rewrite seq_S_map, filter_map_comm.
  destruct (Nat.eqb y x); cbn [map]; rewrite map_map, IH; [f_equal; [lia|]|]; apply map_ext; intros k; lia.
Qed.

Lemma where_eq_filter l x : where_eq l x = filter (fun k => Nat.eqb (nth k l 0) x) (seq 0 (length l)).
Proof. unfold where_eq. rewrite where_from_filter. rewrite <- (map_id (filter _ _)) at 2. apply map_ext. intros k. reflexivity. Qed.

Lemma where_true_from_filter m : forall i,
  where_true_from m i = map (fun k => i + k) (filter (fun k => nth k m false) (seq 0 (length m))).
Proof.
  induction m as [|b m IH]; intros i; [reflexivity|]. cbn [where_true_from length seq filter nth].
  rewrite seq_S_map, filter_map_comm.
  destruct b; cbn [map]; rewrite map_map, IH; [f_equal; [lia|]|]; apply map_ext; intros k; lia.
Qed.

Lemma where_true_filter m : where_true m = filter (fun k => nth k m false) (seq 0 (length m)).
Proof. unfold where_true. rewrite where_true_from_filter. rewrite <- (map_id (filter _ _)) at 2. apply map_ext. intros k. reflexivity. Qed.

Lemma diffZ_map_seq (g : nat -> nat) m : forall a,
  diffZ (map g (seq a m)) = map (fun k => (Z.of_nat (g (S k)) - Z.of_nat (g k))%Z) (seq a (m - 1)).
Proof.
  induction m as [|m IH]; intros a; [reflexivity|]. destruct m as [|m]; [reflexivity|].
  specialize (IH (S a)). replace (S (S m) - 1) with (S m) by lia. replace (S m - 1) with m in IH by lia.
  cbn [seq map diffZ] in *. now rewrite IH.
Qed.

Lemma sorted_nth_lt (c : list nat) : StronglySorted lt c -> forall i j, i < j -> j < length c -> nth i c 0 < nth j c 0.
Proof.
  induction 1 as [|x c Hs IH Hall]; intros i j Hij Hj; simpl in *; [lia|].
  destruct j as [|j]; [lia|]. destruct i as [|i].
  - rewrite Forall_forall in Hall. apply Hall, nth_In. lia.
  - apply IH; lia.
Qed.

Lemma fold_min_ge l : forall a m, m <= a -> Forall (fun x => m <= x) l -> m <= fold_left Nat.min l a.
Proof. induction l as [|x l IH]; intros a m Ha Hl; simpl; [exact Ha|]. inversion Hl; subst. apply IH; [lia|assumption]. Qed.
Lemma fold_min_le l : forall a, fold_left Nat.min l a <= a.
Proof. induction l as [|x l IH]; intros a; simpl; [lia|]. specialize (IH (Nat.min a x)). lia. Qed.

Lemma list_min_hd l m : hd 0 l = m -> Forall (fun x => m <= x) l -> list_min l = m.
Proof.
  intros Hh Hall. unfold list_min. rewrite Hh.
  pose proof (fold_min_le l m). pose proof (fold_min_ge l m m ltac:(lia) Hall). lia.
Qed.

Lemma hd_nth0 {A} (d : A) l : hd d l = nth 0 l d.
Proof. now destruct l. Qed.
Lemma filter_all' {A} (f : A -> bool) l : (forall x, In x l -> f x = true) -> filter f l = l.
Proof. induction l as [|x l IH]; intros H; simpl; [reflexivity|]. rewrite (H x) by (now left). f_equal. apply IH. intros y Hy. apply H. now right. Qed.

Lemma filter_filter_and {A} (p q : A -> bool) l : filter q (filter p l) = filter (fun x => p x && q x) l.
Proof. induction l as [|x l IH]; [reflexivity|]. simpl. destruct (p x); simpl; [destruct (q x); now rewrite IH|exact IH]. Qed.

Lemma seq_cons_pred n : 0 < n -> seq 0 n = 0 :: seq 1 (n - 1).
Proof. intros H. destruct n as [|n']; [lia|]. replace (S n' - 1) with n' by lia. reflexivity. Qed.

(** unit_values_row after the check that the minimum sits at position 0 *)
Definition uvr_body {V} (dv : V) (inds : list nat) (vals : list V) (starts : list nat) : option (list V) :=
  let step_sizes := 1%Z :: diffZ starts in
  let distinct_nonunit := nodup Z.eq_dec (filter (fun z => negb (Z.eqb z 1)) step_sizes) in
  if Nat.ltb 1 (length distinct_nonunit) then None
  else
    let ts := where_true (map (fun z => Z.ltb 1 z) step_sizes) in
    let n := length inds in
    let tile_starts := match ts with
                       | [] => [0; n]
                       | _ => (0 :: map (fun i => nth i starts 0) ts) ++ [n]
                       end in
    let subsections := map (fun i => slice inds (nth i tile_starts 0) (nth (S i) tile_starts 0)) (seq 0 (length tile_starts - 1)) in
    let first := hd [] subsections in
    if negb (forallb (fun sub => list_eqb Nat.eqb sub first) subsections) then None
    else
      let subsection := slice inds (nth 0 tile_starts 0) (nth 1 tile_starts 0) in
      let step_inds := 0 :: map S (where_true (map (fun z => negb (Z.eqb z 0)) (diffZ subsection))) in
      Some (map (fun i => nth i vals dv) step_inds).

Lemma unit_values_row_body {V} (dv : V) inds vals starts :
  where_eq inds (list_min inds) = starts -> hd 1 starts = 0 -> starts <> [] -> unit_values_row dv inds vals = uvr_body dv inds vals starts.
Proof.
  intros Hs H0 Hne. unfold unit_values_row. rewrite Hs. destruct starts as [|s0 rest]; [congruence|]. simpl in H0. subst s0. reflexivity.
Qed.

Section Row.
  Variables (c : list nat) (st t : nat).
  Hypothesis Hc : StronglySorted lt c.
  Hypothesis Hs : 0 < length c.
  Hypothesis Hst : 0 < st.
  Hypothesis Ht : 0 < t.
  Let s := length c.
  Let L := s * st.
  Let n := t * L.
  Let B := repeat_each c st.
  Let R := tile B t.
  Let m0 := nth 0 c 0.

  Lemma L_pos : 0 < L.
  Proof. unfold L, s. nia. Qed.
  Lemma B_len : length B = L.
  Proof. unfold B. apply repeat_each_length. Qed.
  Lemma R_len : length R = n.
  Proof. unfold R. rewrite tile_length, B_len. reflexivity. Qed.
  Lemma B_nth i : i < L -> nth i B 0 = nth (i / st) c 0.
  Proof. intros Hi. unfold B. apply nth_repeat_each; [exact Hst|exact Hi]. Qed.
  Lemma R_nth k : k < n -> nth k R 0 = nth ((k mod L) / st) c 0.
  Proof.
    intros Hk. unfold R. rewrite nth_tile by (rewrite B_len; exact Hk). rewrite B_len.
    apply B_nth. apply Nat.mod_upper_bound. pose proof L_pos. lia.
  Qed.

  Lemma div_lt_s i : i < L -> i / st < s.
  Proof. intros Hi. apply Nat.div_lt_upper_bound; [lia|]. unfold L in Hi. lia. Qed.

  Lemma R_min : list_min R = m0.
  Proof.
    apply list_min_hd.
    - pose proof L_pos as HL. assert (Hn : 0 < n) by (unfold n; nia).
      rewrite hd_nth0, R_nth by exact Hn. rewrite Nat.mod_0_l, Nat.div_0_l by lia. reflexivity.
    - apply Forall_forall. intros x Hx. apply (In_nth _ _ 0) in Hx. destruct Hx as (k & Hk & <-). rewrite R_len in Hk.
      rewrite R_nth by exact Hk. set (i := (k mod L) / st).
      assert (Hi : i < s) by (apply div_lt_s, Nat.mod_upper_bound; pose proof L_pos; lia).
      destruct i as [|i']; [unfold m0; lia|]. unfold m0. pose proof (sorted_nth_lt c Hc 0 (S i') ltac:(lia) Hi). lia.
  Qed.

  (** positions holding the minimum: the first st entries of every tile *)
  Lemma is_min_iff k : k < n -> (Nat.eqb (nth k R 0) m0 = true <-> k mod L < st).
  Proof.
    intros Hk. rewrite R_nth by exact Hk. rewrite Nat.eqb_eq. set (i := (k mod L) / st).
    assert (Hi : i < s) by (apply div_lt_s, Nat.mod_upper_bound; pose proof L_pos; lia).
    split.
    - intros E. destruct (Nat.eq_dec i 0) as [Ei|Ei].
      + unfold i in Ei. apply Nat.div_small_iff in Ei; lia.
      + unfold m0 in E. pose proof (sorted_nth_lt c Hc 0 i ltac:(lia) Hi). lia.
    - intros H. unfold i. now rewrite Nat.div_small.
  Qed.

  Definition g (k : nat) : nat := (k / st) * L + k mod st.

  Lemma starts_closed : where_eq R m0 = map g (seq 0 (st * t)).
  Proof.
    rewrite where_eq_filter, R_len.
    rewrite (filter_ext_in _ (fun k => Nat.ltb (k mod L) st)).
    2:{ intros k Hk. apply in_seq in Hk. apply eq_iff_eq_true. rewrite Nat.ltb_lt. apply is_min_iff. lia. }
    unfold n. replace (t * L) with (L * t) by lia.
    replace (seq 0 (L * t)) with (seq (0 * L) (L * t)) by reflexivity. rewrite seq_blocks, filter_flat_map.
    replace (seq 0 (st * t)) with (seq (0 * st) (st * t)) by reflexivity. rewrite seq_blocks, map_flat_map.
    apply flat_map_ext_in. intros q _.
    rewrite filter_map_comm, map_map.
    rewrite (filter_ext_in _ (fun i => Nat.ltb i st)).
    2:{ intros i Hi. apply in_seq in Hi. f_equal. rewrite Nat.add_comm, Nat.mod_add by (pose proof L_pos; lia). apply Nat.mod_small. lia. }
    assert (Hf : filter (fun i => Nat.ltb i st) (seq 0 L) = seq 0 st).
    { assert (Hle : st <= L) by (unfold L, s; nia). replace L with (st + (L - st)) by lia. rewrite seq_app, filter_app.
      rewrite (filter_all' (fun i => Nat.ltb i st)) by (intros x Hx; apply in_seq in Hx; apply Nat.ltb_lt; lia).
      rewrite (filter_none (fun i => Nat.ltb i st)) by (intros x Hx; apply in_seq in Hx; apply Nat.ltb_ge; lia).
      apply app_nil_r. }
    rewrite Hf. apply map_ext_in. intros i Hi. apply in_seq in Hi. unfold g.
    assert (E1 : (q * st + i) / st = q) by (rewrite Nat.add_comm, Nat.div_add by lia; rewrite Nat.div_small by lia; lia).
    assert (E2 : (q * st + i) mod st = i) by (rewrite Nat.add_comm, Nat.mod_add by lia; apply Nat.mod_small; lia).
    now rewrite E1, E2.
  Qed.

  Definition D : Z := Z.of_nat (L - st + 1).
  Definition step (k : nat) : Z := if Nat.ltb 0 k && Nat.eqb (k mod st) 0 then D else 1%Z.

  Lemma g_step k : (Z.of_nat (g (S k)) - Z.of_nat (g k))%Z = step (S k).
  Proof.
    unfold step, g, D. cbn [Nat.ltb Nat.leb andb].
    assert (Hle : st <= L) by (unfold L, s; nia).
    pose proof (Nat.div_mod k st ltac:(lia)) as Hk. pose proof (Nat.mod_upper_bound k st ltac:(lia)) as Hm.
    set (q := k / st) in *. set (i := k mod st) in *.
    destruct (Nat.eq_dec (S i) st) as [E|E].
    - assert (H1 : S k = (q + 1) * st) by nia.
      assert (E1 : S k / st = q + 1) by (rewrite H1; apply Nat.div_mul; lia).
      assert (E2 : S k mod st = 0) by (rewrite H1; apply Nat.mod_mul; lia).
      rewrite E1, E2. cbn [Nat.eqb]. nia.
    - assert (H1 : S k = q * st + S i) by lia.
      assert (E1 : S k / st = q) by (rewrite H1, Nat.add_comm, Nat.div_add by lia; rewrite Nat.div_small by lia; lia).
      assert (E2 : S k mod st = S i) by (rewrite H1, Nat.add_comm, Nat.mod_add by lia; apply Nat.mod_small; lia).
      rewrite E1, E2. cbn [Nat.eqb]. lia.
  Qed.

  Lemma step_sizes_closed : (1%Z :: diffZ (map g (seq 0 (st * t)))) = map step (seq 0 (st * t)).
  Proof.
    rewrite diffZ_map_seq. assert (Hm : 0 < st * t) by nia.
    replace (st * t) with (S (st * t - 1)) at 2 by lia. cbn [seq map]. f_equal.
    rewrite seq_S_map, map_map. apply map_ext. intros k. apply g_step.
  Qed.

  (** multiples of st below st * m *)
  Lemma multiples_closed m : filter (fun k => Nat.eqb (k mod st) 0) (seq 0 (st * m)) = map (fun q => q * st) (seq 0 m).
  Proof.
    replace (seq 0 (st * m)) with (seq (0 * st) (st * m)) by reflexivity. rewrite seq_blocks, filter_flat_map.
    rewrite <- (flat_map_concat_map (fun q => [q * st])) || idtac.
    induction (seq 0 m) as [|q l IH]; [reflexivity|]. cbn [flat_map map]. rewrite IH.
    rewrite filter_map_comm.
    rewrite (filter_ext_in _ (fun i => Nat.eqb i 0)).
    2:{ intros i Hi. apply in_seq in Hi. f_equal. rewrite Nat.add_comm, Nat.mod_add by lia. apply Nat.mod_small. lia. }
    assert (Hf : filter (fun i => Nat.eqb i 0) (seq 0 st) = [0]).
    { destruct st as [|st']; [lia|]. cbn [seq filter Nat.eqb]. f_equal. apply filter_none. intros x Hx. apply in_seq in Hx. apply Nat.eqb_neq. lia. }
    rewrite Hf. cbn [map app]. f_equal. lia.
  Qed.

  Lemma step_big k : (1 <? step k)%Z = Nat.ltb 0 k && Nat.eqb (k mod st) 0 && Nat.ltb 1 s.
  Proof.
    unfold step, D. destruct (Nat.ltb 0 k && Nat.eqb (k mod st) 0); cbn [andb]; [|reflexivity].
    destruct (Nat.ltb 1 s) eqn:E.
    - apply Nat.ltb_lt in E. apply Z.ltb_lt. unfold L. nia.
    - apply Nat.ltb_ge in E. apply Z.ltb_ge. assert (s = 1) by (unfold s in *; lia). unfold L. nia.
  Qed.

  (** positions of the big steps among the step sizes *)
  Lemma ts_closed : where_true (map (fun z => (1 <? z)%Z) (map step (seq 0 (st * t))))
                    = if Nat.ltb 1 s then map (fun q => q * st) (seq 1 (t - 1)) else [].
  Proof.
    rewrite where_true_filter, !map_length, seq_length.
    rewrite (filter_ext_in _ (fun k => Nat.ltb 0 k && Nat.eqb (k mod st) 0 && Nat.ltb 1 s)).
    2:{ intros k Hk. apply in_seq in Hk. rewrite map_map.
        rewrite (nth_map' (fun x => (1 <? step x)%Z) (seq 0 (st * t)) k 0 false) by (rewrite seq_length; lia).
        rewrite seq_nth by lia. apply step_big. }
    destruct (Nat.ltb 1 s).
    - rewrite (filter_ext _ (fun k => Nat.eqb (k mod st) 0 && Nat.ltb 0 k)) by (intros k; rewrite andb_true_r; apply andb_comm).
      rewrite <- filter_filter_and. rewrite multiples_closed, filter_map_comm.
      rewrite (filter_ext _ (fun q => Nat.ltb 0 q)).
      2:{ intros q. destruct q; [reflexivity|]. apply Nat.ltb_lt. nia. }
      f_equal. destruct t as [|t']; [lia|]. cbn [seq filter Nat.ltb Nat.leb]. replace (S t' - 1) with t' by lia.
      apply filter_all'. intros x Hx. apply in_seq in Hx. destruct x; [lia|reflexivity].
    - apply filter_none. intros k _. now rewrite andb_false_r.
  Qed.

  Lemma slice_tile i : i < t -> slice R (i * L) ((i + 1) * L) = B.
  Proof.
    intros Hi. assert (Hb : (i + 1) * L <= length R) by (rewrite R_len; unfold n; nia).
    apply (nth_ext _ _ 0 0); [rewrite slice_length by exact Hb; rewrite B_len; lia|].
    intros j Hj. rewrite slice_length in Hj by exact Hb. assert (HjL : j < L) by lia.
    rewrite nth_slice by (try exact Hb; lia). unfold R. rewrite nth_tile by (rewrite B_len; nia). rewrite B_len.
    f_equal. rewrite Nat.add_comm, Nat.mod_add by lia. apply Nat.mod_small. exact HjL.
  Qed.

  Lemma slice_whole : slice R 0 n = R.
  Proof. unfold slice. rewrite Nat.sub_0_r. cbn [skipn]. apply firstn_all2. rewrite R_len. lia. Qed.

  (** the block as a function of the position *)
  Lemma B_closed : B = map (fun i => nth (i / st) c 0) (seq 0 L).
  Proof.
    apply (nth_ext _ _ 0 0); [now rewrite map_length, seq_length, B_len|].
    intros i Hi. rewrite B_len in Hi. rewrite nth_map_seq by exact Hi. now apply B_nth.
  Qed.

  (** where the block changes value: just before every multiple of st (except the end) *)
  Lemma block_changes : map S (where_true (map (fun z => negb (Z.eqb z 0)) (diffZ B))) = map (fun i => i * st) (seq 1 (s - 1)).
  Proof.
    rewrite B_closed at 1. rewrite diffZ_map_seq, where_true_filter, !map_length, seq_length.
    rewrite (filter_ext_in _ (fun k => Nat.eqb (S k mod st) 0)).
    2:{ intros k Hk. apply in_seq in Hk. rewrite map_map.
        rewrite (nth_map' _ (seq 0 (L - 1)) k 0 false) by (rewrite seq_length; lia). rewrite seq_nth by lia. cbn [Nat.add].
        pose proof (Nat.div_mod k st ltac:(lia)) as Hkd. pose proof (Nat.mod_upper_bound k st ltac:(lia)) as Hm.
        set (q := k / st) in *. set (i := k mod st) in *.
        destruct (Nat.eq_dec (S i) st) as [E|E].
        - assert (H1 : S k = (q + 1) * st) by nia.
          assert (E1 : S k / st = q + 1) by (rewrite H1; apply Nat.div_mul; lia).
          assert (E2 : S k mod st = 0) by (rewrite H1; apply Nat.mod_mul; lia).
          rewrite E1, E2. cbn [Nat.eqb].
          assert (Hq : q + 1 < s) by (apply (Nat.mul_lt_mono_pos_r st); [lia|]; unfold L in Hk; lia).
          pose proof (sorted_nth_lt c Hc q (q + 1) ltac:(lia) Hq) as Hlt.
          apply negb_true_iff, Z.eqb_neq. lia.
        - assert (H1 : S k = q * st + S i) by lia.
          assert (E1 : S k / st = q) by (rewrite H1, Nat.add_comm, Nat.div_add by lia; rewrite Nat.div_small by lia; lia).
          assert (E2 : S k mod st = S i) by (rewrite H1, Nat.add_comm, Nat.mod_add by lia; apply Nat.mod_small; lia).
          rewrite E1, E2. cbn [Nat.eqb]. apply negb_false_iff, Z.eqb_eq. lia. }
    (* S k ranges over 1 .. L-1 *)
    rewrite <- filter_map_comm with (g := S) (f := fun k => Nat.eqb (k mod st) 0).
    rewrite seq_shift.
    assert (Hsplit : seq 0 (st * s) = 0 :: seq 1 (L - 1)) by (unfold L; replace (st * s) with (S (s * st - 1)) by nia; reflexivity).
    pose proof (multiples_closed s) as Hm. rewrite Hsplit in Hm. cbn [filter] in Hm. rewrite Nat.mod_0_l in Hm by lia. cbn [Nat.eqb] in Hm.
    replace (seq 0 s) with (0 :: seq 1 (s - 1)) in Hm by (destruct s as [|s'] eqn:Es; [unfold s in Es; lia|]; replace (S s' - 1) with s' by lia; reflexivity).
    cbn [map] in Hm. injection Hm as Hm. exact Hm.
  Qed.

  Lemma nodup_all_equal (l : list Z) (v : Z) : (forall x, In x l -> x = v) -> length (nodup Z.eq_dec l) <= 1.
  Proof.
    induction l as [|x l IH]; intros H; simpl; [lia|].
    destruct (in_dec Z.eq_dec x l) as [_|Hn]; [apply IH; intros y Hy; apply H; now right|].
    simpl. assert (Hl : forall y, In y l -> False).
    { intros y Hy. apply Hn. rewrite (H x) by (now left). rewrite <- (H y) by (now right). exact Hy. }
    destruct l as [|y l]; [simpl; lia|]. exfalso. apply (Hl y). now left.
  Qed.

  Lemma nonunit_steps_le1 : Nat.ltb 1 (length (nodup Z.eq_dec (filter (fun z => negb (Z.eqb z 1)) (map step (seq 0 (st * t)))))) = false.
  Proof.
    apply Nat.ltb_ge. apply (nodup_all_equal _ D). intros x Hx. apply filter_In in Hx. destruct Hx as [Hin Hne].
    apply in_map_iff in Hin. destruct Hin as (k & <- & _). unfold step in *.
    destruct (Nat.ltb 0 k && Nat.eqb (k mod st) 0); [reflexivity|]. cbn in Hne. discriminate.
  Qed.

  Lemma list_eqb_refl (l : list nat) : list_eqb Nat.eqb l l = true.
  Proof. apply list_eqb_eq; [apply Nat.eqb_eq|reflexivity]. Qed.

  Lemma starts_nth i : i < st * t -> nth i (map g (seq 0 (st * t))) 0 = g i.
  Proof. intros Hi. now rewrite nth_map_seq. Qed.

  Lemma tile_starts_closed : 1 < s ->
    (match map (fun q => q * st) (seq 1 (t - 1)) with
     | [] => [0; n]
     | _ => (0 :: map (fun i => nth i (map g (seq 0 (st * t))) 0) (map (fun q => q * st) (seq 1 (t - 1)))) ++ [n]
     end) = map (fun q => q * L) (seq 0 (t + 1)).
  Proof.
    intros Hs2. destruct (Nat.eq_dec t 1) as [E|E].
    - unfold n. rewrite E. cbn [Nat.sub seq map Nat.add]. replace (1 * L) with L by lia. replace (0 * L) with 0 by lia. reflexivity.
    - set (X := map (fun q => q * st) (seq 1 (t - 1))).
      assert (HX : X <> []) by (unfold X; replace (t - 1) with (S (t - 2)) by lia; discriminate).
      assert (Hm : forall (A : Type) (a b : A), match X with [] => a | _ :: _ => b end = b) by (intros A a b; destruct X; [congruence|reflexivity]).
      rewrite Hm. unfold X. rewrite map_map.
      rewrite (map_ext_in _ (fun q => q * L)).
      2:{ intros q Hq. apply in_seq in Hq. rewrite starts_nth by nia. unfold g. rewrite Nat.div_mul, Nat.mod_mul by lia. lia. }
      assert (Hseq : seq 0 (t + 1) = [0] ++ seq 1 (t - 1) ++ [t]).
      { replace (t + 1) with (1 + ((t - 1) + 1)) by lia. rewrite (seq_app 1 ((t - 1) + 1) 0). cbn [seq Nat.add]. f_equal.
        rewrite (seq_app (t - 1) 1 1). cbn [seq]. replace (1 + (t - 1)) with t by lia. reflexivity. }
      rewrite Hseq, !map_app. cbn [map app]. unfold n. reflexivity.
  Qed.

  Lemma R_constant : s = 1 -> R = map (fun _ => m0) (seq 0 n).
  Proof.
    intros Hs1. apply (nth_ext _ _ 0 0); [now rewrite map_length, seq_length, R_len|].
    intros k Hk. rewrite R_len in Hk. rewrite nth_map_seq by exact Hk. rewrite R_nth by exact Hk.
    assert (Hi : (k mod L) / st < s) by (apply div_lt_s, Nat.mod_upper_bound; pose proof L_pos; lia).
    replace ((k mod L) / st) with 0 by lia. reflexivity.
  Qed.

  Lemma no_changes_constant : s = 1 -> where_true (map (fun z => negb (Z.eqb z 0)) (diffZ R)) = [].
  Proof.
    intros Hs1. rewrite (R_constant Hs1), diffZ_map_seq, where_true_filter. apply filter_none. intros k Hk.
    rewrite !map_length, seq_length in Hk. apply in_seq in Hk. rewrite map_map.
    rewrite (nth_map' _ (seq 0 (n - 1)) k 0 false) by (rewrite seq_length; lia). rewrite Z.sub_diag. reflexivity.
  Qed.

  (** get_unit_values on one row of a (possibly sliced) grid: the values at the first occurrence of each index *)
  Theorem unit_values_row_grid {V} (dv : V) (vals : list V) :
    unit_values_row dv R vals = Some (map (fun i => nth (i * st) vals dv) (seq 0 s)).
  Proof.
    assert (Hpos : 0 < st * t) by nia.
    assert (Hg0 : g 0 = 0) by (unfold g; rewrite Nat.div_0_l, Nat.mod_0_l by lia; lia).
    rewrite (unit_values_row_body dv R vals (map g (seq 0 (st * t)))).
    2:{ rewrite R_min. apply starts_closed. }
    2:{ replace (st * t) with (S (st * t - 1)) by lia. cbn [seq map hd]. exact Hg0. }
    2:{ replace (st * t) with (S (st * t - 1)) by lia. discriminate. }
    unfold uvr_body. rewrite step_sizes_closed, nonunit_steps_le1, ts_closed, R_len.
    destruct (Nat.ltb 1 s) eqn:Es2.
    - apply Nat.ltb_lt in Es2. rewrite (tile_starts_closed Es2).
      rewrite map_length, seq_length. replace (t + 1 - 1) with t by lia.
      assert (Hsub : map (fun i => slice R (nth i (map (fun q => q * L) (seq 0 (t + 1))) 0) (nth (S i) (map (fun q => q * L) (seq 0 (t + 1))) 0)) (seq 0 t)
                     = map (fun _ => B) (seq 0 t)).
      { apply map_ext_in. intros i Hi. apply in_seq in Hi. rewrite !nth_map_seq by lia. replace (S i * L) with ((i + 1) * L) by lia. apply slice_tile. lia. }
      rewrite Hsub.
      assert (Hhd : hd [] (map (fun _ : nat => B) (seq 0 t)) = B) by (destruct t as [|t']; [lia|reflexivity]).
      rewrite Hhd.
      assert (Hall : forallb (fun sub => list_eqb Nat.eqb sub B) (map (fun _ : nat => B) (seq 0 t)) = true).
      { apply forallb_forall. intros x Hx. apply in_map_iff in Hx. destruct Hx as (_ & <- & _). apply list_eqb_refl. }
      rewrite Hall. cbn [negb].
      assert (Hsl : slice R (nth 0 (map (fun q => q * L) (seq 0 (t + 1))) 0) (nth 1 (map (fun q => q * L) (seq 0 (t + 1))) 0) = B).
      { rewrite !nth_map_seq by lia. exact (slice_tile 0 Ht). }
      rewrite Hsl.
      rewrite block_changes. f_equal.
      rewrite (seq_cons_pred s) by lia. cbn [map]. f_equal. now rewrite map_map.
    - apply Nat.ltb_ge in Es2. assert (Hs1 : s = 1) by (unfold s in *; lia).
      cbn [length Nat.sub seq map nth hd].
      rewrite slice_whole. cbn [forallb]. rewrite list_eqb_refl. cbn [andb negb].
      rewrite (no_changes_constant Hs1). rewrite Hs1. cbn [map seq]. reflexivity.
  Qed.
End Row.

(** ** rows of (sliced) grids have the tile / repeat form *)
Lemma digit_row_tile (rs : list nat) (p : nat) (c : list nat) :
  Forall (fun r => 0 < r) rs -> p < length rs -> length c = nth p rs 1 ->
  map (fun j => nth (nth p (digits rs j) 0) c 0) (seq 0 (prod rs))
  = tile (repeat_each c (prod (firstn p rs))) (prod (skipn (S p) rs)).
Proof.
  intros Hpos Hp Hc. pose proof (AncBuild.prod_split rs p Hp) as Hsplit.
  set (st := prod (firstn p rs)) in *. set (t := prod (skipn (S p) rs)) in *. set (s := nth p rs 1) in *.
  assert (Hst : 0 < st) by (apply prod_pos, Forall_forall; intros x Hx; rewrite Forall_forall in Hpos; apply Hpos; eapply In_firstn; exact Hx).
  assert (Hs : 0 < s) by (unfold s; rewrite Forall_forall in Hpos; apply Hpos, nth_In, Hp).
  apply (nth_ext _ _ 0 0).
  - rewrite map_length, seq_length, tile_length, repeat_each_length, Hc. fold s. lia.
  - intros j Hj. rewrite map_length, seq_length in Hj. rewrite nth_map_seq by exact Hj.
    rewrite nth_tile by (rewrite repeat_each_length, Hc; fold s; lia).
    rewrite repeat_each_length, Hc. fold s.
    rewrite nth_repeat_each by (try exact Hst; rewrite Hc; fold s; apply Nat.mod_upper_bound; nia).
    rewrite (nth_digits rs Hpos p j Hp). fold st s. f_equal. symmetry. apply AncBuild.div_mod_radix; assumption.
Qed.

Lemma seq_sorted' n : forall a, StronglySorted lt (seq a n).
Proof.
  induction n as [|n IH]; intros a; simpl; constructor; [apply IH|].
  apply Forall_forall. intros x Hx. apply in_seq in Hx. lia.
Qed.

(** get_unit_values on one row of a sliced grid: indices c[digit_p(j)], values f(index) -- the unit values are f(c) *)
Theorem unit_values_digit_row {V} (dv : V) (f : nat -> V) (rs : list nat) (p : nat) (c : list nat) :
  Forall (fun r => 0 < r) rs -> p < length rs -> length c = nth p rs 1 -> StronglySorted lt c ->
  let inds := map (fun j => nth (nth p (digits rs j) 0) c 0) (seq 0 (prod rs)) in
  unit_values_row dv inds (map f inds) = Some (map f c).
Proof.
  intros Hpos Hp Hc Hsorted inds.
  assert (Hs : 0 < length c) by (rewrite Hc; rewrite Forall_forall in Hpos; apply Hpos, nth_In, Hp).
  assert (Hst : 0 < prod (firstn p rs)) by (apply prod_pos, Forall_forall; intros x Hx; rewrite Forall_forall in Hpos; apply Hpos; eapply In_firstn; exact Hx).
  assert (Ht : 0 < prod (skipn (S p) rs)).
  { apply prod_pos, Forall_forall. intros x Hx. rewrite Forall_forall in Hpos. apply Hpos.
    rewrite <- (firstn_skipn (S p) rs). apply in_or_app. now right. }
  unfold inds. rewrite (digit_row_tile rs p c Hpos Hp Hc).
  rewrite (unit_values_row_grid c _ _ Hsorted Hs Hst Ht dv).
  f_equal. rewrite <- (map_nth_seq c) at 2. rewrite map_map. apply map_ext_in. intros i Hi. apply in_seq in Hi.
  set (st := prod (firstn p rs)) in *. set (t := prod (skipn (S p) rs)) in *.
  assert (Hlt0 : i * st < length c * st) by (apply Nat.mul_lt_mono_pos_r; lia).
  assert (Hlt : i * st < t * (length c * st)) by nia.
  rewrite (nth_map' f (tile (repeat_each c st) t) (i * st) 0 dv) by (rewrite tile_length, repeat_each_length; lia).
  f_equal. rewrite nth_tile by (rewrite repeat_each_length; lia). rewrite repeat_each_length.
  rewrite Nat.mod_small by nia. rewrite nth_repeat_each by (try exact Hst; nia). now rewrite Nat.div_mul by lia.
Qed.

Lemma combine_map_map {A B C} (f : A -> B) (g : A -> C) (l : list A) : combine (map f l) (map g l) = map (fun x => (f x, g x)) l.
Proof. induction l as [|x l IH]; [reflexivity|]. simpl. now rewrite IH. Qed.

(** get_unit_values (orientation given) on the matrices of a regular grid in ANY storage order, with ANY value function per
    dimension: dimension d (file order) gets exactly f d 0, f d 1, ..., f d (size_d - 1) *)
Theorem unit_values_grid {V} (dv : V) (f : nat -> nat -> V) (sz so : list nat) :
  wf_grid sz so ->
  let k := length sz in
  let G := grid_spec sz so in
  let vals := map (fun d => map (f d) (grid_row sz so d)) (seq 0 k) in
  get_unit_values dv G vals (Some true) k = Ok (map (fun d => map (f d) (seq 0 (nth d sz 1))) (seq 0 k)).
Proof.
  intros Hwf k G vals. pose proof Hwf as [Hp Hszpos]. pose proof Hp as (Hnd & Hlen & Hlt).
  pose proof (radices_pos sz so Hwf) as Hrs. set (rs := radices sz so) in *.
  unfold get_unit_values. unfold G at 1. rewrite (G_len sz so). fold k. rewrite Nat.eqb_refl. cbn [negb].
  unfold G, grid_spec, vals. fold k. rewrite combine_map_map, map_map. cbn [fst snd].
  assert (Hrow : forall d, In d (seq 0 k) ->
            unit_values_row dv (grid_row sz so d) (map (f d) (grid_row sz so d)) = Some (map (f d) (seq 0 (nth d sz 1)))).
  { intros d Hd. apply in_seq in Hd. assert (Hdk : d < k) by lia.
    assert (Hin : In d so) by (apply (perm_of_in so k); [exact Hp|exact Hdk]).
    destruct (nth_index_of d so Hin) as [Ep Hpl]. set (p := index_of d so) in *.
    assert (Hprs : p < length rs) by (unfold rs; rewrite radices_length; exact Hpl).
    assert (Hsize : nth p rs 1 = nth d sz 1).
    { unfold rs, radices. rewrite (nth_map' (fun x => nth x sz 1) so p 0 1) by exact Hpl. now rewrite Ep. }
    assert (Hgr : grid_row sz so d = map (fun j => nth (nth p (digits rs j) 0) (seq 0 (nth d sz 1)) 0) (seq 0 (prod rs))).
    { unfold grid_row. fold rs p. apply map_ext_in. intros j Hj.
      rewrite seq_nth; [reflexivity|]. rewrite (nth_digits rs Hrs p j Hprs), Hsize. apply Nat.mod_upper_bound.
      rewrite Forall_forall in Hszpos. specialize (Hszpos (nth d sz 1) (nth_In _ _ Hdk)). lia. }
    rewrite Hgr.
    apply (unit_values_digit_row dv (f d) rs p (seq 0 (nth d sz 1)) Hrs Hprs); [now rewrite seq_length, Hsize|apply seq_sorted']. }
  rewrite (map_ext_in _ (fun d => Some (map (f d) (seq 0 (nth d sz 1)))) _ Hrow).
  assert (Hall : forallb (fun o : option (list V) => match o with Some _ => true | None => false end)
                   (map (fun d => Some (map (f d) (seq 0 (nth d sz 1)))) (seq 0 k)) = true).
  { apply forallb_forall. intros o Ho. apply in_map_iff in Ho. destruct Ho as (d & <- & _). reflexivity. }
  rewrite Hall. f_equal. rewrite map_map. reflexivity.
Qed.
