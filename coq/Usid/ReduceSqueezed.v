(** USIDataset.reduce when EVERY dimension of one side is reduced: that side becomes the 1 x 1 'Single_Step' placeholder and
    reshape_from_n_dims takes its squeezed path. *)
From Coq Require Import List Arith Lia Bool ZArith.
Require Import V.Base.ListAux V.Base.CorrAux V.Base.Radix V.Base.Matrix V.Base.NdArray V.Usid.SortOrder V.Usid.ToND V.Usid.ToNDProof V.Usid.FromND
               V.Usid.Grid V.Usid.SelEnum V.Usid.GridRoundTrip V.Usid.GridFromNd V.Usid.Reduce V.Usid.ReduceProof V.Usid.ReduceGrid V.Usid.ReduceFile.
Require Import V.Usid.FromNDSqueezed.
Import ListNotations.

Lemma kept_nil_all k red : kept k red = [] -> forallb (is_ax red) (seq 0 k) = true.
Proof.
  unfold kept. induction (seq 0 k) as [|x l IH]; [reflexivity|]. simpl.
  destruct (is_ax red x); simpl; [exact IH|discriminate].
Qed.

Lemma kept_cons_not_all k red : kept k red <> [] -> forallb (is_ax red) (seq 0 k) = false.
Proof.
  intros H. destruct (forallb (is_ax red) (seq 0 k)) eqn:E; [|reflexivity]. exfalso. apply H. unfold kept.
  rewrite forallb_forall in E. induction (seq 0 k) as [|x l IH]; [reflexivity|]. simpl.
  rewrite (E x) by (now left). simpl. apply IH. intros y Hy. apply E. now right.
Qed.

Section ReduceSide.
  Variables (szp sop szs sos : list nat) (main : list (list Z)) (pos : list (list nat)) (dims : list nat) (f : redfn).
  Hypothesis Hwfp : wf_grid szp sop.
  Hypothesis Hwfs : wf_grid szs sos.
  Let kp := length szp.
  Let ks := length szs.
  Let N := prod (radices szp sop).
  Let M := prod (radices szs sos).
  Hypothesis Hkp : kp <= N.
  Hypothesis Hks : ks <= M.
  Hypothesis Hkp0 : 0 < kp.
  Hypothesis Hks0 : 0 < ks.
  Hypothesis Hmain_rows : length main = N.
  Hypothesis Hmain_rect : rect main M.
  Hypothesis Hpos_t : transpose2d 0 pos = grid_spec szp sop.
  Hypothesis Hpos_c : ncols pos = kp.
  Let spec := grid_spec szs sos.
  Hypothesis Hdims : Forall (fun dm => dm < kp + ks) dims.
  Let pred := filter (fun dm => Nat.ltb dm kp) dims.
  Let sred := map (fun dm => dm - kp) (filter (fun dm => negb (Nat.ltb dm kp)) dims).
  Let szp' := red_sz szp pred.
  Let sop' := red_so szp sop pred.
  Let szs' := red_sz szs sred.
  Let sos' := red_so szs sos sred.

  Lemma mem_part : exists a, to_nd 0%Z main pos spec false = Ok (a, seq 0 (kp + ks)) /\ nd_shape a = szp ++ szs /\
      reduce_mem main pos spec dims f = Ok (nd_reduce 0%Z (apply_fn f) a dims) /\
      nd_shape (nd_reduce 0%Z (apply_fn f) a dims) = szp' ++ szs' /\
      length (nd_data (nd_reduce 0%Z (apply_fn f) a dims)) = prod (nd_shape (nd_reduce 0%Z (apply_fn f) a dims)).
  Proof.
    destruct (grid_to_nd 0%Z szp sop szs sos Hwfp Hwfs Hkp Hks Hkp0 Hks0 main pos Hmain_rows Hmain_rect Hpos_t Hpos_c) as (a & Ha & _ & _ & _).
    fold spec kp ks in Ha.
    destruct (grid_nd_shape 0%Z szp sop szs sos Hwfp Hwfs Hkp Hks Hkp0 Hks0 main pos Hmain_rows Hmain_rect Hpos_t Hpos_c a _ Ha) as [Hsa _].
    exists a. split; [exact Ha|]. split; [exact Hsa|]. split; [|split].
    - unfold reduce_mem. rewrite Ha.
      assert (Hall : forallb (fun dm => existsb (Nat.eqb dm) (seq 0 (kp + ks))) dims = true).
      { apply forallb_forall. intros dm Hin. rewrite Forall_forall in Hdims. apply existsb_exists. exists dm.
        split; [apply in_seq; specialize (Hdims dm Hin); lia|apply Nat.eqb_refl]. }
      rewrite Hall. cbn [negb]. f_equal. f_equal.
      rewrite <- (map_id dims) at 2. apply map_ext_in. intros dm Hin. rewrite Forall_forall in Hdims. specialize (Hdims dm Hin).
      pose proof (index_of_nth (seq 0 (kp + ks)) (seq_NoDup _ 0) dm ltac:(now rewrite seq_length)) as Hi.
      rewrite seq_nth in Hi by exact Hdims. exact Hi.
    - unfold nd_reduce. cbn [nd_shape]. rewrite Hsa, part_false_flags. apply shape_split.
    - unfold nd_reduce. cbn [nd_shape nd_data]. now rewrite map_length, all_idx_length.
  Qed.

  Lemma pred_lt' : Forall (fun d => d < kp) pred.
  Proof. unfold pred. apply Forall_forall. intros d Hd. apply filter_In in Hd. destruct Hd as [_ Hd]. now apply Nat.ltb_lt. Qed.
  Lemma sred_lt' : Forall (fun d => d < ks) sred.
  Proof.
    unfold sred. apply Forall_forall. intros e He. apply in_map_iff in He. destruct He as (dm & <- & Hdm). apply filter_In in Hdm.
    destruct Hdm as [Hin Hge]. apply negb_true_iff, Nat.ltb_ge in Hge. rewrite Forall_forall in Hdims. specialize (Hdims dm Hin). lia.
  Qed.

  (** ** all position dimensions reduced, at least two spectroscopic dimensions left *)
  Section AllPos.
    Hypothesis Hall_p : kept kp pred = [].
    Hypothesis Hkeep_s : kept ks sred <> [].
    Hypothesis Hks' : length szs' <= prod (radices szs' sos').
    Hypothesis Hks2 : 2 <= length szs'.
    Let smat' := grid_spec szs' sos'.
    Let M' := prod (radices szs' sos').

    Theorem reduce_file_all_positions :
      exists a data sside,
        to_nd 0%Z main pos spec false = Ok (a, seq 0 (kp + ks)) /\ nd_shape a = szp ++ szs /\
        reduce_mem main pos spec dims f = Ok (nd_reduce 0%Z (apply_fn f) a dims) /\
        reduce_file main pos spec dims f = Ok (1, M', data, RWritten [kp] [[0]], sside) /\ length data = M' /\
        forall c, c < M' ->
          nth c data 0%Z = nd_get 0%Z (nd_reduce 0%Z (apply_fn f) a dims) (spec_col smat' (length szs') c).
    Proof.
      destruct mem_part as (a & Ha & Hsa & Hmem & Hsred & Hdred).
      set (red := nd_reduce 0%Z (apply_fn f) a dims) in *.
      assert (Hszp' : szp' = []) by (unfold szp', red_sz; fold kp; now rewrite Hall_p).
      rewrite Hszp' in Hsred. cbn [app] in Hsred.
      pose proof (wf' szs sos sred Hwfs Hks Hks0) as Hwfs'. fold szs' sos' in Hwfs'.
      destruct (sbranch_grid szs sos kp sred Hwfs Hks Hks0 sred_lt' Hkeep_s) as (sside & Hsb). fold szs' sos' smat' spec in Hsb.
      assert (Hpb : pbranch pos pred = ([[0]], RWritten [kp] [[0]])).
      { unfold pbranch. destruct pred as [|r0 rr] eqn:Ep.
        - exfalso. rewrite kept_nil in Hall_p. destruct kp; [lia|discriminate].
        - unfold write_reduced. rewrite Hpos_t, (G_len szp sop). fold kp. rewrite (kept_nil_all _ _ Hall_p). reflexivity. }
      destruct (squeezed_pos_coordinates 0%Z szs' sos' red Hwfs' Hks' Hks2 Hsred) as (data & Hfrom & Hlen & Hget).
      fold smat' M' in Hfrom, Hlen, Hget.
      exists a, data, sside. split; [exact Ha|]. split; [exact Hsa|]. split; [exact Hmem|].
      split; [|split; [exact Hlen|exact Hget]].
      rewrite reduce_file_unfold, Hmem. cbv zeta. rewrite Hpos_c. fold kp pred sred. rewrite Hpb, Hsb. fold red. rewrite Hfrom.
      reflexivity.
    Qed.
  End AllPos.

  (** ** all spectroscopic dimensions reduced, at least two position dimensions left *)
  Section AllSpec.
    Hypothesis Hkeep_p : kept kp pred <> [].
    Hypothesis Hall_s : kept ks sred = [].
    Hypothesis Hkp' : length szp' <= prod (radices szp' sop').
    Hypothesis Hkp2 : 2 <= length szp'.
    Let pmat' := transpose2d 0 (grid_spec szp' sop').
    Let N' := prod (radices szp' sop').

    Theorem reduce_file_all_spectroscopic :
      exists a data pside,
        to_nd 0%Z main pos spec false = Ok (a, seq 0 (kp + ks)) /\ nd_shape a = szp ++ szs /\
        reduce_mem main pos spec dims f = Ok (nd_reduce 0%Z (apply_fn f) a dims) /\
        reduce_file main pos spec dims f = Ok (N', 1, data, pside, RWritten [kp + ks] [[0]]) /\ length data = N' /\
        forall r, r < N' ->
          nth r data 0%Z = nd_get 0%Z (nd_reduce 0%Z (apply_fn f) a dims) (pos_row pmat' (length szp') r).
    Proof.
      destruct mem_part as (a & Ha & Hsa & Hmem & Hsred & Hdred).
      set (red := nd_reduce 0%Z (apply_fn f) a dims) in *.
      assert (Hszs' : szs' = []) by (unfold szs', red_sz; fold ks; now rewrite Hall_s).
      rewrite Hszs', app_nil_r in Hsred.
      pose proof (wf' szp sop pred Hwfp Hkp Hkp0) as Hwfp'. fold szp' sop' in Hwfp'.
      assert (Hlen' : 0 < length szp') by lia.
      destruct (ncols_transpose_grid szp' sop' Hwfp' Hkp' Hlen') as [Hpc Hpt]. fold pmat' in Hpc, Hpt.
      destruct (pbranch_grid szp sop pos pred Hwfp Hkp Hkp0 Hpos_t Hpos_c pred_lt' Hkeep_p Hkp' Hlen') as (pm & pside & Hpb & Hpm_t & Hpm_c).
      fold szp' sop' in Hpm_t, Hpm_c.
      assert (Hsb : sbranch spec kp sred = ([[0]], RWritten [kp + ks] [[0]])).
      { unfold sbranch. destruct sred as [|r0 rr] eqn:Ep.
        - exfalso. rewrite kept_nil in Hall_s. destruct ks; [lia|discriminate].
        - unfold write_reduced, spec. rewrite (G_len szs sos). fold ks. rewrite (kept_nil_all _ _ Hall_s). reflexivity. }
      destruct (squeezed_spec_coordinates 0%Z szp' sop' pm red Hwfp' Hkp' Hkp2 Hpm_t Hpm_c Hsred) as (data & Hfrom & Hlen & Hget).
      fold N' in Hfrom, Hlen, Hget.
      exists a, data, pside. split; [exact Ha|]. split; [exact Hsa|]. split; [exact Hmem|].
      split; [|split; [exact Hlen|]].
      - rewrite reduce_file_unfold, Hmem. cbv zeta. rewrite Hpos_c. fold kp pred sred. rewrite Hpb, Hsb. fold red. rewrite Hfrom.
        assert (HN' : 0 < N') by (apply (N_pos szp' sop' Hwfp')).
        replace (Nat.eqb N' 0) with false by (symmetry; apply Nat.eqb_neq; lia). reflexivity.
      - intros r Hr. rewrite (Hget r Hr). f_equal.
        unfold pos_row. apply map_ext_in. intros d Hd. apply in_seq in Hd.
        rewrite <- (nth_transpose2d 0 pm r d) by (rewrite Hpm_c; lia).
        rewrite <- (nth_transpose2d 0 pmat' r d) by (rewrite Hpc; lia).
        now rewrite Hpm_t, Hpt.
    Qed.
  End AllSpec.
End ReduceSide.
