(** USIDataset.reduce: N-D form (C01 model) -> reduction over the axes named by the caller -> when written back:
    write_reduced_anc_dsets on the sides that lost dimensions, reshape_from_n_dims (C10 model), link_as_main. *)
From Coq Require Import List Arith Lia Bool ZArith.
Require Import V.Base.ListAux V.Base.CorrAux V.Base.Radix V.Base.Matrix V.Base.NdArray V.Usid.SortOrder V.Usid.ToND V.Usid.FromND
               V.Usid.Grid V.Usid.SelEnum.
Import ListNotations.

(** * N-D reduction *)
Definition all_idx (shape : list nat) : list (list nat) := map (unravel shape) (seq 0 (prod shape)).
Definition is_ax (axes : list nat) (p : nat) : bool := existsb (Nat.eqb p) axes.
Definition ax_flags (n : nat) (axes : list nat) : list bool := map (is_ax axes) (seq 0 n).
(** the entries of [l] at the positions whose flag equals [b] *)
Fixpoint part {A} (b : bool) (flags : list bool) (l : list A) : list A :=
  match flags, l with
  | f :: fl, x :: l' => if Bool.eqb f b then x :: part b fl l' else part b fl l'
  | _, _ => []
  end.
(** full index from the kept part [j] and the reduced part [i] *)
Fixpoint merge (flags : list bool) (j i : list nat) : list nat :=
  match flags with
  | [] => []
  | true :: fl => match i with x :: i' => x :: merge fl j i' | [] => 0 :: merge fl j [] end
  | false :: fl => match j with x :: j' => x :: merge fl j' i | [] => 0 :: merge fl [] i end
  end.

(** ufunc(da_nd, axis=axes): the value at a kept index is [f] of the elements of the fibre over it *)
Definition nd_reduce {A} (d : A) (f : list A -> A) (a : nd A) (axes : list nat) : nd A :=
  let shape := nd_shape a in
  let flags := ax_flags (length shape) axes in
  let ks := part false flags shape in
  let rs := part true flags shape in
  mkNd ks (map (fun j => f (map (fun i => nd_get d a (merge flags j i)) (all_idx rs))) (all_idx ks)).

(** * write_reduced_anc_dsets on a spectroscopic-shaped matrix (one row per dimension) *)
Definition row_min (row : list nat) : nat := fold_right Nat.min (hd 0 row) row.
Definition reduced_cols (m : list (list nat)) (red : list nat) : list nat :=
  filter (fun c => forallb (fun d => Nat.eqb (nth c (nth d m []) 0) (row_min (nth d m []))) red) (seq 0 (ncols m)).
Definition write_reduced (m : list (list nat)) (red : list nat) : list (list nat) * list nat :=
  let k := length m in
  if forallb (is_ax red) (seq 0 k) then ([[0]], [k])                      (* 'Single_Step' placeholder: label k *)
  else let keep := filter (fun d => negb (is_ax red d)) (seq 0 k) in
       (map (fun d => map (fun c => nth c (nth d m []) 0) (reduced_cols m red)) keep, keep).

(** the same at digit level, for a side stored in order [so]: kept columns = those whose reduced digits are all 0 *)
Definition red_choice (sz so red : list nat) : list (list nat) :=
  map (fun d => if is_ax red d then [0] else seq 0 (nth d sz 1)) so.
Definition reduced_cols_digits (sz so red : list nat) : list nat := sel_rows (radices sz so) (red_choice sz so red).

(** * the call *)
Inductive redfn := RSum | RMax | RMin.
Definition apply_fn (f : redfn) (l : list Z) : Z :=
  match f with
  | RSum => fold_right Z.add 0%Z l
  | RMax => fold_right Z.max (hd 0%Z l) l
  | RMin => fold_right Z.min (hd 0%Z l) l
  end.

(** in memory: labels of the unsorted N-D form are the dimension numbers 0 .. kp+ks-1; axis of a name = its position *)
Definition reduce_mem (main : list (list Z)) (pos spec : list (list nat)) (dims : list nat) (f : redfn) : res (nd Z) :=
  match to_nd 0%Z main pos spec false with
  | Err e => Err e
  | Ok (a, labels) =>
      if negb (forallb (fun dm => existsb (Nat.eqb dm) labels) dims) then Err IndexE      (* np.where(...)[0][0] on nothing *)
      else Ok (nd_reduce 0%Z (apply_fn f) a (map (fun dm => index_of dm labels) dims))
  end.

Inductive redside := RReused | RWritten (labels : list nat) (inds : list (list nat)).
(** written back: (rows, cols, flat data, position side, spectroscopic side) *)
Definition reduce_file (main : list (list Z)) (pos spec : list (list nat)) (dims : list nat) (f : redfn)
  : res (nat * nat * list Z * redside * redside) :=
  match reduce_mem main pos spec dims f with
  | Err e => Err e
  | Ok red =>
      let kp := ncols pos in
      let pred := filter (fun dm => Nat.ltb dm kp) dims in
      let sred := map (fun dm => dm - kp) (filter (fun dm => negb (Nat.ltb dm kp)) dims) in
      let '(pmat, pside) := match pred with
                            | [] => (pos, RReused)
                            | _ => let '(m, l) := write_reduced (transpose2d 0 pos) pred in (transpose2d 0 m, RWritten l (transpose2d 0 m))
                            end in
      let '(smat, sside) := match sred with
                            | [] => (spec, RReused)
                            | _ => let '(m, l) := write_reduced spec sred in (m, RWritten (map (fun e => kp + e) l) m)
                            end in
      match from_nd 0%Z red (Some pmat) (Some smat) with
      | Err e => Err e
      | Ok (rows, cols, data) =>
          if Nat.eqb rows 0 && Nat.eqb cols 0 then Err ValueE        (* fewer than two axes left: the flat array is not a Main shape *)
          else Ok (rows, cols, data, pside, sside)
      end
  end.
