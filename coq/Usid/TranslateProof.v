(** Facts about the translator models. *)
From Coq Require Import List Arith Lia Bool.
Require Import V.Base.ListAux V.Base.Radix V.Base.Matrix V.Base.NdArray V.Usid.AncBuild V.Usid.AncBuildPos V.Usid.Reduce V.Usid.ReduceProof V.Usid.Translate.
Import ListNotations.

(** ** image: pixel (y, x) is element x * U + y, and that row of the position matrices carries Y = y, X = x *)
Lemma nth_concat_rect {A} (d : A) (m : list (list A)) c i j : rect m c -> i < length m -> j < c ->
  nth (i * c + j) (concat m) d = nth j (nth i m []) d.
Proof.
  revert i. induction m as [|r m IH]; intros i Hr Hi Hj; [simpl in Hi; lia|].
  inversion Hr as [|? ? Hlen Hr']; subst. simpl. destruct i as [|i].
  - simpl. rewrite app_nth1 by lia. reflexivity.
  - rewrite app_nth2 by (simpl; lia). replace (S i * length r + j - length r) with (i * length r + j) by (simpl; lia).
    apply IH; [exact Hr'|simpl in Hi; lia|exact Hj].
Qed.

Lemma transpose_rect {A} (d : A) (m : list (list A)) : rect (transpose2d d m) (length m).
Proof.
  unfold rect, transpose2d. apply Forall_forall. intros r Hr. apply in_map_iff in Hr. destruct Hr as (j & <- & _).
  unfold col. now rewrite map_length.
Qed.

Theorem image_pixel {A} (d : A) (img : list (list A)) v y x : rect img v -> y < length img -> x < v ->
  nth (x * length img + y) (image_rows d img) d = nth x (nth y img []) d.
Proof.
  intros Hr Hy Hx. unfold image_rows.
  assert (Hnc : ncols img = v) by (destruct img as [|r0 img]; [simpl in Hy; lia|inversion Hr; subst; reflexivity]).
  rewrite (nth_concat_rect d (transpose2d d img) (length img) x y (transpose_rect d img)) by (try rewrite transpose2d_length; lia).
  apply nth_transpose2d. lia.
Qed.

Theorem image_coordinates u v y x : y < u -> x < v -> digits [u; v] (x * u + y) = [y; x].
Proof.
  intros Hy Hx. cbn [digits]. f_equal; [|f_equal].
  - rewrite Nat.add_comm, Nat.mod_add by lia. apply Nat.mod_small, Hy.
  - rewrite Nat.add_comm, Nat.div_add by lia. rewrite (Nat.div_small y u) by lia. cbn. apply Nat.mod_small, Hx.
Qed.

(** stored position matrices of the image (dimensions listed slowest first: X then Y) *)
Theorem image_position_rows u v y x : y < u -> x < v ->
  let n := x * u + y in
  let '(wi, wv, wl) := image_pos u v in
  nth 0 wl 9 = 1 /\ nth 1 wl 9 = 0 /\                                   (* columns: X then Y *)
  nth 0 (nth n wi []) 0 = x /\ nth 1 (nth n wi []) 0 = y /\
  nth 0 (nth n wv []) 0 = x /\ nth 1 (nth n wv []) 0 = y /\
  length wi = u * v /\ length (nth n wi []) = 2.
Proof.
  intros Hy Hx. cbv zeta. unfold image_pos.
  pose proof (written_position_rows 0 9 [(0, seq 0 u); (1, seq 0 v)] false) as W. cbv zeta in W.
  destruct (write_ind_val 0 [(0, seq 0 u); (1, seq 0 v)] false false) as [[wi wv] wl] eqn:E.
  assert (Hpos : Forall (fun d : nat * list nat => 0 < length (snd d)) [(0, seq 0 u); (1, seq 0 v)]).
  { repeat constructor; cbn; rewrite seq_length; lia. }
  cbn [map snd length] in W. rewrite !seq_length in W.
  assert (Hn : x * u + y < prod [u; v]) by (cbn; nia).
  destruct (W 0 (x * u + y) Hpos ltac:(lia) Hn) as (A1 & A2 & A3 & A4 & A5).
  destruct (W 1 (x * u + y) Hpos ltac:(lia) Hn) as (B1 & B2 & B3 & _ & _).
  rewrite (image_coordinates u v y x Hy Hx) in *. cbn [nth Nat.sub fst snd] in *.
  rewrite seq_nth in A3, B3 by assumption. cbn in A3, B3, A4. rewrite Nat.mul_1_r in A4. repeat split; assumption.
Qed.

(** ** labelled N-D datasets *)
Lemma inbounds_inb j s : inbounds j s <-> inb j s.
Proof. revert s. induction j as [|x j IH]; intros [|r s]; simpl; try tauto; try (rewrite IH; tauto). Qed.

Lemma digits_rev_ravel shape j : inbounds j shape -> digits (rev shape) (ravel shape j) = rev j.
Proof.
  intros Hj. assert (Hl : length j = length shape) by (now apply inbounds_length).
  rewrite <- (rev_involutive shape) at 2. rewrite <- (rev_involutive j) at 1.
  rewrite ravel_rev by (now rewrite !rev_length). apply digits_undigits.
  apply inbounds_inb. rewrite <- (rev_involutive (rev j)), <- (rev_involutive (rev shape)).
  apply inbounds_rev. apply inbounds_inb. now rewrite !rev_involutive.
Qed.

Definition pick_axes (axes idx : list nat) : list nat := map (fun ax => nth ax idx 0) axes.

Lemma scatter_pick axes idx : NoDup axes -> length axes = length idx -> (forall p, p < length idx -> In p axes) ->
  scatter axes (pick_axes axes idx) = idx.
Proof.
  intros Hnd Hl Hall. unfold scatter, pick_axes. apply (nth_ext _ _ 0 0); [now rewrite map_length, seq_length|].
  intros p Hp. rewrite map_length, seq_length in Hp.
  rewrite nth_map_seq by exact Hp.
  destruct (nth_index_of p axes (Hall p ltac:(lia))) as [E Hi].
  rewrite (nth_indep _ 0 ((fun ax => nth ax idx 0) 0)) by (now rewrite map_length).
  rewrite (map_nth (fun ax => nth ax idx 0) axes 0 (index_of p axes)). now rewrite E.
Qed.

Lemma axes_perm spatial : NoDup (sp_axes spatial ++ sc_axes spatial) /\ length (sp_axes spatial ++ sc_axes spatial) = length spatial /\
  forall p, p < length spatial -> In p (sp_axes spatial ++ sc_axes spatial).
Proof.
  unfold sp_axes, sc_axes. set (f := fun p => nth p spatial false). set (l := seq 0 (length spatial)).
  assert (Hl : NoDup l) by apply seq_NoDup.
  split; [|split].
  - apply NoDup_app_intro; [apply NoDup_filter, Hl|apply NoDup_filter, Hl|].
    intros x H1 H2. apply filter_In in H1. apply filter_In in H2. destruct H1 as [_ H1], H2 as [_ H2]. fold (f x) in H2. rewrite H1 in H2. discriminate.
  - rewrite app_length. transitivity (length l); [|unfold l; apply seq_length]. clearbody l.
    clear Hl. unfold f. induction l as [|x l IH]; [reflexivity|]. simpl. destruct (nth x spatial false); simpl; lia.
  - intros p Hp. apply in_or_app. destruct (f p) eqn:E; [left|right]; apply filter_In; (split; [apply in_seq; lia|]); [exact E|fold (f p); now rewrite E].
Qed.

Lemma inbounds_nth idx shape p : inbounds idx shape -> p < length shape -> nth p idx 0 < nth p shape 1.
Proof.
  revert shape p. induction idx as [|x idx IH]; intros [|s shape] p H Hp; simpl in *; try tauto; try lia.
  destruct H as [H1 H2]. destruct p; [exact H1|]. apply IH; [exact H2|lia].
Qed.

Lemma inbounds_pick idx shape axes : inbounds idx shape -> Forall (fun ax => ax < length shape) axes ->
  inbounds (pick_axes axes idx) (map (fun ax => nth ax shape 1) axes).
Proof.
  intros Hin Hax. induction Hax as [|ax axes Ha Hall IH]; simpl; [exact I|]. split; [now apply inbounds_nth|exact IH].
Qed.

(** the element with full index idx is stored at (row, column) = (C-order offset of its spatial part, of its spectral part),
    and those offsets, read as mixed-radix numbers with the LAST axis fastest, give the parts back *)
Theorem sidpy_element {A} (d : A) (a : nd A) (spatial : list bool) (idx : list nat) :
  length spatial = length (nd_shape a) -> inbounds idx (nd_shape a) ->
  let sp := sp_axes spatial in let sc := sc_axes spatial in
  let spshape := map (fun ax => nth ax (nd_shape a) 1) sp in
  let scshape := map (fun ax => nth ax (nd_shape a) 1) sc in
  let r := ravel spshape (pick_axes sp idx) in
  let c := ravel scshape (pick_axes sc idx) in
  nth (r * prod scshape + c) (nd_data (sidpy_flat d a spatial)) d = nd_get d a idx /\
  nd_shape (sidpy_flat d a spatial) = spshape ++ scshape /\
  r < prod spshape /\ c < prod scshape /\
  digits (rev spshape) r = rev (pick_axes sp idx) /\ digits (rev scshape) c = rev (pick_axes sc idx).
Proof.
  intros Hl Hin. cbv zeta.
  destruct (axes_perm spatial) as (Hnd & Hlen & Hall).
  assert (Hk : length idx = length (nd_shape a)) by (now apply inbounds_length).
  assert (Hlt : forall l, (forall x, In x l -> In x (sp_axes spatial ++ sc_axes spatial)) -> Forall (fun ax => ax < length (nd_shape a)) l).
  { intros l Hsub. apply Forall_forall. intros x Hx. specialize (Hsub x Hx). apply in_app_or in Hsub.
    unfold sp_axes, sc_axes in Hsub. destruct Hsub as [H|H]; apply filter_In in H; destruct H as [H _]; apply in_seq in H; lia. }
  assert (Hsp : inbounds (pick_axes (sp_axes spatial) idx) (map (fun ax => nth ax (nd_shape a) 1) (sp_axes spatial))).
  { apply inbounds_pick; [exact Hin|]. apply Hlt. intros x Hx. apply in_or_app. now left. }
  assert (Hsc : inbounds (pick_axes (sc_axes spatial) idx) (map (fun ax => nth ax (nd_shape a) 1) (sc_axes spatial))).
  { apply inbounds_pick; [exact Hin|]. apply Hlt. intros x Hx. apply in_or_app. now right. }
  assert (Hj : inbounds (pick_axes (sp_axes spatial ++ sc_axes spatial) idx)
                        (map (fun ax => nth ax (nd_shape a) 1) (sp_axes spatial ++ sc_axes spatial))).
  { apply inbounds_pick; [exact Hin|]. apply Hlt. auto. }
  pose proof (nd_transpose_get d a (sp_axes spatial ++ sc_axes spatial) _ Hj) as Hg.
  rewrite scatter_pick in Hg by (try assumption; try lia; intros p Hp; apply Hall; lia).
  fold (sidpy_flat d a spatial) in Hg. unfold nd_get at 1 in Hg.
  assert (Hshape : nd_shape (sidpy_flat d a spatial) =
                   map (fun ax => nth ax (nd_shape a) 1) (sp_axes spatial) ++ map (fun ax => nth ax (nd_shape a) 1) (sc_axes spatial)).
  { unfold sidpy_flat, nd_transpose. cbn [nd_shape]. apply map_app. }
  rewrite Hshape in Hg. unfold pick_axes in Hg at 1. rewrite map_app in Hg. fold (pick_axes (sp_axes spatial) idx) (pick_axes (sc_axes spatial) idx) in Hg.
  rewrite ravel_app in Hg by (unfold pick_axes; now rewrite !map_length).
  split; [exact Hg|]. split; [exact Hshape|].
  split; [now apply ravel_lt|]. split; [now apply ravel_lt|]. split; now apply digits_rev_ravel.
Qed.

(** the ArrayTranslator gate is exact: it lets a call through iff every documented condition holds *)
Theorem at_gate_exact a : at_gate a = None <->
  t_strings a = 0 /\ t_data_kind a = 0 /\ t_rank a = 2 /\ t_pos_ok a = true /\ t_pos_prod a = t_n a /\
  t_spec_ok a = true /\ t_spec_prod a = t_m a /\ t_extra a = 0 \/
  (t_strings a <> 0 /\ t_strings a <> 1 /\ t_strings a <> 2 /\ t_data_kind a = 0 /\ t_rank a = 2 /\ t_pos_ok a = true /\ t_pos_prod a = t_n a /\
   t_spec_ok a = true /\ t_spec_prod a = t_m a /\ t_extra a = 0).
Proof.
  unfold at_gate. destruct a as [st dk rk n m po pp so sp ex]; cbn.
  destruct (Nat.eqb st 1) eqn:E1; [apply Nat.eqb_eq in E1; split; [discriminate|intros [H|H]; lia]|].
  destruct (Nat.eqb st 2) eqn:E2; [apply Nat.eqb_eq in E2; split; [discriminate|intros [H|H]; lia]|].
  apply Nat.eqb_neq in E1, E2.
  destruct (Nat.eqb dk 0) eqn:E3; cbn; [apply Nat.eqb_eq in E3|apply Nat.eqb_neq in E3; split; [discriminate|intros [H|H]; lia]].
  destruct (Nat.eqb rk 2) eqn:E4; cbn; [apply Nat.eqb_eq in E4|apply Nat.eqb_neq in E4; split; [discriminate|intros [H|H]; lia]].
  destruct po; cbn; [|split; [discriminate|intros [H|H]; intuition discriminate]].
  destruct (Nat.eqb pp n) eqn:E5; cbn; [apply Nat.eqb_eq in E5|apply Nat.eqb_neq in E5; split; [discriminate|intros [H|H]; lia]].
  destruct so; cbn; [|split; [discriminate|intros [H|H]; intuition discriminate]].
  destruct (Nat.eqb sp m) eqn:E6; cbn; [apply Nat.eqb_eq in E6|apply Nat.eqb_neq in E6; split; [discriminate|intros [H|H]; lia]].
  destruct ex as [|[|[|[|ex]]]]; (split; [try discriminate; intros _|intros [H|H]; try reflexivity; lia]).
  destruct (Nat.eq_dec st 0); [left|right]; auto 12.
Qed.

Theorem rejected_before_any_file a e : at_gate a = Some e -> at_file_written a = false.
Proof. unfold at_file_written. now intros ->. Qed.
