(** USIDataset.slice: the 2-D path (row / column masks, squeeze + transpose fix-up) and the N-D path
    (dask indexing of the cached N-D view), as written. *)
From Coq Require Import List Arith Lia Bool ZArith.
Require Import V.Base.ListAux V.Base.CorrAux V.Base.Radix V.Base.Matrix V.Base.NdArray V.Usid.ToND.
Import ListNotations.

(** what the caller supplied for one dimension *)
Inductive sel :=
| SAbsent
| SInt (i : Z)                     (* a Python int *)
| SSlice (idxs : list nat)         (* a slice object, already resolved against the dimension size (Python: range over s.indices(n)) *)
| SList (idxs : list Z).           (* list / tuple / ndarray of ints as given *)

(** ** 2-D path *)
(** _get_pos_spec_slices: the index list per dimension, or the exception *)
Definition resolve2d (size : nat) (s : sel) : res (list nat) :=
  match s with
  | SAbsent => Ok (seq 0 size)
  | SInt i => if (i <? 0)%Z then Err ValueE else if (Z.of_nat size <=? i)%Z then Err IndexE else Ok [Z.to_nat i]
  | SSlice idxs => match idxs with [] => Err ValueE | _ => Ok idxs end          (* contains_integers([]) fails *)
  | SList l =>
      match l with
      | [] => Err ValueE
      | _ => if existsb (fun i => (i <? 0)%Z) l then Err ValueE
             else if existsb (fun i => (Z.of_nat size <=? i)%Z) l then Err IndexE
             else Ok (map Z.to_nat l)
      end
  end.

Fixpoint resolve_all (sizes : list nat) (sels : list sel) : res (list (list nat)) :=
  match sizes, sels with
  | [], _ => Ok []
  | n :: ns, s :: ss =>
      match resolve2d n s with
      | Err e => Err e
      | Ok l => match resolve_all ns ss with Err e => Err e | Ok r => Ok (l :: r) end
      end
  | n :: ns, [] => match resolve_all ns [] with Err e => Err e | Ok r => Ok (seq 0 n :: r) end
  end.

(** rows (ascending) whose index along every dimension is among the selected ones: np.argwhere(logical_and(...)) *)
Definition select (vectors : list (list nat)) (chosen : list (list nat)) : list nat :=
  filter (fun r => forallb (fun d => existsb (Nat.eqb (nth d (nth r vectors []) 0)) (nth d chosen []))
                           (seq 0 (length chosen)))
         (seq 0 (length vectors)).

Definition take_rows {A} (m : list (list A)) (rows : list nat) : list (list A) := map (fun r => nth r m []) rows.
Definition take_cols {A} (d : A) (m : list (list A)) (cols : list nat) : list (list A) :=
  map (fun row => map (fun c => nth c row d) cols) m.

(** np.atleast_2d(np.squeeze(x)) followed by the shape-based transposition, on an r x c matrix *)
Definition fixup {A} (d : A) (m : list (list A)) : list (list A) :=
  let r := length m in
  let c := ncols m in
  let flat := concat m in
  (* squeeze: drop the axes of size 1; atleast_2d: rank 0 -> (1,1), rank 1 (n) -> (1,n) *)
  let sq_shape := filter (fun n => negb (Nat.eqb n 1)) [r; c] in
  let shape2 := match sq_shape with [] => (1, 1) | [n] => (1, n) | a :: b :: _ => (a, b) end in
  let reshaped := map (fun i => slice flat (i * snd shape2) (S i * snd shape2)) (seq 0 (fst shape2)) in
  if negb (Nat.eqb (fst shape2) r && Nat.eqb (snd shape2) c) && Nat.eqb (fst shape2) c && Nat.eqb (snd shape2) r
  then transpose2d d reshaped else reshaped.

(** slice(slice_dict, ndim_form=False, lazy): sizes / vectors of the two sides in file order *)
Definition slice2d {A} (d : A) (main : list (list A)) (pos : list (list nat)) (spec_t : list (list nat))
           (psizes ssizes : list nat) (psels ssels : list sel) (lazy : bool) : res (list (list A)) :=
  match resolve_all psizes psels, resolve_all ssizes ssels with
  | Err e, _ => Err e
  | _, Err e => Err e
  | Ok pc, Ok sc =>
      let rows := select pos pc in
      let cols := select spec_t sc in
      let sub := take_cols d (take_rows main rows) cols in
      if lazy then Ok sub else Ok (fixup d sub)
  end.

(** ** N-D path: indexing the cached N-D view *)
(** x[..., i, ...] along axis [ax] (the axis disappears) and x[..., idxs, ...] (the axis stays) *)
Definition nd_take {A} (d : A) (a : nd A) (ax : nat) (idxs : list nat) (keep : bool) : nd A :=
  let shape := nd_shape a in
  let shape' := firstn ax shape ++ (if keep then [length idxs] else []) ++ skipn (S ax) shape in
  let shape_iter := firstn ax shape ++ [length idxs] ++ skipn (S ax) shape in
  mkNd shape'
       (map (fun n => let j := unravel shape_iter n in
                      nd_get d a (firstn ax j ++ [nth (nth ax j 0) idxs 0] ++ skipn (S ax) j))
            (seq 0 (prod shape_iter))).

(** index normalisation of dask / numpy: negative values wrap once, anything else out of range is an IndexError *)
Definition norm_index (size : nat) (i : Z) : res nat :=
  if (0 <=? i)%Z && (i <? Z.of_nat size)%Z then Ok (Z.to_nat i)
  else if (i <? 0)%Z && (- Z.of_nat size <=? i)%Z then Ok (Z.to_nat (i + Z.of_nat size))
  else Err IndexE.

Fixpoint norm_all (size : nat) (l : list Z) : res (list nat) :=
  match l with
  | [] => Ok []
  | i :: r => match norm_index size i, norm_all size r with
              | Ok x, Ok xs => Ok (x :: xs)
              | Err e, _ => Err e
              | _, Err e => Err e
              end
  end.

Definition is_list (s : sel) : bool := match s with SList _ => true | _ => false end.

(** apply the selections axis by axis, last axis first (so earlier axis numbers stay valid) *)
Fixpoint apply_nd {A} (d : A) (a : nd A) (sels : list sel) (ax : nat) : res (nd A) :=
  match sels with
  | [] => Ok a
  | s :: r =>
      match apply_nd d a r (S ax) with
      | Err e => Err e
      | Ok a' =>
          let size := nth ax (nd_shape a') 1 in
          match s with
          | SAbsent => Ok a'
          | SInt i => match norm_index size i with Err e => Err e | Ok x => Ok (nd_take d a' ax [x] false) end
          | SSlice idxs => Ok (nd_take d a' ax idxs true)
          | SList l => match norm_all size l with Err e => Err e | Ok xs => Ok (nd_take d a' ax xs true) end
          end
      end
  end.

(** __slice_n_dim_form on the current view; dask refuses more than one list index *)
(** dask checks every index against the axis bounds before it looks at the kind of indexing *)
Fixpoint bounds_ok (shape : list nat) (sels : list sel) : bool :=
  match shape, sels with
  | n :: ns, s :: ss =>
      (match s with
       | SInt i => match norm_index n i with Ok _ => true | Err _ => false end
       | SList l => match norm_all n l with Ok _ => true | Err _ => false end
       | _ => true
       end) && bounds_ok ns ss
  | _, _ => true
  end.

Definition slice_nd {A} (d : A) (view : nd A) (sels : list sel) : res (nd A) :=
  if negb (bounds_ok (nd_shape view) sels) then Err IndexE
  else if Nat.ltb 1 (length (filter is_list sels)) then Err NotImplE else apply_nd d view sels 0.
