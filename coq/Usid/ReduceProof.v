(** Facts about the reduce model. *)
From Coq Require Import List Arith Lia Bool Sorted.
Require Import V.Base.ListAux V.Base.Radix V.Base.Matrix V.Base.NdArray V.Usid.SortOrder V.Usid.ToND V.Usid.FromND
               V.Usid.Grid V.Usid.SelEnum V.Usid.Reduce.
Import ListNotations.

(** ** all_idx enumerates exactly the in-bounds indices *)
Lemma unravel_inbounds shape : Forall (fun s => 0 < s) shape -> forall n, n < prod shape -> inbounds (unravel shape n) shape.
Proof.
  induction 1 as [|s ss Hs Hall IH]; intros n Hn; simpl in *; [exact I|].
  assert (Hp : 0 < prod ss) by (now apply prod_pos).
  split.
  - apply Nat.div_lt_upper_bound; lia.
  - apply IH. apply Nat.mod_upper_bound. lia.
Qed.

Lemma in_all_idx shape i : Forall (fun s => 0 < s) shape -> (In i (all_idx shape) <-> inbounds i shape).
Proof.
  intros Hpos. unfold all_idx. rewrite in_map_iff. split.
  - intros (n & <- & Hn). apply in_seq in Hn. apply unravel_inbounds; [exact Hpos|lia].
  - intros Hi. exists (ravel shape i). split; [now apply unravel_ravel|]. apply in_seq. pose proof (ravel_lt shape i Hi). lia.
Qed.

Lemma all_idx_length shape : length (all_idx shape) = prod shape.
Proof. unfold all_idx. now rewrite map_length, seq_length. Qed.

Lemma nth_all_idx shape j : inbounds j shape -> nth (ravel shape j) (all_idx shape) [] = j.
Proof.
  intros Hj. unfold all_idx. pose proof (ravel_lt shape j Hj) as Hlt.
  rewrite (nth_map' (unravel shape) (seq 0 (prod shape)) (ravel shape j) 0 []) by (now rewrite seq_length).
  rewrite seq_nth by exact Hlt. now apply unravel_ravel.
Qed.

(** ** the value at a kept index is f of the fibre over it *)
Theorem nd_reduce_get {A} (d : A) (f : list A -> A) (a : nd A) (axes j : list nat) :
  let flags := ax_flags (length (nd_shape a)) axes in
  inbounds j (part false flags (nd_shape a)) ->
  nd_get d (nd_reduce d f a axes) j = f (map (fun i => nd_get d a (merge flags j i)) (all_idx (part true flags (nd_shape a)))).
Proof.
  cbv zeta. intros Hj. unfold nd_reduce, nd_get at 1. cbn [nd_shape nd_data].
  set (ks := part false _ _) in *. pose proof (ravel_lt ks j Hj) as Hlt.
  rewrite (nth_map' _ (all_idx ks) (ravel ks j) [] d) by (now rewrite all_idx_length).
  now rewrite nth_all_idx.
Qed.

(** merge puts the kept / reduced parts back where they came from *)
Lemma merge_parts flags : forall idx, length idx = length flags -> merge flags (part false flags idx) (part true flags idx) = idx.
Proof.
  induction flags as [|fl flags IH]; intros [|x idx] H; simpl in *; try discriminate; [reflexivity|].
  destruct fl; simpl; f_equal; apply IH; lia.
Qed.

Lemma part_merge flags : forall j i, length j = length (filter negb flags) -> length i = length (filter (fun b => b) flags) ->
  part false flags (merge flags j i) = j /\ part true flags (merge flags j i) = i.
Proof.
  induction flags as [|fl flags IH]; intros j i Hj Hi; simpl in *.
  - destruct j, i; try discriminate. auto.
  - destruct fl; simpl in *.
    + destruct i as [|x i]; [discriminate|]. simpl in *. destruct (IH j i Hj ltac:(lia)) as [H1 H2]. split; [exact H1|now f_equal].
    + destruct j as [|x j]; [discriminate|]. simpl in *. destruct (IH j i ltac:(lia) Hi) as [H1 H2]. split; [now f_equal|exact H2].
Qed.

Lemma inbounds_part b flags : forall idx shape, inbounds idx shape -> length shape = length flags ->
  inbounds (part b flags idx) (part b flags shape).
Proof.
  induction flags as [|fl flags IH]; intros [|x idx] [|s shape] H Hl; simpl in *; try tauto; try discriminate.
  destruct H as [H1 H2]. destruct (Bool.eqb fl b); simpl; [split; [exact H1|]|]; apply IH; auto.
Qed.

(** every in-bounds full index lies in exactly the fibre over its own kept part *)
Theorem fibre_membership (shape : list nat) (axes : list nat) (idx : list nat) :
  let flags := ax_flags (length shape) axes in
  Forall (fun s => 0 < s) shape -> inbounds idx shape ->
  In idx (map (merge flags (part false flags idx)) (all_idx (part true flags shape))) /\
  inbounds (part false flags idx) (part false flags shape).
Proof.
  cbv zeta. intros Hpos Hin.
  assert (Hl : length shape = length (ax_flags (length shape) axes)) by (unfold ax_flags; now rewrite map_length, seq_length).
  split; [|now apply inbounds_part].
  apply in_map_iff. exists (part true (ax_flags (length shape) axes) idx). split.
  - apply merge_parts. rewrite (inbounds_length _ _ Hin). exact Hl.
  - apply in_all_idx; [|now apply inbounds_part].
    clear -Hpos Hl. revert Hl. generalize (ax_flags (length shape) axes). induction Hpos as [|s shape Hs Hall IH]; intros [|fl flags] Hl; simpl in *; try constructor; try discriminate.
    destruct (Bool.eqb fl true); [constructor; [exact Hs|]|]; apply IH; lia.
Qed.

(** ** which columns write_reduced keeps, at digit level: count, and the coordinates of the j-th one *)
Lemma seq_sorted n : forall a, StronglySorted lt (seq a n).
Proof.
  induction n as [|n IH]; intros a; simpl; constructor; [apply IH|].
  apply Forall_forall. intros x Hx. apply in_seq in Hx. lia.
Qed.

Lemma red_choice_good sz so red : wf_grid sz so -> Forall2 good (red_choice sz so red) (radices sz so).
Proof.
  intros Hwf. pose proof (radices_pos sz so Hwf) as Hpos. clear Hwf. unfold red_choice, radices in *.
  induction so as [|d so IH]; simpl in *; constructor.
  - inversion Hpos as [|? ? Hd _]; subst. destruct (is_ax red d); unfold good.
    + repeat split; [repeat constructor|constructor; [exact Hd|constructor]|discriminate].
    + repeat split.
      * apply seq_sorted.
      * apply Forall_forall. intros x Hx. apply in_seq in Hx. lia.
      * destruct (nth d sz 1); [lia|discriminate].
  - apply IH. now inversion Hpos.
Qed.

Theorem reduced_cols_count sz so red : wf_grid sz so ->
  length (reduced_cols_digits sz so red) = prod (map (fun d => if is_ax red d then 1 else nth d sz 1) so).
Proof.
  intros Hwf. unfold reduced_cols_digits. rewrite sel_rows_length by (now apply red_choice_good).
  f_equal. unfold red_choice. rewrite map_map. apply map_ext. intros d. destruct (is_ax red d); [reflexivity|apply seq_length].
Qed.

(** the j-th kept column has digit 0 along every reduced dimension and, along the kept ones, the digits of j in the
    mixed radix of the kept sizes (same relative order): the kept columns enumerate the remaining grid exactly once *)
Theorem reduced_cols_coordinates sz so red j p : wf_grid sz so ->
  let lens := map (fun d => if is_ax red d then 1 else nth d sz 1) so in
  j < prod lens -> p < length so ->
  nth p (digits (radices sz so) (nth j (reduced_cols_digits sz so red) 0)) 0 =
    if is_ax red (nth p so 0) then 0 else nth p (digits lens j) 0.
Proof.
  cbv zeta. intros Hwf Hj Hp. unfold reduced_cols_digits.
  assert (Hlens : map (@length nat) (red_choice sz so red) = map (fun d => if is_ax red d then 1 else nth d sz 1) so).
  { unfold red_choice. rewrite map_map. apply map_ext. intros d. destruct (is_ax red d); [reflexivity|apply seq_length]. }
  rewrite sel_rows_digits by (try (now apply red_choice_good); now rewrite Hlens).
  rewrite Hlens. set (lens := map _ so) in *.
  assert (Hd : length (digits lens j) = length so) by (rewrite digits_length; unfold lens; now rewrite map_length).
  assert (Hdig : forall q, q < length so -> nth q (digits lens j) 0 < nth q lens 1).
  { intros q Hq. pose proof (digits_inb lens j) as Hin.
    assert (Hlpos : Forall (fun r => 0 < r) lens).
    { rewrite <- Hlens. now apply (good_lengths_pos _ (radices sz so)), red_choice_good. }
    specialize (Hin Hlpos). assert (Hql : q < length lens) by (unfold lens; now rewrite map_length).
    clear -Hin Hql. revert q Hql Hin. generalize (digits lens j). induction lens as [|l ls IH]; intros ds q Hq Hin; [simpl in Hq; lia|].
    destruct ds as [|d ds]; [contradiction|]. destruct Hin as [H1 H2]. destruct q; simpl; [exact H1|]. apply IH; [simpl in Hq; lia|exact H2]. }
  specialize (Hdig p Hp). unfold lens in *. clear Hj Hlens lens Hwf. unfold red_choice.
  revert p Hp Hd Hdig. generalize (digits (map (fun d => if is_ax red d then 1 else nth d sz 1) so) j).
  induction so as [|d so IH]; intros ds p Hp Hd Hdig; [simpl in Hp; lia|].
  destruct ds as [|x ds]; [discriminate|]. destruct p as [|p]; simpl in *.
  - destruct (is_ax red d); simpl in *; [assert (x = 0) by lia; now subst|]. apply seq_nth. exact Hdig.
  - apply IH; [lia|lia|exact Hdig].
Qed.

(** ** fewer than two axes left: the call raises instead of writing a malformed dataset *)
Theorem reduce_file_needs_two_axes main pos spec dims f red :
  reduce_mem main pos spec dims f = Ok red -> length (nd_shape red) < 2 ->
  exists e, reduce_file main pos spec dims f = Err e.
Proof.
  intros Hm Hlt. unfold reduce_file. rewrite Hm.
  destruct (filter _ dims) as [|p0 pr]; destruct (map _ (filter _ dims)) as [|s0 sr];
    repeat match goal with |- context [let '(_, _) := ?X in _] => destruct X end;
    unfold from_nd; apply Nat.ltb_lt in Hlt; rewrite Hlt; cbn; eauto.
Qed.
