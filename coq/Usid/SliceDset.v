(** USIDataset.slice_to_dataset (after repairs 9af1ddc, ee59301), index level: the rows / columns kept by the 2-D slice,
    the Dimension descriptors handed to write_main_dataset (remaining dimensions in the order in which they vary,
    fastest first; single-valued ones dropped; a placeholder if none is left), the new ancillary matrices. *)
From Coq Require Import List Arith Lia Bool Sorted.
Require Import V.Base.ListAux V.Base.Radix V.Base.Matrix V.Usid.AncBuild V.Usid.AncBuildPos V.Usid.Grid V.Usid.SelEnum.
Import ListNotations.

(** one side of the source: size of every dimension (file column order), storage order [so] (dimension numbers, fastest
    first), chosen indices per dimension (the full range for a dimension absent from the slice dictionary), and whether any
    dimension of this side is mentioned in the dictionary *)
Record sside := mkSide { ss_sz : list nat; ss_so : list nat; ss_ch : list (list nat); ss_sliced : bool }.

Definition rs_of (s : sside) : list nat := radices (ss_sz s) (ss_so s).
Definition ch_of (s : sside) : list (list nat) := map (fun d => nth d (ss_ch s) []) (ss_so s).
Definition lens_of (s : sside) : list nat := map (@length nat) (ch_of s).
(** rows (columns) of the source that the 2-D slice keeps, in source order *)
Definition side_rows (s : sside) : list nat := sel_rows (rs_of s) (ch_of s).
(** source index of row r along the p-th fastest dimension *)
Definition src_index (s : sside) (r p : nat) : nat := nth p (digits (rs_of s) r) 0.

Definition keep (s : sside) (d : nat) : bool := Nat.leb 2 (length (nth d (ss_ch s) [])).
(** remaining dimensions, fastest first *)
Definition remaining (s : sside) : list nat := filter (keep s) (ss_so s).
(** what is handed to the writer: (dimension number, chosen indices) -- the placeholder has number [length sz] *)
Definition new_dims (s : sside) : list (nat * list nat) :=
  match remaining s with
  | [] => [(length (ss_sz s), [0])]
  | rem => map (fun d => (d, nth d (ss_ch s) [])) rem
  end.

Inductive newside := Reused | Written (labels : list nat) (inds vals : list (list nat)).
Definition new_side (s : sside) (is_spec : bool) : newside :=
  if ss_sliced s then let '(wi, wv, wl) := write_ind_val 0 (new_dims s) is_spec false in Written wl wi wv else Reused.

(** identities of the elements of the new dataset (source element (r, c) has identity r * M + c) *)
Definition new_data (M : nat) (p s : sside) : list (list nat) :=
  map (fun r => map (fun c => r * M + c) (side_rows s)) (side_rows p).

(** well-formed request: [so] is a permutation of the dimensions, sizes positive, every selection good for its size *)
Definition wf_side (s : sside) : Prop :=
  wf_grid (ss_sz s) (ss_so s) /\ Forall2 good (ch_of s) (rs_of s).

(** * Facts *)
Lemma lens_pos s : wf_side s -> Forall (fun l => 0 < l) (lens_of s).
Proof. intros [_ H]. now apply (good_lengths_pos _ (rs_of s)). Qed.

Lemma lens_length s : length (lens_of s) = length (ss_so s).
Proof. unfold lens_of, ch_of. now rewrite !map_length. Qed.

Lemma nth_lens s p : p < length (ss_so s) -> nth p (lens_of s) 0 = length (nth (nth p (ss_so s) 0) (ss_ch s) []).
Proof.
  intros Hp. unfold lens_of, ch_of. rewrite map_map.
  rewrite (nth_indep _ 0 ((fun d => length (nth d (ss_ch s) [])) 0)) by (now rewrite map_length).
  apply (map_nth (fun d => length (nth d (ss_ch s) [])) (ss_so s) 0 p).
Qed.

Lemma remaining_lens s : map (fun d => length (nth d (ss_ch s) [])) (remaining s) = drop_ones (lens_of s).
Proof.
  unfold remaining, lens_of, ch_of, keep. rewrite map_map.
  induction (ss_so s) as [|d so IH]; [reflexivity|]. cbn [filter map drop_ones].
  destruct (Nat.leb 2 (length (nth d (ss_ch s) []))); cbn [map]; now rewrite IH.
Qed.

Lemma nth_remaining s p : p < length (ss_so s) -> keep s (nth p (ss_so s) 0) = true ->
  nth (kept_before (lens_of s) p) (remaining s) 0 = nth p (ss_so s) 0 /\ kept_before (lens_of s) p < length (remaining s).
Proof.
  unfold remaining, lens_of, ch_of, keep. rewrite map_map. revert p.
  induction (ss_so s) as [|d so IH]; intros p Hp Hk; [simpl in Hp; lia|].
  cbn [filter map kept_before]. destruct p as [|p].
  - cbn [nth] in Hk. rewrite Hk. cbn. split; [reflexivity|lia].
  - cbn [nth length] in *. destruct (IH p ltac:(lia) Hk) as [H1 H2].
    destruct (Nat.leb 2 (length (nth d (ss_ch s) []))); cbn [Nat.add nth length]; (split; [exact H1|lia]).
Qed.

Lemma side_rows_length s : wf_side s -> length (side_rows s) = prod (lens_of s).
Proof. intros [_ H]. now apply sel_rows_length. Qed.

(** the source index of the j-th kept row along the p-th fastest dimension is the chosen index addressed by digit p of j *)
Lemma src_index_kept s j p : wf_side s -> j < prod (lens_of s) -> p < length (ss_so s) ->
  src_index s (nth j (side_rows s) 0) p = nth (nth p (digits (lens_of s) j) 0) (nth (nth p (ss_so s) 0) (ss_ch s) []) 0.
Proof.
  intros [Hwf Hg] Hj Hp. unfold src_index, side_rows. rewrite (sel_rows_digits _ _ j Hg Hj).
  unfold lens_of.
  assert (Hd : length (digits (map (@length nat) (ch_of s)) j) = length (ch_of s)) by (now rewrite digits_length, map_length).
  revert Hd. generalize (digits (map (@length nat) (ch_of s)) j). intros ds Hd.
  assert (Hl : length (ch_of s) = length (ss_so s)) by (unfold ch_of; now rewrite map_length).
  assert (Hn : nth p (ch_of s) [] = nth (nth p (ss_so s) 0) (ss_ch s) []).
  { unfold ch_of. rewrite (nth_indep _ [] ((fun d => nth d (ss_ch s) []) 0)) by (now rewrite map_length).
    apply (map_nth (fun d => nth d (ss_ch s) []) (ss_so s) 0 p). }
  rewrite <- Hn. clear Hn. revert p ds Hp Hd. rewrite <- Hl. clear.
  induction (ch_of s) as [|c ch IH]; intros p ds Hp Hd; [simpl in Hp; lia|].
  destruct ds as [|d ds]; [discriminate|]. destruct p as [|p]; simpl; [reflexivity|].
  apply IH; simpl in *; lia.
Qed.

(** * Coordinates of the new dataset *)
Lemma new_dims_rem s : remaining s <> [] -> new_dims s = map (fun d => (d, nth d (ss_ch s) [])) (remaining s).
Proof. unfold new_dims. destruct (remaining s); [congruence|reflexivity]. Qed.

Lemma chosen_nonempty s d : wf_side s -> In d (ss_so s) -> 0 < length (nth d (ss_ch s) []).
Proof.
  intros Hwf Hd. pose proof (lens_pos s Hwf) as Hl. rewrite Forall_forall in Hl. apply Hl.
  unfold lens_of, ch_of. rewrite map_map. now apply (in_map (fun d => length (nth d (ss_ch s) []))).
Qed.

Section Written.
  Variables (s : sside) (j p : nat).
  Hypothesis Hwf : wf_side s.
  Hypothesis Hrem : remaining s <> [].
  Hypothesis Hj : j < prod (lens_of s).
  Hypothesis Hp : p < length (ss_so s).
  Hypothesis Hkeep : keep s (nth p (ss_so s) 0) = true.
  Let k' := length (remaining s).
  Let kb := kept_before (lens_of s) p.
  Let col := k' - S kb.

  Lemma kb_lt : kb < k'.
  Proof. apply (nth_remaining s p Hp Hkeep). Qed.

  Lemma dims_facts :
    let dims := new_dims s in
    length dims = k' /\ map (fun d : nat * list nat => length (snd d)) dims = drop_ones (lens_of s) /\
    Forall (fun d : nat * list nat => 0 < length (snd d)) dims /\
    nth kb dims (0, []) = (nth p (ss_so s) 0, nth (nth p (ss_so s) 0) (ss_ch s) []).
  Proof.
    cbv zeta. rewrite (new_dims_rem s Hrem). split; [now rewrite map_length|]. split; [rewrite map_map; apply remaining_lens|]. split.
    - apply Forall_forall. intros [d c] Hin. apply in_map_iff in Hin. destruct Hin as (d' & [= <- <-] & Hd').
      cbn [snd]. apply chosen_nonempty; [exact Hwf|]. unfold remaining in Hd'. apply filter_In in Hd'. tauto.
    - destruct (nth_remaining s p Hp Hkeep) as [H1 H2].
      rewrite (nth_indep _ (0, []) ((fun d => (d, nth d (ss_ch s) [])) 0)) by (rewrite map_length; exact H2).
      rewrite (map_nth (fun d => (d, nth d (ss_ch s) [])) (remaining s) 0 kb). fold kb in H1. now rewrite H1.
  Qed.

  Lemma digit_kb : nth kb (digits (drop_ones (lens_of s)) j) 0 = nth p (digits (lens_of s) j) 0.
  Proof.
    apply digits_drop_ones; [now apply lens_pos|now rewrite lens_length|].
    rewrite nth_lens by exact Hp. unfold keep in Hkeep. now apply Nat.leb_le.
  Qed.

  (** position shape: row j, column [col] *)
  Theorem written_pos_coordinates :
    let '(wi, wv, wl) := write_ind_val 0 (new_dims s) false false in
    nth col wl 0 = nth p (ss_so s) 0 /\
    nth col (nth j wv []) 0 = src_index s (nth j (side_rows s) 0) p /\
    nth col (nth j wi []) 0 = nth p (digits (lens_of s) j) 0 /\
    length wi = length (side_rows s) /\ length (nth j wi []) = k'.
  Proof.
    pose proof (written_position_rows 0 0 (new_dims s) false col j) as W. cbv zeta in W.
    destruct dims_facts as (Hlen & Hlens & Hpos & Hnth).
    destruct (write_ind_val 0 (new_dims s) false false) as [[wi wv] wl].
    rewrite Hlens, Hlen in W. pose proof kb_lt as Hkb.
    assert (Hcol : k' - S col = kb) by (unfold col; lia).
    rewrite Hcol in W. rewrite prod_drop_ones in W by (now apply lens_pos).
    specialize (W Hpos ltac:(unfold col; lia) Hj). destruct W as (W1 & W2 & W3 & W4 & W5).
    rewrite Hnth in W1, W3. cbn [fst snd] in W1, W3. rewrite digit_kb in W2, W3.
    rewrite side_rows_length by exact Hwf. rewrite (src_index_kept s j p Hwf Hj Hp). auto.
  Qed.

  (** spectroscopic shape: row [col], column j *)
  Theorem written_spec_coordinates :
    let '(wi, wv, wl) := write_ind_val 0 (new_dims s) true false in
    nth col wl 0 = nth p (ss_so s) 0 /\
    nth j (nth col wv []) 0 = src_index s (nth j (side_rows s) 0) p /\
    nth j (nth col wi []) 0 = nth p (digits (lens_of s) j) 0 /\
    length wi = k' /\ length (nth col wi []) = length (side_rows s).
  Proof.
    pose proof (written_spectral_rows 0 0 (new_dims s) false col j) as W. cbv zeta in W.
    destruct dims_facts as (Hlen & Hlens & Hpos & Hnth).
    destruct (write_ind_val 0 (new_dims s) true false) as [[wi wv] wl].
    rewrite Hlens, Hlen in W. pose proof kb_lt as Hkb.
    assert (Hcol : k' - S col = kb) by (unfold col; lia).
    rewrite Hcol in W. rewrite prod_drop_ones in W by (now apply lens_pos).
    specialize (W Hpos ltac:(unfold col; lia) Hj). destruct W as (W1 & W2 & W3 & W4 & W5).
    rewrite Hnth in W1, W3. cbn [fst snd] in W1, W3. rewrite digit_kb in W2, W3.
    rewrite side_rows_length by exact Hwf. rewrite (src_index_kept s j p Hwf Hj Hp). auto.
  Qed.
End Written.

(** a dimension left with a single value has that value at every kept row (so nothing is lost by dropping it) *)
Theorem dropped_dimension_constant s j p : wf_side s -> j < prod (lens_of s) -> p < length (ss_so s) ->
  keep s (nth p (ss_so s) 0) = false ->
  src_index s (nth j (side_rows s) 0) p = nth 0 (nth (nth p (ss_so s) 0) (ss_ch s) []) 0.
Proof.
  intros Hwf Hj Hp Hk. rewrite (src_index_kept s j p Hwf Hj Hp). f_equal.
  assert (Hl : nth p (lens_of s) 0 = 1).
  { pose proof (lens_pos s Hwf) as Hpos. rewrite Forall_forall in Hpos.
    assert (0 < nth p (lens_of s) 0) by (apply Hpos, nth_In; now rewrite lens_length).
    rewrite nth_lens in * by exact Hp. unfold keep in Hk. apply Nat.leb_gt in Hk. lia. }
  assert (Hd : nth p (digits (lens_of s) j) 0 < nth p (lens_of s) 0).
  { pose proof (digits_inb (lens_of s) j (lens_pos s Hwf)) as Hin.
    assert (Hlp : p < length (lens_of s)) by (now rewrite lens_length).
    clear -Hin Hlp. revert p Hlp Hin. generalize (digits (lens_of s) j). induction (lens_of s) as [|l ls IH]; intros ds p Hlp Hin; [simpl in Hlp; lia|].
    destruct ds as [|d ds]; [contradiction|]. destruct Hin as [H1 H2]. destruct p as [|p]; simpl; [exact H1|]. apply IH; [simpl in Hlp; lia|exact H2]. }
  lia.
Qed.

(** the kept rows are exactly the rows whose every index is chosen -- none missing, none twice, source order *)
Theorem kept_rows_exact s r : In r (side_rows s) <-> r < prod (rs_of s) /\ sel_ok (digits (rs_of s) r) (ch_of s) = true.
Proof. apply sel_rows_spec. Qed.
Theorem kept_rows_increasing s : StronglySorted lt (side_rows s).
Proof. apply sel_rows_sorted. Qed.
Theorem kept_rows_count s : wf_side s -> length (side_rows s) = prod (lens_of s).
Proof. apply side_rows_length. Qed.

(** element (j, l) of the new dataset is the source element at (j-th kept row, l-th kept column) *)
Theorem new_data_entry M p s j l : j < length (side_rows p) -> l < length (side_rows s) ->
  nth l (nth j (new_data M p s) []) 0 = nth j (side_rows p) 0 * M + nth l (side_rows s) 0.
Proof.
  intros Hj Hl. unfold new_data.
  rewrite (nth_indep _ [] ((fun r => map (fun c => r * M + c) (side_rows s)) 0)) by (now rewrite map_length).
  rewrite (map_nth (fun r => map (fun c => r * M + c) (side_rows s)) (side_rows p) 0 j).
  rewrite (nth_indep _ 0 ((fun c => nth j (side_rows p) 0 * M + c) 0)) by (now rewrite map_length).
  apply (map_nth (fun c => nth j (side_rows p) 0 * M + c) (side_rows s) 0 l).
Qed.
