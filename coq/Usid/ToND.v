(** hdf_utils.reshape_to_n_dims and the sorted / unsorted views of USIDataset. *)
From Coq Require Import List Arith Lia Bool.
Require Import V.Base.ListAux V.Base.Radix V.Base.Matrix V.Base.NdArray V.Usid.SortOrder.
Import ListNotations.

Inductive exn := ValueE | TypeE | KeyE | IndexE | NotImplE | OtherE.
Inductive res (A : Type) := Ok (a : A) | Err (e : exn).
Arguments Ok {A} a. Arguments Err {A} e.

(** Labels are abstracted to identifiers: position dimension d (file order) is d, spectroscopic
    dimension e is kp + e (labels are required to be pairwise distinct). *)
Definition to_nd {A} (d : A) (main : list (list A)) (pos : list (list nat)) (spec : list (list nat)) (sort_dims : bool)
  : res (nd A * list nat) :=
  let kp := ncols pos in
  let ks := length spec in
  let pos_t := transpose2d 0 pos in
  let pos_sort := get_sort_order pos_t in
  let spec_sort := get_sort_order spec in
  let pos_dims := get_dimensionality pos_t pos_sort in
  let spec_dims := get_dimensionality spec spec_sort in
  if negb (Nat.eqb (prod pos_dims) (length main)) then Err ValueE
  else if negb (Nat.eqb (prod spec_dims) (ncols main)) then Err ValueE
  else
    let a := mkNd (rev pos_dims ++ rev spec_dims) (concat main) in
    let all_labels := rev pos_sort ++ map (fun e => kp + e) (rev spec_sort) in
    if sort_dims then Ok (a, all_labels)
    else if negb (forallb (fun lab => existsb (Nat.eqb lab) all_labels) (seq 0 (kp + ks))) then
      (* a label without a match gives an empty argwhere result; np.array(swap_axes) is then ragged and numpy raises *)
      Err ValueE
    else
      let swap := map (fun lab => index_of lab all_labels) (seq 0 (kp + ks)) in
      Ok (nd_transpose d a swap, map (fun ax => nth ax all_labels 0) swap).

(** USIDataset: what __init__ caches, and what labels / sizes / N-D form are reported in each view *)
Record view (A : Type) := mkView {
  v_sorted : bool;                  (* __sort_dims *)
  v_orig : nd A;                    (* __n_dim_data_orig *)
  v_s2f : nd A;                     (* __n_dim_data_s2f *)
  v_labels : list nat;              (* __orig_n_dim_labs (ids) *)
  v_sizes : list nat;               (* __orig_n_dim_sizes *)
  v_order : list nat }.             (* __n_dim_sort_order_orig_s2f *)
Arguments mkView {A}. Arguments v_sorted {A}. Arguments v_orig {A}. Arguments v_s2f {A}.
Arguments v_labels {A}. Arguments v_sizes {A}. Arguments v_order {A}.

Definition view_init {A} (d : A) (main : list (list A)) (pos spec : list (list nat)) (sort_dims : bool) : res (view A) :=
  let kp := ncols pos in
  let pos_t := transpose2d 0 pos in
  let sizes := get_dimensionality pos_t (seq 0 kp) ++ get_dimensionality spec (seq 0 (length spec)) in
  let pos_sort := get_sort_order pos_t in
  let spec_sort := get_sort_order spec in
  let order := rev pos_sort ++ map (fun e => kp + e) (rev spec_sort) in
  (* self.__n_dim_data_orig, success = reshape_to_n_dims(self, sort_dims=False, lazy=True) *)
  match to_nd d main pos spec false with
  | Err e => Err e
  | Ok (orig, _) => Ok (mkView sort_dims orig (nd_transpose d orig order) (seq 0 (kp + length spec)) sizes order)
  end.

Definition view_toggle {A} (v : view A) : view A :=
  mkView (negb (v_sorted v)) (v_orig v) (v_s2f v) (v_labels v) (v_sizes v) (v_order v).

Definition view_labels {A} (v : view A) : list nat :=
  if v_sorted v then map (fun i => nth i (v_labels v) 0) (v_order v) else v_labels v.
Definition view_sizes {A} (v : view A) : list nat :=
  if v_sorted v then map (fun i => nth i (v_sizes v) 0) (v_order v) else v_sizes v.
Definition view_form {A} (v : view A) : nd A := if v_sorted v then v_s2f v else v_orig v.
