(** reshape_from_n_dims (model: Usid/FromND.v) inverts reshape_to_n_dims (Usid/ToND.v): generic transpose round trip,
    then the statement relative to the computed sort orders; instantiated on regular grids in Props/C10.v. *)
From Coq Require Import List Arith Lia Bool Permutation.
Require Import V.Base.ListAux V.Base.CorrAux V.Base.Radix V.Base.Matrix V.Base.NdArray V.Usid.SortOrder V.Usid.AncBuild V.Usid.ToND V.Usid.ToNDProof
               V.Usid.Grid V.Usid.FromND.
Import ListNotations.

Lemma ravel_unravel shape : Forall (fun s => 0 < s) shape -> forall n, n < prod shape -> ravel shape (unravel shape n) = n.
Proof.
  induction 1 as [|s ss Hs Hall IH]; intros n Hn; simpl in *; [lia|].
  assert (Hp : 0 < prod ss) by (now apply prod_pos).
  rewrite IH by (apply Nat.mod_upper_bound; lia).
  rewrite Nat.mul_comm. symmetry. apply Nat.div_mod. lia.
Qed.

Lemma unravel_inbounds' shape : Forall (fun s => 0 < s) shape -> forall n, n < prod shape -> inbounds (unravel shape n) shape.
Proof.
  induction 1 as [|s ss Hs Hall IH]; intros n Hn; simpl in *; [exact I|].
  assert (Hp : 0 < prod ss) by (now apply prod_pos).
  split; [apply Nat.div_lt_upper_bound; lia|]. apply IH. apply Nat.mod_upper_bound. lia.
Qed.

(** transposing by the inverse of L and then by L gives the array back *)
Theorem nd_transpose_roundtrip {A} (d : A) (a0 : nd A) (L : list nat) (k : nat) :
  perm_of L k -> length (nd_shape a0) = k -> Forall (fun s => 0 < s) (nd_shape a0) -> length (nd_data a0) = prod (nd_shape a0) ->
  nd_transpose d (nd_transpose d a0 (inv_perm L)) L = a0.
Proof.
  intros HL Hk Hpos Hdata. pose proof HL as (Hnd & Hlen & Hlt).
  destruct a0 as [shape0 data0]. cbn [nd_shape nd_data] in *.
  set (shape1 := map (fun ax => nth ax shape0 1) (inv_perm L)).
  assert (Hs1 : forall ax, ax < k -> nth ax shape1 1 = nth (index_of ax L) shape0 1).
  { intros ax Hax. unfold shape1. rewrite (nth_map' (fun ax' => nth ax' shape0 1) (inv_perm L) ax 0 1) by (rewrite inv_perm_length; lia).
    now rewrite nth_inv_perm by lia. }
  assert (Hshape : map (fun ax => nth ax shape1 1) L = shape0).
  { apply (nth_ext _ _ 1 1); [rewrite map_length; lia|]. intros i Hi. rewrite map_length in Hi.
    rewrite (nth_map' (fun ax => nth ax shape1 1) L i 0 1) by exact Hi.
    rewrite Hs1 by (apply Hlt, nth_In; exact Hi). now rewrite index_of_nth by (try assumption; lia). }
  unfold nd_transpose at 1. cbn [nd_shape]. fold shape1.
  assert (Hsh1 : nd_shape (nd_transpose d (mkNd shape0 data0) (inv_perm L)) = shape1) by reflexivity.
  rewrite Hsh1, Hshape. f_equal.
  apply (nth_ext _ _ d d); [rewrite map_length, seq_length; lia|].
  intros n Hn. rewrite map_length, seq_length in Hn. rewrite nth_map_seq by exact Hn.
  pose proof (unravel_inbounds' shape0 Hpos n Hn) as Hidx. set (idx := unravel shape0 n) in *.
  assert (Hli : length idx = k) by (rewrite (inbounds_length _ _ Hidx); exact Hk).
  assert (Hin1 : inbounds (scatter L idx) shape1).
  { assert (Hl1 : length shape1 = k) by (unfold shape1; rewrite map_length, inv_perm_length; exact Hlen).
    apply inbounds_pointwise. split; [unfold scatter; rewrite map_length, seq_length; lia|].
    rewrite Hl1. intros ax Hax. unfold scatter. rewrite Hlen, nth_map_seq by exact Hax. rewrite Hs1 by exact Hax.
    apply inbounds_pointwise in Hidx. destruct Hidx as [_ Hidx]. apply Hidx.
    destruct (nth_index_of ax L (perm_of_in L k ax HL Hax)) as [_ H]. lia. }
  rewrite nd_transpose_get by (cbn [nd_shape]; exact Hin1).
  rewrite (scatter_inv_perm L k) by exact HL.
  assert (Hback : map (fun ax => nth (nth ax L 0) (scatter L idx) 0) (seq 0 k) = idx).
  { apply (nth_ext _ _ 0 0); [rewrite map_length, seq_length; lia|]. intros i Hi. rewrite map_length, seq_length in Hi.
    rewrite nth_map_seq by exact Hi. unfold scatter. rewrite Hlen.
    assert (Hx : nth i L 0 < k) by (apply Hlt, nth_In; lia).
    rewrite nth_map_seq by exact Hx. now rewrite index_of_nth by (try assumption; lia). }
  rewrite Hback. unfold nd_get. cbn [nd_shape nd_data]. unfold idx. now rewrite ravel_unravel.
Qed.

Lemma prod_map_perm (shape L : list nat) k : perm_of L k -> length shape = k -> prod (map (fun ax => nth ax shape 1) L) = prod shape.
Proof.
  intros HL Hk. assert (HP : Permutation L (seq 0 k)).
  { destruct HL as (Hnd & Hlen & Hlt). apply NoDup_Permutation_bis; [exact Hnd|rewrite seq_length; lia|].
    intros x Hx. apply in_seq. specialize (Hlt x Hx). lia. }
  rewrite (prod_perm _ _ (Permutation_map (fun ax => nth ax shape 1) HP)).
  f_equal. rewrite <- Hk. clear. induction shape as [|s shape IH]; [reflexivity|]. simpl. f_equal. rewrite <- seq_shift, map_map. exact IH.
Qed.

Lemma concat_rect_len {A} (m : list (list A)) c : rect m c -> length (concat m) = length m * c.
Proof. induction 1 as [|r m Hr Hm IH]; [reflexivity|]. simpl. rewrite app_length, IH, Hr. lia. Qed.

Section RoundTrip.
  Context {A : Type} (d : A).
  Variables (main : list (list A)) (pos spec : list (list nat)).
  Let N := length main.
  Let M := ncols main.
  Let kp := ncols pos.
  Let ks := length spec.
  Let so_p := get_sort_order (transpose2d 0 pos).
  Let so_s := get_sort_order spec.
  Let dims_p := get_dimensionality (transpose2d 0 pos) so_p.
  Let dims_s := get_dimensionality spec so_s.

  Hypothesis Hmain : rect main M.
  Hypothesis Hperm_p : perm_of so_p kp.
  Hypothesis Hperm_s : perm_of so_s ks.
  Hypothesis Hprod_p : prod dims_p = N.
  Hypothesis Hprod_s : prod dims_s = M.
  Hypothesis Hdp : Forall (fun r => 0 < r) dims_p.
  Hypothesis Hds : Forall (fun r => 0 < r) dims_s.
  (** what reshape_from_n_dims additionally looks at *)
  Hypothesis Hrows : length pos = N.
  Hypothesis Hcols : ncols spec = M.
  Hypothesis Hop : length (orient (transpose2d 0 pos)) = kp.      (* the orientation heuristic does not transpose *)
  Hypothesis Hos : length (orient spec) = ks.
  Hypothesis Hkp0 : 0 < kp.
  Hypothesis Hks0 : 0 < ks.

  Let L := rev so_p ++ map (fun e => kp + e) (rev so_s).
  Let K := kp + ks.
  Let a0 := mkNd (rev dims_p ++ rev dims_s) (concat main).

  Lemma to_nd_value : to_nd d main pos spec false = Ok (nd_transpose d a0 (inv_perm L), seq 0 K).
  Proof.
    pose proof (L_perm main pos spec Hperm_p Hperm_s Hprod_p Hprod_s) as HL. fold kp ks so_p so_s L K in HL. pose proof HL as (HLn & HLl & HLb).
    unfold to_nd. fold kp ks so_p so_s dims_p dims_s N M.
    rewrite Hprod_p, Hprod_s, !Nat.eqb_refl. cbn [negb]. fold L. fold K.
    assert (Hall : forallb (fun lab => existsb (Nat.eqb lab) L) (seq 0 K) = true).
    { apply forallb_forall. intros lab Hlab. apply in_seq in Hlab. apply existsb_exists. exists lab. split; [|apply Nat.eqb_refl].
      apply (perm_of_in L K); [exact HL|lia]. }
    rewrite Hall. cbn [negb].
    replace (map (fun lab => index_of lab L) (seq 0 K)) with (inv_perm L) by (unfold inv_perm; now rewrite HLl).
    fold a0. f_equal. f_equal.
    unfold inv_perm. rewrite map_map, HLl. rewrite <- (map_id (seq 0 K)) at 2. apply map_ext_in.
    intros lab Hlab. apply in_seq in Hlab. apply nth_index_of. apply (perm_of_in L K); [exact HL|lia].
  Qed.

  Lemma concat_rect_length : length (concat main) = N * M.
  Proof. apply concat_rect_len. exact Hmain. Qed.

  Lemma a0_wf : length (nd_shape a0) = K /\ Forall (fun s => 0 < s) (nd_shape a0) /\ length (nd_data a0) = prod (nd_shape a0).
  Proof.
    unfold a0. cbn [nd_shape nd_data]. split; [|split].
    - rewrite app_length, !rev_length. unfold dims_p, dims_s, get_dimensionality. rewrite !map_length.
      destruct Hperm_p as (_ & -> & _), Hperm_s as (_ & -> & _). reflexivity.
    - apply Forall_app. split; apply Forall_rev; assumption.
    - rewrite concat_rect_length, prod_app, !prod_rev, Hprod_p, Hprod_s. reflexivity.
  Qed.

  (** the shape that reshape_from_n_dims recomputes from the matrices (dimensions in file order) is the shape of the array *)
  Lemma expected_shape :
    get_dimensionality (transpose2d 0 pos) (seq 0 kp) ++ get_dimensionality spec (seq 0 ks)
    = map (fun ax => nth ax (nd_shape a0) 1) (inv_perm L).
  Proof.
    pose proof (L_perm main pos spec Hperm_p Hperm_s Hprod_p Hprod_s) as HL. fold kp ks so_p so_s L K in HL. pose proof HL as (HLn & HLl & HLb).
    destruct Hperm_p as (Hn1 & Hl1 & Hb1). destruct Hperm_s as (Hn2 & Hl2 & Hb2).
    apply (nth_ext _ _ 1 1).
    { rewrite app_length, map_length, inv_perm_length, HLl. unfold get_dimensionality. rewrite !map_length, !seq_length. reflexivity. }
    intros i Hi. rewrite app_length in Hi. unfold get_dimensionality in Hi. rewrite !map_length, !seq_length in Hi.
    rewrite (nth_map' (fun ax => nth ax (nd_shape a0) 1) (inv_perm L) i 0 1) by (rewrite inv_perm_length; lia).
    rewrite nth_inv_perm by lia. unfold a0. cbn [nd_shape].
    assert (Hdl : length (rev dims_p) = kp) by (rewrite rev_length; unfold dims_p, get_dimensionality; now rewrite map_length).
    assert (Hdl2 : length (rev dims_s) = ks) by (rewrite rev_length; unfold dims_s, get_dimensionality; now rewrite map_length).
    destruct (Nat.lt_ge_cases i kp) as [Hlt|Hge].
    - rewrite app_nth1 by (unfold get_dimensionality; rewrite map_length, seq_length; exact Hlt).
      unfold get_dimensionality at 1. rewrite nth_map_seq by exact Hlt.
      assert (Hin : In i (rev so_p)) by (apply in_rev; rewrite rev_involutive; apply (perm_of_in so_p kp); [repeat split; assumption|exact Hlt]).
      assert (Hidx : index_of i L = index_of i (rev so_p)).
      { unfold L. clear -Hin. induction (rev so_p) as [|y l IH]; [contradiction|]. simpl. destruct (Nat.eqb y i) eqn:E; [reflexivity|].
        f_equal. apply IH. destruct Hin as [->|H]; [rewrite Nat.eqb_refl in E; discriminate|exact H]. }
      rewrite Hidx. destruct (nth_index_of i (rev so_p) Hin) as [E Hb]. rewrite rev_length in Hb.
      rewrite app_nth1 by lia. unfold dims_p, get_dimensionality. rewrite <- map_rev.
      rewrite (nth_map' (fun dd => unique_count (nth dd (orient (transpose2d 0 pos)) [])) (rev so_p) (index_of i (rev so_p)) 0 1) by (rewrite rev_length; lia).
      now rewrite E.
    - rewrite app_nth2 by (unfold get_dimensionality; rewrite map_length, seq_length; exact Hge).
      unfold get_dimensionality at 1 2. rewrite map_length, seq_length. rewrite nth_map_seq by lia.
      set (e := i - kp) in *. assert (He : e < ks) by (unfold e; lia).
      assert (Hin : In e (rev so_s)) by (apply in_rev; rewrite rev_involutive; apply (perm_of_in so_s ks); [repeat split; assumption|exact He]).
      assert (Hidx : index_of i L = kp + index_of e (rev so_s)).
      { unfold L. replace i with (kp + e) by (unfold e; lia).
        assert (Hni : ~ In (kp + e) (rev so_p)) by (intros H; apply in_rev in H; specialize (Hb1 _ H); lia).
        rewrite <- (rev_length so_p) in Hl1. rewrite <- Hl1 at 2. clear -Hni Hin.
        induction (rev so_p) as [|y l IH]; simpl.
        - clear Hni. induction (rev so_s) as [|z l2 IH2]; [contradiction|]. simpl.
          destruct (Nat.eqb z e) eqn:E.
          + apply Nat.eqb_eq in E. subst. now rewrite Nat.eqb_refl.
          + replace (Nat.eqb (kp + z) (kp + e)) with false by (symmetry; apply Nat.eqb_neq; apply Nat.eqb_neq in E; lia).
            f_equal. apply IH2. destruct Hin as [->|H]; [rewrite Nat.eqb_refl in E; discriminate|exact H].
        - destruct (Nat.eqb y (kp + e)) eqn:E; [apply Nat.eqb_eq in E; exfalso; apply Hni; now left|].
          f_equal. apply IH. intros H. apply Hni. now right. }
      rewrite Hidx. destruct (nth_index_of e (rev so_s) Hin) as [E Hb]. rewrite rev_length in Hb.
      rewrite app_nth2 by lia. rewrite Hdl. replace (kp + index_of e (rev so_s) - kp) with (index_of e (rev so_s)) by lia.
      unfold dims_s, get_dimensionality. rewrite <- map_rev.
      rewrite (nth_map' (fun dd => unique_count (nth dd (orient spec) [])) (rev so_s) (index_of e (rev so_s)) 0 1) by (rewrite rev_length; lia).
      now rewrite E.
  Qed.

  (** the round trip: flattening the N-D form with the same matrices gives the 2-D data back, in the same orientation *)
  Theorem from_nd_inverts_to_nd :
    forall a labels, to_nd d main pos spec false = Ok (a, labels) ->
      from_nd d a (Some pos) (Some spec) = Ok (N, M, concat main).
  Proof.
    intros a labels Hto. rewrite to_nd_value in Hto. injection Hto as <- _.
    pose proof (L_perm main pos spec Hperm_p Hperm_s Hprod_p Hprod_s) as HL. fold kp ks so_p so_s L K in HL. pose proof HL as (HLn & HLl & HLb).
    destruct a0_wf as (Hk & Hpos0 & Hdata).
    pose proof (inv_perm_perm L K HL) as HLi.
    set (a := nd_transpose d a0 (inv_perm L)).
    assert (Hshape : nd_shape a = map (fun ax => nth ax (nd_shape a0) 1) (inv_perm L)) by reflexivity.
    assert (Hndim : length (nd_shape a) = K) by (rewrite Hshape, map_length, inv_perm_length; exact HLl).
    assert (Hprod : prod (nd_shape a) = N * M).
    { rewrite Hshape, (prod_map_perm _ _ K HLi Hk). unfold a0. cbn [nd_shape]. now rewrite prod_app, !prod_rev, Hprod_p, Hprod_s. }
    unfold from_nd. rewrite Hndim.
    assert (H2 : Nat.ltb K 2 = false) by (apply Nat.ltb_ge; unfold K; lia). rewrite H2.
    fold kp ks. rewrite Hrows, Hcols, Hprod, Nat.eqb_refl. cbn [negb].
    fold K. rewrite Nat.eqb_refl. cbn [negb].
    rewrite Hop, Hos, expected_shape, <- Hshape.
    assert (Heq : list_eqb Nat.eqb (nd_shape a) (nd_shape a) = true) by (apply list_eqb_eq; [apply Nat.eqb_eq|reflexivity]).
    rewrite Heq. cbn [negb andb].
    change (ncols pos + length spec) with K. rewrite !Nat.eqb_refl. cbn [negb]. rewrite !andb_false_r. fold so_p so_s. rewrite ?Hrows, ?Hcols.
    assert (Hswap : rev so_p ++ map (fun e => e + length so_p) (rev so_s) = L).
    { unfold L. destruct Hperm_p as (_ & -> & _). f_equal. apply map_ext. intros e. lia. }
    rewrite Hswap.
    assert (Hisp : is_perm L K = true).
    { unfold is_perm. rewrite HLl, Nat.eqb_refl. cbn. apply forallb_forall. intros i Hi. apply in_seq in Hi.
      apply existsb_exists. exists i. split; [apply (perm_of_in L K); [exact HL|lia]|apply Nat.eqb_refl]. }
    rewrite Hisp. cbn [negb].
    unfold a. rewrite (nd_transpose_roundtrip d a0 L K HL Hk Hpos0 Hdata).
    unfold a0 at 1. cbn [nd_shape]. rewrite prod_app, !prod_rev, Hprod_p, Hprod_s, Nat.eqb_refl. cbn [negb]. reflexivity.
  Qed.

  (** the exact shape of the N-D form: one axis per dimension in file order, of the size the matrices show for it *)
  Theorem to_nd_shape :
    forall a labels, to_nd d main pos spec false = Ok (a, labels) ->
      nd_shape a = get_dimensionality (transpose2d 0 pos) (seq 0 kp) ++ get_dimensionality spec (seq 0 ks) /\ labels = seq 0 K.
  Proof.
    intros a labels Hto. rewrite to_nd_value in Hto. injection Hto as <- <-. split; [|reflexivity].
    rewrite expected_shape. reflexivity.
  Qed.
End RoundTrip.
