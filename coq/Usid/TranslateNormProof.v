From Coq Require Import List Arith Lia Bool ZArith.
Require Import V.Base.ListAux V.Base.Matrix V.Usid.Translate V.Usid.TranslateProof V.Usid.TranslateNorm.
Import ListNotations.

Lemma lmin_le l x : In x l -> lmin l <= x.
Proof.
  unfold lmin. generalize (hd 0 l) as h. induction l as [|y l IH]; intros h Hin; [destruct Hin|].
  cbn [fold_right]. destruct Hin as [->|Hin]; [lia|]. specialize (IH h Hin). lia.
Qed.

Lemma lmin_in l : l <> [] -> In (lmin l) l.
Proof.
  destruct l as [|a l]; [congruence|intros _]. unfold lmin. cbn [hd].
  assert (H : forall l' h, In h (a :: l) -> (forall y, In y l' -> In y (a :: l)) -> In (fold_right Nat.min h l') (a :: l)).
  { induction l' as [|y l' IH]; intros h Hh Hsub; cbn [fold_right]; [exact Hh|].
    destruct (Nat.min_spec y (fold_right Nat.min h l')) as [[_ ->]|[_ ->]]; [apply Hsub; now left|].
    apply IH; [exact Hh|]. intros z Hz. apply Hsub. now right. }
  apply H; [now left|auto].
Qed.

Lemma lmax_ge l x : In x l -> x <= lmax l.
Proof. unfold lmax. induction l as [|y l IH]; intros Hin; [destruct Hin|]. cbn [fold_right]. destruct Hin as [->|Hin]; [lia|]. specialize (IH Hin). lia. Qed.

Lemma lmax_in l : l <> [] -> In (lmax l) l.
Proof.
  induction l as [|a l IH]; [congruence|intros _]. unfold lmax in *. cbn [fold_right].
  destruct l as [|b l]; [cbn; left; lia|].
  destruct (Nat.max_spec a (fold_right Nat.max 0 (b :: l))) as [[_ ->]|[_ ->]]; [right; apply IH; congruence|now left].
Qed.

(** the written value of pixel (y, x) -- at the place every image stores that pixel -- is (pixel - min) / (max - min) *)
Lemma col_map {A B} (f : A -> B) (d : A) (m : list (list A)) j : col (f d) (map (map f) m) j = map f (col d m j).
Proof. unfold col. rewrite !map_map. apply map_ext. intros r. apply map_nth. Qed.

Lemma ncols_map {A B} (f : A -> B) (m : list (list A)) : ncols (map (map f) m) = ncols m.
Proof. destruct m as [|r m]; [reflexivity|]. cbn. apply map_length. Qed.

Lemma image_rows_map {A B} (f : A -> B) (d : A) (img : list (list A)) :
  image_rows (f d) (map (map f) img) = map f (image_rows d img).
Proof.
  unfold image_rows, transpose2d. rewrite ncols_map, concat_map, map_map. f_equal. apply map_ext. intros j. apply col_map.
Qed.

Theorem normalized_pixel (img : list (list nat)) v y x d :
  rect img v -> y < length img -> x < v ->
  let flat := concat img in let mn := lmin flat in let span := lmax (map (fun p => p - mn) flat) in
  nth (x * length img + y) (image_rows_normalized img) d = (nth x (nth y img []) 0 - mn, span).
Proof.
  intros Hr Hy Hx. cbv zeta. unfold image_rows_normalized, normalize.
  set (mn := lmin (concat img)). set (span := lmax _).
  rewrite image_rows_map.
  rewrite (nth_indep _ d (norm_px mn span 0)).
  - rewrite map_nth. unfold norm_px. f_equal. f_equal. now apply image_pixel with (v := v).
  - rewrite map_length. unfold image_rows.
    assert (Hnc : ncols img = v) by (destruct img as [|r0 img']; [simpl in Hy; lia|inversion Hr; subst; reflexivity]).
    assert (Hlen : length (concat (transpose2d 0 img)) = v * length img).
    { pose proof (transpose_rect 0 img) as Ht. pose proof (transpose2d_length 0 img) as Hl. rewrite Hnc in Hl. rewrite <- Hl.
      clear -Ht. induction (transpose2d 0 img) as [|r m IH]; [reflexivity|]. inversion Ht as [|? ? Hlen Ht']; subst.
      cbn [concat length]. rewrite app_length, IH by exact Ht'. rewrite Hlen. lia. }
    rewrite Hlen. nia.
Qed.

(** every normalised pixel lies in [0, 1]: numerator <= denominator *)
Theorem normalized_in_unit_interval (img : list (list nat)) row px :
  In row (normalize img) -> In px row -> fst px <= snd px.
Proof.
  unfold normalize. intros Hrow Hpx. apply in_map_iff in Hrow as (r & <- & Hr). apply in_map_iff in Hpx as (x & <- & Hx).
  unfold norm_px. cbn [fst snd]. apply lmax_ge. apply in_map_iff. exists x. split; [reflexivity|].
  apply in_concat. exists r. split; assumption.
Qed.

(** the darkest pixel is written as 0 and the brightest as 1 (numerator = denominator) *)
Theorem normalized_extremes (img : list (list nat)) :
  concat img <> [] ->
  let flat := concat img in let mn := lmin flat in let span := lmax (map (fun p => p - mn) flat) in
  (exists x, In x flat /\ norm_px mn span x = (0, span)) /\ (exists x, In x flat /\ norm_px mn span x = (span, span)).
Proof.
  intros Hne. cbv zeta. split.
  - exists (lmin (concat img)). split; [now apply lmin_in|]. unfold norm_px. f_equal. lia.
  - assert (Hne' : map (fun p => p - lmin (concat img)) (concat img) <> []) by (destruct (concat img); [congruence|discriminate]).
    pose proof (lmax_in _ Hne') as Hin. apply in_map_iff in Hin as (x & Hx & Hin). exists x. split; [exact Hin|].
    unfold norm_px. now rewrite Hx.
Qed.

(** normalisation is monotone: a brighter pixel never gets a smaller value (same denominator, numerators ordered) *)
Theorem normalized_monotone mn span a b : a <= b -> fst (norm_px mn span a) <= fst (norm_px mn span b) /\ snd (norm_px mn span a) = snd (norm_px mn span b).
Proof. unfold norm_px. cbn. lia. Qed.
