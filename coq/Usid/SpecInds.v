(** anc_build_utils.create_spec_inds_from_vals on regular grids: the column loop is the mixed-radix successor, so the
    function rebuilds exactly the index matrix whenever the values of each dimension are pairwise distinct. *)
From Coq Require Import List Arith Lia Bool ZArith.
Require Import V.Base.ListAux V.Base.CorrAux V.Base.Radix V.Base.Matrix V.Base.NdArray V.Usid.SortOrder V.Usid.ToND V.Usid.ToNDProof V.Usid.UnitValues
               V.Usid.Grid V.Usid.SelEnum V.Usid.UnitValuesGrid.
Import ListNotations.

(** ** mixed-radix successor *)
(** position of the digit that is incremented when going from n to n+1: the first one that does not wrap *)
Fixpoint inc_pos (rs ds : list nat) : nat :=
  match rs, ds with
  | r :: rs', d :: ds' => if Nat.ltb (S d) r then 0 else S (inc_pos rs' ds')
  | _, _ => 0
  end.

Lemma digits_succ rs : Forall (fun r => 0 < r) rs -> forall n, S n < prod rs ->
  let ds := digits rs n in let p := inc_pos rs ds in
  p < length rs /\
  forall t, nth t (digits rs (S n)) 0 = if Nat.ltb t p then 0 else if Nat.eqb t p then S (nth t ds 0) else nth t ds 0.
Proof.
  induction 1 as [|r rs Hr Hall IH]; intros n Hn; cbn [prod] in Hn; [lia|]. cbv zeta.
  cbn [digits inc_pos].
  pose proof (Nat.div_mod n r ltac:(lia)) as Hdm. pose proof (Nat.mod_upper_bound n r ltac:(lia)) as Hm.
  destruct (Nat.ltb (S (n mod r)) r) eqn:E.
  - apply Nat.ltb_lt in E. cbn [length]. split; [lia|].
    assert (E1 : S n mod r = S (n mod r)).
    { replace (S n) with (S (n mod r) + (n / r) * r) by lia. rewrite Nat.mod_add by lia. apply Nat.mod_small. exact E. }
    assert (E2 : S n / r = n / r).
    { replace (S n) with (S (n mod r) + (n / r) * r) by lia. rewrite Nat.div_add by lia. rewrite Nat.div_small by exact E. lia. }
    intros [|t]; cbn [nth Nat.ltb Nat.leb Nat.eqb]; [exact E1|]. now rewrite E2.
  - apply Nat.ltb_ge in E. assert (Hw : S (n mod r) = r) by lia.
    assert (E1 : S n mod r = 0).
    { replace (S n) with (0 + S (n / r) * r) by lia. rewrite Nat.mod_add by lia. apply Nat.mod_small. lia. }
    assert (E2 : S n / r = S (n / r)).
    { replace (S n) with (0 + S (n / r) * r) by lia. rewrite Nat.div_add by lia. rewrite Nat.div_small by lia. lia. }
    assert (Hn' : S (n / r) < prod rs) by nia.
    destruct (IH (n / r) Hn') as [Hp Hd]. cbv zeta in Hp, Hd. cbn [length]. split; [lia|].
    intros [|t]; cbn [nth]; [rewrite E1; reflexivity|]. rewrite E2, Hd.
    change (Nat.ltb (S t) (S (inc_pos rs (digits rs (n / r))))) with (Nat.ltb t (inc_pos rs (digits rs (n / r)))).
    reflexivity.
Qed.

(** below the incremented position every digit is at its maximum *)
Lemma digits_below_inc rs : Forall (fun r => 0 < r) rs -> forall n t, t < inc_pos rs (digits rs n) -> t < length rs ->
  S (nth t (digits rs n) 0) = nth t rs 1.
Proof.
  induction 1 as [|r rs Hr Hall IH]; intros n t Ht Hl; [simpl in Hl; lia|]. cbn [digits inc_pos] in *.
  pose proof (Nat.mod_upper_bound n r ltac:(lia)) as Hm.
  destruct (Nat.ltb (S (n mod r)) r) eqn:E; [lia|]. apply Nat.ltb_ge in E.
  destruct t as [|t]; cbn [nth]; [lia|]. apply IH; [lia|simpl in Hl; lia].
Qed.

(** ** the index update of create_spec_inds_from_vals *)
Definition upd (changed : list nat) (indices : list nat) : list nat :=
  match changed with
  | [] => indices
  | [c] => set_nth indices c (S (nth c indices 0))
  | _ => let lastc := last changed 0 in
         let zeroed := fold_left (fun acc c => set_nth acc c 0) (removelast changed) indices in
         set_nth zeroed lastc (S (nth lastc zeroed 0))
  end.

Lemma set_nth_length {A} (l : list A) i v : length (set_nth l i v) = length l.
Proof. unfold set_nth. apply mapi_length. Qed.
Lemma nth_set_nth (l : list nat) i v t : t < length l -> nth t (set_nth l i v) 0 = if Nat.eqb t i then v else nth t l 0.
Proof. intros Ht. unfold set_nth. now rewrite (nth_mapi _ l t 0 0 Ht). Qed.

Lemma zero_fold_length cs : forall l, length (fold_left (fun acc c => set_nth acc c 0) cs l) = length l.
Proof. induction cs as [|c cs IH]; intros l; simpl; [reflexivity|]. now rewrite IH, set_nth_length. Qed.
Lemma nth_zero_fold cs : forall l t, t < length l ->
  nth t (fold_left (fun acc c => set_nth acc c 0) cs l) 0 = if existsb (Nat.eqb t) cs then 0 else nth t l 0.
Proof.
  induction cs as [|c cs IH]; intros l t Ht; simpl; [reflexivity|].
  rewrite IH by (now rewrite set_nth_length). rewrite nth_set_nth by exact Ht.
  destruct (Nat.eqb t c); simpl; [now destruct (existsb (Nat.eqb t) cs)|reflexivity].
Qed.

Lemma upd_general A p ds : p < length ds -> ~ In p A ->
  upd (A ++ [p]) ds = set_nth (fold_left (fun acc c => set_nth acc c 0) A ds) p (S (nth p ds 0)).
Proof.
  intros Hp Hn. destruct A as [|a A']; [reflexivity|].
  unfold upd. cbn [app]. destruct (A' ++ [p]) as [|b rest] eqn:E; [now destruct A'|].
  rewrite <- E. change (a :: A' ++ [p]) with ((a :: A') ++ [p]). rewrite last_last, removelast_last.
  f_equal. f_equal. rewrite nth_zero_fold by exact Hp.
  destruct (existsb (Nat.eqb p) (a :: A')) eqn:Ex; [|reflexivity].
  exfalso. apply Hn. apply existsb_exists in Ex. destruct Ex as (x & Hx & Ex). apply Nat.eqb_eq in Ex. now subst.
Qed.

Lemma upd_succ rs n : Forall (fun r => 0 < r) rs -> S n < prod rs ->
  let ds := digits rs n in let ds' := digits rs (S n) in
  upd (filter (fun t => negb (Nat.eqb (nth t ds' 0) (nth t ds 0))) (seq 0 (length rs))) ds = ds'.
Proof.
  intros Hpos Hn. cbv zeta. destruct (digits_succ rs Hpos n Hn) as [Hp Hd]. cbv zeta in Hp, Hd.
  set (ds := digits rs n) in *. set (ds' := digits rs (S n)) in *. set (p := inc_pos rs ds) in *. set (k := length rs) in *.
  assert (Hl : length ds = k) by (unfold ds; apply digits_length). assert (Hl' : length ds' = k) by (unfold ds'; apply digits_length).
  set (A := filter (fun t => negb (Nat.eqb (nth t ds 0) 0)) (seq 0 p)).
  assert (Hchanged : filter (fun t => negb (Nat.eqb (nth t ds' 0) (nth t ds 0))) (seq 0 k) = A ++ [p]).
  { replace k with (p + (1 + (k - S p))) by lia. rewrite seq_app, filter_app, (seq_app 1 (k - S p) (0 + p)), filter_app. cbn [Nat.add].
    change (A ++ [p]) with (A ++ ([p] ++ [])). f_equal; [|f_equal].
    - unfold A. apply filter_ext_in. intros t Ht. apply in_seq in Ht. rewrite Hd.
      replace (Nat.ltb t p) with true by (symmetry; apply Nat.ltb_lt; lia).
      f_equal. destruct (nth t ds 0); reflexivity.
    - cbn [seq filter]. rewrite Hd, Nat.ltb_irrefl, Nat.eqb_refl.
      replace (Nat.eqb (S (nth p ds 0)) (nth p ds 0)) with false by (symmetry; apply Nat.eqb_neq; lia). reflexivity.
    - apply filter_none. intros t Ht. apply in_seq in Ht. rewrite Hd.
      replace (Nat.ltb t p) with false by (symmetry; apply Nat.ltb_ge; lia).
      replace (Nat.eqb t p) with false by (symmetry; apply Nat.eqb_neq; lia). now rewrite Nat.eqb_refl. }
  rewrite Hchanged.
  assert (HnA : ~ In p A) by (unfold A; intros H; apply filter_In in H; destruct H as [H _]; apply in_seq in H; lia).
  rewrite upd_general by (try exact HnA; lia).
  apply (nth_ext _ _ 0 0); [rewrite set_nth_length, zero_fold_length; lia|].
  intros t Ht. rewrite set_nth_length, zero_fold_length, Hl in Ht.
  rewrite nth_set_nth by (rewrite zero_fold_length; lia). rewrite nth_zero_fold by lia. rewrite Hd.
  destruct (Nat.eqb t p) eqn:Etp.
  - apply Nat.eqb_eq in Etp. subst t. now rewrite Nat.ltb_irrefl.
  - apply Nat.eqb_neq in Etp. destruct (Nat.ltb t p) eqn:Elt.
    + apply Nat.ltb_lt in Elt. destruct (existsb (Nat.eqb t) A) eqn:Ex; [reflexivity|].
      destruct (Nat.eqb (nth t ds 0) 0) eqn:E0; [now apply Nat.eqb_eq in E0|].
      exfalso. assert (Hin : In t A) by (unfold A; apply filter_In; split; [apply in_seq; lia|now rewrite E0]).
      assert (existsb (Nat.eqb t) A = true) by (apply existsb_exists; exists t; split; [exact Hin|apply Nat.eqb_refl]). congruence.
    + apply Nat.ltb_ge in Elt. destruct (existsb (Nat.eqb t) A) eqn:Ex; [|reflexivity].
      exfalso. apply existsb_exists in Ex. destruct Ex as (x & Hx & Ex). apply Nat.eqb_eq in Ex. subst x.
      unfold A in Hx. apply filter_In in Hx. destruct Hx as [Hx _]. apply in_seq in Hx. lia.
Qed.

Lemma digits_zero_repeat rs : Forall (fun r => 0 < r) rs -> digits rs 0 = repeat 0 (length rs).
Proof. induction 1 as [|r rs Hr Hall IH]; simpl; [reflexivity|]. rewrite Nat.mod_0_l, Nat.div_0_l by lia. now rewrite IH. Qed.

(** the column loop, abstractly: if the positions reported as changed at column j are those where the digits of j and j-1
    differ, the loop reproduces the digits of every column *)
Lemma fold_steps rs (changed : nat -> list nat) : Forall (fun r => 0 < r) rs -> forall m, 0 < m -> m <= prod rs ->
  (forall j, 1 <= j < m -> changed j = filter (fun t => negb (Nat.eqb (nth t (digits rs j) 0) (nth t (digits rs (j - 1)) 0))) (seq 0 (length rs))) ->
  fold_left (fun (st : list nat * list (list nat)) j => let '(ind, cols) := st in let ind' := upd (changed j) ind in (ind', cols ++ [ind']))
            (seq 1 (m - 1)) (digits rs 0, [digits rs 0])
  = (digits rs (m - 1), map (digits rs) (seq 0 m)).
Proof.
  intros Hpos. induction m as [|m IH]; intros Hm Hle Hch; [lia|].
  destruct (Nat.eq_dec m 0) as [->|Hm0]; [reflexivity|].
  replace (S m - 1) with ((m - 1) + 1) by lia. rewrite seq_app, fold_left_app.
  rewrite IH by (try lia; intros j Hj; apply Hch; lia).
  cbn [seq fold_left]. replace (1 + (m - 1)) with m by lia.
  rewrite (Hch m ltac:(lia)).
  pose proof (upd_succ rs (m - 1) Hpos ltac:(lia)) as Hu. cbv zeta in Hu. replace (S (m - 1)) with m in Hu by lia.
  rewrite Hu. replace (m - 1 + 1) with m by lia. f_equal.
  change (0 :: seq 1 m) with (seq 0 (S m)). rewrite seq_S, map_app. reflexivity.
Qed.

(** the model, with the update named *)
Lemma spec_inds_unfold (vals : list (list Z)) :
  spec_inds_from_vals vals =
  let k := length vals in
  let m := ncols vals in
  let cs := rev (argsort (map change_countZ vals)) in
  let sorted_col j := map (fun r => nth j (nth r vals []) 0%Z) cs in
  let changed j := where_true (map (fun ab : Z * Z => negb (Z.eqb (fst ab) (snd ab))) (combine (sorted_col j) (sorted_col (j - 1)))) in
  let '(_, cols) := fold_left (fun (st : list nat * list (list nat)) j => let '(ind, cols) := st in let ind' := upd (changed j) ind in (ind', cols ++ [ind']))
                              (seq 1 (m - 1)) (repeat 0 k, [repeat 0 k]) in
  map (fun r => map (fun j => nth (index_of r cs) (nth j cols []) 0) (seq 0 m)) (seq 0 k).
Proof. reflexivity. Qed.

(** ** on regular grids *)
Section SpecIndsGrid.
  Variables (sz so : list nat) (F : nat -> nat -> Z).
  Hypothesis Hwf : wf_grid sz so.
  Let k := length sz.
  Let N := prod (radices sz so).
  Hypothesis Hkn : k <= N.
  Hypothesis Hk0 : 0 < k.
  (** the values of a dimension are pairwise distinct *)
  Hypothesis Finj : forall d x y, x < nth d sz 1 -> y < nth d sz 1 -> F d x = F d y -> x = y.
  Let G := grid_spec sz so.
  Let vals := map (fun d => map (F d) (grid_row sz so d)) (seq 0 k).
  Let soc := get_sort_order G.
  Let rsc := radices sz soc.

  Lemma vals_len : length vals = k.
  Proof. unfold vals. now rewrite map_length, seq_length. Qed.
  Lemma vals_row r : r < k -> nth r vals [] = map (F r) (grid_row sz so r).
  Proof. intros Hr. unfold vals. now rewrite nth_map_seq. Qed.
  Lemma vals_ncols : ncols vals = N.
  Proof.
    unfold ncols. destruct vals as [|r0 rest] eqn:E; [pose proof vals_len as Hl; rewrite E in Hl; simpl in Hl; lia|].
    assert (H0 : nth 0 vals [] = r0) by (now rewrite E). rewrite vals_row in H0 by exact Hk0. rewrite <- H0, map_length. apply grid_row_len.
  Qed.
  Lemma vals_entry r j : r < k -> j < N -> nth j (nth r vals []) 0%Z = F r (nth j (grid_row sz so r) 0).
  Proof.
    intros Hr Hj. rewrite vals_row by exact Hr.
    apply (nth_map' (F r) (grid_row sz so r) j 0 0%Z). now rewrite grid_row_len.
  Qed.

  Lemma entry_lt r j : r < k -> j < N -> nth j (grid_row sz so r) 0 < nth r sz 1.
  Proof. intros Hr Hj. apply (in_grid_row sz so Hwf r _ Hr). apply nth_In. now rewrite grid_row_len. Qed.

  Lemma change_counts : map change_countZ vals = map change_count G.
  Proof.
    unfold vals, G, grid_spec. rewrite !map_map. apply map_ext_in. intros d Hd. apply in_seq in Hd. assert (Hdk : d < k) by lia.
    unfold change_countZ, change_count. rewrite map_length. f_equal. apply filter_ext_in. intros i Hi. apply in_seq in Hi.
    rewrite grid_row_len in Hi. fold N in Hi. f_equal.
    assert (Hprev : (if Nat.eqb i 0 then length (grid_row sz so d) - 1 else i - 1) < N) by (rewrite grid_row_len; fold N; destruct (Nat.eqb i 0); lia).
    set (i' := if Nat.eqb i 0 then length (grid_row sz so d) - 1 else i - 1) in *.
    rewrite (nth_map' (F d) (grid_row sz so d) i 0 0%Z) by (rewrite grid_row_len; fold N; lia).
    rewrite (nth_map' (F d) (grid_row sz so d) i' 0 0%Z) by (rewrite grid_row_len; exact Hprev).
    destruct (Nat.eqb (nth i (grid_row sz so d) 0) (nth i' (grid_row sz so d) 0)) eqn:E.
    - apply Nat.eqb_eq in E. rewrite E. apply Z.eqb_refl.
    - apply Z.eqb_neq. intros HF. apply Nat.eqb_neq in E. apply E. apply (Finj d); [apply entry_lt; lia|apply entry_lt; assumption|exact HF].
  Qed.

  Lemma cs_is_soc : rev (argsort (map change_countZ vals)) = soc.
  Proof. rewrite change_counts. unfold soc, get_sort_order, G. now rewrite (orient_G sz so Hkn). Qed.

  Lemma soc_perm : perm_of soc k.
  Proof. apply so_perm. exact Hkn. Qed.
  Lemma rsc_pos : Forall (fun r => 0 < r) rsc.
  Proof. apply radices_pos. apply wf_so; assumption. Qed.
  Lemma rsc_len : length rsc = k.
  Proof. unfold rsc. rewrite radices_length. apply soc_perm. Qed.
  Lemma rsc_prod : prod rsc = N.
  Proof. apply prod_so; assumption. Qed.

  Lemma consistent r j : r < k -> j < N -> nth j (grid_row sz so r) 0 = nth (index_of r soc) (digits rsc j) 0.
  Proof. intros Hr Hj. now apply grid_consistent. Qed.

  (** the positions reported as changed at column j are those where the digits of j and j-1 differ *)
  Lemma changed_closed j : 1 <= j < N ->
    where_true (map (fun ab : Z * Z => negb (Z.eqb (fst ab) (snd ab)))
                    (combine (map (fun r => nth j (nth r vals []) 0%Z) soc) (map (fun r => nth (j - 1) (nth r vals []) 0%Z) soc)))
    = filter (fun t => negb (Nat.eqb (nth t (digits rsc j) 0) (nth t (digits rsc (j - 1)) 0))) (seq 0 (length rsc)).
  Proof.
    intros Hj. destruct soc_perm as (Hnd & Hlen & Hlt).
    rewrite where_true_filter, map_length, combine_length, !map_length, Nat.min_id, Hlen, rsc_len.
    apply filter_ext_in. intros t Ht. apply in_seq in Ht.
    rewrite combine_map_map.
    rewrite (nth_map' _ (map (fun x => (nth j (nth x vals []) 0%Z, nth (j - 1) (nth x vals []) 0%Z)) soc) t (0%Z, 0%Z) false) by (rewrite map_length; lia).
    rewrite (nth_map' _ soc t 0 (0%Z, 0%Z)) by lia. cbn [fst snd].
    set (r := nth t soc 0). assert (Hr : r < k) by (apply Hlt, nth_In; lia).
    rewrite !vals_entry by lia. rewrite !consistent by lia.
    assert (Hidx : index_of r soc = t) by (apply index_of_nth; [exact Hnd|lia]). rewrite Hidx. f_equal.
    assert (Hb : forall n, n < N -> nth t (digits rsc n) 0 < nth r sz 1).
    { intros n Hn. rewrite <- Hidx, <- (consistent r n Hr Hn). now apply entry_lt. }
    destruct (Nat.eqb (nth t (digits rsc j) 0) (nth t (digits rsc (j - 1)) 0)) eqn:E.
    - apply Nat.eqb_eq in E. rewrite E. apply Z.eqb_refl.
    - apply Z.eqb_neq. intros HF. apply Nat.eqb_neq in E. apply E. apply (Finj r); [apply Hb; lia|apply Hb; lia|exact HF].
  Qed.

  (** create_spec_inds_from_vals rebuilds exactly the index matrix of the grid *)
  Theorem spec_inds_from_vals_grid : spec_inds_from_vals vals = G.
  Proof.
    rewrite spec_inds_unfold. cbv zeta. rewrite vals_len, vals_ncols, cs_is_soc.
    pose proof rsc_pos as Hpos. pose proof rsc_len as Hlen. pose proof rsc_prod as Hprod.
    assert (HN : 0 < N) by (apply (N_pos sz so Hwf)).
    rewrite <- Hlen at 1 2. rewrite <- (digits_zero_repeat rsc Hpos).
    set (chg := fun j => where_true (map (fun ab : Z * Z => negb (Z.eqb (fst ab) (snd ab)))
                    (combine (map (fun r => nth j (nth r vals []) 0%Z) soc) (map (fun r => nth (j - 1) (nth r vals []) 0%Z) soc)))).
    pose proof (fold_steps rsc chg Hpos N HN ltac:(lia)) as Hfold.
    assert (Hchg : forall j, 1 <= j < N -> chg j = filter (fun t => negb (Nat.eqb (nth t (digits rsc j) 0) (nth t (digits rsc (j - 1)) 0))) (seq 0 (length rsc)))
      by (intros j Hj; unfold chg; apply changed_closed; lia).
    specialize (Hfold Hchg). unfold chg in Hfold. cbv zeta beta in Hfold. rewrite Hfold.
    unfold G, grid_spec. fold k. apply map_ext_in. intros r Hr. apply in_seq in Hr.
    unfold grid_row. fold N. apply map_ext_in. intros j Hj. apply in_seq in Hj.
    rewrite nth_map_seq by lia.
    pose proof (consistent r j ltac:(lia) ltac:(lia)) as Hc. unfold grid_row in Hc. fold N in Hc. rewrite nth_map_seq in Hc by lia.
    now rewrite Hc.
  Qed.
End SpecIndsGrid.
