From Coq Require Import List Arith Lia Bool.
Require Import V.Base.ListAux V.Usid.Csv.
Import ListNotations.

Lemma cat_snoc (l : line) s h t : cat (l ++ [s]) (h :: t) = l ++ [s ++ h] ++ t.
Proof. unfold cat. rewrite removelast_last, last_last. reflexivity. Qed.

Lemma cat_comma (l : line) : l <> [] -> cat l comma = l ++ [[]].
Proof.
  intros H. destruct (exists_last H) as (l' & x & ->). unfold comma. rewrite cat_snoc, app_nil_r. now rewrite <- app_assoc.
Qed.

Lemma cat_comma_cells (cells : list nat) (right : list nat) : cells <> [] -> right <> [] ->
  cat (cat (join (map (fun v => [v]) cells)) comma) (join (map (fun v => [v]) right)) =
  map (fun v => [v]) cells ++ map (fun v => [v]) right.
Proof.
  intros Hc Hr. destruct cells as [|c cs]; [contradiction|]. destruct right as [|r rs]; [contradiction|].
  unfold join. cbn [map]. rewrite cat_comma by discriminate. rewrite cat_snoc. reflexivity.
Qed.

Lemma join_repeat_empty k : 0 < k -> join (repeat ([] : seg) k) = repeat [] (k - 1) ++ [[]].
Proof.
  intros Hk. destruct k as [|k]; [lia|]. simpl. rewrite Nat.sub_0_r. clear.
  induction k as [|k IH]; [reflexivity|]. simpl. now rewrite <- IH.
Qed.

Lemma spec_label_line_eq k desc : 0 < k -> spec_label_line k desc = repeat [] (k - 1) ++ [[desc]; []].
Proof.
  intros Hk. unfold spec_label_line. rewrite join_repeat_empty by exact Hk.
  rewrite cat_snoc. change ([[] ++ [desc]] ++ []) with [[desc]].
  rewrite cat_comma by (intro E; apply app_eq_nil in E; destruct E; discriminate). now rewrite <- app_assoc.
Qed.

(** header row i: k-1 empty cells, the descriptor of spectroscopic dimension i, then that dimension's value for every column *)
Theorem header_row k desc (vals : list nat) : 0 < k -> vals <> [] ->
  cat (spec_label_line k desc) (join (map (fun v => [v]) vals)) = repeat [] (k - 1) ++ [[desc]] ++ map (fun v => [v]) vals.
Proof.
  intros Hk Hv. rewrite spec_label_line_eq by exact Hk. destruct vals as [|v vs]; [contradiction|].
  unfold join. cbn [map].
  replace (repeat [] (k - 1) ++ [[desc]; []]) with ((repeat [] (k - 1) ++ [[desc]]) ++ [[]]) by (now rewrite <- app_assoc).
  rewrite cat_snoc. simpl. now rewrite <- !app_assoc.
Qed.

(** data row r: that position's value along every position dimension, then the data of row r *)
Theorem data_row (pvals : list nat) (data : list nat) : pvals <> [] -> data <> [] ->
  cat (pos_value_line pvals) (join (map (fun v => [v]) data)) = map (fun v => [v]) pvals ++ map (fun v => [v]) data.
Proof. intros. unfold pos_value_line. now apply cat_comma_cells. Qed.

Theorem label_row (pdescs : list nat) dash m : pdescs <> [] -> 0 < m ->
  cat (pos_label_line pdescs) (join (repeat [dash] m)) = map (fun v => [v]) pdescs ++ repeat [dash] m.
Proof.
  intros Hp Hm. unfold pos_label_line.
  replace (repeat [dash] m) with (map (fun v => [v]) (repeat dash m)) by (clear; induction m; simpl; congruence).
  apply cat_comma_cells; [exact Hp| destruct m; [lia|discriminate]].
Qed.

(** the whole table *)
Theorem csv_cells_aligned k m sdescs pdescs spec_vals pos_vals main dash :
  0 < k -> 0 < m -> length pdescs = k -> length sdescs = length spec_vals ->
  Forall (fun r => length r = m) spec_vals -> Forall (fun r => length r = k) pos_vals -> Forall (fun r => length r = m) main ->
  length pos_vals = length main ->
  csv_table k m sdescs pdescs spec_vals pos_vals main dash =
    map (fun dv => repeat [] (k - 1) ++ [[fst dv]] ++ map (fun v => [v]) (snd dv)) (combine sdescs spec_vals)
    ++ [map (fun v => [v]) pdescs ++ repeat [dash] m]
    ++ map (fun pd => map (fun v => [v]) (fst pd) ++ map (fun v => [v]) (snd pd)) (combine pos_vals main).
Proof.
  intros Hk Hm Hp Hs Hsv Hpv Hmain Hpm. unfold csv_table, left_lines, right_lines.
  rewrite combine_app by (rewrite !map_length; exact Hs).
  rewrite map_app. f_equal.
  - rewrite combine_map_both. rewrite map_map. apply map_ext_in. intros [dsc vals] Hin. cbn [fst snd].
    apply header_row; [exact Hk|]. apply in_combine_r in Hin. rewrite Forall_forall in Hsv. specialize (Hsv _ Hin).
    destruct vals; [simpl in Hsv; lia|discriminate].
  - cbn [app combine map fst snd]. f_equal.
    + apply label_row; [destruct pdescs; [simpl in Hp; lia|discriminate]| exact Hm].
    + rewrite combine_map_both. rewrite map_map. apply map_ext_in. intros [pv dat] Hin. cbn [fst snd].
      apply data_row.
      * apply in_combine_l in Hin. rewrite Forall_forall in Hpv. specialize (Hpv _ Hin). destruct pv; [simpl in Hpv; lia|discriminate].
      * apply in_combine_r in Hin. rewrite Forall_forall in Hmain. specialize (Hmain _ Hin). destruct dat; [simpl in Hmain; lia|discriminate].
Qed.

(** existing output is never overwritten unless forced; oversized datasets are skipped unless forced *)
Theorem csv_no_overwrite too_large : to_csv_decision too_large false true <> Written.
Proof. destruct too_large; discriminate. Qed.
Theorem csv_oversize_skipped exists_ : to_csv_decision true false exists_ = SkippedTooLarge.
Proof. reflexivity. Qed.
Theorem csv_forced too_large exists_ : to_csv_decision too_large true exists_ = Written.
Proof. destruct too_large, exists_; reflexivity. Qed.
