(** Regular grids: the index matrices of a full Cartesian grid stored in an
    arbitrary rate order, and the change-count argument behind get_sort_order. *)
From Coq Require Import List Arith Lia Bool Permutation Sorted.
Require Import V.Base.ListAux V.Base.Radix V.Base.Matrix V.Base.NdArray V.Usid.SortOrder V.Usid.AncBuild V.Usid.ToND V.Usid.ToNDProof.
Import ListNotations.

(** sizes [sz] in file order; [order] lists the dimensions fastest -> slowest *)
Definition radices (sz order : list nat) : list nat := map (fun d => nth d sz 1) order.
Definition grid_row (sz order : list nat) (d : nat) : list nat :=
  map (fun n => nth (index_of d order) (digits (radices sz order) n) 0) (seq 0 (prod (radices sz order))).
Definition grid_spec (sz order : list nat) : list (list nat) := map (grid_row sz order) (seq 0 (length sz)).
Definition grid_pos (sz order : list nat) : list (list nat) := transpose2d 0 (grid_spec sz order).

Definition wf_grid (sz order : list nat) : Prop := perm_of order (length sz) /\ Forall (fun s => 0 < s) sz.

Lemma radices_pos sz order : wf_grid sz order -> Forall (fun r => 0 < r) (radices sz order).
Proof.
  intros [(Hnd & Hlen & Hlt) Hpos]. unfold radices. rewrite Forall_forall in *. intros r Hr.
  apply in_map_iff in Hr. destruct Hr as (d & <- & Hd). apply Hpos, nth_In, Hlt, Hd.
Qed.

Lemma radices_length sz order : length (radices sz order) = length order.
Proof. apply map_length. Qed.

(** ** counting multiples *)
Lemma filter_none {A} (f : A -> bool) l : (forall x, In x l -> f x = false) -> filter f l = [].
Proof. induction l as [|x l IH]; intros H; simpl; [reflexivity|]. rewrite (H x) by now left. apply IH. intros y Hy. apply H. now right. Qed.

Lemma multiples_block st a : 0 < st -> a mod st = 0 -> filter (fun i => Nat.eqb (i mod st) 0) (seq a st) = [a].
Proof.
  destruct st as [|st]; [lia|]. intros _ Ha. cbn [seq filter]. rewrite Ha. cbn [Nat.eqb]. f_equal.
  apply filter_none. intros x Hx. apply in_seq in Hx. apply Nat.eqb_neq. intro E.
  pose proof (Nat.div_mod a (S st) ltac:(lia)) as H1. pose proof (Nat.div_mod x (S st) ltac:(lia)) as H2.
  rewrite Ha in H1. rewrite E in H2.
  set (qa := a / S st) in *. set (qx := x / S st) in *.
  assert (qx <= qa \/ qa + 1 <= qx) as [C|C] by lia.
  - assert (S st * qx <= S st * qa) by (apply Nat.mul_le_mono_l; exact C). lia.
  - assert (S st * (qa + 1) <= S st * qx) by (apply Nat.mul_le_mono_l; exact C). lia.
Qed.

Lemma count_multiples st m : 0 < st -> length (filter (fun i => Nat.eqb (i mod st) 0) (seq 0 (st * m))) = m.
Proof.
  intros Hst. induction m as [|m IH]; [now rewrite Nat.mul_0_r|].
  rewrite Nat.mul_succ_r, seq_app, filter_app, app_length, IH. cbn [plus].
  rewrite multiples_block; [simpl; lia|exact Hst|]. rewrite Nat.mul_comm. apply Nat.mod_mul. lia.
Qed.

Lemma length_filter_ext {A} (f g : A -> bool) l : (forall x, In x l -> f x = g x) -> length (filter f l) = length (filter g l).
Proof. intros H. now rewrite (filter_ext_in f g l H). Qed.

Lemma mod_pred_neq q s : 2 <= s -> 1 <= q -> q mod s <> (q - 1) mod s.
Proof.
  intros Hs Hq E.
  pose proof (Nat.div_mod q s ltac:(lia)) as H1. pose proof (Nat.div_mod (q - 1) s ltac:(lia)) as H2.
  pose proof (Nat.mod_upper_bound q s ltac:(lia)) as B1. pose proof (Nat.mod_upper_bound (q - 1) s ltac:(lia)) as B2.
  rewrite <- E in H2, B2.
  assert (s * (q / s) = s * ((q - 1) / s) + 1) as Hc by lia.
  assert (q / s = (q - 1) / s \/ q / s > (q - 1) / s \/ q / s < (q - 1) / s) as [C|[C|C]] by lia; nia.
Qed.

(** the cyclic change count of digit (st, s) over a full period structure of st * s * rest rows *)
Lemma change_count_digit st s rest : 0 < st -> 0 < s -> 0 < rest ->
  change_count (map (fun n => (n / st) mod s) (seq 0 (st * s * rest))) = if Nat.eqb s 1 then 0 else s * rest.
Proof.
  intros Hst Hs Hrest. unfold change_count. rewrite map_length, seq_length.
  set (N := st * s * rest). assert (HN : 0 < N) by (unfold N; nia).
  set (row := map (fun n => (n / st) mod s) (seq 0 N)).
  assert (Hrow : forall i, i < N -> nth i row 0 = (i / st) mod s) by (intros i Hi; unfold row; now rewrite nth_map_seq).
  destruct (Nat.eqb_spec s 1) as [E|E].
  - subst s. rewrite filter_none; [reflexivity|]. intros i Hi. apply in_seq in Hi.
    rewrite !Hrow by (destruct (Nat.eqb i 0); lia). rewrite !Nat.mod_1_r. reflexivity.
  - rewrite (length_filter_ext _ (fun i => Nat.eqb (i mod st) 0)).
    + replace N with (st * (s * rest)) by (unfold N; lia). apply count_multiples; exact Hst.
    + intros i Hi. apply in_seq in Hi. rewrite !Hrow by (destruct (Nat.eqb i 0); lia).
      destruct (Nat.eqb_spec i 0) as [E0|E0].
      * subst i. rewrite Nat.mod_0_l by lia. rewrite Nat.div_0_l by lia. rewrite Nat.mod_0_l by lia.
        assert ((N - 1) / st = s * rest - 1) as ->.
        { symmetry. apply (Nat.div_unique _ _ _ (st - 1)); [lia|]. unfold N. nia. }
        assert ((s * rest - 1) mod s = s - 1) as ->.
        { symmetry. apply (Nat.mod_unique _ _ (rest - 1)); [lia|]. nia. }
        rewrite Nat.eqb_refl. apply negb_true_iff, Nat.eqb_neq. lia.
      * destruct (Nat.eqb_spec (i mod st) 0) as [Em|Em].
        -- apply negb_true_iff, Nat.eqb_neq.
           pose proof (Nat.div_mod i st ltac:(lia)) as Hd. rewrite Em, Nat.add_0_r in Hd.
           assert (1 <= i / st) by (destruct (i / st); lia).
           assert ((i - 1) / st = i / st - 1) as ->.
           { symmetry. apply (Nat.div_unique _ _ _ (st - 1)); [lia|]. nia. }
           apply mod_pred_neq; lia.
        -- apply negb_false_iff, Nat.eqb_eq. f_equal.
           pose proof (Nat.div_mod i st ltac:(lia)) as Hd.
           pose proof (Nat.mod_upper_bound i st ltac:(lia)) as Hb.
           apply (Nat.div_unique _ _ _ (i mod st - 1)); [lia|]. lia.
Qed.

(** ** argsort: a sorted permutation *)
Section Argsort.
  Variable key : nat -> nat.
  Let le_key (a b : nat) := key a <= key b.

  Lemma insert_by_perm x l : Permutation (insert_by key x l) (x :: l).
  Proof.
    induction l as [|y l IH]; simpl; [reflexivity|].
    destruct (Nat.ltb (key x) (key y)); [reflexivity|].
    rewrite IH. apply perm_swap.
  Qed.

  Lemma insert_by_sorted x l : StronglySorted le_key l -> StronglySorted le_key (insert_by key x l).
  Proof.
    induction 1 as [|y l Hs IH Hall]; simpl; [repeat constructor|].
    destruct (Nat.ltb_spec (key x) (key y)) as [Hlt|Hge].
    - constructor; [constructor; assumption|]. constructor; [unfold le_key; lia|].
      rewrite Forall_forall in *. intros z Hz. specialize (Hall z Hz). unfold le_key in *. lia.
    - constructor; [exact IH|]. rewrite Forall_forall in *. intros z Hz.
      apply (Permutation_in _ (insert_by_perm x l)) in Hz. destruct Hz as [<-|Hz]; [exact Hge| apply Hall; exact Hz].
  Qed.

  Lemma fold_insert_perm xs : forall acc,
    Permutation (fold_left (fun acc i => insert_by key i acc) xs acc) (xs ++ acc).
  Proof.
    induction xs as [|x xs IH]; intros acc; simpl; [reflexivity|].
    rewrite IH. rewrite insert_by_perm. apply Permutation_sym, Permutation_middle.
  Qed.

  Lemma fold_insert_sorted xs : forall acc, StronglySorted le_key acc ->
    StronglySorted le_key (fold_left (fun acc i => insert_by key i acc) xs acc).
  Proof. induction xs as [|x xs IH]; intros acc H; simpl; [exact H|]. apply IH, insert_by_sorted, H. Qed.
End Argsort.

Lemma argsort_perm keys : Permutation (argsort keys) (seq 0 (length keys)).
Proof. unfold argsort. rewrite fold_insert_perm. now rewrite app_nil_r. Qed.

Lemma argsort_sorted keys :
  StronglySorted (fun a b => nth a keys 0 <= nth b keys 0) (argsort keys).
Proof. unfold argsort. apply (fold_insert_sorted (fun j => nth j keys 0)). constructor. Qed.

Lemma perm_of_Permutation l k : perm_of l k <-> Permutation l (seq 0 k).
Proof.
  split.
  - intros (Hnd & Hlen & Hlt). apply NoDup_Permutation_bis; [exact Hnd| rewrite seq_length; lia|].
    intros x Hx. apply in_seq. specialize (Hlt x Hx). lia.
  - intros P. split; [|split].
    + apply (Permutation_NoDup (Permutation_sym P)), seq_NoDup.
    + rewrite (Permutation_length P). apply seq_length.
    + intros x Hx. apply (Permutation_in _ P) in Hx. apply in_seq in Hx. lia.
Qed.

(** ** two strictly sorted lists with the same elements are equal *)
Lemma sorted_perm_unique (R : nat -> nat -> Prop) :
  (forall x y, R x y -> R y x -> False) ->
  forall l1 l2, StronglySorted R l1 -> StronglySorted R l2 -> Permutation l1 l2 -> l1 = l2.
Proof.
  intros Hasym. induction l1 as [|x l1 IH]; intros l2 H1 H2 P.
  - apply Permutation_nil in P. now subst.
  - destruct l2 as [|y l2]; [apply Permutation_sym, Permutation_nil in P; discriminate|].
    inversion H1 as [|? ? H1' F1]; subst. inversion H2 as [|? ? H2' F2]; subst.
    assert (x = y) as ->.
    { destruct (Nat.eq_dec x y) as [E|E]; [exact E|exfalso].
      assert (In x (y :: l2)) as Hx by (apply (Permutation_in _ P); now left).
      assert (In y (x :: l1)) as Hy by (apply (Permutation_in _ (Permutation_sym P)); now left).
      destruct Hx as [Hx|Hx]; [congruence|]. destruct Hy as [Hy|Hy]; [congruence|].
      rewrite Forall_forall in F1, F2. exact (Hasym x y (F1 y Hy) (F2 x Hx)). }
    f_equal. apply IH; [assumption|assumption| eapply Permutation_cons_inv; exact P].
Qed.

Lemma StronglySorted_filter {A} (R : A -> A -> Prop) f l : StronglySorted R l -> StronglySorted R (filter f l).
Proof.
  induction 1 as [|x l Hs IH Hall]; simpl; [constructor|].
  destruct (f x); [|exact IH]. constructor; [exact IH|].
  rewrite Forall_forall in *. intros y Hy. apply filter_In in Hy. apply Hall, Hy.
Qed.

Lemma StronglySorted_rev {A} (R : A -> A -> Prop) l : StronglySorted R l -> StronglySorted (fun a b => R b a) (rev l).
Proof.
  induction 1 as [|x l Hs IH Hall]; simpl; [constructor|].
  (* rev l ++ [x] : every element of rev l is related to x *)
  clear Hs. revert IH. generalize (rev l) (fun y (H : In y (rev l)) => proj1 (Forall_forall _ _) Hall y (proj2 (in_rev l y) H)).
  intros r Hr IH. induction IH as [|z r Hs' IH' Hall']; simpl.
  - repeat constructor.
  - constructor.
    + apply IH'. intros y Hy. apply Hr. now right.
    + apply Forall_app. split; [exact Hall'|]. constructor; [|constructor]. apply Hr. now left.
Qed.

Lemma StronglySorted_strengthen {A} (R S : A -> A -> Prop) l :
  StronglySorted R l -> NoDup l -> (forall a b, In a l -> In b l -> a <> b -> R a b -> S a b) -> StronglySorted S l.
Proof.
  induction 1 as [|x l Hs IH Hall]; intros Hnd H; [constructor|].
  inversion Hnd as [|? ? Hx Hnd']; subst. constructor.
  - apply IH; [exact Hnd'|]. intros a b Ha Hb. apply H; now right.
  - rewrite Forall_forall in *. intros y Hy. apply H; [now left|now right| intro E; subst; contradiction| apply Hall, Hy].
Qed.

Lemma NoDup_sorted_by_index l : NoDup l -> StronglySorted (fun a b => index_of a l < index_of b l) l.
Proof.
  induction 1 as [|x l Hx Hnd IH]; [constructor|]. constructor.
  - eapply StronglySorted_strengthen; [exact IH|exact Hnd|].
    intros a b Ha Hb _ Hab. cbv beta in Hab. simpl.
    destruct (Nat.eqb_spec x a); [subst; contradiction|]. destruct (Nat.eqb_spec x b); [subst; contradiction|]. lia.
  - apply Forall_forall. intros y Hy. simpl. rewrite Nat.eqb_refl.
    destruct (Nat.eqb_spec x y); [subst; contradiction|]. lia.
Qed.

Lemma prod_skipn_lt rs : Forall (fun r => 0 < r) rs -> forall j j', j < j' -> j' <= length rs -> 2 <= nth j rs 1 ->
  prod (skipn j' rs) < prod (skipn j rs).
Proof.
  induction 1 as [|r rs Hr Hall IH]; intros j j' Hjj Hj' H2; simpl in *; [lia|].
  destruct j' as [|j']; [lia|]. destruct j as [|j]; simpl in *.
  - assert (0 < prod (skipn j' rs)) by (apply prod_pos, Forall_forall; intros x Hx; rewrite Forall_forall in Hall; apply Hall; eapply In_skipn; exact Hx).
    assert (prod (skipn j' rs) <= prod rs).
    { rewrite <- (firstn_skipn j' rs) at 2. rewrite prod_app.
      assert (0 < prod (firstn j' rs)) by (apply prod_pos, Forall_forall; intros x Hx; rewrite Forall_forall in Hall; apply Hall; eapply In_firstn; exact Hx). nia. }
    nia.
  - apply IH; lia.
Qed.

Section GridFacts.
  Variables (sz order : list nat).
  Hypothesis Hwf : wf_grid sz order.
  Let k := length sz.
  Let rs := radices sz order.
  Let N := prod rs.
  Let size (d : nat) := nth d sz 1.
  Let nu (d : nat) := negb (Nat.eqb (size d) 1).

  Lemma rs_pos : Forall (fun r => 0 < r) rs.
  Proof. apply radices_pos, Hwf. Qed.
  Lemma rs_len : length rs = k.
  Proof. unfold rs. rewrite radices_length. apply Hwf. Qed.
  Lemma N_pos : 0 < N.
  Proof. apply prod_pos, rs_pos. Qed.

  Lemma idx_lt d : d < k -> index_of d order < k /\ nth (index_of d order) order 0 = d.
  Proof.
    intros Hd. destruct Hwf as [Hp _]. destruct (nth_index_of d order (perm_of_in _ _ _ Hp Hd)) as [E H].
    destruct Hp as (_ & Hl & _). split; [lia|exact E].
  Qed.

  Lemma size_at d : d < k -> nth (index_of d order) rs 1 = size d.
  Proof.
    intros Hd. destruct (idx_lt d Hd) as [Hi E]. unfold rs, radices.
    rewrite (nth_map' (fun x => nth x sz 1) order (index_of d order) 0 1) by (destruct Hwf as [(_ & Hl & _) _]; lia).
    now rewrite E.
  Qed.

  Lemma grid_row_closed d : d < k ->
    grid_row sz order d = map (fun n => (n / prod (firstn (index_of d order) rs)) mod size d) (seq 0 N).
  Proof.
    intros Hd. unfold grid_row. fold rs N. apply map_ext_in. intros n Hn.
    destruct (idx_lt d Hd) as [Hi _].
    rewrite nth_digits by (try apply rs_pos; rewrite rs_len; exact Hi). now rewrite size_at.
  Qed.

  Definition keyj (j : nat) : nat := if Nat.eqb (nth j rs 1) 1 then 0 else prod (skipn j rs).

  Lemma change_count_grid_row d : d < k -> change_count (grid_row sz order d) = keyj (index_of d order).
  Proof.
    intros Hd. rewrite grid_row_closed by exact Hd. destruct (idx_lt d Hd) as [Hi _].
    set (j := index_of d order) in *.
    assert (Hsz : nth j rs 1 = size d) by (unfold j; apply size_at; exact Hd).
    pose proof (prod_split rs j ltac:(rewrite rs_len; exact Hi)) as Hs. fold N in Hs.
    rewrite Hsz in Hs.
    assert (H1 : 0 < prod (firstn j rs)) by (apply prod_pos, Forall_forall; intros x Hx; pose proof rs_pos as Hp; rewrite Forall_forall in Hp; apply Hp; eapply In_firstn; exact Hx).
    assert (H3 : 0 < prod (skipn (S j) rs)) by (apply prod_pos, Forall_forall; intros x Hx; pose proof rs_pos as Hp; rewrite Forall_forall in Hp; apply Hp; eapply In_skipn; exact Hx).
    assert (H2 : 0 < size d).
    { destruct Hwf as [_ Hp]. rewrite Forall_forall in Hp. apply Hp, nth_In. exact Hd. }
    rewrite Hs. rewrite change_count_digit by assumption.
    unfold keyj. rewrite Hsz.
    destruct (Nat.eqb (size d) 1); [reflexivity|].
    rewrite (skipn_cons_nth rs j 1) by (rewrite rs_len; exact Hi). cbn [prod]. now rewrite Hsz.
  Qed.

  Lemma in_grid_row d x : d < k -> In x (grid_row sz order d) <-> x < size d.
  Proof.
    intros Hd. rewrite grid_row_closed by exact Hd. destruct (idx_lt d Hd) as [Hi _].
    set (j := index_of d order) in *. set (st := prod (firstn j rs)).
    assert (H1 : 0 < st) by (apply prod_pos, Forall_forall; intros y Hy; pose proof rs_pos as Hp; rewrite Forall_forall in Hp; apply Hp; eapply In_firstn; exact Hy).
    assert (H2 : 0 < size d).
    { destruct Hwf as [_ Hp]. rewrite Forall_forall in Hp. apply Hp, nth_In. exact Hd. }
    split.
    - intros Hin. apply in_map_iff in Hin. destruct Hin as (n & <- & _). apply Nat.mod_upper_bound. lia.
    - intros Hx. apply in_map_iff. exists (x * st). split.
      + rewrite Nat.div_mul by lia. apply Nat.mod_small, Hx.
      + apply in_seq. split; [lia|]. simpl.
        assert (Hsz : nth j rs 1 = size d) by (unfold j; apply size_at; exact Hd).
        pose proof (prod_split rs j ltac:(rewrite rs_len; exact Hi)) as Hs. fold N st in Hs. rewrite Hsz in Hs.
        assert (H3 : 0 < prod (skipn (S j) rs)) by (apply prod_pos, Forall_forall; intros y Hy; pose proof rs_pos as Hp; rewrite Forall_forall in Hp; apply Hp; eapply In_skipn; exact Hy).
        rewrite Hs.
        assert (x * st < size d * st) by (apply Nat.mul_lt_mono_pos_r; lia).
        assert (size d * st * 1 <= size d * st * prod (skipn (S j) rs)) by (apply Nat.mul_le_mono_l; lia).
        lia.
  Qed.

  Lemma unique_count_grid_row d : d < k -> unique_count (grid_row sz order d) = size d.
  Proof.
    intros Hd. unfold unique_count.
    pose proof (NoDup_nodup Nat.eq_dec (grid_row sz order d)) as Hnd.
    apply Nat.le_antisymm.
    - rewrite <- (seq_length (size d) 0). apply NoDup_incl_length; [exact Hnd|].
      intros x Hx. apply nodup_In in Hx. apply in_seq. apply in_grid_row in Hx; [lia|exact Hd].
    - rewrite <- (seq_length (size d) 0) at 1. apply NoDup_incl_length; [apply seq_NoDup|].
      intros x Hx. apply in_seq in Hx. apply nodup_In. apply in_grid_row; [exact Hd|lia].
  Qed.
End GridFacts.

Lemma Permutation_filter' {A} (f : A -> bool) (l l' : list A) : Permutation l l' -> Permutation (filter f l) (filter f l').
Proof.
  induction 1 as [|x l l' P IH|x y l|l l' l'' P1 IH1 P2 IH2]; simpl.
  - constructor.
  - destruct (f x); [constructor|]; exact IH.
  - destruct (f x), (f y); try reflexivity. apply perm_swap.
  - etransitivity; eassumption.
Qed.

Section GridSort.
  Variables (sz order : list nat).
  Hypothesis Hwf : wf_grid sz order.
  Let k := length sz.
  Let rs := radices sz order.
  Let N := prod rs.
  Let size (d : nat) := nth d sz 1.
  Let nu (d : nat) := negb (Nat.eqb (size d) 1).
  Hypothesis Hkn : k <= N.                 (* not more dimensions than points: the orientation heuristic is harmless *)

  Let G := grid_spec sz order.
  Let keys := map change_count G.
  Let so := get_sort_order G.

  Lemma G_len : length G = k.
  Proof. unfold G, grid_spec. now rewrite map_length, seq_length. Qed.

  Lemma nth_G d : d < k -> nth d G [] = grid_row sz order d.
  Proof. intros Hd. unfold G, grid_spec. now rewrite nth_map_seq. Qed.

  Lemma grid_row_len d : length (grid_row sz order d) = N.
  Proof. unfold grid_row. now rewrite map_length, seq_length. Qed.

  Lemma G_ncols : 0 < k -> ncols G = N.
  Proof.
    intros Hk. unfold ncols. destruct G as [|r0 rest] eqn:E.
    - pose proof G_len as Hl. rewrite E in Hl. simpl in Hl. lia.
    - pose proof (nth_G 0 Hk) as H0. rewrite E in H0. simpl in H0. rewrite H0. apply grid_row_len.
  Qed.

  Lemma orient_G : orient G = G.
  Proof.
    unfold orient. destruct (Nat.eq_dec k 0) as [E|E].
    - assert (G = []) as -> by (apply length_zero_iff_nil; rewrite G_len; exact E). reflexivity.
    - rewrite G_ncols by lia. rewrite G_len. destruct (Nat.ltb_spec N k); [lia|reflexivity].
  Qed.

  Lemma keys_len : length keys = k.
  Proof. unfold keys. now rewrite map_length, G_len. Qed.

  Lemma nth_keys d : d < k -> nth d keys 0 = keyj sz order (index_of d order).
  Proof.
    intros Hd. unfold keys. rewrite (nth_map' change_count G d [] 0) by (rewrite G_len; exact Hd).
    rewrite nth_G by exact Hd. apply change_count_grid_row; assumption.
  Qed.

  Lemma so_eq : so = rev (argsort keys).
  Proof. unfold so, get_sort_order. now rewrite orient_G. Qed.

  Lemma so_perm : perm_of so k.
  Proof.
    rewrite so_eq. apply perm_of_rev. apply perm_of_Permutation. rewrite <- keys_len. apply argsort_perm.
  Qed.

  (** among non-unit dimensions the key is strictly decreasing with the position in [order] *)
  Lemma keyj_strict j j' : j < j' -> j' < k -> 2 <= nth j rs 1 -> 2 <= nth j' rs 1 -> keyj sz order j' < keyj sz order j.
  Proof.
    intros Hjj Hj' H2 H2'. unfold keyj. fold rs.
    destruct (Nat.eqb_spec (nth j rs 1) 1); [lia|]. destruct (Nat.eqb_spec (nth j' rs 1) 1); [lia|].
    pose proof (rs_len sz order Hwf) as Hl. fold rs k in Hl.
    apply prod_skipn_lt; [apply rs_pos; exact Hwf|exact Hjj| lia|exact H2].
  Qed.

  Lemma nu_size d : d < k -> nu d = true -> 2 <= nth (index_of d order) rs 1.
  Proof.
    intros Hd Hn. pose proof (size_at sz order Hwf d Hd) as Hsz. fold rs in Hsz. rewrite Hsz. unfold nu in Hn. fold size.
    apply negb_true_iff, Nat.eqb_neq in Hn.
    destruct Hwf as [_ Hp]. rewrite Forall_forall in Hp. specialize (Hp (size d) (nth_In _ _ Hd)). unfold size in *. lia.
  Qed.

  Lemma so_filter : filter nu so = filter nu order.
  Proof.
    pose proof Hwf as [Hp Hpos]. pose proof Hp as (Hnd & Hlen & Hlt).
    pose proof so_perm as Hsp. pose proof Hsp as (Hnds & Hlens & Hlts).
    apply (sorted_perm_unique (fun e d => nth d keys 0 < nth e keys 0)); [intros x y H1 H2; lia| | |].
    - (* so: reversed ascending order, strict on the distinct non-unit keys *)
      apply StronglySorted_strengthen with (R := fun a b => nth b keys 0 <= nth a keys 0).
      + apply StronglySorted_filter. rewrite so_eq. apply (StronglySorted_rev _ _ (argsort_sorted keys)).
      + apply NoDup_filter, Hnds.
      + intros a b Ha Hb Hab Hle. apply filter_In in Ha, Hb. destruct Ha as [Ha Hna], Hb as [Hb Hnb].
        apply Hlts in Ha, Hb. fold k in Ha, Hb.
        rewrite !nth_keys in * by assumption.
        destruct (idx_lt sz order Hwf a Ha) as [Hia Ea]. destruct (idx_lt sz order Hwf b Hb) as [Hib Eb]. fold k in Hia, Hib.
        assert (index_of a order <> index_of b order) by (intro E; rewrite <- Ea, <- Eb, E in Hab; contradiction).
        assert (index_of a order < index_of b order \/ index_of b order < index_of a order) as [C|C] by lia.
        * apply keyj_strict; try assumption; apply nu_size; assumption.
        * pose proof (keyj_strict _ _ C Hia (nu_size b Hb Hnb) (nu_size a Ha Hna)). lia.
    - (* order itself *)
      apply StronglySorted_strengthen with (R := fun a b => index_of a order < index_of b order).
      + apply StronglySorted_filter, NoDup_sorted_by_index, Hnd.
      + apply NoDup_filter, Hnd.
      + intros a b Ha Hb Hab Hlt'. apply filter_In in Ha, Hb. destruct Ha as [Ha Hna], Hb as [Hb Hnb].
        apply Hlt in Ha, Hb. fold k in Ha, Hb.
        rewrite !nth_keys by assumption.
        destruct (idx_lt sz order Hwf b Hb) as [Hib _]. fold k in Hib.
        apply keyj_strict; try assumption; apply nu_size; assumption.
    - (* same elements *)
      assert (Permutation so order) as P.
      { apply perm_of_Permutation in Hsp. apply perm_of_Permutation in Hp. fold k in Hp. rewrite Hsp. now symmetry. }
      apply Permutation_filter', P.
  Qed.
End GridSort.

Lemma prod_perm l l' : Permutation l l' -> prod l = prod l'.
Proof. induction 1; simpl; lia. Qed.

Lemma firstn_map' {A B} (f : A -> B) n l : firstn n (map f l) = map f (firstn n l).
Proof. revert l; induction n as [|n IH]; intros [|x l]; simpl; try reflexivity. now rewrite IH. Qed.

(** strides only depend on the relative order of the non-unit dimensions *)
Lemma stride_filter (size : nat -> nat) o d :
  let nu := fun e => negb (Nat.eqb (size e) 1) in
  NoDup o -> In d o -> nu d = true ->
  prod (map size (firstn (index_of d o) o)) = prod (map size (firstn (index_of d (filter nu o)) (filter nu o))).
Proof.
  intros nu. induction 1 as [|y o Hy Hnd IH]; intros Hin Hd; simpl in *; [tauto|].
  destruct (Nat.eqb_spec y d) as [E|E].
  - subst y. rewrite Hd. simpl. now rewrite Nat.eqb_refl.
  - destruct Hin as [Hin|Hin]; [congruence|]. simpl. rewrite (IH Hin Hd).
    destruct (nu y) eqn:Ey; simpl.
    + destruct (Nat.eqb_spec y d); [congruence|]. reflexivity.
    + unfold nu in Ey. apply negb_false_iff, Nat.eqb_eq in Ey. rewrite Ey. lia.
Qed.

Section GridConsistent.
  Variables (sz order : list nat).
  Hypothesis Hwf : wf_grid sz order.
  Let k := length sz.
  Let N := prod (radices sz order).
  Hypothesis Hkn : k <= N.
  Let G := grid_spec sz order.
  Let so := get_sort_order G.
  Let size (d : nat) := nth d sz 1.

  Lemma wf_so : wf_grid sz so.
  Proof. split; [apply so_perm; assumption| apply Hwf]. Qed.

  Lemma radices_so_perm : Permutation (radices sz so) (radices sz order).
  Proof.
    unfold radices. apply Permutation_map.
    pose proof (so_perm sz order Hkn) as H1. destruct Hwf as [H2 _].
    apply perm_of_Permutation in H1, H2. fold G so in H1. rewrite H1. now symmetry.
  Qed.

  Lemma prod_so : prod (radices sz so) = N.
  Proof. apply prod_perm, radices_so_perm. Qed.

  Lemma dims_so : get_dimensionality G so = radices sz so.
  Proof.
    unfold get_dimensionality, radices. pose proof (orient_G sz order Hkn) as Ho. fold G in Ho. rewrite Ho.
    apply map_ext_in. intros d Hd.
    destruct (so_perm sz order Hkn) as (_ & _ & Hlt). fold G so in Hlt. specialize (Hlt d Hd).
    pose proof (nth_G sz order d Hlt) as Hg. fold G in Hg. rewrite Hg. apply unique_count_grid_row; assumption.
  Qed.

  (** the grid stored in rate order [order] is exactly the grid described by the order pyUSID computes *)
  Theorem grid_consistent d n : d < k -> n < N ->
    nth n (grid_row sz order d) 0 = nth (index_of d so) (digits (radices sz so) n) 0.
  Proof.
    intros Hd Hn.
    pose proof (so_perm sz order Hkn) as Hsp. fold G so in Hsp. pose proof Hsp as (Hnds & Hlens & Hlts).
    pose proof Hwf as [Hp Hpos]. pose proof Hp as (Hnd & Hlen & Hlt).
    rewrite (grid_row_closed sz order Hwf d Hd). fold N. rewrite nth_map_seq by exact Hn.
    destruct (idx_lt sz so wf_so d Hd) as [His _].
    rewrite nth_digits by (try (apply radices_pos, wf_so); rewrite radices_length; lia).
    rewrite (size_at sz so wf_so d Hd).
    destruct (Nat.eq_dec (nth d sz 1) 1) as [E1|E1]; [rewrite E1, !Nat.mod_1_r; reflexivity|].
    f_equal. f_equal. unfold radices. rewrite !firstn_map'.
    change (fun d0 : nat => nth d0 sz 1) with size.
    assert (Hnu : negb (Nat.eqb (size d) 1) = true) by (apply negb_true_iff, Nat.eqb_neq; exact E1).
    rewrite (stride_filter size order d Hnd (perm_of_in _ _ _ Hp Hd) Hnu).
    rewrite (stride_filter size so d Hnds (perm_of_in _ _ _ Hsp Hd) Hnu).
    pose proof (so_filter sz order Hwf Hkn) as Hf. fold G so in Hf. unfold size. now rewrite Hf.
  Qed.
End GridConsistent.

(** * reshape_to_n_dims on regular grids in any storage order *)
Section GridToNd.
  Context {A : Type} (dflt : A).
  Variables (szp orderp szs orders : list nat).
  Hypothesis Hwfp : wf_grid szp orderp.
  Hypothesis Hwfs : wf_grid szs orders.
  Let kp := length szp.
  Let ks := length szs.
  Let N := prod (radices szp orderp).
  Let M := prod (radices szs orders).
  Hypothesis Hkp : kp <= N.          (* not more dimensions than points, on either side *)
  Hypothesis Hks : ks <= M.
  Hypothesis Hkp0 : 0 < kp.
  Hypothesis Hks0 : 0 < ks.
  Variables (main : list (list A)) (pos : list (list nat)).
  Hypothesis Hmain_rows : length main = N.
  Hypothesis Hmain_rect : rect main M.
  (** [pos] is the position-shaped (N x kp) matrix of the grid: the transpose of the spectroscopic-shaped one *)
  Hypothesis Hpos_t : transpose2d 0 pos = grid_spec szp orderp.
  Hypothesis Hpos_c : ncols pos = kp.
  Let spec := grid_spec szs orders.

  Lemma main_ncols : ncols main = M.
  Proof.
    unfold ncols. destruct main as [|r0 rest] eqn:E.
    - simpl in Hmain_rows. pose proof (N_pos szp orderp Hwfp). fold N in H. lia.
    - inversion Hmain_rect; subst. assumption.
  Qed.

  Theorem grid_to_nd :
    exists a, to_nd dflt main pos spec false = Ok (a, seq 0 (kp + ks)) /\
      (forall r c, r < N -> c < M ->
         nd_get dflt a (pos_row pos kp r ++ spec_col spec ks c) = nth c (nth r main []) dflt) /\
      length (nd_shape a) = kp + ks /\
      (forall r c, r < N -> c < M -> inbounds (pos_row pos kp r ++ spec_col spec ks c) (nd_shape a)).
  Proof.
    pose proof main_ncols as Hmc.
    assert (Hspec_len : length spec = ks) by (unfold spec, grid_spec; now rewrite map_length, seq_length).
    pose proof (to_nd_coordinates dflt main pos spec) as T.
    rewrite Hmc, Hmain_rows, Hpos_c, Hpos_t, Hspec_len in T. fold spec in T.
    apply T; clear T.
    - exact Hmain_rect.
    - apply so_perm; assumption.
    - apply so_perm; assumption.
    - rewrite (dims_so szp orderp Hwfp Hkp). apply prod_so; assumption.
    - unfold spec. rewrite (dims_so szs orders Hwfs Hks). apply prod_so; assumption.
    - rewrite (dims_so szp orderp Hwfp Hkp). apply radices_pos, wf_so; assumption.
    - unfold spec. rewrite (dims_so szs orders Hwfs Hks). apply radices_pos, wf_so; assumption.
    - intros r dd Hr Hdd. rewrite (dims_so szp orderp Hwfp Hkp).
      rewrite <- (grid_consistent szp orderp Hwfp Hkp dd r Hdd Hr).
      rewrite <- (nth_G szp orderp dd Hdd), <- Hpos_t.
      symmetry. apply nth_transpose2d. rewrite Hpos_c. exact Hdd.
    - intros c e Hc He. unfold spec. rewrite (dims_so szs orders Hwfs Hks).
      rewrite <- (grid_consistent szs orders Hwfs Hks e c He Hc).
      now rewrite (nth_G szs orders e He).
  Qed.
End GridToNd.

(** every in-bounds coordinate vector is carried by exactly one row of the grid *)
Theorem grid_rows_bijection sz order : wf_grid sz order ->
  forall ip, inbounds ip sz ->
  exists r, r < prod (radices sz order) /\
    map (fun d => nth r (grid_row sz order d) 0) (seq 0 (length sz)) = ip /\
    forall r', r' < prod (radices sz order) ->
      map (fun d => nth r' (grid_row sz order d) 0) (seq 0 (length sz)) = ip -> r' = r.
Proof.
  intros Hwf ip Hip. pose proof Hwf as [Hp Hpos]. pose proof Hp as (Hnd & Hlen & Hlt).
  set (k := length sz) in *. set (rs := radices sz order).
  pose proof (radices_pos sz order Hwf) as Hrs. fold rs in Hrs.
  apply inbounds_pointwise in Hip. destruct Hip as [Hipl Hipb]. fold k in Hipl, Hipb.
  set (ds := map (fun j => nth (nth j order 0) ip 0) (seq 0 k)).
  assert (Hds : inb ds rs).
  { apply inb_pointwise. unfold ds, rs. rewrite map_length, seq_length, radices_length. split; [lia|].
    rewrite Hlen. intros j Hj. rewrite nth_map_seq by exact Hj. unfold radices.
    rewrite (nth_map' (fun d => nth d sz 1) order j 0 1) by lia. apply Hipb, Hlt, nth_In. lia. }
  assert (Hrow : forall r, r < prod rs -> forall d, d < k ->
            nth r (grid_row sz order d) 0 = nth (index_of d order) (digits rs r) 0).
  { intros r Hr d Hd. unfold grid_row. fold rs. now rewrite nth_map_seq. }
  exists (undigits rs ds). split; [apply undigits_lt; exact Hds|]. split.
  - apply nth_ext with (d := 0) (d' := 0); [rewrite map_length, seq_length; lia|].
    intros d Hd. rewrite map_length, seq_length in Hd. rewrite nth_map_seq by exact Hd.
    rewrite Hrow by (try apply undigits_lt; assumption). rewrite digits_undigits by exact Hds.
    destruct (idx_lt sz order Hwf d Hd) as [Hi Ei]. fold k in Hi.
    unfold ds. rewrite nth_map_seq by exact Hi. now rewrite Ei.
  - intros r' Hr' E. apply (digits_inj rs Hrs); [exact Hr'| apply undigits_lt; exact Hds|].
    rewrite digits_undigits by exact Hds.
    apply nth_ext with (d := 0) (d' := 0); [unfold ds, rs; rewrite digits_length, map_length, seq_length, radices_length; lia|].
    intros j Hj. rewrite digits_length in Hj. unfold rs in Hj. rewrite radices_length, Hlen in Hj.
    unfold ds. rewrite nth_map_seq by exact Hj. rewrite <- E.
    assert (Hoj : nth j order 0 < k) by (apply Hlt, nth_In; lia).
    rewrite nth_map_seq by exact Hoj. rewrite Hrow by assumption.
    now rewrite (index_of_nth order Hnd j) by lia.
Qed.
