(** The translators: ImageTranslator (transpose + flatten), write_sidpy_dataset (after repairs d67b136, 089deaa: spatial
    axes moved in front, placeholder for an empty side), ArrayTranslator's argument gate. *)
From Coq Require Import List Arith Lia Bool.
Require Import V.Base.ListAux V.Base.Radix V.Base.Matrix V.Base.NdArray V.Usid.AncBuild V.Usid.Reduce.
Import ListNotations.

(** * ImageTranslator: image (U rows = Y, V columns = X) -> image.transpose().reshape(-1, 1);
      pos_dims = [Y; X] with the default ordering flag, i.e. Y is the fastest position dimension *)
Definition image_rows {A} (d : A) (img : list (list A)) : list A := concat (transpose2d d img).
Definition image_pos (u v : nat) : list (list nat) * list (list nat) * list nat :=
  write_ind_val 0 [(0, seq 0 u); (1, seq 0 v)] false false.          (* dimension 0 = Y, 1 = X; values = pixel numbers *)

(** * write_sidpy_dataset: [spatial] flags the axes of type SPATIAL *)
Definition sp_axes (spatial : list bool) : list nat := filter (fun p => nth p spatial false) (seq 0 (length spatial)).
Definition sc_axes (spatial : list bool) : list nat := filter (fun p => negb (nth p spatial false)) (seq 0 (length spatial)).
Definition sidpy_flat {A} (d : A) (a : nd A) (spatial : list bool) : nd A := nd_transpose d a (sp_axes spatial ++ sc_axes spatial).
(** Dimension lists (axis number, index values) in axis order, slow_to_fast=True; an empty side gets the placeholder
    (numbered like the number of axes) *)
Definition side_dims (shape : list nat) (axes : list nat) : list (nat * list nat) :=
  match axes with
  | [] => [(length shape, [0])]
  | _ => map (fun ax => (ax, seq 0 (nth ax shape 1))) axes
  end.
Definition sidpy_pos (shape : list nat) (spatial : list bool) := write_ind_val 0 (side_dims shape (sp_axes spatial)) false true.
Definition sidpy_spec (shape : list nat) (spatial : list bool) := write_ind_val 0 (side_dims shape (sc_axes spatial)) true true.

(** * ArrayTranslator.translate: everything is checked before the old file is removed and the new one created *)
Inductive terr := TTypeE | TValueE | TKeyE.
Record at_args := mkAt {
  t_strings : nat;            (* validate_string_args: 0 ok, 1 TypeError, 2 ValueError *)
  t_data_kind : nat;          (* 0 numpy / dask array, 1 something else *)
  t_rank : nat;
  t_n : nat; t_m : nat;
  t_pos_ok : bool; t_pos_prod : nat;      (* Dimension objects?, product of their sizes *)
  t_spec_ok : bool; t_spec_prod : nat;
  t_extra : nat }.            (* 0 none / fine, 1 not a dict, 2 key not a string, 3 reserved key, 4 value of a wrong type *)
Definition at_gate (a : at_args) : option terr :=
  if Nat.eqb (t_strings a) 1 then Some TTypeE else if Nat.eqb (t_strings a) 2 then Some TValueE
  else if negb (Nat.eqb (t_data_kind a) 0) then Some TTypeE
  else if negb (Nat.eqb (t_rank a) 2) then Some TValueE
  else if negb (t_pos_ok a) then Some TTypeE
  else if negb (Nat.eqb (t_pos_prod a) (t_n a)) then Some TValueE
  else if negb (t_spec_ok a) then Some TTypeE
  else if negb (Nat.eqb (t_spec_prod a) (t_m a)) then Some TValueE
  else match t_extra a with
       | 0 => None
       | 1 => Some TTypeE
       | 2 => Some TTypeE
       | 3 => Some TKeyE
       | _ => Some TTypeE
       end.
(** the file is touched only when the gate lets the call through *)
Definition at_file_written (a : at_args) : bool := match at_gate a with None => true | Some _ => false end.
