(** Selecting, from the rows of a mixed-radix grid, those whose every digit lies in a per-digit subset:
    the selected rows, in increasing order, enumerate the product of the subsets in the SAME mixed-radix order.
    This is the arithmetic behind "a slice of a USID dataset is again a grid" (C11, C12). *)
From Coq Require Import List Arith Lia Bool Sorted Permutation.
Require Import V.Base.ListAux V.Base.Radix V.Usid.Grid V.Usid.SliceProof.
Import ListNotations.

Fixpoint sel_ok (ds : list nat) (ch : list (list nat)) : bool :=
  match ds, ch with
  | d :: ds', c :: ch' => existsb (Nat.eqb d) c && sel_ok ds' ch'
  | [], [] => true
  | _, _ => false
  end.
(** rows (numbers below prod rs) all of whose digits are chosen, in increasing order *)
Definition sel_rows (rs : list nat) (ch : list (list nat)) : list nat :=
  filter (fun r => sel_ok (digits rs r) ch) (seq 0 (prod rs)).
(** the chosen value addressed by each digit *)
Fixpoint pick (ch : list (list nat)) (ds : list nat) : list nat :=
  match ch, ds with c :: ch', d :: ds' => nth d c 0 :: pick ch' ds' | _, _ => [] end.
(** a selection along one digit: strictly increasing, in range, not empty *)
Definition good (c : list nat) (r : nat) : Prop := StronglySorted lt c /\ Forall (fun x => x < r) c /\ c <> [].

Lemma seq_as_map n : forall a, seq a n = map (fun i => a + i) (seq 0 n).
Proof.
  induction n as [|n IH]; intros a; simpl; [reflexivity|]. f_equal; [lia|].
  rewrite <- (seq_shift n 0), map_map, (IH (S a)). apply map_ext. intros i. lia.
Qed.

Lemma seq_blocks r : forall P a, seq (a * r) (r * P) = flat_map (fun q => map (fun i => q * r + i) (seq 0 r)) (seq a P).
Proof.
  induction P as [|P IH]; intros a; [now rewrite Nat.mul_0_r|].
  replace (r * S P) with (r + r * P) by lia. rewrite seq_app. simpl. f_equal.
  - apply seq_as_map.
  - replace (a * r + r) with (S a * r) by lia. apply IH.
Qed.

Lemma filter_flat_map {A B} (f : B -> bool) (g : A -> list B) l : filter f (flat_map g l) = flat_map (fun x => filter f (g x)) l.
Proof. induction l as [|x l IH]; simpl; [reflexivity|]. now rewrite filter_app, IH. Qed.

Lemma filter_map_comm {A B} (f : B -> bool) (g : A -> B) l : filter f (map g l) = map g (filter (fun x => f (g x)) l).
Proof. induction l as [|x l IH]; simpl; [reflexivity|]. destruct (f (g x)); simpl; now rewrite IH. Qed.

Lemma flat_map_map {A B C} (f : A -> B) (g : B -> list C) l : flat_map g (map f l) = flat_map (fun x => g (f x)) l.
Proof. induction l as [|x l IH]; simpl; [reflexivity|]. now rewrite IH. Qed.

Lemma map_flat_map {A B C} (f : B -> C) (g : A -> list B) l : map f (flat_map g l) = flat_map (fun x => map f (g x)) l.
Proof. induction l as [|x l IH]; simpl; [reflexivity|]. now rewrite map_app, IH. Qed.

Lemma flat_map_filter_nil {A B} (p : A -> bool) (g : A -> list B) l :
  flat_map (fun x => if p x then g x else []) l = flat_map g (filter p l).
Proof. induction l as [|x l IH]; simpl; [reflexivity|]. destruct (p x); simpl; now rewrite IH. Qed.

Lemma flat_map_ext_in {A B} (f g : A -> list B) l : (forall x, In x l -> f x = g x) -> flat_map f l = flat_map g l.
Proof. induction l as [|x l IH]; intros H; simpl; [reflexivity|]. rewrite H by now left. rewrite IH; [reflexivity|]. intros y Hy. apply H. now right. Qed.

Lemma sorted_lt_NoDup l : StronglySorted lt l -> NoDup l.
Proof.
  induction 1 as [|x l Hs IH Hall]; constructor; [|exact IH].
  intros Hin. rewrite Forall_forall in Hall. specialize (Hall x Hin). lia.
Qed.

(** the members of a good selection, filtered out of the full range, are the selection itself *)
Lemma filter_mem_sorted c r : StronglySorted lt c -> Forall (fun x => x < r) c -> filter (fun i => existsb (Nat.eqb i) c) (seq 0 r) = c.
Proof.
  intros Hs Hr. apply (sorted_perm_unique lt); [intros x y; lia|apply filter_seq_sorted|exact Hs|].
  apply NoDup_Permutation; [apply NoDup_filter, seq_NoDup|now apply sorted_lt_NoDup|].
  intros x. rewrite filter_In, in_seq, existsb_exists. split.
  - intros (_ & y & Hy & E). apply Nat.eqb_eq in E. now subst.
  - intros Hx. rewrite Forall_forall in Hr. split; [specialize (Hr x Hx); lia|]. exists x. split; [exact Hx|apply Nat.eqb_refl].
Qed.

Lemma map_nth_seq (c : list nat) : map (fun i => nth i c 0) (seq 0 (length c)) = c.
Proof.
  apply (nth_ext _ _ 0 0); [now rewrite map_length, seq_length|].
  intros n Hn. rewrite map_length, seq_length in Hn.
  rewrite (nth_indep _ 0 (nth 0 c 0)) by (now rewrite map_length, seq_length).
  rewrite (map_nth (fun i => nth i c 0) (seq 0 (length c)) 0 n), seq_nth by exact Hn. reflexivity.
Qed.

(** ** the enumeration theorem *)
Theorem sel_rows_enum : forall rs ch, Forall2 good ch rs ->
  sel_rows rs ch = map (fun j => undigits rs (pick ch (digits (map (@length nat) ch) j))) (seq 0 (prod (map (@length nat) ch))).
Proof.
  intros rs ch H. induction H as [|c r ch rs Hg Hall IH]; [reflexivity|].
  destruct Hg as (Hs & Hr & Hne).
  assert (Hrpos : 0 < r) by (destruct c as [|x c]; [congruence|]; inversion Hr; lia).
  unfold sel_rows in *. cbn [prod map digits].
  set (g := fun j => undigits rs (pick ch (digits (map (@length nat) ch) j))) in *.
  (* left-hand side *)
  replace (seq 0 (r * prod rs)) with (seq (0 * r) (r * prod rs)) by reflexivity.
  rewrite seq_blocks, filter_flat_map.
  rewrite (flat_map_ext_in _ (fun q => if sel_ok (digits rs q) ch then map (fun i => q * r + i) c else [])).
  2:{ intros q _. rewrite filter_map_comm.
      rewrite (filter_ext_in _ (fun i => existsb (Nat.eqb i) c && sel_ok (digits rs q) ch)).
      2:{ intros i Hi. apply in_seq in Hi. cbn [sel_ok].
          replace ((q * r + i) mod r) with i by (rewrite Nat.add_comm, Nat.mod_add by lia; symmetry; apply Nat.mod_small; lia).
          replace ((q * r + i) / r) with q by (rewrite Nat.add_comm, Nat.div_add by lia; rewrite Nat.div_small by lia; reflexivity).
          reflexivity. }
      destruct (sel_ok (digits rs q) ch).
      - rewrite (filter_ext _ (fun i => existsb (Nat.eqb i) c)) by (intros i; apply andb_true_r). now rewrite filter_mem_sorted.
      - rewrite (filter_ext _ (fun _ => false)) by (intros i; apply andb_false_r).
        clear. induction (seq 0 r) as [|x l IHl]; [reflexivity|exact IHl]. }
  rewrite flat_map_filter_nil, IH, flat_map_map.
  (* right-hand side *)
  replace (seq 0 (length c * prod (map (@length nat) ch))) with (seq (0 * length c) (length c * prod (map (@length nat) ch))) by reflexivity.
  rewrite seq_blocks, map_flat_map.
  apply flat_map_ext_in. intros q _. rewrite map_map.
  assert (Hc : 0 < length c) by (destruct c; [congruence|simpl; lia]).
  rewrite <- (map_nth_seq c) at 1. rewrite map_map. apply map_ext_in. intros i Hi. apply in_seq in Hi.
  cbn [digits pick undigits].
  replace ((q * length c + i) mod length c) with i by (rewrite Nat.add_comm, Nat.mod_add by lia; symmetry; apply Nat.mod_small; lia).
  replace ((q * length c + i) / length c) with q by (rewrite Nat.add_comm, Nat.div_add by lia; rewrite Nat.div_small by lia; reflexivity).
  fold (g q). lia.
Qed.

(** consequences: count, and the digits of the j-th selected row *)
Lemma pick_inb ch rs : Forall2 good ch rs -> forall ds, inb ds (map (@length nat) ch) -> inb (pick ch ds) rs.
Proof.
  induction 1 as [|c r ch rs Hg Hall IH]; intros ds Hd; destruct ds as [|d ds]; simpl in *; try tauto.
  destruct Hd as [Hd1 Hd2]. split; [|now apply IH].
  destruct Hg as (_ & Hr & _). rewrite Forall_forall in Hr. apply Hr, nth_In, Hd1.
Qed.

Lemma good_lengths_pos ch rs : Forall2 good ch rs -> Forall (fun r => 0 < r) (map (@length nat) ch).
Proof.
  induction 1 as [|c r ch rs Hg Hall IH]; simpl; constructor; [|exact IH].
  destruct Hg as (_ & _ & Hne). destruct c; [congruence|simpl; lia].
Qed.

Theorem sel_rows_length rs ch : Forall2 good ch rs -> length (sel_rows rs ch) = prod (map (@length nat) ch).
Proof. intros H. now rewrite (sel_rows_enum rs ch H), map_length, seq_length. Qed.

Theorem sel_rows_digits rs ch j : Forall2 good ch rs -> j < prod (map (@length nat) ch) ->
  digits rs (nth j (sel_rows rs ch) 0) = pick ch (digits (map (@length nat) ch) j).
Proof.
  intros H Hj. rewrite (sel_rows_enum rs ch H).
  rewrite (nth_indep _ 0 ((fun j => undigits rs (pick ch (digits (map (@length nat) ch) j))) 0)) by (now rewrite map_length, seq_length).
  rewrite (map_nth (fun j => undigits rs (pick ch (digits (map (@length nat) ch) j))) (seq 0 _) 0 j), seq_nth by exact Hj.
  apply digits_undigits. apply pick_inb; [exact H|]. apply digits_inb. now apply (good_lengths_pos ch rs).
Qed.

(** membership: exactly the rows whose digits are all chosen, each once, in increasing order *)
Theorem sel_rows_spec rs ch r : In r (sel_rows rs ch) <-> r < prod rs /\ sel_ok (digits rs r) ch = true.
Proof. unfold sel_rows. rewrite filter_In, in_seq. split; intros [H1 H2]; split; auto; lia. Qed.
Theorem sel_rows_sorted rs ch : StronglySorted lt (sel_rows rs ch).
Proof. apply filter_seq_sorted. Qed.

(** ** dropping the radix-1 positions does not change the other digits *)
Fixpoint drop_ones (lens : list nat) : list nat :=
  match lens with [] => [] | l :: rest => if Nat.leb 2 l then l :: drop_ones rest else drop_ones rest end.
(** position of the p-th radix among the kept ones *)
Fixpoint kept_before (lens : list nat) (p : nat) : nat :=
  match lens, p with
  | l :: rest, S p' => (if Nat.leb 2 l then 1 else 0) + kept_before rest p'
  | _, _ => 0
  end.

Lemma digits_drop_ones lens : Forall (fun l => 0 < l) lens -> forall j p, p < length lens -> 2 <= nth p lens 0 ->
  nth (kept_before lens p) (digits (drop_ones lens) j) 0 = nth p (digits lens j) 0.
Proof.
  induction 1 as [|l lens Hl Hall IH]; intros j p Hp H2; [simpl in Hp; lia|].
  cbn [drop_ones kept_before digits]. cbn [length] in Hp.
  destruct (Nat.leb 2 l) eqn:E.
  - destruct p as [|p]; [reflexivity|]. cbn [digits nth Nat.add]. cbn [nth] in H2. apply IH; [lia|exact H2].
  - apply Nat.leb_gt in E. assert (l = 1) by lia. subst l. destruct p as [|p]; [cbn [nth] in H2; lia|].
    cbn [nth Nat.add] in *. rewrite Nat.div_1_r. apply IH; [lia|exact H2].
Qed.

Lemma prod_drop_ones lens : Forall (fun l => 0 < l) lens -> prod (drop_ones lens) = prod lens.
Proof.
  induction 1 as [|l lens Hl Hall IH]; [reflexivity|]. cbn [drop_ones prod].
  destruct (Nat.leb 2 l) eqn:E; cbn [prod]; [now rewrite IH|]. apply Nat.leb_gt in E. assert (l = 1) by lia. subst. lia.
Qed.
