(** ImageTranslator.translate(normalize=True):  image -= min(image);  image = image / float32(max(image)).
    The model keeps every normalised pixel as the exact rational (x - min, max - min); a constant image gives 0 / 0 (the library
    stores NaN).  Model and comparison only; proofs in TranslateNormProof.v. *)
From Coq Require Import List Arith Lia Bool ZArith.
Require Import V.Base.ListAux V.Base.Matrix V.Usid.Translate.
Import ListNotations.

Definition lmin (l : list nat) : nat := fold_right Nat.min (hd 0 l) l.
Definition lmax (l : list nat) : nat := fold_right Nat.max 0 l.
Definition norm_px (mn span : nat) (x : nat) : nat * nat := (x - mn, span).
Definition normalize (img : list (list nat)) : list (list (nat * nat)) :=
  let flat := concat img in
  let mn := lmin flat in
  let span := lmax (map (fun x => x - mn) flat) in
  map (map (norm_px mn span)) img.
(** what is written: the normalised image, transposed and flattened like every image *)
Definition image_rows_normalized (img : list (list nat)) : list (nat * nat) :=
  let flat := concat img in
  let mn := lmin flat in
  let span := lmax (map (fun x => x - mn) flat) in
  image_rows (norm_px mn span 0) (normalize img).      (* the filler of ragged rows never shows: images are rectangular *)

(** observed number n / d as an exact binary fraction (d = 0 stands for NaN) against the exact rational p / q of the model:
    both undefined, or |n/d - p/q| <= 2^-20 (the values lie in [0, 1]; float32 division is good to 2^-24) *)
Definition norm_close (m : nat * nat) (o : Z * Z) : bool :=
  let '(p, q) := m in let '(n, d) := o in
  if Nat.eqb q 0 then Z.eqb d 0
  else (0 <? d)%Z && (Z.abs (n * Z.of_nat q - Z.of_nat p * d) * 1048576 <=? Z.of_nat q * d)%Z.
