From Coq Require Import List Arith Lia Bool Sorted.
Require Import V.Base.ListAux V.Base.Radix V.Base.Matrix V.Usid.AncBuild V.Usid.Grid V.Usid.SelEnum V.Usid.SliceDset V.Usid.UnitValues V.Usid.UnitValuesGrid.
Import ListNotations.

(** what _get_dims_for_slice reads off the sliced ancillary matrices: along the p-th fastest dimension the kept rows carry the
    chosen indices; get_unit_values on that row (values = any function of the index) returns the values of the chosen
    indices, in increasing index order -- the Dimension descriptor handed to the writer *)
Theorem sliced_unit_values {V} (dv : V) (f : nat -> V) (s : sside) (p : nat) :
  wf_side s -> p < length (ss_so s) ->
  let chosen := nth (nth p (ss_so s) 0) (ss_ch s) [] in
  let rowinds := map (fun j => src_index s (nth j (side_rows s) 0) p) (seq 0 (prod (lens_of s))) in
  unit_values_row dv rowinds (map f rowinds) = Some (map f chosen).
Proof.
  intros Hwf Hp chosen rowinds.
  assert (Hrow : rowinds = map (fun j => nth (nth p (digits (lens_of s) j) 0) chosen 0) (seq 0 (prod (lens_of s)))).
  { unfold rowinds. apply map_ext_in. intros j Hj. apply in_seq in Hj. apply src_index_kept; [exact Hwf|lia|exact Hp]. }
  rewrite Hrow.
  assert (Hlp : p < length (lens_of s)) by (now rewrite lens_length).
  apply (unit_values_digit_row dv f (lens_of s) p chosen (lens_pos s Hwf) Hlp).
  - rewrite (nth_indep _ 1 0) by exact Hlp. now rewrite nth_lens by exact Hp.
  - destruct Hwf as [_ Hg]. unfold chosen.
    assert (Hn : nth p (ch_of s) [] = nth (nth p (ss_so s) 0) (ss_ch s) []).
    { unfold ch_of. rewrite (nth_indep _ [] ((fun d => nth d (ss_ch s) []) 0)) by (now rewrite map_length).
      apply (map_nth (fun d => nth d (ss_ch s) []) (ss_so s) 0 p). }
    rewrite <- Hn. assert (Hlc : p < length (ch_of s)) by (unfold ch_of; now rewrite map_length).
    clear -Hg Hlc. revert p Hlc. induction Hg as [|c r ch rs Hgood Hall IH]; intros p Hp; [simpl in Hp; lia|].
    destruct p as [|p]; simpl; [apply Hgood|apply IH; simpl in Hp; lia].
Qed.
