(** USIDataset.to_csv at the level of comma-separated segments.
    A text line is the non-empty list of its segments between commas; a segment is a word over cell identifiers
    ([] is the empty string).  Cells are assumed to contain neither ',' nor a newline. *)
From Coq Require Import List Arith Lia Bool.
Require Import V.Base.ListAux.
Import ListNotations.

Definition seg := list nat.            (* concatenation of cell texts; [] = '' *)
Definition line := list seg.           (* segments separated by ',' (never the empty list) *)

(** Python string concatenation of two lines: the last segment of a fuses with the first segment of b *)
Definition cat (a b : line) : line :=
  match b with
  | [] => a
  | hb :: tb => removelast a ++ [last a [] ++ hb] ++ tb
  end.

(** ','.join(cells) ; ','.join of no cells is '' = one empty segment *)
Definition join (cells : list seg) : line := match cells with [] => [[]] | _ => cells end.
Definition comma : line := [[]; []].           (* the string "," *)

(** spectroscopic label lines:  ','.join('' for _ in pos_dim_labels) + str(dim_desc) + ',' *)
Definition spec_label_line (k : nat) (desc : nat) : line := cat (cat (join (repeat [] k)) [[desc]]) comma.
(** position label line:  ','.join(pos descriptors) + ',' *)
Definition pos_label_line (pdescs : list nat) : line := cat (join (map (fun d => [d]) pdescs)) comma.
(** one line per position:  ','.join(str(v) for v in row) + ',' *)
Definition pos_value_line (row : list nat) : line := cat (join (map (fun v => [v]) row)) comma.

(** np.savetxt(header = spectroscopic value lines + dashes line, then one line per row of the main data) *)
Definition right_lines (spec_vals : list (list nat)) (dash : nat) (m : nat) (main : list (list nat)) : list line :=
  map (fun row => join (map (fun v => [v]) row)) spec_vals ++ [join (repeat [dash] m)] ++ map (fun row => join (map (fun v => [v]) row)) main.

Definition left_lines (k : nat) (sdescs pdescs : list nat) (pos_vals : list (list nat)) : list line :=
  map (spec_label_line k) sdescs ++ [pos_label_line pdescs] ++ map pos_value_line pos_vals.

(** zip(left, right): out_file.write(left_line + right_line); the parsed table = segments of every written line *)
Definition csv_table (k m : nat) (sdescs pdescs : list nat) (spec_vals pos_vals main : list (list nat)) (dash : nat) : list line :=
  map (fun lr => cat (fst lr) (snd lr)) (combine (left_lines k sdescs pdescs pos_vals) (right_lines spec_vals dash m main)).

(** ** file-system effects *)
Inductive csv_outcome := Written | SkippedTooLarge | RefusedExists.
Definition to_csv_decision (too_large force exists_ : bool) : csv_outcome :=
  if too_large && negb force then SkippedTooLarge
  else if exists_ && negb force then RefusedExists
  else Written.
