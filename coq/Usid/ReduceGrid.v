(** write_reduced_anc_dsets on a regular grid: the kept columns at matrix level = digit level, and the reduced matrix
    is again the matrix of a grid (kept dimensions, same relative storage order). *)
From Coq Require Import List Arith Lia Bool.
Require Import V.Base.ListAux V.Base.CorrAux V.Base.Radix V.Base.Matrix V.Base.NdArray V.Usid.SortOrder V.Usid.ToND V.Usid.ToNDProof V.Usid.Grid V.Usid.SelEnum
               V.Usid.Reduce V.Usid.ReduceProof.
Import ListNotations.

(** sel_ok, pointwise *)
Lemma sel_ok_pointwise ds : forall ch, length ds = length ch ->
  (sel_ok ds ch = true <-> forall p, p < length ch -> existsb (Nat.eqb (nth p ds 0)) (nth p ch []) = true).
Proof.
  induction ds as [|x ds IH]; intros [|c ch] Hl; simpl in *; try discriminate.
  - split; [intros _ p Hp; lia|reflexivity].
  - rewrite andb_true_iff, IH by lia. split.
    + intros [H1 H2] [|p] Hp; [exact H1|apply H2; lia].
    + intros H. split; [apply (H 0); lia|]. intros p Hp. apply (H (S p)). lia.
Qed.

Lemma row_min_zero row : nth 0 row 1 = 0 -> row_min row = 0.
Proof.
  destruct row as [|x row]; [simpl; lia|]. simpl. intros ->. unfold row_min. simpl.
  induction row as [|y row IH]; simpl; [reflexivity|]. lia.
Qed.

(** removing radix-1 positions (flagged) from a mixed radix leaves the other digits alone *)
Fixpoint unfl_before (fl : list bool) (p : nat) : nat :=
  match fl, p with f :: fl', S p' => (if f then 0 else 1) + unfl_before fl' p' | _, _ => 0 end.

Lemma digits_drop_fl lens : forall fl, length fl = length lens -> (forall q, nth q fl false = true -> nth q lens 0 = 1) ->
  forall j p, p < length lens -> nth p fl false = false ->
  nth (unfl_before fl p) (digits (part false fl lens) j) 0 = nth p (digits lens j) 0.
Proof.
  induction lens as [|x lens IH]; intros [|f fl] Hl H1 j p Hp Hf; simpl in *; try discriminate; [lia|].
  assert (H1' : forall q, nth q fl false = true -> nth q lens 0 = 1) by (intros q Hq; apply (H1 (S q)); exact Hq).
  destruct f; cbn [Bool.eqb].
  - specialize (H1 0 eq_refl). simpl in H1. subst x. destruct p as [|p]; [discriminate|].
    cbn [digits nth unfl_before Nat.add]. rewrite Nat.div_1_r. apply IH; try assumption; lia.
  - destruct p as [|p]; cbn [digits nth unfl_before Nat.add]; [reflexivity|]. apply IH; try assumption; lia.
Qed.

Lemma prod_part_ones lens : forall fl, length fl = length lens -> (forall q, nth q fl false = true -> nth q lens 0 = 1) ->
  prod (part false fl lens) = prod lens.
Proof.
  induction lens as [|x lens IH]; intros [|f fl] Hl H1; simpl in *; try discriminate; [reflexivity|].
  assert (H1' : forall q, nth q fl false = true -> nth q lens 0 = 1) by (intros q Hq; apply (H1 (S q)); exact Hq).
  destruct f; cbn [Bool.eqb prod].
  - specialize (H1 0 eq_refl). simpl in H1. subst x. rewrite IH by (try assumption; lia). lia.
  - rewrite IH by (try assumption; lia). reflexivity.
Qed.

(** kept dimensions (file order), their sizes, and their storage order renumbered by rank among the kept ones *)
Definition kept (k : nat) (red : list nat) : list nat := filter (fun d => negb (is_ax red d)) (seq 0 k).
Definition red_sz (sz red : list nat) : list nat := map (fun d => nth d sz 1) (kept (length sz) red).
Definition red_so (sz so red : list nat) : list nat :=
  map (fun d => index_of d (kept (length sz) red)) (filter (fun d => negb (is_ax red d)) so).

Section ReduceGrid.
  Variables (sz so red : list nat).
  Hypothesis Hwf : wf_grid sz so.
  Let k := length sz.
  Let rs := radices sz so.
  Let N := prod rs.
  Hypothesis Hkn : k <= N.
  Hypothesis Hk0 : 0 < k.
  Hypothesis Hred : Forall (fun d => d < k) red.
  Let G := grid_spec sz so.

  Lemma grid_entry d c : d < k -> c < N -> nth c (nth d G []) 0 = nth (index_of d so) (digits rs c) 0.
  Proof. intros Hd Hc. unfold G. rewrite (nth_G sz so d Hd). unfold grid_row. fold rs N. now rewrite nth_map_seq. Qed.

  Lemma digits_zero l : Forall (fun r => 0 < r) l -> forall p, nth p (digits l 0) 0 = 0.
  Proof.
    induction 1 as [|r l Hr Hl IH]; intros p; simpl; [now destruct p|].
    rewrite Nat.mod_0_l, Nat.div_0_l by lia. destruct p; [reflexivity|apply IH].
  Qed.

  Lemma grid_row_min d : d < k -> row_min (nth d G []) = 0.
  Proof.
    intros Hd. apply row_min_zero. pose proof (N_pos sz so Hwf) as Hn. fold rs N in Hn.
    rewrite (nth_indep _ 1 0) by (unfold G; rewrite (nth_G sz so d Hd), grid_row_len; exact Hn).
    rewrite grid_entry by assumption. apply digits_zero. apply radices_pos, Hwf.
  Qed.

  Lemma so_facts : NoDup so /\ length so = k /\ (forall x, In x so -> x < k).
  Proof. destruct Hwf as [Hp _]. exact Hp. Qed.

  Lemma digit_lt c p : p < length so -> nth p (digits rs c) 0 < nth (nth p so 0) sz 1.
  Proof.
    intros Hp. pose proof (digits_inb rs c (radices_pos sz so Hwf)) as Hin. apply inb_pointwise in Hin. destruct Hin as [_ Hin].
    assert (Hrl : length rs = length so) by (unfold rs; apply radices_length).
    specialize (Hin p ltac:(lia)).
    assert (Hr : nth p rs 1 = nth (nth p so 0) sz 1) by (unfold rs, radices; apply (nth_map' (fun d => nth d sz 1) so p 0 1); exact Hp).
    now rewrite Hr in Hin.
  Qed.

  (** matrix level (what write_reduced_anc_dsets computes) = digit level (what the theorems talk about) *)
  Theorem reduced_cols_grid : reduced_cols G red = reduced_cols_digits sz so red.
  Proof.
    destruct so_facts as (Hnd & Hlen & Hlt).
    unfold reduced_cols, reduced_cols_digits, sel_rows. fold rs.
    unfold G. rewrite (G_ncols sz so Hkn Hk0). fold rs N G.
    apply filter_ext_in. intros c Hc. apply in_seq in Hc.
    apply eq_iff_eq_true.
    assert (Hdl : length (digits rs c) = length (red_choice sz so red)).
    { rewrite digits_length. unfold rs, red_choice. now rewrite radices_length, map_length. }
    rewrite (sel_ok_pointwise _ _ Hdl). unfold red_choice at 1. rewrite map_length.
    rewrite forallb_forall. split.
    - intros HP p Hp.
      unfold red_choice. rewrite (nth_map' (fun d => if is_ax red d then [0] else seq 0 (nth d sz 1)) so p 0 []) by exact Hp.
      destruct (is_ax red (nth p so 0)) eqn:Ered.
      + unfold is_ax in Ered. apply existsb_exists in Ered. destruct Ered as (d & Hd & Ed). apply Nat.eqb_eq in Ed. subst d.
        specialize (HP _ Hd). apply Nat.eqb_eq in HP.
        assert (Hdk : nth p so 0 < k) by (apply Hlt, nth_In; exact Hp).
        rewrite grid_entry, grid_row_min in HP by (try assumption; lia).
        rewrite index_of_nth in HP by assumption. rewrite HP. reflexivity.
      + apply existsb_exists. exists (nth p (digits rs c) 0). split; [|apply Nat.eqb_refl].
        apply in_seq. pose proof (digit_lt c p Hp). lia.
    - intros HQ d Hd. rewrite Forall_forall in Hred. pose proof (Hred d Hd) as Hdk.
      assert (Hin : In d so) by (apply (perm_of_in so k); [exact (conj Hnd (conj Hlen Hlt))|exact Hdk]).
      destruct (nth_index_of d so Hin) as [E Hi].
      specialize (HQ (index_of d so) Hi).
      unfold red_choice in HQ. rewrite (nth_map' (fun d => if is_ax red d then [0] else seq 0 (nth d sz 1)) so (index_of d so) 0 []) in HQ by exact Hi.
      rewrite E in HQ.
      assert (Hax : is_ax red d = true) by (unfold is_ax; apply existsb_exists; exists d; split; [exact Hd|apply Nat.eqb_refl]).
      rewrite Hax in HQ. cbn in HQ. rewrite orb_false_r in HQ.
      rewrite grid_entry, grid_row_min by (try assumption; lia). apply Nat.eqb_eq in HQ. apply Nat.eqb_eq. lia.
  Qed.

  (** ** the reduced matrix is again the matrix of a grid: sizes / order of the kept dimensions, renumbered *)
  Let notred (d : nat) : bool := negb (is_ax red d).
  Let keep := kept k red.
  Let sz' := red_sz sz red.
  Let so' := red_so sz so red.
  Let fl := map (is_ax red) so.
  Let lens := map (fun d => if is_ax red d then 1 else nth d sz 1) so.
  Hypothesis Hsome : keep <> [].

  Lemma keep_NoDup : NoDup keep.
  Proof. unfold keep, kept. apply NoDup_filter, seq_NoDup. Qed.
  Lemma in_keep d : In d keep <-> d < k /\ notred d = true.
  Proof. unfold keep, kept. fold notred. rewrite filter_In, in_seq. intuition lia. Qed.

  Lemma filter_so_perm : Permutation.Permutation (filter notred so) keep.
  Proof.
    destruct so_facts as (Hnd & Hlen & Hlt). unfold keep, kept. fold notred. apply Permutation_filter'.
    apply Permutation.NoDup_Permutation_bis; [exact Hnd|rewrite seq_length; lia|].
    intros x Hx. apply in_seq. specialize (Hlt x Hx). lia.
  Qed.

  Lemma sz'_len : length sz' = length keep.
  Proof. unfold sz', red_sz. apply map_length. Qed.

  Lemma wf' : wf_grid sz' so'.
  Proof.
    split; [split; [|split]|].
    - unfold so', red_so. fold k keep notred. apply NoDup_nth with (d := 0). rewrite map_length. intros i j Hi Hj E.
      rewrite !(nth_map' (fun d => index_of d keep) (filter notred so) _ 0 0) in E by assumption.
      assert (Hin : forall i0, i0 < length (filter notred so) -> In (nth i0 (filter notred so) 0) keep).
      { intros i0 H0. apply (Permutation.Permutation_in _ filter_so_perm), nth_In, H0. }
      destruct (nth_index_of _ keep (Hin i Hi)) as [Ei _]. destruct (nth_index_of _ keep (Hin j Hj)) as [Ej _].
      assert (Eq : nth i (filter notred so) 0 = nth j (filter notred so) 0) by (rewrite <- Ei, <- Ej; now rewrite E).
      destruct so_facts as (Hnd & _ & _). apply (proj1 (NoDup_nth (filter notred so) 0) (NoDup_filter _ Hnd)); assumption.
    - unfold so', red_so. fold k keep notred. rewrite map_length, sz'_len. apply Permutation.Permutation_length, filter_so_perm.
    - intros x Hx. unfold so', red_so in Hx. fold k keep notred in Hx. apply in_map_iff in Hx. destruct Hx as (d & <- & Hd).
      rewrite sz'_len. apply nth_index_of. apply (Permutation.Permutation_in _ filter_so_perm), Hd.
    - unfold sz', red_sz. fold k keep. apply Forall_forall. intros x Hx. apply in_map_iff in Hx. destruct Hx as (d & <- & Hd).
      destruct Hwf as [_ Hpos]. rewrite Forall_forall in Hpos. apply in_keep in Hd. apply Hpos, nth_In. unfold k in Hd. lia.
  Qed.

  Lemma radices' : radices sz' so' = part false fl lens.
  Proof.
    unfold radices, so', red_so, fl, lens. fold k keep notred. rewrite map_map.
    assert (Hgen : forall l, (forall x, In x l -> x < k) ->
              map (fun x => nth (index_of x keep) sz' 1) (filter notred l)
              = part false (map (is_ax red) l) (map (fun d0 => if is_ax red d0 then 1 else nth d0 sz 1) l)).
    { induction l as [|d l IH]; intros Hall; [reflexivity|]. cbn [map filter part].
      assert (IH' := IH (fun x Hx => Hall x (or_intror Hx))).
      unfold notred at 1. destruct (is_ax red d) eqn:E; cbn [negb Bool.eqb]; [exact IH'|].
      cbn [map]. f_equal; [|exact IH'].
      assert (Hin : In d keep) by (apply in_keep; split; [apply Hall; now left|unfold notred; now rewrite E]).
      destruct (nth_index_of d keep Hin) as [Ei Hi]. unfold sz', red_sz. fold k keep.
      rewrite (nth_map' (fun d0 => nth d0 sz 1) keep (index_of d keep) 0 1) by exact Hi. now rewrite Ei. }
    apply Hgen. apply so_facts.
  Qed.

  Lemma fl_ones : length fl = length lens /\ (forall q, nth q fl false = true -> nth q lens 0 = 1).
  Proof.
    unfold fl, lens. split; [now rewrite !map_length|]. intros q Hq.
    destruct (Nat.lt_ge_cases q (length so)) as [Hlt|Hge].
    - rewrite (nth_map' (is_ax red) so q 0 false) in Hq by exact Hlt.
      rewrite (nth_map' (fun d => if is_ax red d then 1 else nth d sz 1) so q 0 0) by exact Hlt. now rewrite Hq.
    - rewrite nth_overflow in Hq by (rewrite map_length; exact Hge). discriminate.
  Qed.

  Lemma index_in_so' i : i < length keep ->
    index_of i so' = unfl_before fl (index_of (nth i keep 0) so).
  Proof.
    intros Hi. set (d := nth i keep 0).
    assert (Hdk : In d keep) by (apply nth_In; exact Hi).
    assert (Hrank : index_of d keep = i) by (apply index_of_nth; [apply keep_NoDup|exact Hi]).
    assert (Hdso : In d so) by (apply in_keep in Hdk; apply (perm_of_in so k); [exact so_facts|tauto]).
    assert (Hnr : notred d = true) by (apply in_keep in Hdk; tauto).
    unfold so', red_so, fl. fold k keep notred. rewrite <- Hrank.
    assert (Hinj : forall x, In x so -> notred x = true -> index_of x keep = index_of d keep -> x = d).
    { intros x Hx Hnx E. assert (Hxk : In x keep) by (apply in_keep; split; [apply so_facts; exact Hx|exact Hnx]).
      destruct (nth_index_of x keep Hxk) as [E1 _]. destruct (nth_index_of d keep Hdk) as [E2 _]. now rewrite <- E1, <- E2, E. }
    assert (Hgen : forall l, In d l -> (forall x, In x l -> notred x = true -> index_of x keep = index_of d keep -> x = d) ->
              index_of (index_of d keep) (map (fun d0 => index_of d0 keep) (filter notred l)) = unfl_before (map (is_ax red) l) (index_of d l)).
    { induction l as [|y l IH]; intros Hdl Hinjl; [contradiction|]. cbn [filter map index_of unfl_before].
      destruct (Nat.eqb y d) eqn:Ey.
      - apply Nat.eqb_eq in Ey. subst y. rewrite Hnr. cbn [map index_of]. now rewrite Nat.eqb_refl.
      - assert (Hd' : In d l) by (destruct Hdl as [->|H]; [rewrite Nat.eqb_refl in Ey; discriminate|exact H]).
        assert (IH' := IH Hd' (fun x Hx => Hinjl x (or_intror Hx))).
        unfold notred at 1. destruct (is_ax red y) eqn:E; cbn [negb map index_of Nat.add]; [exact IH'|].
        destruct (Nat.eqb (index_of y keep) (index_of d keep)) eqn:E2.
        + apply Nat.eqb_eq in E2. exfalso. apply Nat.eqb_neq in Ey. apply Ey. apply Hinjl; [now left|unfold notred; now rewrite E|exact E2].
        + now rewrite IH'. }
    apply Hgen; [exact Hdso|exact Hinj].
  Qed.

  Theorem write_reduced_grid : write_reduced G red = (grid_spec sz' so', keep).
  Proof.
    assert (HG : length G = k) by (unfold G; apply G_len).
    unfold write_reduced. rewrite !HG.
    assert (Hnall : forallb (is_ax red) (seq 0 k) = false).
    { destruct (forallb (is_ax red) (seq 0 k)) eqn:E; [|reflexivity]. exfalso. apply Hsome. unfold keep, kept. fold notred.
      rewrite forallb_forall in E. clear -E. induction (seq 0 k) as [|x l IH]; [reflexivity|]. simpl. unfold notred at 1.
      rewrite (E x) by (now left). simpl. apply IH. intros y Hy. apply E. now right. }
    rewrite Hnall. fold notred. fold (kept k red). fold keep. f_equal.
    rewrite reduced_cols_grid.
    unfold grid_spec. rewrite sz'_len.
    apply (nth_ext _ _ [] []); [now rewrite !map_length, seq_length|].
    intros i Hi. rewrite map_length in Hi.
    rewrite (nth_map' _ keep i 0 []) by exact Hi. rewrite nth_map_seq by exact Hi.
    set (d := nth i keep 0).
    assert (Hdk : In d keep) by (apply nth_In; exact Hi). pose proof (proj1 (in_keep d) Hdk) as [Hdlt Hdnr].
    assert (Hdso : In d so) by (apply (perm_of_in so k); [exact so_facts|exact Hdlt]).
    destruct (nth_index_of d so Hdso) as [Ep Hp]. set (p := index_of d so) in *.
    destruct fl_ones as [Hfl1 Hfl2].
    assert (Hcount : length (reduced_cols_digits sz so red) = prod (radices sz' so')).
    { rewrite (reduced_cols_count sz so red Hwf). fold lens. rewrite radices'. symmetry. now apply prod_part_ones. }
    unfold grid_row. apply (nth_ext _ _ 0 0); [now rewrite !map_length, seq_length|].
    intros j Hj. rewrite map_length, Hcount in Hj.
    rewrite (nth_map' _ (reduced_cols_digits sz so red) j 0 0) by (rewrite Hcount; exact Hj).
    rewrite nth_map_seq by exact Hj.
    assert (Hjl : j < prod lens) by (rewrite radices' in Hj; now rewrite (prod_part_ones lens fl Hfl1 Hfl2) in Hj).
    assert (Hcj : nth j (reduced_cols_digits sz so red) 0 < N).
    { assert (Hin : In (nth j (reduced_cols_digits sz so red) 0) (reduced_cols_digits sz so red)) by (apply nth_In; rewrite Hcount; exact Hj).
      unfold reduced_cols_digits in Hin. apply sel_rows_spec in Hin. apply Hin. }
    rewrite grid_entry by assumption. fold p.
    unfold rs. rewrite (reduced_cols_coordinates sz so red j p Hwf Hjl Hp). fold lens. rewrite Ep.
    assert (Hax : is_ax red d = false) by (unfold notred in Hdnr; now apply negb_true_iff in Hdnr).
    rewrite Hax. rewrite index_in_so' by exact Hi. fold d p. rewrite radices'.
    symmetry. apply digits_drop_fl; try assumption.
    - unfold lens. now rewrite map_length.
    - unfold fl. rewrite (nth_map' (is_ax red) so p 0 false) by exact Hp. now rewrite Ep.
  Qed.
End ReduceGrid.
