(** hdf_utils.get_unit_values and anc_build_utils.create_spec_inds_from_vals, as written. *)
From Coq Require Import List Arith Lia Bool ZArith.
Require Import V.Base.ListAux V.Base.CorrAux V.Base.Radix V.Base.Matrix V.Base.NdArray V.Usid.SortOrder V.Usid.ToND.
Import ListNotations.

Definition list_min (l : list nat) : nat := fold_left Nat.min l (hd 0 l).
Definition list_max (l : list nat) : nat := fold_left Nat.max l 0.

(** np.diff *)
Fixpoint diffZ (l : list nat) : list Z :=
  match l with
  | a :: ((b :: _) as r) => (Z.of_nat b - Z.of_nat a)%Z :: diffZ r
  | _ => []
  end.

(** np.where(mask)[0] *)
Fixpoint where_true_from (m : list bool) (i : nat) : list nat :=
  match m with [] => [] | b :: r => if b then i :: where_true_from r (S i) else where_true_from r (S i) end.
Definition where_true m := where_true_from m 0.

(** unit values of one dimension (one row of the spectroscopic-shaped matrices); None = the ValueError paths *)
Definition unit_values_row {V} (dv : V) (inds : list nat) (vals : list V) : option (list V) :=
  let mn := list_min inds in
  let starts := where_eq inds mn in
  match starts with
  | [] => None                                  (* empty row: starts[0] raises *)
  | s0 :: _ =>
    if negb (Nat.eqb s0 0) then None            (* 'not starting with 0' *)
    else
      let step_sizes := 1%Z :: diffZ starts in
      (* np.where(np.unique(step_sizes) - 1)[0].size > 1  -> 'Non constant step sizes' *)
      let distinct_nonunit := nodup Z.eq_dec (filter (fun z => negb (Z.eqb z 1)) step_sizes) in
      if Nat.ltb 1 (length distinct_nonunit) then None
      else
        let ts := where_true (map (fun z => Z.ltb 1 z) step_sizes) in
        let n := length inds in
        let tile_starts := match ts with
                           | [] => [0; n]
                           | _ => (0 :: map (fun i => nth i starts 0) ts) ++ [n]
                           end in
        (* every tile must be identical *)
        let subsections := map (fun i => slice inds (nth i tile_starts 0) (nth (S i) tile_starts 0)) (seq 0 (length tile_starts - 1)) in
        let first := hd [] subsections in
        if negb (forallb (fun sub => list_eqb Nat.eqb sub first) subsections) then None
        else
          let subsection := slice inds (nth 0 tile_starts 0) (nth 1 tile_starts 0) in
          let step_inds := 0 :: map S (where_true (map (fun z => negb (Z.eqb z 0)) (diffZ subsection))) in
          Some (map (fun i => nth i vals dv) step_inds)
  end.

(** get_unit_values(inds, vals, is_spec) for all dimensions; is_spec = None -> guessed from the shape *)
Definition get_unit_values {V} (dv : V) (inds : list (list nat)) (vals : list (list V)) (is_spec : option bool) (nnames : nat)
  : res (list (list V)) :=
  let sp := match is_spec with Some b => b | None => Nat.ltb (length inds) (ncols inds) end in
  let inds' := if sp then inds else transpose2d 0 inds in
  let vals' := if sp then vals else transpose2d dv vals in
  if negb (Nat.eqb nnames (length inds')) then Err ValueE
  else
    let rows := map (fun iv => unit_values_row dv (fst iv) (snd iv)) (combine inds' vals') in
    if forallb (fun o => match o with Some _ => true | None => false end) rows
    then Ok (map (fun o => match o with Some l => l | None => [] end) rows)
    else Err ValueE.

(** create_spec_inds_from_vals: values only compared for equality *)
Definition change_countZ (row : list Z) : nat :=
  let n := length row in
  length (filter (fun i => negb (Z.eqb (nth i row 0%Z) (nth (if Nat.eqb i 0 then n - 1 else i - 1) row 0%Z))) (seq 0 n)).

Definition set_nth {A} (l : list A) (i : nat) (v : A) : list A := mapi (fun j old => if Nat.eqb j i then v else old) l.

Definition spec_inds_from_vals (vals : list (list Z)) : list (list nat) :=
  let k := length vals in
  let m := ncols vals in
  let change_sort := rev (argsort (map change_countZ vals)) in
  let sorted_col j := map (fun r => nth j (nth r vals []) 0%Z) change_sort in
  (* indices vector in change_sort order, column by column *)
  let step (st : list nat * list (list nat)) (j : nat) :=
      let '(indices, cols) := st in
      let this_col := sorted_col j in
      let last_col := sorted_col (j - 1) in
      let changed := where_true (map (fun ab => negb (Z.eqb (fst ab) (snd ab))) (combine this_col last_col)) in
      let indices' :=
        match changed with
        | [] => indices
        | [c] => set_nth indices c (S (nth c indices 0))
        | _ => let last := last changed 0 in
               let zeroed := fold_left (fun acc c => set_nth acc c 0) (removelast changed) indices in
               set_nth zeroed last (S (nth last zeroed 0))
        end in
      (indices', cols ++ [indices']) in
  let '(_, cols) := fold_left step (seq 1 (m - 1)) (repeat 0 k, [repeat 0 k]) in
  (* cols: list over j of the vector in change_sort order; scatter back: out[change_sort[t]][j] = cols[j][t] *)
  map (fun r => map (fun j => nth (index_of r change_sort) (nth j cols []) 0) (seq 0 m)) (seq 0 k).
