From Coq Require Import List Arith Lia Bool ZArith.
Require Import V.Base.ListAux V.Base.Radix V.Base.Matrix V.Base.NdArray V.Usid.SortOrder V.Usid.ToND V.Usid.ToNDProof V.Usid.FromND V.Usid.Grid V.Usid.SelEnum V.Usid.Reduce V.Usid.ReduceProof V.Usid.ReduceMoments.
Import ListNotations.

Lemma mom_sum_lift (l : list Z) : mom_sum (map lift l) = (zsum l, zsum (map (fun x => x * x)%Z l), length l).
Proof.
  induction l as [|x l IH]; [reflexivity|]. cbn [map mom_sum fold_right] in *. fold (mom_sum (map lift l)). rewrite IH.
  unfold lift, mom_add, zsum. cbn [fold_right map length]. reflexivity.
Qed.

Lemma nd_get_lift (a : nd Z) idx : nd_get (lift 0%Z) (nd_lift a) idx = lift (nd_get 0%Z a idx).
Proof. unfold nd_get, nd_lift. cbn [nd_shape nd_data]. apply map_nth. Qed.

(** the moments at a kept index: sum and sum of squares of exactly the fibre over it, count = product of the reduced sizes *)
Theorem moments_get (a : nd Z) (axes j : list nat) :
  let flags := ax_flags (length (nd_shape a)) axes in
  let fibre := map (fun i => nd_get 0%Z a (merge flags j i)) (all_idx (part true flags (nd_shape a))) in
  inbounds j (part false flags (nd_shape a)) ->
  nd_get (lift 0%Z) (nd_reduce (lift 0%Z) mom_sum (nd_lift a) axes) j
  = (zsum fibre, zsum (map (fun x => x * x)%Z fibre), prod (part true flags (nd_shape a))).
Proof.
  cbv zeta. intros Hj.
  pose proof (nd_reduce_get (lift 0%Z) mom_sum (nd_lift a) axes j) as H. cbv zeta in H.
  change (nd_shape (nd_lift a)) with (nd_shape a) in H. rewrite (H Hj). clear H.
  rewrite (map_ext _ (fun i => lift (nd_get 0%Z a (merge (ax_flags (length (nd_shape a)) axes) j i)))) by (intros i; apply nd_get_lift).
  rewrite <- (map_map (fun i => nd_get 0%Z a (merge (ax_flags (length (nd_shape a)) axes) j i)) lift).
  rewrite mom_sum_lift. rewrite map_length, all_idx_length. reflexivity.
Qed.

(** the count is positive when every reduced axis is non-empty, so mean and variance are well defined *)
Lemma prod_pos (l : list nat) : Forall (fun s => 0 < s) l -> 0 < prod l.
Proof. induction 1 as [|s l Hs _ IH]; cbn; [lia|]. fold (prod l). nia. Qed.

(** textbook variance from the moments: sum over the fibre of (c x - S)^2 = c (c Q - S^2), i.e.
    (1/c) sum (x - S/c)^2 = (c Q - S^2) / c^2 -- the number [std_close] compares the squared observation with *)
Lemma sq_dev_general (a b : Z) (l : list Z) :
  zsum (map (fun x => (a * x - b) * (a * x - b))%Z l)
  = (a * a * zsum (map (fun x => x * x)%Z l) - 2 * a * b * zsum l + Z.of_nat (length l) * (b * b))%Z.
Proof.
  induction l as [|x l IH]; [cbn; ring|].
  cbn [map zsum fold_right length] in *. fold (zsum (map (fun x => ((a * x - b) * (a * x - b))%Z) l)).
  fold (zsum (map (fun x => (x * x)%Z) l)). fold (zsum l). rewrite IH, Nat2Z.inj_succ. ring.
Qed.

Theorem variance_from_moments (l : list Z) :
  let c := Z.of_nat (length l) in let s := zsum l in let q := zsum (map (fun x => x * x)%Z l) in
  zsum (map (fun x => (c * x - s) * (c * x - s))%Z l) = (c * (c * q - s * s))%Z.
Proof. cbv zeta. rewrite sq_dev_general. ring. Qed.

(** hence the variance numerator is never negative *)
Lemma zsum_squares_nonneg (f : Z -> Z) (l : list Z) : (0 <= zsum (map (fun x => f x * f x) l))%Z.
Proof. induction l as [|x l IH]; cbn; [lia|]. fold (zsum (map (fun x => (f x * f x)%Z) l)). nia. Qed.

Theorem variance_numerator_nonneg (l : list Z) :
  (0 <= Z.of_nat (length l) * zsum (map (fun x => x * x)%Z l) - zsum l * zsum l)%Z.
Proof.
  pose proof (variance_from_moments l) as H. cbv zeta in H.
  pose proof (zsum_squares_nonneg (fun x => (Z.of_nat (length l) * x - zsum l)%Z) l) as Hn. cbn beta in Hn. rewrite H in Hn.
  destruct l as [|x l]; [cbn; lia|]. assert (0 < Z.of_nat (length (x :: l)))%Z by (cbn [length]; lia). nia.
Qed.

(** the comparison accepts only observations within the stated distance of the exact mean *)
Theorem mean_close_sound (s q : Z) (c : nat) (n d : Z) :
  mean_close (s, q, c) (n, d) = true ->
  (0 < d /\ 0 < Z.of_nat c /\ Z.abs (n * Z.of_nat c - s * d) * 65536 <= (Z.abs s + Z.of_nat c) * d)%Z.
Proof.
  unfold mean_close, tol. intros H. apply andb_prop in H as [H H3]. apply andb_prop in H as [H1 H2].
  apply Z.ltb_lt in H1. apply Z.ltb_lt in H2. apply Z.leb_le in H3. auto.
Qed.

(** In memory, on a grid dataset (C01's hypotheses): the moments are those of the array whose element at the coordinates carried
    by row r / column c is main[r][c], reduced over the axes whose numbers are the named dimensions. *)
Theorem reduce_mem_moments_grid :
  forall (szp orderp szs orders : list nat) (main : list (list Z)) (pos : list (list nat)) (dims : list nat),
    wf_grid szp orderp -> wf_grid szs orders ->
    length szp <= prod (radices szp orderp) -> length szs <= prod (radices szs orders) ->
    0 < length szp -> 0 < length szs ->
    length main = prod (radices szp orderp) -> rect main (prod (radices szs orders)) ->
    transpose2d 0 pos = grid_spec szp orderp -> ncols pos = length szp ->
    Forall (fun dm => dm < length szp + length szs) dims ->
    let spec := grid_spec szs orders in
    exists a, reduce_mem_moments main pos spec dims = Ok (nd_reduce (lift 0%Z) mom_sum (nd_lift a) dims) /\
      (forall r c, r < prod (radices szp orderp) -> c < prod (radices szs orders) ->
         nd_get 0%Z a (pos_row pos (length szp) r ++ spec_col spec (length szs) c) = nth c (nth r main []) 0%Z) /\
      length (nd_shape a) = length szp + length szs.
Proof.
  intros szp orderp szs orders main pos dims H1 H2 H3 H4 H5 H6 H7 H8 H9 H10 Hd spec. subst spec.
  destruct (grid_to_nd 0%Z szp orderp szs orders H1 H2 H3 H4 H5 H6 main pos H7 H8 H9 H10) as (a & Ha & Hget & Hlen & _).
  exists a. split; [|split; assumption].
  unfold reduce_mem_moments. rewrite Ha.
  assert (Hall : forallb (fun dm => existsb (Nat.eqb dm) (seq 0 (length szp + length szs))) dims = true).
  { apply forallb_forall. intros dm Hin. rewrite Forall_forall in Hd. apply existsb_exists. exists dm. split; [apply in_seq; specialize (Hd dm Hin); lia|apply Nat.eqb_refl]. }
  rewrite Hall. cbn [negb]. f_equal. f_equal.
  rewrite <- (map_id dims) at 2. apply map_ext_in. intros dm Hin. rewrite Forall_forall in Hd. specialize (Hd dm Hin).
  pose proof (index_of_nth (seq 0 (length szp + length szs)) (seq_NoDup _ 0) dm ltac:(now rewrite seq_length)) as Hi.
  rewrite seq_nth in Hi by exact Hd. exact Hi.
Qed.
