(** hdf_utils.get_sort_order / get_dimensionality, as written (including the
    tall-matrix transposition heuristic). *)
From Coq Require Import List Arith Lia Bool.
Require Import V.Base.ListAux V.Base.Radix V.Base.Matrix.
Import ListNotations.

(** len(np.where([row[i] != row[i - 1] for i in range(len(row))])[0]) ; row[-1] is the last entry *)
Definition change_count (row : list nat) : nat :=
  let n := length row in
  length (filter (fun i => negb (Nat.eqb (nth i row 0) (nth (if Nat.eqb i 0 then n - 1 else i - 1) row 0))) (seq 0 n)).

(** np.argsort: stable ascending (numpy uses insertion sort below 17 elements) *)
Fixpoint insert_by (key : nat -> nat) (x : nat) (l : list nat) : list nat :=
  match l with
  | [] => [x]
  | y :: r => if Nat.ltb (key x) (key y) then x :: l else y :: insert_by key x r
  end.
Definition argsort (keys : list nat) : list nat :=
  fold_left (fun acc i => insert_by (fun j => nth j keys 0) i acc) (seq 0 (length keys)) [].

(** "if ds.shape[0] > ds.shape[1]: ds = np.transpose(ds)" *)
Definition orient (m : list (list nat)) : list (list nat) :=
  if Nat.ltb (ncols m) (length m) then transpose2d 0 m else m.

Definition get_sort_order (m : list (list nat)) : list nat :=
  rev (argsort (map change_count (orient m))).

Definition get_dimensionality (m : list (list nat)) (index_sort : list nat) : list nat :=
  let m' := orient m in map (fun d => unique_count (nth d m' [])) index_sort.
