(** reshape_from_n_dims inverts reshape_to_n_dims on every regular grid, in any storage order (C10). *)
From Coq Require Import List Arith Lia Bool.
Require Import V.Base.ListAux V.Base.Radix V.Base.Matrix V.Base.NdArray V.Usid.SortOrder V.Usid.ToND V.Usid.ToNDProof V.Usid.Grid V.Usid.FromND
               V.Usid.AncBuildPos V.Usid.FromNDProof.
Import ListNotations.

Section GridRoundTrip.
  Context {A : Type} (dflt : A).
  Variables (szp orderp szs orders : list nat).
  Hypothesis Hwfp : wf_grid szp orderp.
  Hypothesis Hwfs : wf_grid szs orders.
  Let kp := length szp.
  Let ks := length szs.
  Let N := prod (radices szp orderp).
  Let M := prod (radices szs orders).
  Hypothesis Hkp : kp <= N.
  Hypothesis Hks : ks <= M.
  Hypothesis Hkp0 : 0 < kp.
  Hypothesis Hks0 : 0 < ks.
  Variables (main : list (list A)) (pos : list (list nat)).
  Hypothesis Hmain_rows : length main = N.
  Hypothesis Hmain_rect : rect main M.
  Hypothesis Hpos_t : transpose2d 0 pos = grid_spec szp orderp.
  Hypothesis Hpos_c : ncols pos = kp.
  Let spec := grid_spec szs orders.

  Lemma pos_rows : length pos = N.
  Proof.
    assert (H : length (nth 0 (transpose2d 0 pos) []) = length pos).
    { apply nth_row_transpose_length. rewrite Hpos_c. exact Hkp0. }
    rewrite Hpos_t in H. rewrite (nth_G szp orderp 0 Hkp0), grid_row_len in H. symmetry. exact H.
  Qed.

  Theorem grid_round_trip :
    forall a labels, to_nd dflt main pos spec false = Ok (a, labels) ->
      from_nd dflt a (Some pos) (Some spec) = Ok (N, M, concat main).
  Proof.
    intros a labels Hto.
    assert (Hmc : ncols main = M).
    { destruct main as [|r0 rest]; [simpl in Hmain_rows; pose proof (N_pos szp orderp Hwfp) as Hn; unfold N in Hmain_rows; lia|]. inversion Hmain_rect as [|? ? H1 H2]. exact H1. }
    assert (Hspec_len : length spec = ks) by (unfold spec, grid_spec; now rewrite map_length, seq_length).
    pose proof (from_nd_inverts_to_nd dflt main pos spec) as T.
    rewrite Hmc, Hmain_rows, Hpos_c, Hpos_t, Hspec_len in T. fold spec in T.
    apply (T) with (labels := labels); clear T; try assumption.
    - apply so_perm; assumption.
    - apply so_perm; assumption.
    - rewrite (dims_so szp orderp Hwfp Hkp). apply prod_so; assumption.
    - unfold spec. rewrite (dims_so szs orders Hwfs Hks). apply prod_so; assumption.
    - rewrite (dims_so szp orderp Hwfp Hkp). apply radices_pos, wf_so; assumption.
    - unfold spec. rewrite (dims_so szs orders Hwfs Hks). apply radices_pos, wf_so; assumption.
    - apply pos_rows.
    - unfold spec. apply G_ncols; assumption.
    - rewrite (orient_G szp orderp Hkp). apply G_len.
    - unfold spec. rewrite (orient_G szs orders Hks). apply G_len.
  Qed.

  Lemma dims_file_order sz order : wf_grid sz order -> length sz <= prod (radices sz order) ->
    get_dimensionality (grid_spec sz order) (seq 0 (length sz)) = sz.
  Proof.
    intros Hwf Hk. unfold get_dimensionality. rewrite (orient_G sz order Hk).
    apply (nth_ext _ _ 1 1); [now rewrite map_length, seq_length|].
    intros i Hi. rewrite map_length, seq_length in Hi. rewrite nth_map_seq by exact Hi.
    rewrite (nth_G sz order i Hi). now apply unique_count_grid_row.
  Qed.

  (** C01, exact shape: the N-D form of a grid dataset has exactly one axis per dimension, in file order, of that dimension's size *)
  Theorem grid_nd_shape :
    forall a labels, to_nd dflt main pos spec false = Ok (a, labels) -> nd_shape a = szp ++ szs /\ labels = seq 0 (kp + ks).
  Proof.
    intros a labels Hto.
    assert (Hmc : ncols main = M).
    { destruct main as [|r0 rest]; [simpl in Hmain_rows; pose proof (N_pos szp orderp Hwfp) as Hn; unfold N in Hmain_rows; lia|]. inversion Hmain_rect as [|? ? H1 H2]. exact H1. }
    assert (Hspec_len : length spec = ks) by (unfold spec, grid_spec; now rewrite map_length, seq_length).
    pose proof (to_nd_shape dflt main pos spec) as T.
    rewrite Hmc, Hmain_rows, Hpos_c, Hpos_t, Hspec_len in T. fold spec in T.
    destruct (T) with (a := a) (labels := labels) as [Hs Hl]; clear T; try assumption.
    - apply so_perm; assumption.
    - apply so_perm; assumption.
    - rewrite (dims_so szp orderp Hwfp Hkp). apply prod_so; assumption.
    - unfold spec. rewrite (dims_so szs orders Hwfs Hks). apply prod_so; assumption.
    - apply pos_rows.
    - unfold spec. apply G_ncols; assumption.
    - rewrite (orient_G szp orderp Hkp). apply G_len.
    - unfold spec. rewrite (orient_G szs orders Hks). apply G_len.
    - split; [|exact Hl]. rewrite Hs. unfold spec. now rewrite !dims_file_order.
  Qed.
End GridRoundTrip.
