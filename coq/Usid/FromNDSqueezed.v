(** reshape_from_n_dims, squeezed path: one side is the 1 x 1 placeholder and its dummy axis is absent from the N-D array; the
    flattened vector is then laid out by the other side's grid alone (any storage order, at least two dimensions). *)
From Coq Require Import List Arith Lia Bool Permutation.
Require Import V.Base.ListAux V.Base.CorrAux V.Base.Radix V.Base.Matrix V.Base.NdArray V.Usid.SortOrder V.Usid.AncBuild V.Usid.ToND V.Usid.ToNDProof
               V.Usid.Grid V.Usid.FromND V.Usid.FromNDProof V.Usid.GridRoundTrip V.Usid.GridFromNd V.Usid.FromNDOneSided V.Usid.TranslateProof V.Usid.AncBuildPos.
Import ListNotations.

Lemma unravel_rev_digits rs : Forall (fun r => 0 < r) rs -> forall n, n < prod rs -> unravel (rev rs) n = rev (digits rs n).
Proof.
  intros Hpos n Hn.
  assert (Hposr : Forall (fun r => 0 < r) (rev rs)) by (apply Forall_rev; exact Hpos).
  assert (Hnr : n < prod (rev rs)) by (now rewrite prod_rev).
  pose proof (unravel_inbounds' (rev rs) Hposr n Hnr) as Hin.
  assert (Hl : length (unravel (rev rs) n) = length (rev rs)) by (now apply inbounds_length).
  remember (unravel (rev rs) n) as u eqn:Hu.
  pose proof (ravel_rev rs (rev u) ltac:(rewrite rev_length, Hl, rev_length; reflexivity)) as H.
  rewrite rev_involutive in H. rewrite Hu in H at 1. rewrite (ravel_unravel (rev rs) Hposr n Hnr) in H.
  assert (E : digits rs n = rev u).
  { rewrite (f_equal (digits rs) H). apply digits_undigits.
    apply inbounds_inb. pose proof (inbounds_rev u (rev rs) (proj1 (inbounds_inb _ _) Hin)) as Hr. now rewrite rev_involutive in Hr. }
  rewrite E. now rewrite rev_involutive.
Qed.

Lemma index_of_rev l x : NoDup l -> In x l -> index_of x (rev l) = length l - 1 - index_of x l.
Proof.
  intros Hnd Hin. destruct (nth_index_of x l Hin) as [E Hi].
  assert (Hr : nth (length l - 1 - index_of x l) (rev l) 0 = x) by (rewrite rev_nth by lia; replace (length l - S (length l - 1 - index_of x l)) with (index_of x l) by lia; exact E).
  rewrite <- Hr at 1. apply index_of_nth; [apply NoDup_rev; exact Hnd|rewrite rev_length; lia].
Qed.

Lemma map_add_0 l : map (fun e => e + 0) l = l.
Proof. rewrite <- (map_id l) at 2. apply map_ext. intros e. lia. Qed.

(** ** the squeezed path: one side is the 1 x 1 placeholder and its dummy axis is absent from the N-D array *)
Lemma from_nd_squeezed_pos {A} (d : A) (b : nd A) (s : list (list nat)) :
  let shape := nd_shape b in let ndim := length shape in
  2 <= ndim -> ncols s = prod shape -> length s = ndim ->
  let swap := rev (get_sort_order s) in
  is_perm swap ndim = true -> prod (nd_shape (nd_transpose d b swap)) = ncols s ->
  from_nd d b (Some [[0]]) (Some s) = Ok (1, ncols s, nd_data (nd_transpose d b swap)).
Proof.
  cbv zeta. intros H2 Hprod Hk Hperm Hpt. unfold from_nd.
  replace (Nat.ltb (length (nd_shape b)) 2) with false by (symmetry; apply Nat.ltb_ge; exact H2).
  change (length [[0]]) with 1. change (ncols [[0]]) with 1. change (msize [[0]]) with 1.
  rewrite Nat.mul_1_l, Hprod, Nat.eqb_refl. cbn [negb].
  assert (Hne : Nat.eqb (1 + length s) (length (nd_shape b)) = false) by (apply Nat.eqb_neq; lia).
  rewrite !Hne. cbn [negb Nat.eqb orb andb].
  assert (Hms : Nat.eqb (msize s) 1 = false).
  { apply Nat.eqb_neq. unfold msize. rewrite Hk. intros E. apply Nat.eq_mul_1 in E. lia. }
  change (ncols [[0]]) with 1. change (msize [[0]]) with 1. rewrite !Hne. cbn [negb Nat.eqb andb].
  rewrite Hms. cbn [andb rev app length]. rewrite map_add_0, Hperm. cbn [negb].
  rewrite Hpt, Nat.mul_1_l, Nat.eqb_refl. cbn [negb]. now rewrite ?Hprod.
Qed.

Lemma from_nd_squeezed_spec {A} (d : A) (b : nd A) (p : list (list nat)) :
  let shape := nd_shape b in let ndim := length shape in
  2 <= ndim -> length p = prod shape -> ncols p = ndim ->
  let swap := rev (get_sort_order (transpose2d 0 p)) in
  is_perm swap ndim = true -> prod (nd_shape (nd_transpose d b swap)) = length p ->
  from_nd d b (Some p) (Some [[0]]) = Ok (length p, 1, nd_data (nd_transpose d b swap)).
Proof.
  cbv zeta. intros H2 Hprod Hk Hperm Hpt. unfold from_nd.
  replace (Nat.ltb (length (nd_shape b)) 2) with false by (symmetry; apply Nat.ltb_ge; exact H2).
  change (length [[0]]) with 1. change (ncols [[0]]) with 1. change (msize [[0]]) with 1.
  rewrite Nat.mul_1_r, Hprod, Nat.eqb_refl. cbn [negb].
  assert (Hne : Nat.eqb (ncols p + 1) (length (nd_shape b)) = false) by (apply Nat.eqb_neq; lia).
  rewrite !Hne. cbn [negb Nat.eqb orb andb]. rewrite orb_true_r. cbn [negb].
  assert (Hms : Nat.eqb (msize p) 1 = false).
  { apply Nat.eqb_neq. unfold msize. rewrite Hk. intros E. apply Nat.eq_mul_1 in E. lia. }
  change (length [[0]]) with 1. change (msize [[0]]) with 1. rewrite !Hne. cbn [negb Nat.eqb andb].
  rewrite Hms. cbn [andb rev app length map]. rewrite app_nil_r, Hperm. cbn [negb].
  rewrite Hpt, Nat.mul_1_r, Nat.eqb_refl. cbn [negb]. now rewrite ?Hprod.
Qed.

(** reading the array transposed by the reversed sort order of a grid = reading the source at the coordinates the grid carries *)
Section GridFlat.
  Context {A : Type} (d : A).
  Variables (sz order : list nat) (b : nd A).
  Hypothesis Hwf : wf_grid sz order.
  Let k := length sz.
  Let M := prod (radices sz order).
  Hypothesis Hk : k <= M.
  Hypothesis Hk0 : 0 < k.
  Hypothesis Hb_shape : nd_shape b = sz.
  Let G := grid_spec sz order.
  Let so := get_sort_order G.
  Let t := nd_transpose d b (rev so).

  Lemma so_perm' : perm_of so k.
  Proof. unfold so, G. apply so_perm. fold k M. lia. Qed.

  Lemma t_shape : nd_shape t = rev (radices sz so).
  Proof. unfold t, nd_transpose. cbn [nd_shape]. rewrite Hb_shape. unfold radices. now rewrite map_rev. Qed.

  Lemma t_prod : prod (nd_shape t) = M.
  Proof. rewrite t_shape, prod_rev. apply (prod_so sz order Hwf). fold k M. lia. Qed.

  Lemma t_len : length (nd_data t) = M.
  Proof. unfold t, nd_transpose. cbn [nd_data]. rewrite map_length, seq_length. fold (nd_transpose d b (rev so)). fold t.
    change (map (fun ax => nth ax (nd_shape b) 1) (rev so)) with (nd_shape t). apply t_prod. Qed.

  Lemma t_get c : c < M -> nth c (nd_data t) d = nd_get d b (spec_col G k c).
  Proof.
    intros Hc. pose proof so_perm' as (Hnd & Hlen & Hlt).
    unfold t, nd_transpose. cbn [nd_data].
    change (map (fun ax => nth ax (nd_shape b) 1) (rev so)) with (nd_shape t).
    rewrite nth_map_seq by (rewrite t_prod; exact Hc). f_equal.
    rewrite t_shape.
    assert (HM : prod (radices sz so) = M) by (apply (prod_so sz order Hwf); fold k M; lia).
    rewrite unravel_rev_digits by (try (apply radices_pos, (wf_so sz order Hwf); fold k M; lia); rewrite HM; exact Hc).
    unfold scatter, spec_col. rewrite rev_length, Hlen. apply map_ext_in. intros e He. apply in_seq in He.
    assert (Hek : e < k) by lia.
    unfold G. rewrite (nth_G sz order e Hek). rewrite (grid_consistent sz order Hwf Hk e c Hek Hc). fold G so.
    assert (Hin : In e so) by (apply (perm_of_in so k); [exact so_perm'|exact Hek]).
    rewrite (index_of_rev so e Hnd Hin).
    destruct (nth_index_of e so Hin) as [_ Hi].
    rewrite rev_nth by (rewrite digits_length, radices_length; lia).
    rewrite digits_length, radices_length. f_equal. lia.
  Qed.
End GridFlat.

Section SqueezedPos.
  Context {A : Type} (d : A).
  Variables (szs sos : list nat) (b : nd A).
  Hypothesis Hwfs : wf_grid szs sos.
  Let ks := length szs.
  Let M := prod (radices szs sos).
  Hypothesis Hks : ks <= M.
  Hypothesis Hks2 : 2 <= ks.
  Hypothesis Hb_shape : nd_shape b = szs.
  Let spec := grid_spec szs sos.

  (** every position dimension was reduced away: the Position side is the 1 x 1 placeholder, the array has only the spectroscopic axes *)
  Theorem squeezed_pos_coordinates :
    exists data, from_nd d b (Some [[0]]) (Some spec) = Ok (1, M, data) /\ length data = M /\
      forall c, c < M -> nth c data d = nd_get d b (spec_col spec ks c).
  Proof.
    assert (Hk0 : 0 < ks) by lia.
    exists (nd_data (nd_transpose d b (rev (get_sort_order spec)))).
    split; [|split; [apply (t_len d szs sos b); assumption|intros c Hc; apply (t_get d szs sos b); assumption]].
    pose proof (from_nd_squeezed_pos d b spec) as T. cbv zeta in T.
    assert (Hc : ncols spec = M) by (apply G_ncols; assumption).
    rewrite Hc in T. apply T.
    - rewrite Hb_shape. exact Hks2.
    - rewrite Hb_shape. apply radices_prod_eq. exact Hwfs.
    - rewrite Hb_shape. apply G_len.
    - rewrite Hb_shape. apply perm_of_is_perm, perm_of_rev, (so_perm' szs sos); assumption.
    - apply (t_prod d szs sos b); assumption.
  Qed.
End SqueezedPos.

Section SqueezedSpec.
  Context {A : Type} (d : A).
  Variables (szp sop : list nat) (pos : list (list nat)) (b : nd A).
  Hypothesis Hwfp : wf_grid szp sop.
  Let kp := length szp.
  Let N := prod (radices szp sop).
  Hypothesis Hkp : kp <= N.
  Hypothesis Hkp2 : 2 <= kp.
  Hypothesis Hpos_t : transpose2d 0 pos = grid_spec szp sop.
  Hypothesis Hpos_c : ncols pos = kp.
  Hypothesis Hb_shape : nd_shape b = szp.

  Lemma pos_len : length pos = N.
  Proof.
    assert (Hkp0 : 0 < kp) by lia.
    assert (H : length (nth 0 (transpose2d 0 pos) []) = length pos).
    { apply nth_row_transpose_length. rewrite Hpos_c. exact Hkp0. }
    rewrite Hpos_t in H. rewrite (nth_G szp sop 0 Hkp0), grid_row_len in H. symmetry. exact H.
  Qed.

  (** every spectroscopic dimension was reduced away: the Spectroscopic side is the 1 x 1 placeholder *)
  Theorem squeezed_spec_coordinates :
    exists data, from_nd d b (Some pos) (Some [[0]]) = Ok (N, 1, data) /\ length data = N /\
      forall r, r < N -> nth r data d = nd_get d b (pos_row pos kp r).
  Proof.
    assert (Hk0 : 0 < kp) by lia.
    exists (nd_data (nd_transpose d b (rev (get_sort_order (grid_spec szp sop))))).
    split; [|split; [apply (t_len d szp sop b); assumption|]].
    - pose proof (from_nd_squeezed_spec d b pos) as T. cbv zeta in T. rewrite Hpos_t, pos_len in T. apply T.
      + rewrite Hb_shape. exact Hkp2.
      + rewrite Hb_shape. apply radices_prod_eq. exact Hwfp.
      + rewrite Hb_shape. exact Hpos_c.
      + rewrite Hb_shape. apply perm_of_is_perm, perm_of_rev, (so_perm' szp sop); assumption.
      + apply (t_prod d szp sop b); assumption.
    - intros r Hr. rewrite (t_get d szp sop b) by assumption. f_equal.
      unfold spec_col, pos_row. apply map_ext_in. intros e He. apply in_seq in He.
      rewrite <- Hpos_t. apply nth_transpose2d. rewrite Hpos_c. fold kp. lia.
  Qed.
End SqueezedSpec.
