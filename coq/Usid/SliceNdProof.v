(** N-D slicing path (Usid/Slice.v): what one indexing step reads, and the composition over all axes. *)
From Coq Require Import List Arith Lia Bool ZArith.
Require Import V.Base.ListAux V.Base.Radix V.Base.Matrix V.Base.NdArray V.Usid.ToND V.Usid.Slice.
Import ListNotations.

Lemma inbounds_app_inv i1 : forall i2 s1 s2, length i1 = length s1 -> inbounds (i1 ++ i2) (s1 ++ s2) -> inbounds i1 s1 /\ inbounds i2 s2.
Proof.
  induction i1 as [|y i1 IH]; intros i2 [|s s1] s2 Hl Hj; simpl in *; try discriminate; [tauto|].
  destruct Hj as [Hy Hj]. destruct (IH i2 s1 s2 ltac:(lia) Hj) as [H1 H2]. tauto.
Qed.

(** x[..., idxs, ...]: the axis stays; entry j reads the source where axis ax carries idxs[j_ax] *)
Lemma nd_take_keep_get {A} (d : A) (a : nd A) ax idxs j :
  inbounds j (firstn ax (nd_shape a) ++ [length idxs] ++ skipn (S ax) (nd_shape a)) ->
  nd_get d (nd_take d a ax idxs true) j = nd_get d a (firstn ax j ++ [nth (nth ax j 0) idxs 0] ++ skipn (S ax) j).
Proof.
  intros Hj. unfold nd_take, nd_get at 1. cbn [nd_shape nd_data].
  set (si := firstn ax (nd_shape a) ++ [length idxs] ++ skipn (S ax) (nd_shape a)) in *.
  rewrite nth_map_seq by (apply ravel_lt; exact Hj). now rewrite unravel_ravel by exact Hj.
Qed.

(** x[..., i, ...]: the axis disappears; entry j reads the source with i inserted at axis ax *)
Lemma nd_take_drop_get {A} (d : A) (a : nd A) ax x j :
  ax <= length (nd_shape a) ->
  inbounds j (firstn ax (nd_shape a) ++ skipn (S ax) (nd_shape a)) ->
  nd_get d (nd_take d a ax [x] false) j = nd_get d a (firstn ax j ++ [x] ++ skipn ax j).
Proof.
  intros Hax Hj. unfold nd_take, nd_get at 1. cbn [nd_shape nd_data length app].
  set (s1 := firstn ax (nd_shape a)) in *. set (s2 := skipn (S ax) (nd_shape a)) in *.
  assert (Hl1 : length s1 = ax) by (unfold s1; rewrite firstn_length; lia).
  assert (Hlj : length j = length s1 + length s2) by (rewrite (inbounds_length _ _ Hj), app_length; reflexivity).
  set (i1 := firstn ax j). set (i2 := skipn ax j).
  assert (Hli1 : length i1 = length s1) by (unfold i1; rewrite firstn_length; lia).
  assert (Hsplit : j = i1 ++ i2) by (unfold i1, i2; now rewrite firstn_skipn).
  assert (Hin12 : inbounds i1 s1 /\ inbounds i2 s2).
  { apply inbounds_app_inv; [exact Hli1|]. now rewrite <- Hsplit. }
  destruct Hin12 as [Hin1 Hin2].
  assert (Hj' : inbounds (i1 ++ [0] ++ i2) (s1 ++ [1] ++ s2)).
  { apply inbounds_app; [exact Hin1|]. simpl. split; [lia|exact Hin2]. }
  assert (Hr : ravel (s1 ++ s2) j = ravel (s1 ++ [1] ++ s2) (i1 ++ [0] ++ i2)).
  { rewrite Hsplit. rewrite !ravel_app by exact Hli1. cbn [ravel app prod]. lia. }
  rewrite Hr. rewrite nth_map_seq by (apply ravel_lt; exact Hj').
  rewrite unravel_ravel by exact Hj'.
  assert (E1 : firstn ax (i1 ++ [0] ++ i2) = i1) by (rewrite firstn_app, Hli1, Hl1, Nat.sub_diag; cbn; rewrite app_nil_r; apply firstn_all2; lia).
  assert (E2 : nth ax (i1 ++ [0] ++ i2) 0 = 0) by (rewrite app_nth2 by lia; rewrite Hli1, Hl1, Nat.sub_diag; reflexivity).
  assert (E3 : skipn (S ax) (i1 ++ [0] ++ i2) = i2).
  { rewrite skipn_app, Hli1, Hl1. replace (S ax - ax) with 1 by lia. rewrite skipn_all2 by lia. reflexivity. }
  rewrite E1, E2, E3. reflexivity.
Qed.

(** shapes after one step *)
Lemma nd_take_shape {A} (d : A) (a : nd A) ax idxs keep :
  nd_shape (nd_take d a ax idxs keep) = firstn ax (nd_shape a) ++ (if keep then [length idxs] else []) ++ skipn (S ax) (nd_shape a).
Proof. reflexivity. Qed.

(** a selection along one axis after index normalisation *)
Inductive rsel := RAll | ROne (x : nat) | RMany (idxs : list nat).

Definition resolve_sel (size : nat) (s : sel) : res rsel :=
  match s with
  | SAbsent => Ok RAll
  | SInt i => match norm_index size i with Ok x => Ok (ROne x) | Err e => Err e end
  | SSlice idxs => Ok (RMany idxs)
  | SList l => match norm_all size l with Ok xs => Ok (RMany xs) | Err e => Err e end
  end.

(** index of the array before a step, from the index after it *)
Definition step_index (r : rsel) (ax : nat) (j : list nat) : list nat :=
  match r with
  | RAll => j
  | ROne x => firstn ax j ++ [x] ++ skipn ax j
  | RMany idxs => firstn ax j ++ [nth (nth ax j 0) idxs 0] ++ skipn (S ax) j
  end.
Definition step_shape (r : rsel) (ax : nat) (shape : list nat) : list nat :=
  match r with
  | RAll => shape
  | ROne _ => firstn ax shape ++ skipn (S ax) shape
  | RMany idxs => firstn ax shape ++ [length idxs] ++ skipn (S ax) shape
  end.
Definition rsel_ok (r : rsel) (size : nat) : Prop :=
  match r with RAll => True | ROne x => x < size | RMany idxs => Forall (fun x => x < size) idxs end.

(** selections are applied last axis first; the index is expanded first axis first *)
Fixpoint expand (rs : list rsel) (ax : nat) (j : list nat) : list nat :=
  match rs with [] => j | r :: rest => expand rest (S ax) (step_index r ax j) end.
Fixpoint result_shape (rs : list rsel) (ax : nat) (shape : list nat) : list nat :=
  match rs with [] => shape | r :: rest => step_shape r ax (result_shape rest (S ax) shape) end.

Definition apply_step {A} (d : A) (a : nd A) (r : rsel) (ax : nat) : nd A :=
  match r with RAll => a | ROne x => nd_take d a ax [x] false | RMany idxs => nd_take d a ax idxs true end.
Fixpoint apply_r {A} (d : A) (a : nd A) (rs : list rsel) (ax : nat) : nd A :=
  match rs with [] => a | r :: rest => apply_step d (apply_r d a rest (S ax)) r ax end.

Lemma apply_r_shape {A} (d : A) (a : nd A) rs : forall ax, nd_shape (apply_r d a rs ax) = result_shape rs ax (nd_shape a).
Proof.
  induction rs as [|r rs IH]; intros ax; [reflexivity|]. cbn [apply_r result_shape]. rewrite <- IH.
  destruct r; reflexivity.
Qed.

(** steps on later axes leave the earlier axes alone *)
Lemma step_shape_length r ax sh : ax < length sh -> ax <= length (step_shape r ax sh).
Proof.
  intros H. destruct r; cbn [step_shape]; [lia| |]; rewrite app_length, firstn_length; lia.
Qed.

Lemma result_shape_length rs : forall ax shape, ax + length rs <= length shape -> ax <= length (result_shape rs ax shape).
Proof.
  induction rs as [|r rs IH]; intros ax shape H; cbn [result_shape length] in *; [lia|].
  apply step_shape_length. specialize (IH (S ax) shape ltac:(lia)). lia.
Qed.

Lemma step_shape_prefix r ax sh p : ax < length sh -> p < ax -> nth p (step_shape r ax sh) 1 = nth p sh 1.
Proof.
  intros Hl Hp. destruct r; cbn [step_shape]; [reflexivity| |];
    (rewrite app_nth1 by (rewrite firstn_length; lia); now apply nth_firstn_lt).
Qed.

Lemma result_shape_prefix rs : forall ax shape p, ax + length rs <= length shape -> p < ax ->
  nth p (result_shape rs ax shape) 1 = nth p shape 1.
Proof.
  induction rs as [|r rs IH]; intros ax shape p H Hp; [reflexivity|]. cbn [result_shape length] in *.
  pose proof (result_shape_length rs (S ax) shape ltac:(lia)) as Hl.
  rewrite step_shape_prefix by lia. apply IH; lia.
Qed.

Lemma split_at {A} (l : list A) ax d : ax < length l -> l = firstn ax l ++ [nth ax l d] ++ skipn (S ax) l.
Proof.
  revert ax. induction l as [|x l IH]; intros ax H; simpl in *; [lia|]. destruct ax; simpl; [reflexivity|]. f_equal. apply IH. lia.
Qed.

Lemma step_index_inbounds r ax sh j : ax < length sh -> rsel_ok r (nth ax sh 1) ->
  inbounds j (step_shape r ax sh) -> inbounds (step_index r ax j) sh.
Proof.
  intros Hl Hok Hj. destruct r as [|x|idxs]; cbn [step_shape step_index rsel_ok] in *; [exact Hj| |].
  - assert (Hlen : length (firstn ax j) = length (firstn ax sh)).
    { rewrite !firstn_length. rewrite (inbounds_length _ _ Hj), app_length, firstn_length, skipn_length. lia. }
    rewrite <- (firstn_skipn ax j) in Hj. destruct (inbounds_app_inv _ _ _ _ Hlen Hj) as [H1 H2].
    rewrite (split_at sh ax 1 Hl) at 1. apply inbounds_app; [exact H1|]. simpl. split; [exact Hok|exact H2].
  - assert (Hlen : length (firstn ax j) = length (firstn ax sh)).
    { rewrite !firstn_length. rewrite (inbounds_length _ _ Hj), !app_length, firstn_length, skipn_length. simpl. lia. }
    assert (Hjl : ax < length j) by (rewrite (inbounds_length _ _ Hj), !app_length, firstn_length; simpl; lia).
    rewrite (split_at j ax 0 Hjl) in Hj at 1. destruct (inbounds_app_inv _ _ _ _ Hlen Hj) as [H1 H2]. simpl in H2. destruct H2 as [Hm H2].
    rewrite (split_at sh ax 1 Hl) at 1. apply inbounds_app; [exact H1|]. simpl. split; [|exact H2].
    rewrite Forall_forall in Hok. apply Hok, nth_In, Hm.
Qed.

Lemma apply_step_get {A} (d : A) (a : nd A) r ax j : ax < length (nd_shape a) ->
  inbounds j (step_shape r ax (nd_shape a)) -> nd_get d (apply_step d a r ax) j = nd_get d a (step_index r ax j).
Proof.
  intros Hl Hj. destruct r as [|x|idxs]; cbn [apply_step step_index step_shape] in *; [reflexivity| |].
  - apply nd_take_drop_get; [lia|exact Hj].
  - now apply nd_take_keep_get.
Qed.

Definition rs_ok (rs : list rsel) (ax : nat) (shape : list nat) : Prop :=
  forall i, i < length rs -> rsel_ok (nth i rs RAll) (nth (ax + i) shape 1).

(** the element at index j of the result is the element of the source at the expanded index *)
Theorem apply_r_get {A} (d : A) (a : nd A) rs : forall ax j,
  ax + length rs <= length (nd_shape a) -> rs_ok rs ax (nd_shape a) ->
  inbounds j (result_shape rs ax (nd_shape a)) ->
  nd_get d (apply_r d a rs ax) j = nd_get d a (expand rs ax j) /\ inbounds (expand rs ax j) (nd_shape a).
Proof.
  induction rs as [|r rs IH]; intros ax j Hwf Hok Hj; cbn [apply_r expand result_shape length] in *; [split; [reflexivity|exact Hj]|].
  set (a' := apply_r d a rs (S ax)).
  assert (Hsh : nd_shape a' = result_shape rs (S ax) (nd_shape a)) by apply apply_r_shape.
  pose proof (result_shape_length rs (S ax) (nd_shape a) ltac:(lia)) as Hlen.
  assert (Hax : ax < length (nd_shape a')) by (rewrite Hsh; lia).
  assert (Hsize : nth ax (nd_shape a') 1 = nth ax (nd_shape a) 1) by (rewrite Hsh; apply result_shape_prefix; lia).
  assert (Hr : rsel_ok r (nth ax (nd_shape a') 1)).
  { rewrite Hsize. specialize (Hok 0 ltac:(simpl; lia)). cbn [nth] in Hok. now rewrite Nat.add_0_r in Hok. }
  rewrite <- Hsh in Hj.
  rewrite (apply_step_get d a' r ax j Hax Hj).
  pose proof (step_index_inbounds r ax (nd_shape a') j Hax Hr Hj) as Hj'. rewrite Hsh in Hj'.
  apply IH; [lia| |exact Hj'].
  intros i Hi. specialize (Hok (S i) ltac:(simpl; lia)). cbn [nth] in Hok. now replace (S ax + i) with (ax + S i) by lia.
Qed.

(** ** from the selections as the caller gave them *)
Lemma norm_index_lt size i x : norm_index size i = Ok x -> x < size.
Proof.
  unfold norm_index. destruct ((0 <=? i)%Z && (i <? Z.of_nat size)%Z) eqn:E1.
  - intros [= <-]. apply andb_true_iff in E1. destruct E1 as [H1 H2]. apply Z.leb_le in H1. apply Z.ltb_lt in H2. lia.
  - destruct ((i <? 0)%Z && (- Z.of_nat size <=? i)%Z) eqn:E2; [|discriminate].
    intros [= <-]. apply andb_true_iff in E2. destruct E2 as [H1 H2]. apply Z.ltb_lt in H1. apply Z.leb_le in H2. lia.
Qed.
Lemma norm_all_lt size l : forall xs, norm_all size l = Ok xs -> Forall (fun x => x < size) xs.
Proof.
  induction l as [|i l IH]; intros xs H; simpl in H; [injection H as <-; constructor|].
  destruct (norm_index size i) as [x|] eqn:E1; [|discriminate]. destruct (norm_all size l) as [xs'|] eqn:E2; [|discriminate].
  injection H as <-. constructor; [now apply (norm_index_lt size i)|now apply IH].
Qed.

(** slice objects arrive already resolved to their index lists; those lie inside the axis *)
Definition slice_in_range (s : sel) (size : nat) : Prop :=
  match s with SSlice idxs => Forall (fun x => x < size) idxs | _ => True end.

Lemma resolve_sel_ok size s r : resolve_sel size s = Ok r -> slice_in_range s size -> rsel_ok r size.
Proof.
  destruct s as [|i|idxs|l]; cbn [resolve_sel slice_in_range rsel_ok].
  - intros [= <-] _. exact I.
  - destruct (norm_index size i) as [x|] eqn:E; [|discriminate]. intros [= <-] _. now apply (norm_index_lt size i).
  - intros [= <-] H. exact H.
  - destruct (norm_all size l) as [xs|] eqn:E; [|discriminate]. intros [= <-] _. now apply (norm_all_lt size l).
Qed.

Lemma apply_nd_resolved {A} (d : A) (a : nd A) sels : forall ax res,
  ax + length sels <= length (nd_shape a) -> apply_nd d a sels ax = Ok res ->
  exists rs, length rs = length sels /\ res = apply_r d a rs ax /\
    forall i, i < length sels -> resolve_sel (nth (ax + i) (nd_shape a) 1) (nth i sels SAbsent) = Ok (nth i rs RAll).
Proof.
  induction sels as [|s sels IH]; intros ax res Hwf H; cbn [apply_nd length] in *.
  - injection H as <-. exists []. split; [reflexivity|]. split; [reflexivity|]. intros i Hi. lia.
  - destruct (apply_nd d a sels (S ax)) as [a'|] eqn:E; [|discriminate].
    destruct (IH (S ax) a' ltac:(lia) E) as (rs & Hl & -> & Hres).
    assert (Hsize : nth ax (nd_shape (apply_r d a rs (S ax))) 1 = nth ax (nd_shape a) 1).
    { rewrite apply_r_shape. apply result_shape_prefix; lia. }
    rewrite Hsize in H.
    assert (Hstep : exists r, resolve_sel (nth ax (nd_shape a) 1) s = Ok r /\ res = apply_step d (apply_r d a rs (S ax)) r ax).
    { destruct s as [|i|idxs|l]; cbn [resolve_sel].
      - injection H as <-. exists RAll. auto.
      - destruct (norm_index _ i) as [x|]; [|discriminate]. injection H as <-. exists (ROne x). auto.
      - injection H as <-. exists (RMany idxs). auto.
      - destruct (norm_all _ l) as [xs|]; [|discriminate]. injection H as <-. exists (RMany xs). auto. }
    destruct Hstep as (r & Hr & ->). exists (r :: rs). split; [simpl; lia|]. split; [reflexivity|].
    intros [|i] Hi; cbn [nth]; [now rewrite Nat.add_0_r|]. replace (ax + S i) with (S ax + i) by lia. apply Hres. lia.
Qed.

(** N-D slicing, all axes, any mixture of integers, slices and at most one list: the result has the expected shape and its
    element at j is the element of the view at the index obtained by putting the chosen index back on every sliced axis *)
Theorem slice_nd_elements {A} (d : A) (view : nd A) (sels : list sel) (res : nd A) :
  slice_nd d view sels = Ok res -> length sels <= length (nd_shape view) ->
  (forall i, i < length sels -> slice_in_range (nth i sels SAbsent) (nth i (nd_shape view) 1)) ->
  exists rs, length rs = length sels /\
    (forall i, i < length sels -> resolve_sel (nth i (nd_shape view) 1) (nth i sels SAbsent) = Ok (nth i rs RAll)) /\
    nd_shape res = result_shape rs 0 (nd_shape view) /\
    forall j, inbounds j (nd_shape res) ->
      nd_get d res j = nd_get d view (expand rs 0 j) /\ inbounds (expand rs 0 j) (nd_shape view).
Proof.
  intros H Hlen Hrange. unfold slice_nd in H.
  destruct (negb (bounds_ok (nd_shape view) sels)); [discriminate|].
  destruct (Nat.ltb 1 (length (filter is_list sels))); [discriminate|].
  destruct (apply_nd_resolved d view sels 0 res ltac:(lia) H) as (rs & Hl & -> & Hres).
  exists rs. split; [exact Hl|]. split; [exact Hres|]. split; [apply apply_r_shape|].
  intros j Hj. rewrite apply_r_shape in Hj. apply apply_r_get; [lia| |exact Hj].
  intros i Hi. rewrite Hl in Hi. cbn [Nat.add]. apply (resolve_sel_ok _ (nth i sels SAbsent)); [now apply Hres|now apply Hrange].
Qed.
