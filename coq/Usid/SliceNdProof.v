(** N-D slicing path (Usid/Slice.v): what one indexing step reads, and the composition over all axes. *)
From Coq Require Import List Arith Lia Bool ZArith.
Require Import V.Base.ListAux V.Base.Radix V.Base.Matrix V.Base.NdArray V.Usid.ToND V.Usid.Slice.
Import ListNotations.

Lemma inbounds_app_inv i1 : forall i2 s1 s2, length i1 = length s1 -> inbounds (i1 ++ i2) (s1 ++ s2) -> inbounds i1 s1 /\ inbounds i2 s2.
Proof.
  induction i1 as [|y i1 IH]; intros i2 [|s s1] s2 Hl Hj; simpl in *; try discriminate; [tauto|].
  destruct Hj as [Hy Hj]. destruct (IH i2 s1 s2 ltac:(lia) Hj) as [H1 H2]. tauto.
Qed.

(** x[..., idxs, ...]: the axis stays; entry j reads the source where axis ax carries idxs[j_ax] *)
Lemma nd_take_keep_get {A} (d : A) (a : nd A) ax idxs j :
  inbounds j (firstn ax (nd_shape a) ++ [length idxs] ++ skipn (S ax) (nd_shape a)) ->
  nd_get d (nd_take d a ax idxs true) j = nd_get d a (firstn ax j ++ [nth (nth ax j 0) idxs 0] ++ skipn (S ax) j).
Proof.
  intros Hj. unfold nd_take, nd_get at 1. cbn [nd_shape nd_data].
  set (si := firstn ax (nd_shape a) ++ [length idxs] ++ skipn (S ax) (nd_shape a)) in *.
  rewrite nth_map_seq by (apply ravel_lt; exact Hj). now rewrite unravel_ravel by exact Hj.
Qed.

(** x[..., i, ...]: the axis disappears; entry j reads the source with i inserted at axis ax *)
Lemma nd_take_drop_get {A} (d : A) (a : nd A) ax x j :
  ax <= length (nd_shape a) ->
  inbounds j (firstn ax (nd_shape a) ++ skipn (S ax) (nd_shape a)) ->
  nd_get d (nd_take d a ax [x] false) j = nd_get d a (firstn ax j ++ [x] ++ skipn ax j).
Proof.
  intros Hax Hj. unfold nd_take, nd_get at 1. cbn [nd_shape nd_data length app].
  set (s1 := firstn ax (nd_shape a)) in *. set (s2 := skipn (S ax) (nd_shape a)) in *.
  assert (Hl1 : length s1 = ax) by (unfold s1; rewrite firstn_length; lia).
  assert (Hlj : length j = length s1 + length s2) by (rewrite (inbounds_length _ _ Hj), app_length; reflexivity).
  set (i1 := firstn ax j). set (i2 := skipn ax j).
  assert (Hli1 : length i1 = length s1) by (unfold i1; rewrite firstn_length; lia).
  assert (Hsplit : j = i1 ++ i2) by (unfold i1, i2; now rewrite firstn_skipn).
  assert (Hin12 : inbounds i1 s1 /\ inbounds i2 s2).
  { apply inbounds_app_inv; [exact Hli1|]. now rewrite <- Hsplit. }
  destruct Hin12 as [Hin1 Hin2].
  assert (Hj' : inbounds (i1 ++ [0] ++ i2) (s1 ++ [1] ++ s2)).
  { apply inbounds_app; [exact Hin1|]. simpl. split; [lia|exact Hin2]. }
  assert (Hr : ravel (s1 ++ s2) j = ravel (s1 ++ [1] ++ s2) (i1 ++ [0] ++ i2)).
  { rewrite Hsplit. rewrite !ravel_app by exact Hli1. cbn [ravel app prod]. lia. }
  rewrite Hr. rewrite nth_map_seq by (apply ravel_lt; exact Hj').
  rewrite unravel_ravel by exact Hj'.
  assert (E1 : firstn ax (i1 ++ [0] ++ i2) = i1) by (rewrite firstn_app, Hli1, Hl1, Nat.sub_diag; cbn; rewrite app_nil_r; apply firstn_all2; lia).
  assert (E2 : nth ax (i1 ++ [0] ++ i2) 0 = 0) by (rewrite app_nth2 by lia; rewrite Hli1, Hl1, Nat.sub_diag; reflexivity).
  assert (E3 : skipn (S ax) (i1 ++ [0] ++ i2) = i2).
  { rewrite skipn_app, Hli1, Hl1. replace (S ax - ax) with 1 by lia. rewrite skipn_all2 by lia. reflexivity. }
  rewrite E1, E2, E3. reflexivity.
Qed.

(** shapes after one step *)
Lemma nd_take_shape {A} (d : A) (a : nd A) ax idxs keep :
  nd_shape (nd_take d a ax idxs keep) = firstn ax (nd_shape a) ++ (if keep then [length idxs] else []) ++ skipn (S ax) (nd_shape a).
Proof. reflexivity. Qed.
