(** Facts about the create_empty_dataset model. *)
From Coq Require Import List Arith Lia Bool Ascii.
Require Import V.Base.ListAux V.Base.CorrAux V.H5.Naming V.H5.NamingProof V.H5.IsMain V.H5.IsMainProof V.H5.EmptyDset.
Import ListNotations.

Lemma str_eqb_refl s : str_eqb s s = true.
Proof. now apply str_eqb_eq. Qed.
Lemma str_eqb_neq a b : a <> b -> str_eqb a b = false.
Proof. intros H. destruct (str_eqb a b) eqn:E; [|reflexivity]. apply str_eqb_eq in E. contradiction. Qed.
Lemma str_eq_dec (a b : str) : {a = b} + {a <> b}.
Proof. destruct (str_eqb a b) eqn:E; [left; now apply str_eqb_eq|right; intros H; apply str_eqb_eq in H; congruence]. Qed.

(** ** attribute maps *)
Lemma aget_aset_same k v a : aget k (aset k v a) = Some v.
Proof.
  induction a as [|[k' v'] a IH]; simpl; [now rewrite str_eqb_refl|].
  destruct (str_eqb k' k) eqn:E; simpl; [now rewrite str_eqb_refl|]. now rewrite E.
Qed.
Lemma aget_aset_other k k' v a : k' <> k -> aget k' (aset k v a) = aget k' a.
Proof.
  intros Hn. induction a as [|[k0 v0] a IH]; simpl.
  - now rewrite (str_eqb_neq k k') by congruence.
  - destruct (str_eqb k0 k) eqn:E; simpl.
    + apply str_eqb_eq in E. subst k0. now rewrite (str_eqb_neq k k') by congruence.
    + destruct (str_eqb k0 k'); [reflexivity|exact IH].
Qed.
Lemma aget_in k v a : aget k a = Some v -> In (k, v) a.
Proof.
  induction a as [|[k0 v0] a IH]; simpl; [discriminate|].
  destruct (str_eqb k0 k) eqn:E; [apply str_eqb_eq in E; intros [= <-]; subst; now left|intros H; right; now apply IH].
Qed.
Lemma aget_none_notin k a : aget k a = None -> ~ In k (map fst a).
Proof.
  induction a as [|[k0 v0] a IH]; simpl; [tauto|].
  destruct (str_eqb k0 k) eqn:E; [discriminate|]. intros H [H1|H1]; [subst; rewrite str_eqb_refl in E; discriminate|now apply IH].
Qed.

Lemma mget_mset_same k m g : mget k (mset k m g) = Some m.
Proof.
  induction g as [|[k' m'] g IH]; simpl; [now rewrite str_eqb_refl|].
  destruct (str_eqb k' k) eqn:E; simpl; [now rewrite str_eqb_refl|]. now rewrite E.
Qed.
Lemma mget_mset_other k k' m g : k' <> k -> mget k' (mset k m g) = mget k' g.
Proof.
  intros Hn. induction g as [|[k0 m0] g IH]; simpl.
  - now rewrite (str_eqb_neq k k') by congruence.
  - destruct (str_eqb k0 k) eqn:E; simpl.
    + apply str_eqb_eq in E. subst k0. now rewrite (str_eqb_neq k k') by congruence.
    + destruct (str_eqb k0 k'); [reflexivity|exact IH].
Qed.
Lemma mget_app_new k m g : mget k g = None -> mget k (g ++ [(k, m)]) = Some m.
Proof.
  induction g as [|[k0 m0] g IH]; simpl; [now rewrite str_eqb_refl|].
  destruct (str_eqb k0 k); [discriminate|exact IH].
Qed.
Lemma mget_app_other k k' m g : k' <> k -> mget k' (g ++ [(k, m)]) = mget k' g.
Proof.
  intros Hn. induction g as [|[k0 m0] g IH]; simpl; [now rewrite (str_eqb_neq k k') by congruence|].
  destruct (str_eqb k0 k'); [reflexivity|exact IH].
Qed.
Lemma mget_mdel_same k g : mget k (mdel k g) = None.
Proof.
  induction g as [|[k0 m0] g IH]; simpl; [reflexivity|].
  destruct (str_eqb k0 k) eqn:E; simpl; [exact IH|]. now rewrite E.
Qed.

(** ** copy_attributes: what a key holds afterwards *)
Definition copied (skip : bool) (v : aval) : bool :=
  match v with ASimple _ _ => true | ARef _ | ALocal _ => negb skip | ARegion => false end.

Lemma copy_attributes_notin k src dst skip : ~ In k (map fst src) -> aget k (copy_attributes src dst skip) = aget k dst.
Proof.
  unfold copy_attributes. revert dst. induction src as [|[k0 v0] src IH]; intros dst Hn; simpl; [reflexivity|].
  simpl in Hn. rewrite IH by tauto.
  destruct v0; simpl; try destruct skip; try reflexivity; apply aget_aset_other; intros ->; apply Hn; now left.
Qed.

Lemma copy_attributes_get k v src dst skip : NoDup (map fst src) -> aget k src = Some v ->
  aget k (copy_attributes src dst skip) = if copied skip v then Some v else aget k dst.
Proof.
  unfold copy_attributes. revert dst. induction src as [|[k0 v0] src IH]; intros dst Hnd Hg; simpl in *; [discriminate|].
  inversion Hnd as [|? ? Hnotin Hnd']; subst.
  destruct (str_eqb k0 k) eqn:E.
  - apply str_eqb_eq in E. subst k0. injection Hg as ->.
    fold (copy_attributes src (match v with ASimple s v0 => aset k (ASimple s v0) dst | ARef t => if skip then dst else aset k (ARef t) dst
                                        | ALocal n => if skip then dst else aset k (ALocal n) dst | ARegion => dst end) skip).
    rewrite copy_attributes_notin by exact Hnotin.
    destruct v; simpl; try destruct skip; simpl; try reflexivity; apply aget_aset_same.
  - rewrite IH by assumption. destruct (copied skip v); [reflexivity|].
    assert (Hk : k <> k0) by (intros ->; rewrite str_eqb_refl in E; discriminate).
    destruct v0; simpl; try destruct skip; try reflexivity; now apply aget_aset_other.
Qed.

Lemma apply_new_notin k new dst : ~ In k (map fst new) -> aget k (apply_new new dst) = aget k dst.
Proof.
  unfold apply_new. revert dst. induction new as [|[k0 v0] new IH]; intros dst Hn; simpl; [reflexivity|].
  simpl in Hn. rewrite IH by tauto. apply aget_aset_other. intros ->. apply Hn. now left.
Qed.
Lemma apply_new_get k v new dst : NoDup (map fst new) -> aget k new = Some v -> aget k (apply_new new dst) = Some v.
Proof.
  unfold apply_new. revert dst. induction new as [|[k0 v0] new IH]; intros dst Hnd Hg; simpl in *; [discriminate|].
  inversion Hnd as [|? ? Hnotin Hnd']; subst.
  destruct (str_eqb k0 k) eqn:E.
  - apply str_eqb_eq in E. subst k0. injection Hg as ->.
    fold (apply_new new (aset k v dst)). rewrite apply_new_notin by exact Hnotin. apply aget_aset_same.
  - now apply IH.
Qed.
Lemma book_keeping_other k a : ~ In k bk_keys -> aget k (book_keeping a) = aget k a.
Proof.
  unfold book_keeping. revert a. induction bk_keys as [|k0 ks IH]; intros a Hn; simpl; [reflexivity|].
  simpl in Hn. rewrite IH by tauto. apply aget_aset_other. intros ->. apply Hn. now left.
Qed.

(** ** inversion of a successful call *)
Definition with_attrs (d0 : dsobj) (a : attrs) : dsobj :=
  mkDs (o_shape d0) (o_dtype d0) (o_chunks d0) (o_compr d0) (o_content d0) (o_labels d0) (o_units d0) a.

Definition start_of (g : group) (r : req) (nm : str) : eres (dsobj * group) :=
  let src := r_src r in
  let fresh := mkDs (o_shape src) (r_dtype r) (o_chunks src) (o_compr src) 0 (0, []) (0, []) [] in
  match mget nm g with
  | Some (MDset e) =>
      if negb (nat_list_eqb (o_shape src) (o_shape e)) || negb (Nat.eqb (r_dtype r) (o_dtype e))
      then EOk (fresh, mdel nm g ++ [(nm, MDset fresh)]) else EOk (e, g)
  | Some MGroup => EErr EKeyE
  | None => EOk (fresh, g ++ [(nm, MDset fresh)])
  end.

Lemma create_empty_ok_inv g r nm d u g' : create_empty g r = (EOk (nm, d, u), g') ->
  exists nm0 d0 g0 g1 a2,
    r_name r = Some nm0 /\ nm = undash nm0 /\ start_of g r nm = EOk (d0, g0) /\
    (if r_other_file r then copy_linked (r_heap r) (o_attrs (r_src r)) g0
                                        (copy_attributes (o_attrs (r_src r)) (o_attrs d0) (r_skip_refs r || r_other_file r))
     else (None, g0, copy_attributes (o_attrs (r_src r)) (o_attrs d0) (r_skip_refs r || r_other_file r))) = (None, g1, a2) /\
    let a3 := apply_new (r_new r) a2 in
    let d3 := with_attrs d0 a3 in
    u = check_if_main (desc_of (r_heap r) (mset nm (MDset d3) g1) d3) /\
    d = with_attrs d0 (if u then book_keeping a3 else a3) /\ g' = mset nm (MDset d) g1.
Proof.
  unfold create_empty.
  destruct (negb (r_src_ok r)); [discriminate|]. destruct (negb (r_dtype_ok r)); [discriminate|].
  destruct (negb (r_new_ok r)); [discriminate|]. destruct (negb (r_grp_ok r)); [discriminate|].
  destruct (r_name r) as [nm0|]; [|discriminate]. destruct (r_name_empty r); [discriminate|].
  fold (start_of g r (undash nm0)).
  destruct (start_of g r (undash nm0)) as [[d0 g0]|] eqn:Es; [|discriminate].
  match goal with |- context [if r_other_file r then ?A else ?B] => destruct (if r_other_file r then A else B) as [[[e|] g1] a2] eqn:El end; [discriminate|].
  fold (with_attrs d0 (apply_new (r_new r) a2)). fold (with_attrs d0 (book_keeping (apply_new (r_new r) a2))).
  destruct (check_if_main _) eqn:Ec; intros [= <- <- <- <-]; exists nm0, d0, g0, g1, a2; cbv zeta; rewrite Ec; auto 10.
Qed.

Lemma nat_list_eqb_eq a b : nat_list_eqb a b = true <-> a = b.
Proof. apply list_eqb_eq. intros x y. apply Nat.eqb_eq. Qed.

Lemma start_of_cases g r nm d0 g0 : start_of g r nm = EOk (d0, g0) ->
  o_shape d0 = o_shape (r_src r) /\ o_dtype d0 = r_dtype r /\ mget nm g0 = Some (MDset d0) /\
  ((exists e, mget nm g = Some (MDset e) /\ o_shape e = o_shape (r_src r) /\ o_dtype e = r_dtype r /\ d0 = e /\ g0 = g)
   \/ ((forall e, mget nm g = Some (MDset e) -> o_shape e <> o_shape (r_src r) \/ o_dtype e <> r_dtype r) /\
       o_chunks d0 = o_chunks (r_src r) /\ o_compr d0 = o_compr (r_src r) /\ o_content d0 = 0 /\ o_attrs d0 = [])).
Proof.
  unfold start_of. destruct (mget nm g) as [[|e]|] eqn:Em; [discriminate| |].
  - destruct (negb (nat_list_eqb _ _) || negb (Nat.eqb _ _)) eqn:Ec.
    + intros [= <- <-]. cbn. repeat split; [apply mget_app_new, mget_mdel_same|]. right. repeat split.
      intros e' [= <-]. apply orb_true_iff in Ec. destruct Ec as [Ec|Ec]; apply negb_true_iff in Ec.
      * left. intros H. symmetry in H. apply nat_list_eqb_eq in H. congruence.
      * right. intros H. symmetry in H. apply Nat.eqb_eq in H. congruence.
    + intros [= <- <-]. apply orb_false_iff in Ec. destruct Ec as [E1 E2]. apply negb_false_iff in E1, E2.
      apply nat_list_eqb_eq in E1. apply Nat.eqb_eq in E2. repeat split; auto. left. exists e. auto.
  - intros [= <- <-]. cbn. repeat split; [now apply mget_app_new|]. right. repeat split. intros e' [=].
Qed.

(** ** theorems *)
(** layout of the returned dataset *)
Theorem empty_layout g r nm d u g' : create_empty g r = (EOk (nm, d, u), g') ->
  o_shape d = o_shape (r_src r) /\ o_dtype d = r_dtype r /\ mget nm g' = Some (MDset d) /\
  (exists nm0, r_name r = Some nm0 /\ nm = undash nm0) /\
  ((exists e, mget nm g = Some (MDset e) /\ o_shape e = o_shape (r_src r) /\ o_dtype e = r_dtype r /\
              o_content d = o_content e /\ o_chunks d = o_chunks e /\ o_compr d = o_compr e)
   \/ ((forall e, mget nm g = Some (MDset e) -> o_shape e <> o_shape (r_src r) \/ o_dtype e <> r_dtype r) /\
       o_chunks d = o_chunks (r_src r) /\ o_compr d = o_compr (r_src r) /\ o_content d = 0)).
Proof.
  intros H. destruct (create_empty_ok_inv _ _ _ _ _ _ H) as (nm0 & d0 & g0 & g1 & a2 & Hn & -> & Hs & _ & Hrest).
  cbv zeta in Hrest. destruct Hrest as (_ & -> & ->).
  destruct (start_of_cases _ _ _ _ _ Hs) as (H1 & H2 & _ & H4).
  cbn [with_attrs o_shape o_dtype o_content o_chunks o_compr]. repeat split; auto.
  - apply mget_mset_same.
  - now exists nm0.
  - destruct H4 as [(e & He & Hse & Hde & -> & _)|(Hx & Hc & Hz & Hct & _)]; [left; exists e; auto 10|right; auto].
Qed.

(** a name held by something that is not a dataset is refused and nothing changes *)
Theorem empty_refuses_non_dataset g r nm0 :
  r_src_ok r = true -> r_dtype_ok r = true -> r_new_ok r = true -> r_grp_ok r = true -> r_name r = Some nm0 -> r_name_empty r = false ->
  mget (undash nm0) g = Some MGroup -> create_empty g r = (EErr EKeyE, g).
Proof.
  intros H1 H2 H3 H4 H5 H6 Hm. unfold create_empty. rewrite H1, H2, H3, H4, H5, H6, Hm. reflexivity.
Qed.

(** argument errors leave the group alone *)
Theorem empty_bad_arguments g r :
  r_src_ok r = false \/ r_dtype_ok r = false \/ r_new_ok r = false \/ r_grp_ok r = false \/ r_name r = None ->
  create_empty g r = (EErr ETypeE, g).
Proof.
  unfold create_empty. intros [H|[H|[H|[H|H]]]].
  - now rewrite H.
  - rewrite H. destruct (negb (r_src_ok r)); reflexivity.
  - rewrite H. destruct (negb (r_src_ok r)); [reflexivity|]. destruct (negb (r_dtype_ok r)); reflexivity.
  - rewrite H. destruct (negb (r_src_ok r)); [reflexivity|]. destruct (negb (r_dtype_ok r)); [reflexivity|]. destruct (negb (r_new_ok r)); reflexivity.
  - rewrite H. destruct (negb (r_src_ok r)); [reflexivity|]. destruct (negb (r_dtype_ok r)); [reflexivity|]. destruct (negb (r_new_ok r)); [reflexivity|].
    destruct (negb (r_grp_ok r)); reflexivity.
Qed.

(** copy_linked only touches the keys that hold object references in the source *)
Definition is_ref_key (src : attrs) (k : str) : Prop := exists t, In (k, ARef t) src.

Lemma copy_linked_other h src : forall g dst g1 a2 k, copy_linked h src g dst = (None, g1, a2) -> ~ is_ref_key src k -> aget k a2 = aget k dst.
Proof.
  induction src as [|[k0 v0] src IH]; intros g dst g1 a2 k Hc Hn; simpl in Hc.
  - now injection Hc as _ <-.
  - assert (Hn' : ~ is_ref_key src k) by (intros (t & Ht); apply Hn; exists t; now right).
    destruct v0 as [s v|t|n|]; try (eapply IH; eassumption).
    destruct (hget t h) as [orig|]; [|discriminate].
    assert (Hk : k <> k0) by (intros ->; apply Hn; exists t; now left).
    destruct (mget k0 g) as [[|e]|], orig as [|o]; try discriminate;
      (destruct (copy_dataset o g k0) as [g2|]; [|discriminate]; rewrite (IH _ _ _ _ k Hc Hn'); now apply aget_aset_other).
Qed.

(** descriptive attributes: every plain attribute of the source is on the result unless the caller overrode it (or it is
    one of the book-keeping stamps of a Main dataset); every new attribute is on the result *)
Theorem empty_attributes g r nm d u g' : create_empty g r = (EOk (nm, d, u), g') ->
  NoDup (map fst (o_attrs (r_src r))) -> NoDup (map fst (r_new r)) ->
  (forall k s v, aget k (o_attrs (r_src r)) = Some (ASimple s v) -> ~ In k (map fst (r_new r)) -> ~ In k bk_keys ->
                 aget k (o_attrs d) = Some (ASimple s v)) /\
  (forall k v, aget k (r_new r) = Some v -> ~ In k bk_keys -> aget k (o_attrs d) = Some v).
Proof.
  intros H Hnd Hndn. destruct (create_empty_ok_inv _ _ _ _ _ _ H) as (nm0 & d0 & g0 & g1 & a2 & Hn & -> & Hs & Hl & Hrest).
  cbv zeta in Hrest. destruct Hrest as (_ & -> & _). cbn [with_attrs o_attrs].
  assert (Hbk : forall k a, ~ In k bk_keys -> aget k (if u then book_keeping a else a) = aget k a).
  { intros k a Hk. destruct u; [now apply book_keeping_other|reflexivity]. }
  split.
  - intros k s v Hg Hnew Hb. rewrite Hbk by exact Hb. rewrite apply_new_notin by exact Hnew.
    assert (Ha1 : aget k (copy_attributes (o_attrs (r_src r)) (o_attrs d0) (r_skip_refs r || r_other_file r)) = Some (ASimple s v)).
    { rewrite (copy_attributes_get k (ASimple s v)) by assumption. reflexivity. }
    destruct (r_other_file r).
    + rewrite (copy_linked_other _ _ _ _ _ _ k Hl); [exact Ha1|].
      intros (t & Ht). apply aget_in in Hg.
      assert (ASimple s v = ARef t); [|discriminate].
      { clear -Hnd Hg Ht. induction (o_attrs (r_src r)) as [|[k1 v1] l IH]; [contradiction|]. simpl in Hnd. inversion Hnd as [|? ? Hni Hnd']; subst.
        destruct Hg as [[= -> ->]|Hg], Ht as [[= ]|Ht]; subst.
        - exfalso. apply Hni. change k with (fst (k, ARef t)). now apply in_map.
        - exfalso. apply Hni. change k with (fst (k, ASimple s v)). now apply in_map.
        - now apply IH. }
    + injection Hl as _ <-. exact Ha1.
  - intros k v Hg Hb. rewrite Hbk by exact Hb. now apply apply_new_get.
Qed.

(** ** the result is a Main dataset linked to the source's ancillaries (destination in the same file) *)
Definition main_keys : list str := [k_q; k_u; k_pi; k_pv; k_si; k_sv].
Definition link_keys : list str := [k_pi; k_pv; k_si; k_sv].

Lemma main_keys_not_bk k : In k main_keys -> ~ In k bk_keys.
Proof.
  intros Hk Hb. unfold main_keys, bk_keys in *. simpl in Hk, Hb.
  repeat (destruct Hk as [Hk|Hk]; [subst k; repeat (destruct Hb as [Hb|Hb]; [discriminate|]); contradiction|]). contradiction.
Qed.

Lemma desc_of_ext h g g2 o o2 :
  o_shape o2 = o_shape o ->
  (forall k, In k main_keys -> aget k (o_attrs o2) = aget k (o_attrs o)) ->
  (forall k, In k link_keys -> link_anc h g2 (o_attrs o2) k = link_anc h g (o_attrs o) k) ->
  desc_of h g2 o2 = desc_of h g o.
Proof.
  intros Hs Ha Hl. unfold desc_of, str_code. rewrite Hs.
  rewrite (Ha k_q), (Ha k_u) by (unfold main_keys; simpl; auto).
  rewrite (Hl k_pi), (Hl k_pv), (Hl k_si), (Hl k_sv) by (unfold link_keys; simpl; auto). reflexivity.
Qed.

Theorem empty_is_main_same_file g r nm d u g' :
  create_empty g r = (EOk (nm, d, u), g') -> r_other_file r = false -> r_skip_refs r = false ->
  NoDup (map fst (o_attrs (r_src r))) ->
  (forall k, In k main_keys -> ~ In k (map fst (r_new r))) ->
  (forall k, In k link_keys -> exists t, aget k (o_attrs (r_src r)) = Some (ARef t)) ->
  is_main_spec (desc_of (r_heap r) g (r_src r)) ->
  u = true /\ is_main_spec (desc_of (r_heap r) g' d) /\
  (forall k, In k link_keys -> aget k (o_attrs d) = aget k (o_attrs (r_src r))).
Proof.
  intros H Hof Hsk Hnd Hnew Hrefs Hmain.
  destruct (create_empty_ok_inv _ _ _ _ _ _ H) as (nm0 & d0 & g0 & g1 & a2 & Hn & -> & Hs & Hl & Hrest).
  cbv zeta in Hrest. destruct Hrest as (Hu & Hd & Hg').
  rewrite Hof, Hsk in Hl. cbn [orb] in Hl. injection Hl as <- <-.
  destruct (start_of_cases _ _ _ _ _ Hs) as (Hsh & _ & _ & _).
  assert (Hq : forall k, In k main_keys -> exists v, aget k (o_attrs (r_src r)) = Some v /\ copied false v = true).
  { intros k Hk. unfold main_keys in Hk. simpl in Hk.
    destruct Hmain as (_ & _ & Hq1 & Hu1 & _). cbn [desc_of d_quantity d_units] in Hq1, Hu1. unfold str_code in Hq1, Hu1.
    destruct Hk as [<-|[<-|Hk]].
    - destruct (aget k_q (o_attrs (r_src r))) as [[[|] v| | |]|]; try discriminate. eexists; split; reflexivity.
    - destruct (aget k_u (o_attrs (r_src r))) as [[[|] v| | |]|]; try discriminate. eexists; split; reflexivity.
    - destruct (Hrefs k) as (t & Ht); [unfold link_keys; simpl; tauto|]. exists (ARef t). split; [exact Ht|reflexivity]. }
  assert (Ha3 : forall k, In k main_keys ->
            aget k (apply_new (r_new r) (copy_attributes (o_attrs (r_src r)) (o_attrs d0) false)) = aget k (o_attrs (r_src r))).
  { intros k Hk. rewrite apply_new_notin by (now apply Hnew). destruct (Hq k Hk) as (v & Hv & Hc).
    rewrite (copy_attributes_get k v) by assumption. now rewrite Hc. }
  assert (Hlk : forall k, In k link_keys -> In k main_keys) by (unfold link_keys, main_keys; simpl; tauto).
  assert (Hdesc : forall a gx, (forall k, In k main_keys -> aget k a = aget k (o_attrs (r_src r))) ->
            desc_of (r_heap r) gx (with_attrs d0 a) = desc_of (r_heap r) g (r_src r)).
  { intros a gx Ha. apply desc_of_ext; cbn [with_attrs o_shape o_attrs]; [exact Hsh|exact Ha|].
    intros k Hk. unfold link_anc. rewrite (Ha k (Hlk k Hk)). destruct (Hrefs k Hk) as (t & ->). reflexivity. }
  assert (Hu1 : u = true).
  { rewrite Hdesc in Hu by exact Ha3. rewrite Hu. now apply check_if_main_exact. }
  split; [exact Hu1|]. rewrite Hu1 in Hd. subst d.
  assert (Hbk : forall k, In k main_keys -> aget k (book_keeping (apply_new (r_new r) (copy_attributes (o_attrs (r_src r)) (o_attrs d0) false)))
                                            = aget k (o_attrs (r_src r))).
  { intros k Hk. rewrite book_keeping_other by (now apply main_keys_not_bk). now apply Ha3. }
  split.
  - rewrite Hdesc by exact Hbk. exact Hmain.
  - intros k Hk. cbn [with_attrs o_attrs]. apply Hbk, Hlk, Hk.
Qed.

(** ** destination in another file: the links point to faithful copies in the destination group *)
Lemma copy_dataset_other o g alias g2 k : copy_dataset o g alias = EOk g2 -> k <> alias -> mget k g2 = mget k g.
Proof.
  unfold copy_dataset. intros H Hk. destruct (mget alias g) as [[|e]|]; [discriminate| |].
  - destruct (negb (nat_list_eqb _ _)); [discriminate|]. destruct (negb (Nat.eqb _ _)); [discriminate|].
    injection H as <-. now apply mget_mset_other.
  - injection H as <-. now apply mget_app_other.
Qed.

Lemma copy_dataset_same o g alias g2 : copy_dataset o g alias = EOk g2 ->
  exists o', mget alias g2 = Some (MDset o') /\ o_shape o' = o_shape o /\ o_labels o' = o_labels o /\ o_units o' = o_units o /\
             o_content o' = o_content o.
Proof.
  unfold copy_dataset. intros H. destruct (mget alias g) as [[|e]|] eqn:Em; [discriminate| |].
  - destruct (negb (nat_list_eqb _ _)) eqn:E1; [discriminate|]. destruct (negb (Nat.eqb _ _)) eqn:E2; [discriminate|].
    injection H as <-. apply negb_false_iff in E1, E2. apply nat_list_eqb_eq in E1. apply Nat.eqb_eq in E2.
    eexists. split; [apply mget_mset_same|]. cbn. auto.
  - injection H as <-. eexists. split; [now apply mget_app_new|]. cbn. auto.
Qed.

Lemma copy_linked_mget_other h src : forall g dst g1 a2 k, copy_linked h src g dst = (None, g1, a2) -> ~ is_ref_key src k -> mget k g1 = mget k g.
Proof.
  induction src as [|[k0 v0] src IH]; intros g dst g1 a2 k Hc Hn; simpl in Hc.
  - now injection Hc as <- _.
  - assert (Hn' : ~ is_ref_key src k) by (intros (t & Ht); apply Hn; exists t; now right).
    destruct v0 as [s v|t|n|]; try (eapply IH; eassumption).
    destruct (hget t h) as [orig|]; [|discriminate].
    assert (Hk : k <> k0) by (intros ->; apply Hn; exists t; now left).
    destruct (mget k0 g) as [[|e]|] eqn:Em, orig as [|o]; try discriminate;
      (destruct (copy_dataset o g k0) as [g2|] eqn:Ecd; [|discriminate]; rewrite (IH _ _ _ _ k Hc Hn'); now apply (copy_dataset_other o g k0)).
Qed.

Lemma ref_key_notin (src : attrs) k (v : aval) : ~ In k (map fst src) -> ~ is_ref_key src k.
Proof. intros Hn (t & Ht). apply Hn. change k with (fst (k, ARef t)). now apply in_map. Qed.

Lemma copy_linked_links h src : forall g dst g1 a2, NoDup (map fst src) -> copy_linked h src g dst = (None, g1, a2) ->
  forall k t, In (k, ARef t) src ->
    exists o o', hget t h = Some (MDset o) /\ mget k g1 = Some (MDset o') /\ o_shape o' = o_shape o /\ o_labels o' = o_labels o /\
                 o_units o' = o_units o /\ o_content o' = o_content o /\ aget k a2 = Some (ALocal k).
Proof.
  induction src as [|[k0 v0] src IH]; intros g dst g1 a2 Hnd Hc k t Hin; [contradiction|].
  simpl in Hnd. inversion Hnd as [|? ? Hni Hnd']; subst. simpl in Hc.
  destruct Hin as [[= -> ->]|Hin].
  - destruct (hget t h) as [orig|] eqn:Eh; [|discriminate].
    assert (Hstep : forall o g2, orig = MDset o -> copy_dataset o g k = EOk g2 -> copy_linked h src g2 (aset k (ALocal k) dst) = (None, g1, a2) ->
              exists o0 o', Some orig = Some (MDset o0) /\ mget k g1 = Some (MDset o') /\ o_shape o' = o_shape o0 /\ o_labels o' = o_labels o0 /\
                            o_units o' = o_units o0 /\ o_content o' = o_content o0 /\ aget k a2 = Some (ALocal k)).
    { intros o g2 -> Ecd Hc2. destruct (copy_dataset_same _ _ _ _ Ecd) as (o' & Hm & H1 & H2 & H3 & H4).
      exists o, o'. split; [reflexivity|].
      rewrite (copy_linked_mget_other _ _ _ _ _ _ k Hc2) by (now apply (ref_key_notin src k ARegion)).
      rewrite (copy_linked_other _ _ _ _ _ _ k Hc2) by (now apply (ref_key_notin src k ARegion)).
      rewrite aget_aset_same. auto 10. }
    destruct (mget k g) as [[|e]|], orig as [|o]; try discriminate;
      (destruct (copy_dataset o g k) as [g2|] eqn:Ecd; [|discriminate]; exact (Hstep o g2 eq_refl Ecd Hc)).
  - destruct v0 as [s v|t0|n|]; try (eapply IH; eassumption).
    destruct (hget t0 h) as [orig|]; [|discriminate].
    destruct (mget k0 g) as [[|e]|], orig as [|o]; try discriminate;
      (destruct (copy_dataset o g k0) as [g2|]; [|discriminate]; eapply IH; eassumption).
Qed.

Theorem empty_is_main_other_file g r nm d u g' :
  create_empty g r = (EOk (nm, d, u), g') -> r_other_file r = true ->
  NoDup (map fst (o_attrs (r_src r))) ->
  (forall k, In k main_keys -> ~ In k (map fst (r_new r))) ->
  (forall k, In k link_keys -> exists t, aget k (o_attrs (r_src r)) = Some (ARef t)) ->
  ~ In nm link_keys ->
  is_main_spec (desc_of (r_heap r) g (r_src r)) ->
  u = true /\ is_main_spec (desc_of (r_heap r) g' d) /\
  (forall k, In k link_keys -> exists t o o', aget k (o_attrs (r_src r)) = Some (ARef t) /\ hget t (r_heap r) = Some (MDset o) /\
      aget k (o_attrs d) = Some (ALocal k) /\ mget k g' = Some (MDset o') /\
      o_shape o' = o_shape o /\ o_labels o' = o_labels o /\ o_units o' = o_units o /\ o_content o' = o_content o).
Proof.
  intros H Hof Hnd Hnew Hrefs Hnm Hmain.
  destruct (create_empty_ok_inv _ _ _ _ _ _ H) as (nm0 & d0 & g0 & g1 & a2 & Hn & -> & Hs & Hl & Hrest).
  cbv zeta in Hrest. destruct Hrest as (Hu & Hd & Hg').
  rewrite Hof in Hl. rewrite orb_true_r in Hl.
  destruct (start_of_cases _ _ _ _ _ Hs) as (Hsh & _ & _ & _).
  set (a1 := copy_attributes (o_attrs (r_src r)) (o_attrs d0) true) in *.
  assert (Hlk : forall k, In k link_keys -> In k main_keys) by (unfold link_keys, main_keys; simpl; tauto).
  assert (Hlinks : forall k, In k link_keys -> exists t o o', aget k (o_attrs (r_src r)) = Some (ARef t) /\ hget t (r_heap r) = Some (MDset o) /\
             aget k a2 = Some (ALocal k) /\ mget k g1 = Some (MDset o') /\
             o_shape o' = o_shape o /\ o_labels o' = o_labels o /\ o_units o' = o_units o /\ o_content o' = o_content o).
  { intros k Hk. destruct (Hrefs k Hk) as (t & Ht). pose proof (aget_in _ _ _ Ht) as Hin.
    destruct (copy_linked_links _ _ _ _ _ _ Hnd Hl k t Hin) as (o & o' & E1 & E2 & E3 & E4 & E5 & E6 & E7).
    exists t, o, o'. auto 12. }
  assert (Hsimple : forall k, In k [k_q; k_u] -> forall a, (forall k', In k' main_keys -> ~ In k' bk_keys -> aget k' a = aget k' (apply_new (r_new r) a2)) ->
             aget k a = aget k (o_attrs (r_src r))).
  { intros k Hk a Ha. assert (Hmk : In k main_keys) by (unfold main_keys; simpl in *; tauto).
    rewrite Ha by (try assumption; now apply main_keys_not_bk). rewrite apply_new_notin by (now apply Hnew).
    assert (Hnr : ~ is_ref_key (o_attrs (r_src r)) k).
    { intros (t & Ht). destruct Hmain as (_ & _ & Hq1 & Hu1 & _). cbn [desc_of d_quantity d_units] in Hq1, Hu1. unfold str_code in Hq1, Hu1.
      assert (Hg : aget k (o_attrs (r_src r)) = Some (ARef t)).
      { clear -Hnd Ht. induction (o_attrs (r_src r)) as [|[k1 v1] l IH]; [contradiction|]. simpl in Hnd. inversion Hnd as [|? ? Hni Hnd']; subst.
        simpl. destruct Ht as [[= -> ->]|Ht]; [now rewrite str_eqb_refl|].
        destruct (str_eqb k1 k) eqn:E; [|now apply IH]. apply str_eqb_eq in E. subst k1. exfalso. apply Hni. change k with (fst (k, ARef t)). now apply in_map. }
      simpl in Hk. destruct Hk as [<-|[<-|[]]]; rewrite Hg in *; discriminate. }
    rewrite (copy_linked_other _ _ _ _ _ _ k Hl Hnr). unfold a1.
    destruct Hmain as (_ & _ & Hq1 & Hu1 & _). cbn [desc_of d_quantity d_units] in Hq1, Hu1. unfold str_code in Hq1, Hu1.
    simpl in Hk. destruct Hk as [<-|[<-|[]]].
    - destruct (aget k_q (o_attrs (r_src r))) as [[[|] v| | |]|] eqn:Eg; try discriminate.
      now rewrite (copy_attributes_get k_q (ASimple true v)) by assumption.
    - destruct (aget k_u (o_attrs (r_src r))) as [[[|] v| | |]|] eqn:Eg; try discriminate.
      now rewrite (copy_attributes_get k_u (ASimple true v)) by assumption. }
  assert (Hdesc : forall a, (forall k', In k' main_keys -> ~ In k' bk_keys -> aget k' a = aget k' (apply_new (r_new r) a2)) ->
            desc_of (r_heap r) (mset (undash nm0) (MDset (with_attrs d0 a)) g1) (with_attrs d0 a) = desc_of (r_heap r) g (r_src r)).
  { intros a Ha. unfold desc_of. cbn [with_attrs o_shape o_attrs]. rewrite Hsh. unfold str_code.
    rewrite (Hsimple k_q) by (simpl; auto). rewrite (Hsimple k_u) by (simpl; auto).
    assert (Hla : forall k, In k link_keys -> link_anc (r_heap r) (mset (undash nm0) (MDset (with_attrs d0 a)) g1) a k = link_anc (r_heap r) g (o_attrs (r_src r)) k).
    { intros k Hk. destruct (Hlinks k Hk) as (t & o & o' & E1 & E2 & E3 & E4 & E5 & E6 & E7 & _).
      unfold link_anc. rewrite Ha by (try (now apply Hlk); now apply main_keys_not_bk, Hlk).
      rewrite apply_new_notin by (now apply Hnew, Hlk). rewrite E3, E1, E2.
      rewrite mget_mset_other by (intros ->; now apply Hnm). rewrite E4. cbn. now rewrite E5, E6, E7. }
    rewrite (Hla k_pi), (Hla k_pv), (Hla k_si), (Hla k_sv) by (unfold link_keys; simpl; auto). reflexivity. }
  assert (Hu1 : u = true).
  { rewrite Hdesc in Hu by (intros; reflexivity). rewrite Hu. now apply check_if_main_exact. }
  split; [exact Hu1|]. rewrite Hu1 in Hd. subst d. subst g'.
  assert (Hbk : forall k', In k' main_keys -> ~ In k' bk_keys -> aget k' (book_keeping (apply_new (r_new r) a2)) = aget k' (apply_new (r_new r) a2)).
  { intros k' _ Hb. now apply book_keeping_other. }
  split.
  - rewrite Hdesc by exact Hbk. exact Hmain.
  - intros k Hk. destruct (Hlinks k Hk) as (t & o & o' & E1 & E2 & E3 & E4 & E5).
    exists t, o, o'. cbn [with_attrs o_attrs]. repeat split; try tauto.
    + rewrite Hbk by (try (now apply Hlk); now apply main_keys_not_bk, Hlk). rewrite apply_new_notin by (now apply Hnew, Hlk). exact E3.
    + rewrite mget_mset_other by (intros ->; now apply Hnm). exact E4.
Qed.
