(** hdf_utils.check_for_matching_attrs over what write_simple_attrs + get_attr give back.
    Numbers (ints, floats, bools) are exact rationals; strings are opaque identifiers compared for equality. *)
From Coq Require Import List Arith Lia Bool ZArith QArith Qabs.
Import ListNotations.

Inductive pyval :=
| PNone
| PNum (q : Q)                 (* int / float / bool scalar *)
| PStr (s : nat)               (* a string (identifier) *)
| PNums (l : list Q)           (* list / tuple / array of numbers *)
| PStrs (l : list nat).        (* list of strings *)

(** what is read back from the file: numpy scalar / str / ndarray *)
Inductive stored := SNum (q : Q) | SStr (s : nat) | SNums (l : list Q) | SStrs (l : list nat).

Definition store_val (v : pyval) : option stored :=
  match v with
  | PNone => None                      (* write_simple_attrs skips None *)
  | PNum q => Some (SNum q)
  | PStr s => Some (SStr s)
  | PNums l => Some (SNums l)
  | PStrs l => Some (SStrs l)
  end.

Definition attrs := list (nat * stored).          (* key id -> stored value *)

Fixpoint lookup (k : nat) (a : attrs) : option stored :=
  match a with [] => None | (k', v) :: r => if Nat.eqb k k' then Some v else lookup k r end.

(** h5_obj.attrs[key] = value : replaces an existing attribute *)
Fixpoint set_attr (k : nat) (v : stored) (a : attrs) : attrs :=
  match a with
  | [] => [(k, v)]
  | (k', v') :: r => if Nat.eqb k k' then (k, v) :: r else (k', v') :: set_attr k v r
  end.

Definition write_attrs (a : attrs) (d : list (nat * pyval)) : attrs :=
  fold_left (fun acc kv => match store_val (snd kv) with Some s => set_attr (fst kv) s acc | None => acc end) d a.

(** np.allclose(old, new): |old - new| <= atol + rtol * |new| element-wise *)
Definition atol : Q := 1 # 100000000.
Definition rtol : Q := 1 # 100000.
Definition close (a b : Q) : bool := Qle_bool (Qabs (a - b)) (atol + rtol * Qabs b).
Fixpoint allclose (l1 l2 : list Q) : bool :=
  match l1, l2 with
  | [], [] => true
  | a :: r1, b :: r2 => close a b && allclose r1 r2
  | _, _ => false
  end.
Fixpoint all_eq (l1 l2 : list nat) : bool :=
  match l1, l2 with
  | [], [] => true
  | a :: r1, b :: r2 => Nat.eqb a b && all_eq r1 r2
  | _, _ => false
  end.

(** outcome for one key: (test value, break?) *)
Definition compare_one (old : stored) (new : pyval) : bool * bool :=
  match old, new with
  (* stored array *)
  | SNums _, PNum _ | SStrs _, PNum _ => (false, true)          (* new value not iterable *)
  | SNums _, PStr _ | SStrs _, PStr _ => (false, true)          (* a single string is a scalar *)
  | SNums l, PNums l' => if Nat.eqb (length l) (length l') then (allclose l l', false) else (false, false)
  | SStrs l, PStrs l' => if Nat.eqb (length l) (length l') then (all_eq l l', false) else (false, false)
  (* number array against string array: allclose raises TypeError, element-wise '==' is False (True for two empty arrays) *)
  | SNums l, PStrs l' | SStrs l', PNums l =>
      if Nat.eqb (length l) (length l') then (Nat.eqb (length l) 0, false) else (false, false)
  (* stored scalar *)
  | SNum _, PNums _ | SNum _, PStrs _ | SStr _, PNums _ | SStr _, PStrs _ => (false, true)   (* sequence against scalar *)
  | SNum q, PNum q' => (Qeq_bool q' q, false)
  | SStr s, PStr s' => (Nat.eqb s' s, false)
  | SNum _, PStr _ | SStr _, PNum _ => (false, false)
  | _, PNone => (true, false)                                   (* unreachable: None is skipped before *)
  end.

Fixpoint check_loop (a : attrs) (q : list (nat * pyval)) : bool :=
  match q with
  | [] => true
  | (k, v) :: r =>
    match v with
    | PNone => check_loop a r                                   (* None entries are ignored *)
    | _ =>
      match lookup k a with
      | None => false                                           (* tests.append(False); break  => all(tests) = False *)
      | Some old =>
        let '(t, brk) := compare_one old v in
        if brk then false (* a False was appended before the break *)
        else t && check_loop a r
      end
    end
  end.

Definition check_for_matching_attrs (a : attrs) (q : list (nat * pyval)) : bool := check_loop a q.
