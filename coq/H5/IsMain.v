(** hdf_utils.check_if_main + validate_anc_dset_attrs over a descriptor of one HDF5 object
    (one field per observation the code makes), and the structural definition of a Main dataset. *)
From Coq Require Import List Arith Lia Bool.
Require Import V.Base.CorrAux.
Import ListNotations.

(** attribute of an ancillary dataset: code 0 missing, 1 list of strings (ids), 2 single string, 3 number(s) *)
Definition attrd := (nat * list nat)%type.
(** ancillary link: 0 attribute missing, 1 not a reference, 2 dangling reference, 3 group, 4 dataset *)
Record anc := mkAnc { a_link : nat; a_shape : list nat; a_labels : attrd; a_units : attrd }.
(** quantity / units of the main object: 0 missing, 1 string, 2 not a string *)
Record desc := mkDesc { d_isdset : bool; d_shape : list nat; d_quantity : nat; d_units : nat;
                        d_pi : anc; d_pv : anc; d_si : anc; d_sv : anc }.

Definition rank2 (s : list nat) : bool := Nat.eqb (length s) 2.
Definition shape_eqb (a b : list nat) : bool := list_eqb Nat.eqb a b.
Definition is_strs (a : attrd) : bool := Nat.eqb (fst a) 1.
Definition link_ok (a : anc) : bool := Nat.eqb (a_link a) 4 && rank2 (a_shape a).

(** validate_anc_dset_attrs(inds, vals, is_spec): True = returns normally, False = raises (ValueError / KeyError / TypeError) *)
Definition anc_attrs_ok (inds vals : anc) (dim : nat) : bool :=
  is_strs (a_labels vals) && is_strs (a_units vals) && is_strs (a_labels inds) && is_strs (a_units inds)   (* get_attr x 4 *)
  && Nat.eqb (length (snd (a_labels vals))) (length (snd (a_units vals)))
  && Nat.eqb (length (snd (a_labels inds))) (length (snd (a_units inds)))
  && list_eqb Nat.eqb (snd (a_labels inds)) (snd (a_labels vals))
  && list_eqb Nat.eqb (snd (a_units inds)) (snd (a_units vals))
  && shape_eqb (a_shape inds) (a_shape vals)
  && Nat.eqb (nth dim (a_shape inds) 0) (length (snd (a_labels vals))).

(** check_if_main as written (after the repair: every failure path returns False) *)
Definition check_if_main (d : desc) : bool :=
  if negb (d_isdset d) then false                                    (* validate_main_dset: not a dataset *)
  else if negb (rank2 (d_shape d)) then false                        (* ... not 2D *)
  else if negb (link_ok (d_pi d)) then false                         (* each link must resolve to a 2D dataset *)
  else if negb (link_ok (d_pv d)) then false
  else if negb (link_ok (d_si d)) then false
  else if negb (link_ok (d_sv d)) then false
  else if Nat.eqb (d_quantity d) 0 || Nat.eqb (d_units d) 0 then false   (* mandatory attributes *)
  else if negb (Nat.eqb (d_quantity d) 1) then false                  (* must be strings *)
  else if negb (Nat.eqb (d_units d) 1) then false
  else if negb (shape_eqb (a_shape (d_pv d)) (a_shape (d_pi d))
                && Nat.eqb (nth 0 (d_shape d) 0) (nth 0 (a_shape (d_pv d)) 0)
                && Nat.eqb (nth 0 (d_shape d) 0) (nth 0 (a_shape (d_pi d)) 0)) then false
  else if negb (shape_eqb (a_shape (d_si d)) (a_shape (d_sv d))
                && Nat.eqb (nth 1 (d_shape d) 0) (nth 1 (a_shape (d_si d)) 0)
                && Nat.eqb (nth 1 (d_shape d) 0) (nth 1 (a_shape (d_sv d)) 0)) then false
  else if negb (anc_attrs_ok (d_pi d) (d_pv d) 1) then false
  else if negb (anc_attrs_ok (d_si d) (d_sv d) 0) then false
  else true.

(** The structural rules of a USID Main dataset, stated independently of the order of evaluation. *)
Definition anc_rules (inds vals : anc) (main_shape : list nat) (axis dim : nat) : Prop :=
  a_link inds = 4 /\ a_link vals = 4 /\                                   (* links resolve to datasets *)
  length (a_shape inds) = 2 /\ length (a_shape vals) = 2 /\               (* of rank 2 *)
  a_shape inds = a_shape vals /\                                          (* of equal shapes *)
  nth axis (a_shape inds) 0 = nth axis main_shape 0 /\                    (* matching the main dataset on the right axis *)
  fst (a_labels inds) = 1 /\ fst (a_units inds) = 1 /\ fst (a_labels vals) = 1 /\ fst (a_units vals) = 1 /\
  snd (a_labels inds) = snd (a_labels vals) /\ snd (a_units inds) = snd (a_units vals) /\   (* equal between indices and values *)
  length (snd (a_labels inds)) = length (snd (a_units inds)) /\
  length (snd (a_labels inds)) = nth dim (a_shape inds) 0.                (* one label per dimension *)

Definition is_main_spec (d : desc) : Prop :=
  d_isdset d = true /\ length (d_shape d) = 2 /\ d_quantity d = 1 /\ d_units d = 1 /\
  anc_rules (d_pi d) (d_pv d) (d_shape d) 0 1 /\ anc_rules (d_si d) (d_sv d) (d_shape d) 1 0.

(** USIDataset.__init__ gate *)
Inductive wrapper_result := Constructed | RaisesTypeError.
Definition wrap (d : desc) : wrapper_result := if check_if_main d then Constructed else RaisesTypeError.

(** get_all_main: datasets under a group (tree flattened in visit order) that pass the test *)
Definition get_all_main {A} (objs : list (A * desc)) : list A := map fst (filter (fun o => check_if_main (snd o)) objs).
