(** hdf_utils.write_main_dataset over the members of the target group:
    validate -> write / reuse position ancillaries -> write / reuse spectroscopic ancillaries -> create the main dataset ->
    attributes -> link_as_main -> USIDataset(h5_main), IN THE CODE'S ORDER, wrapped by the decorator that removes the new
    members when the body raises (repair 0a152a0). Labels, units and values are ids (nat); names are ASCII strings. *)
From Coq Require Import List Arith Lia Bool Ascii.
Require Import V.Base.ListAux V.Base.CorrAux V.Base.Matrix V.Usid.AncBuild V.H5.Naming V.H5.IsMain.
Import ListNotations.

Inductive werr := WTypeE | WValueE | WKeyE | WNotImplE | WIndexE | WOtherE.
Inductive wres (A : Type) := WOk (a : A) | WErr (e : werr).
Arguments WOk {A} a. Arguments WErr {A} e.

(** an ancillary-like dataset: shape, labels / units attributes (IsMain.attrd), contents *)
Record adset := mkAd { ad_shape : list nat; ad_labels : attrd; ad_units : attrd; ad_mat : list (list nat) }.
(** a dataset handed in by the caller (h5_pos_inds, ...): what it is, which file (0 = the target file), its own name *)
Record xdset := mkX { x_isdset : bool; x_file : nat; x_name : str; x_ad : adset }.
(** where a link of the new main dataset points: a member of the target group or a caller-supplied dataset elsewhere *)
Inductive loc := Local (n : str) | Ext (x : xdset).

Record mainobj := mkMain { m_shape : list nat; m_src : nat; m_quantity : nat; m_units : nat;
                           m_links : list (loc * adset) (* Position_Indices, Position_Values, Spectroscopic_Indices, _Values *) }.
Inductive entry := EOther (isdset : bool) | EAd (a : adset) | EMain (m : mainobj).
Definition grp := list (str * entry).

Definition gmem (n : str) (g : grp) : bool := existsb (fun e => str_eqb (fst e) n) g.
Fixpoint glookup (n : str) (g : grp) : option entry :=
  match g with [] => None | (k, e) :: g' => if str_eqb k n then Some e else glookup n g' end.

(** * Arguments *)
Inductive main_arg :=
  | MArray (n m : nat) (dask : bool)                    (* numpy / dask array of rank 2 *)
  | MArrayRank (r : nat)                                (* array of another rank *)
  | MShape (ints_ok : bool) (dims : list nat) (has_dtype dtype_ok : bool)   (* list / tuple *)
  | MOther.
(** a Dimension: label id, unit id, value ids, mode (0 DEFAULT, 1 INCOMPLETE, 2 DEPENDENT) *)
Record dimd := mkDim { dm_label : nat; dm_unit : nat; dm_vals : list nat; dm_mode : nat }.
Inductive dims_arg := DList (ds : list dimd) | DSingle (d : dimd) | DBad.
Inductive side :=
  | Fresh (prefix : option str) (dims : dims_arg)      (* prefix None: not a string *)
  | Reuse (inds vals : xdset).

Record args := mkArgs {
  a_grp_code : nat;      (* 0 usable group, 1 not a group (TypeError), 2 not editable (ValueError) *)
  a_str_code : nat;      (* validate_string_args(quantity, units, main_data_name): 0 ok, 1 TypeError, 2 ValueError (empty) *)
  a_name : str;          (* main_data_name as given *)
  a_main : main_arg;
  a_src : nat;           (* identity of the data handed in *)
  a_pos : side; a_spec : side;
  a_s2f : bool;
  a_kw_ok : bool;        (* h5py accepts the creation kwargs *)
  a_attrs_ok : bool }.   (* main_dset_attrs can be written (or is not a dict: ignored) *)

(** * String helpers: str.strip(), replace('-', '_') *)
Definition is_space (c : ascii) : bool := let n := nat_of_ascii c in Nat.eqb n 32 || (Nat.leb 9 n && Nat.leb n 13).
Fixpoint lstrip (s : str) : str := match s with c :: s' => if is_space c then lstrip s' else s | [] => [] end.
Definition strip (s : str) : str := rev (lstrip (rev (lstrip s))).
Definition undash (s : str) : str := map (fun c => if Ascii.eqb c dash then us else c) s.
Definition clean_name (s : str) : str := undash (strip s).
Definition sfx_i : str := ["I"; "n"; "d"; "i"; "c"; "e"; "s"]%char.
Definition sfx_v : str := ["V"; "a"; "l"; "u"; "e"; "s"]%char.

(** * Steps *)
Definition check_main (m : main_arg) : wres (nat * nat) :=
  match m with
  | MShape ints_ok dims has_dtype dtype_ok =>
      if negb ints_ok then WErr WValueE
      else if negb (Nat.eqb (length dims) 2) then WErr WValueE
      else if negb has_dtype then WErr WValueE
      else if negb dtype_ok then WErr WTypeE
      else WOk (nth 0 dims 0, nth 1 dims 0)
  | MArray n m _ => WOk (n, m)
  | MArrayRank _ => WErr WValueE
  | MOther => WErr WTypeE
  end.

(** validate_anc_h5_dsets(h5_inds, h5_vals, main_shape, is_spectroscopic) *)
Definition validate_anc (i v : xdset) (shape : nat * nat) (is_spec : bool) : option werr :=
  if negb (x_isdset i) then Some WTypeE
  else if negb (x_isdset v) then Some WTypeE
  else if negb (shape_eqb (ad_shape (x_ad i)) (ad_shape (x_ad v))) then Some WValueE
  else let ax := if is_spec then 1 else 0 in
       if Nat.leb (length (ad_shape (x_ad i))) ax then Some WIndexE
       else if negb (Nat.eqb (nth ax (ad_shape (x_ad i)) 0) (if is_spec then snd shape else fst shape)) then Some WValueE
       else None.

(** sidpy copy_dataset(x, group): the alias is the dataset's own name *)
Definition copy_dataset (g : grp) (x : xdset) : wres grp :=
  match glookup (x_name x) g with
  | None => WOk (g ++ [(x_name x, EAd (x_ad x))])
  | Some (EAd a) =>
      if negb (shape_eqb (ad_shape a) (ad_shape (x_ad x))) then WErr WValueE
      else if negb (nat_list2_eqb (ad_mat a) (ad_mat (x_ad x))) then WErr WValueE
      else WOk (map (fun e => if str_eqb (fst e) (x_name x)
                              then (fst e, EAd (mkAd (ad_shape a) (ad_labels (x_ad x)) (ad_units (x_ad x)) (ad_mat a))) else e) g)
  | Some (EOther true) => WErr WValueE      (* an unrelated dataset: shape / contents differ *)
  | Some _ => WErr WTypeE
  end.

(** __ensure_anc_in_correct_file *)
Definition ensure_file (g : grp) (i v : xdset) : wres (grp * (loc * adset) * (loc * adset)) :=
  if negb (Nat.eqb (x_file i) (x_file v)) then WErr WValueE
  else if Nat.eqb (x_file i) 0 then WOk (g, (Ext i, x_ad i), (Ext v, x_ad v))
  else match copy_dataset g i with
       | WErr e => WErr e
       | WOk g1 => match copy_dataset g1 v with
                   | WErr e => WErr e
                   | WOk g2 =>
                       let rd n d := match glookup n g2 with Some (EAd a) => a | _ => d end in
                       WOk (g2, (Local (x_name i), rd (x_name i) (x_ad i)), (Local (x_name v), rd (x_name v) (x_ad v)))
                   end
       end.

(** __check_anc_before_creation *)
Definition check_prefix (g : grp) (p : option str) : wres str :=
  match p with
  | None => WErr WTypeE
  | Some p0 =>
      let p1 := undash (with_us p0) in
      if gmem (p1 ++ sfx_i) g || gmem (p1 ++ sfx_v) g then WErr WKeyE else WOk p1
  end.

Definition dims_list (d : dims_arg) : wres (list dimd) :=
  match d with DList ds => WOk ds | DSingle d => WOk [d] | DBad => WErr WTypeE end.

Definition dim_pair (d : dimd) : (nat * nat) * list nat := ((dm_label d, dm_unit d), dm_vals d).

(** write_ind_val_dsets body after the argument checks: matrices and attributes, or the exception *)
Definition build_anc (ds : list dimd) (is_spec s2f : bool) : wres (adset * adset) :=
  match nodup Nat.eq_dec (map dm_mode ds) with
  | [] => WErr WIndexE                                        (* sing_mode[0] on an empty array *)
  | [0] =>
      let '(wi, wv, wl) := write_ind_val 0 (map dim_pair ds) is_spec s2f in
      let k := length ds in let n := prod (map (fun d => length (dm_vals d)) ds) in
      let shape := if is_spec then [k; n] else [n; k] in
      WOk (mkAd shape (1, map fst wl) (1, map snd wl) wi, mkAd shape (1, map fst wl) (1, map snd wl) wv)
  | [1] =>
      match nodup Nat.eq_dec (map (fun d => length (dm_vals d)) ds) with
      | [len] =>
          let k := length ds in
          let ishape := if is_spec then [2; len] else [len; 2] in
          let vshape := if Nat.eqb k 1 then [len] else if is_spec then [k; len] else [len; k] in
          let lab := (1, map dm_label ds) in let un := (1, map dm_unit ds) in
          WOk (mkAd ishape lab un [], mkAd vshape lab un [])
      | _ => WErr WValueE
      end
  | [_] => WErr WNotImplE
  | _ => WErr WNotImplE
  end.

(** one side: either the supplied datasets (validated, copied over when in another file) or freshly written ones *)
Definition do_side (g : grp) (s : side) (shape : nat * nat) (is_spec s2f : bool)
  : wres (grp * (loc * adset) * (loc * adset)) :=
  match s with
  | Reuse i v =>
      match validate_anc i v shape is_spec with
      | Some e => WErr e
      | None => ensure_file g i v
      end
  | Fresh p d =>
      match check_prefix g p with
      | WErr e => WErr e
      | WOk p1 =>
        match dims_list d with
        | WErr e => WErr e
        | WOk ds =>
            if negb (Nat.eqb (prod (map (fun d => length (dm_vals d)) ds)) (if is_spec then snd shape else fst shape))
            then WErr WValueE
            else match build_anc ds is_spec s2f with
                 | WErr e => WErr e
                 | WOk (ai, av) =>
                     WOk (g ++ [(p1 ++ sfx_i, EAd ai); (p1 ++ sfx_v, EAd av)],
                          (Local (p1 ++ sfx_i), ai), (Local (p1 ++ sfx_v), av))
                 end
        end
      end
  end.

Definition anc_of (l : loc * adset) : anc := mkAnc 4 (ad_shape (snd l)) (ad_labels (snd l)) (ad_units (snd l)).
Definition desc_of (m : mainobj) : desc :=
  let a i := match nth_error (m_links m) i with Some l => anc_of l | None => mkAnc 0 [] (0, []) (0, []) end in
  mkDesc true (m_shape m) (m_quantity m) (m_units m) (a 0) (a 1) (a 2) (a 3).

(** link_as_main's own validation of the four datasets against the created main *)
Definition link_validate (l : loc * adset) (l2 : loc * adset) (shape : nat * nat) (is_spec : bool) : option werr :=
  let x a := mkX true 0 [] a in validate_anc (x (snd l)) (x (snd l2)) shape is_spec.

(** the body of write_main_dataset: result and the group as the body leaves it (also when it raises) *)
Definition body (g : grp) (a : args) : wres mainobj * grp :=
  if Nat.eqb (a_grp_code a) 1 then (WErr WTypeE, g)
  else if Nat.eqb (a_grp_code a) 2 then (WErr WValueE, g)
  else if Nat.eqb (a_str_code a) 1 then (WErr WTypeE, g)
  else if Nat.eqb (a_str_code a) 2 then (WErr WValueE, g)
  else
    let name := clean_name (a_name a) in
    match check_main (a_main a) with
    | WErr e => (WErr e, g)
    | WOk shape =>
      match do_side g (a_pos a) shape false (a_s2f a) with
      | WErr e => (WErr e, g)
      | WOk (g1, pi, pv) =>
        match do_side g1 (a_spec a) shape true (a_s2f a) with
        | WErr e => (WErr e, g1)
        | WOk (g2, si, sv) =>
            if gmem name g2 then (WErr WValueE, g2)                    (* h5py: name already exists *)
            else if negb (a_kw_ok a) then (WErr WValueE, g2)               (* e.g. unknown compression filter *)
            else
              let m0 := mkMain [fst shape; snd shape] (a_src a) 1 1 [] in
              if negb (a_attrs_ok a) then (WErr WValueE, g2 ++ [(name, EMain m0)])   (* e.g. nested dictionary *)
              else
                match link_validate pi pv shape false with
                | Some e => (WErr e, g2 ++ [(name, EMain m0)])
                | None =>
                  match link_validate si sv shape true with
                  | Some e => (WErr e, g2 ++ [(name, EMain m0)])
                  | None =>
                      let m := mkMain [fst shape; snd shape] (a_src a) 1 1 [pi; pv; si; sv] in
                      let g3 := g2 ++ [(name, EMain m)] in
                      if check_if_main (desc_of m) then (WOk m, g3) else (WErr WTypeE, g3)
                  end
                end
        end
      end
    end.

(** the decorator: on failure delete every member whose name was not there before *)
Definition cleanup (g g' : grp) : grp := filter (fun e => gmem (fst e) g) g'.

Definition write_main (g : grp) (a : args) : wres mainobj * grp :=
  match body g a with
  | (WOk m, g') => (WOk m, g')
  | (WErr e, g') => (WErr e, if Nat.eqb (a_grp_code a) 1 then g' else cleanup g g')   (* not a group: nothing to list *)
  end.

(** the writer before the repair: no clean-up *)
Definition write_main_unrepaired (g : grp) (a : args) : wres mainobj * grp := body g a.
