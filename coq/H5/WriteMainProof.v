(** Facts about the write_main_dataset model: the body only ever appends members with unused names (and may rewrite the
    label / unit attributes of a pre-existing copy target), hence the clean-up restores the group; a successful call
    returns a structurally valid Main dataset whose freshly written ancillaries are the Cartesian-product matrices. *)
From Coq Require Import List Arith Lia Bool Ascii.
Require Import V.Base.ListAux V.Base.CorrAux V.Base.Matrix V.Base.Radix V.Usid.AncBuild V.Usid.AncBuildPos V.H5.Naming V.H5.NamingProof V.H5.IsMain V.H5.IsMainProof
               V.H5.WriteMain.
Import ListNotations.

Definition fresh_in (g l : grp) : Prop := Forall (fun e => gmem (fst e) g = false) l.
Definition same_names (g gm : grp) : Prop := map fst gm = map fst g.
(** g' extends g: the old members (same names, same order) followed by members with names unused in g *)
Definition ext (g g' : grp) : Prop := exists gm added, g' = gm ++ added /\ same_names g gm /\ fresh_in g added.
(** ... and the old members are literally untouched *)
Definition ext0 (g g' : grp) : Prop := exists added, g' = g ++ added /\ fresh_in g added.

Lemma gmem_names g g' n : map fst g = map fst g' -> gmem n g = gmem n g'.
Proof.
  revert g'; induction g as [|[k e] g IH]; intros [|[k' e'] g'] H; simpl in *; try discriminate; [reflexivity|].
  injection H as -> H. now rewrite (IH g' H).
Qed.

Lemma gmem_app n g1 g2 : gmem n (g1 ++ g2) = gmem n g1 || gmem n g2.
Proof. apply existsb_app. Qed.

Lemma glookup_none_gmem n g : glookup n g = None <-> gmem n g = false.
Proof.
  induction g as [|[k e] g IH]; simpl; [tauto|].
  destruct (str_eqb k n); simpl; [split; discriminate|exact IH].
Qed.

Lemma str_eqb_refl s : str_eqb s s = true.
Proof. now apply str_eqb_eq. Qed.

Lemma gmem_self k e g : gmem k ((k, e) :: g) = true.
Proof. simpl. now rewrite str_eqb_refl. Qed.

Lemma ext0_ext g g' : ext0 g g' -> ext g g'.
Proof. intros (ad & -> & H). exists g, ad. repeat split; auto. Qed.

Lemma ext_refl g : ext g g.
Proof. exists g, []. rewrite app_nil_r. repeat split; constructor. Qed.
Lemma ext0_refl g : ext0 g g.
Proof. exists []. rewrite app_nil_r. split; [reflexivity|constructor]. Qed.

Lemma ext_gmem g g' n : ext g g' -> gmem n g = true -> gmem n g' = true.
Proof.
  intros (gm & ad & -> & Hn & _) H. rewrite gmem_app, (gmem_names gm g n Hn), H. reflexivity.
Qed.

Lemma fresh_in_weaken g g' l : (forall n, gmem n g = true -> gmem n g' = true) -> fresh_in g' l -> fresh_in g l.
Proof.
  intros Hsub H. unfold fresh_in in *. rewrite Forall_forall in *. intros e He.
  specialize (H e He). destruct (gmem (fst e) g) eqn:E; [|reflexivity]. apply Hsub in E. congruence.
Qed.

Lemma ext_trans g g1 g2 : ext g g1 -> ext g1 g2 -> ext g g2.
Proof.
  intros H1 H2. pose proof (ext_gmem g g1) as Hsub. specialize (fun n => Hsub n H1).
  destruct H1 as (gm & ad & -> & Hn & Hf). destruct H2 as (gm2 & ad2 & -> & Hn2 & Hf2).
  unfold same_names in Hn2. rewrite map_app in Hn2. apply map_eq_app in Hn2. destruct Hn2 as (la & lb & -> & Ha & Hb).
  exists la, (lb ++ ad2). split; [now rewrite app_assoc|]. split.
  - unfold same_names. congruence.
  - unfold fresh_in. apply Forall_app. split.
    + unfold fresh_in in Hf. rewrite Forall_forall in *. intros e He.
      assert (Hin : In (fst e) (map fst ad)) by (rewrite <- Hb; now apply in_map).
      apply in_map_iff in Hin. destruct Hin as (e' & He' & Hin). rewrite <- He'. now apply Hf.
    + now apply (fresh_in_weaken g (gm ++ ad)).
Qed.

Lemma ext0_trans g g1 g2 : ext0 g g1 -> ext0 g1 g2 -> ext0 g g2.
Proof.
  intros H1 H2.
  destruct H1 as (ad & -> & Hf). destruct H2 as (ad2 & -> & Hf2).
  exists (ad ++ ad2). split; [now rewrite app_assoc|]. unfold fresh_in. apply Forall_app. split; [exact Hf|].
  apply (fresh_in_weaken g (g ++ ad)); [|exact Hf2]. intros n Hn. rewrite gmem_app, Hn. reflexivity.
Qed.

Lemma ext_append g n e : gmem n g = false -> ext0 g (g ++ [(n, e)]).
Proof. intros H. exists [(n, e)]. split; [reflexivity|]. constructor; [exact H|constructor]. Qed.

(** ** the steps *)
Lemma copy_dataset_ext g x g1 : copy_dataset g x = WOk g1 -> ext g g1.
Proof.
  unfold copy_dataset. destruct (glookup (x_name x) g) as [[b|a|m]|] eqn:E.
  - destruct b; discriminate.
  - destruct (negb (shape_eqb _ _)); [discriminate|]. destruct (negb (nat_list2_eqb _ _)); [discriminate|].
    intros [= <-]. eexists _, []. rewrite app_nil_r. split; [reflexivity|]. split; [|constructor].
    unfold same_names. rewrite map_map. apply map_ext. intros [k e]. cbn [fst]. now destruct (str_eqb k (x_name x)).
  - discriminate.
  - intros [= <-]. apply ext0_ext, ext_append. now apply glookup_none_gmem.
Qed.

Lemma ensure_file_ext g i v g1 pi pv : ensure_file g i v = WOk (g1, pi, pv) -> ext g g1.
Proof.
  unfold ensure_file. destruct (negb (Nat.eqb (x_file i) (x_file v))); [discriminate|].
  destruct (Nat.eqb (x_file i) 0).
  - intros [= <- _ _]. apply ext_refl.
  - destruct (copy_dataset g i) as [g1'|] eqn:E1; [|discriminate].
    destruct (copy_dataset g1' v) as [g2'|] eqn:E2; [|discriminate].
    intros [= <- _ _]. eapply ext_trans; eapply copy_dataset_ext; eassumption.
Qed.

Lemma ensure_file_local g i v g1 pi pv : x_file i = 0 -> ensure_file g i v = WOk (g1, pi, pv) -> g1 = g.
Proof.
  intros H0. unfold ensure_file. destruct (negb (Nat.eqb (x_file i) (x_file v))); [discriminate|].
  rewrite H0. cbn. now intros [= <- _ _].
Qed.

Lemma app_sfx_neq p : str_eqb (p ++ sfx_i) (p ++ sfx_v) = false.
Proof.
  destruct (str_eqb (p ++ sfx_i) (p ++ sfx_v)) eqn:E; [|reflexivity].
  apply str_eqb_eq in E. apply app_inv_head in E. discriminate.
Qed.

Lemma check_prefix_fresh g p p1 : check_prefix g p = WOk p1 -> gmem (p1 ++ sfx_i) g = false /\ gmem (p1 ++ sfx_v) g = false.
Proof.
  unfold check_prefix. destruct p as [p0|]; [|discriminate].
  destruct (gmem (undash (with_us p0) ++ sfx_i) g) eqn:E1; [discriminate|].
  destruct (gmem (undash (with_us p0) ++ sfx_v) g) eqn:E2; [discriminate|].
  cbn. intros [= <-]. auto.
Qed.

Definition side_local (s : side) : Prop := match s with Fresh _ _ => True | Reuse i _ => x_file i = 0 end.

Lemma do_side_ext g s shape sp s2f g1 pi pv : do_side g s shape sp s2f = WOk (g1, pi, pv) -> ext g g1.
Proof.
  unfold do_side. destruct s as [p d|i v].
  - destruct (check_prefix g p) as [p1|] eqn:Ep; [|discriminate].
    destruct (dims_list d) as [ds|]; [|discriminate].
    destruct (negb (Nat.eqb _ _)); [discriminate|].
    destruct (build_anc ds sp s2f) as [[ai av]|]; [|discriminate].
    intros [= <- _ _]. destruct (check_prefix_fresh _ _ _ Ep) as [H1 H2]. apply ext0_ext.
    exists [(p1 ++ sfx_i, EAd ai); (p1 ++ sfx_v, EAd av)]. split; [reflexivity|].
    constructor; [exact H1|]. constructor; [exact H2|constructor].
  - destruct (validate_anc i v shape sp); [discriminate|]. apply ensure_file_ext.
Qed.

Lemma do_side_ext0 g s shape sp s2f g1 pi pv : side_local s -> do_side g s shape sp s2f = WOk (g1, pi, pv) -> ext0 g g1.
Proof.
  intros Hl. unfold do_side. destruct s as [p d|i v].
  - destruct (check_prefix g p) as [p1|] eqn:Ep; [|discriminate].
    destruct (dims_list d) as [ds|]; [|discriminate].
    destruct (negb (Nat.eqb _ _)); [discriminate|].
    destruct (build_anc ds sp s2f) as [[ai av]|]; [|discriminate].
    intros [= <- _ _]. destruct (check_prefix_fresh _ _ _ Ep) as [H1 H2].
    exists [(p1 ++ sfx_i, EAd ai); (p1 ++ sfx_v, EAd av)]. split; [reflexivity|].
    constructor; [exact H1|]. constructor; [exact H2|constructor].
  - destruct (validate_anc i v shape sp); [discriminate|]. intros H. apply ensure_file_local in H; [|exact Hl].
    subst g1. apply ext0_refl.
Qed.

(** the body leaves an extension of the group behind, whatever its result *)
Lemma body_ext g a r g' : body g a = (r, g') -> ext g g'.
Proof.
  unfold body.
  destruct (Nat.eqb (a_grp_code a) 1); [intros [= _ <-]; apply ext_refl|].
  destruct (Nat.eqb (a_grp_code a) 2); [intros [= _ <-]; apply ext_refl|].
  destruct (Nat.eqb (a_str_code a) 1); [intros [= _ <-]; apply ext_refl|].
  destruct (Nat.eqb (a_str_code a) 2); [intros [= _ <-]; apply ext_refl|].
  destruct (check_main (a_main a)) as [shape|]; [|intros [= _ <-]; apply ext_refl].
  destruct (do_side g (a_pos a) shape false (a_s2f a)) as [[[g1 pi] pv]|] eqn:E1; [|intros [= _ <-]; apply ext_refl].
  pose proof (do_side_ext _ _ _ _ _ _ _ _ E1) as X1.
  destruct (do_side g1 (a_spec a) shape true (a_s2f a)) as [[[g2 si] sv]|] eqn:E2; [|intros [= _ <-]; exact X1].
  pose proof (ext_trans _ _ _ X1 (do_side_ext _ _ _ _ _ _ _ _ E2)) as X2.
  destruct (gmem (clean_name (a_name a)) g2) eqn:Em; [intros [= _ <-]; exact X2|].
  destruct (negb (a_kw_ok a)); [intros [= _ <-]; exact X2|].
  assert (X3 : forall m, ext g (g2 ++ [(clean_name (a_name a), EMain m)])).
  { intros m. eapply ext_trans; [exact X2|]. apply ext0_ext, ext_append. exact Em. }
  destruct (negb (a_attrs_ok a)); [intros [= _ <-]; apply X3|].
  destruct (link_validate pi pv shape false); [intros [= _ <-]; apply X3|].
  destruct (link_validate si sv shape true); [intros [= _ <-]; apply X3|].
  destruct (check_if_main _); intros [= _ <-]; apply X3.
Qed.

Definition local_only (a : args) : Prop := side_local (a_pos a) /\ side_local (a_spec a).

Lemma body_ext0 g a r g' : local_only a -> body g a = (r, g') -> ext0 g g'.
Proof.
  intros [L1 L2]. unfold body.
  destruct (Nat.eqb (a_grp_code a) 1); [intros [= _ <-]; apply ext0_refl|].
  destruct (Nat.eqb (a_grp_code a) 2); [intros [= _ <-]; apply ext0_refl|].
  destruct (Nat.eqb (a_str_code a) 1); [intros [= _ <-]; apply ext0_refl|].
  destruct (Nat.eqb (a_str_code a) 2); [intros [= _ <-]; apply ext0_refl|].
  destruct (check_main (a_main a)) as [shape|]; [|intros [= _ <-]; apply ext0_refl].
  destruct (do_side g (a_pos a) shape false (a_s2f a)) as [[[g1 pi] pv]|] eqn:E1; [|intros [= _ <-]; apply ext0_refl].
  pose proof (do_side_ext0 _ _ _ _ _ _ _ _ L1 E1) as X1.
  destruct (do_side g1 (a_spec a) shape true (a_s2f a)) as [[[g2 si] sv]|] eqn:E2; [|intros [= _ <-]; exact X1].
  pose proof (ext0_trans _ _ _ X1 (do_side_ext0 _ _ _ _ _ _ _ _ L2 E2)) as X2.
  destruct (gmem (clean_name (a_name a)) g2) eqn:Em; [intros [= _ <-]; exact X2|].
  destruct (negb (a_kw_ok a)); [intros [= _ <-]; exact X2|].
  assert (X3 : forall m, ext0 g (g2 ++ [(clean_name (a_name a), EMain m)])).
  { intros m. eapply ext0_trans; [exact X2|]. apply ext_append. exact Em. }
  destruct (negb (a_attrs_ok a)); [intros [= _ <-]; apply X3|].
  destruct (link_validate pi pv shape false); [intros [= _ <-]; apply X3|].
  destruct (link_validate si sv shape true); [intros [= _ <-]; apply X3|].
  destruct (check_if_main _); intros [= _ <-]; apply X3.
Qed.

(** ** the clean-up *)
Lemma filter_all {A} (f : A -> bool) l : Forall (fun x => f x = true) l -> filter f l = l.
Proof. induction 1 as [|x l Hx _ IH]; simpl; [reflexivity|]. now rewrite Hx, IH. Qed.
Lemma filter_none {A} (f : A -> bool) l : Forall (fun x => f x = false) l -> filter f l = [].
Proof. induction 1 as [|x l Hx _ IH]; simpl; [reflexivity|]. now rewrite Hx, IH. Qed.

Lemma gmem_in_names n g : In n (map fst g) -> gmem n g = true.
Proof.
  intros H. apply in_map_iff in H. destruct H as ([k e] & <- & Hin). unfold gmem. apply existsb_exists.
  exists (k, e). split; [exact Hin|]. apply str_eqb_refl.
Qed.

Lemma cleanup_ext g gm added : same_names g gm -> fresh_in g added -> cleanup g (gm ++ added) = gm.
Proof.
  intros Hn Hf. unfold cleanup. rewrite filter_app, (filter_none _ added Hf), app_nil_r.
  apply filter_all. rewrite Forall_forall. intros e He. apply gmem_in_names. unfold same_names in Hn. rewrite <- Hn. now apply in_map.
Qed.

(** ** theorems *)
(** failure atomicity, general form: after a rejected call the group has exactly the members it had, in the same order *)
Theorem write_main_err_names g a e g' : write_main g a = (WErr e, g') -> map fst g' = map fst g.
Proof.
  unfold write_main. destruct (body g a) as [[m|e0] gb] eqn:E; [discriminate|]. intros [= _ <-].
  pose proof (body_ext _ _ _ _ E) as (gm & ad & -> & Hn & Hf).
  destruct (Nat.eqb (a_grp_code a) 1) eqn:Ec.
  - unfold body in E. rewrite Ec in E. injection E as _ <-. reflexivity.
  - rewrite (cleanup_ext _ _ _ Hn Hf). exact Hn.
Qed.

(** failure atomicity, exact form: when no ancillary dataset has to be copied in from another file, the group after a
    rejected call IS the group before *)
Theorem write_main_err_atomic g a e g' : local_only a -> write_main g a = (WErr e, g') -> g' = g.
Proof.
  intros Hl. unfold write_main. destruct (body g a) as [[m|e0] gb] eqn:E; [discriminate|]. intros [= _ <-].
  pose proof (body_ext0 _ _ _ _ Hl E) as (ad & -> & Hf).
  destruct (Nat.eqb (a_grp_code a) 1) eqn:Ec.
  - unfold body in E. rewrite Ec in E. injection E as _ <-. reflexivity.
  - apply cleanup_ext; [reflexivity|exact Hf].
Qed.

(** hence a corrected retry sees the original group *)
Theorem write_main_retry g a a' e g' : local_only a -> write_main g a = (WErr e, g') -> write_main g' a' = write_main g a'.
Proof. intros Hl H. now rewrite (write_main_err_atomic _ _ _ _ Hl H). Qed.

(** nothing that existed is removed or replaced by a successful call either *)
Theorem write_main_ok_extends g a m g' : write_main g a = (WOk m, g') -> ext g g' /\ (local_only a -> ext0 g g').
Proof.
  unfold write_main. destruct (body g a) as [[m0|e0] gb] eqn:E; [|destruct (Nat.eqb _ _); discriminate]. intros [= <- <-].
  split; [now apply body_ext in E|]. intros Hl. now apply body_ext0 in E.
Qed.

Lemma glookup_app_new n e g : gmem n g = false -> glookup n (g ++ [(n, e)]) = Some e.
Proof.
  induction g as [|[k e0] g IH]; simpl; intros H.
  - now rewrite str_eqb_refl.
  - destruct (str_eqb k n); [discriminate|]. now apply IH.
Qed.

(** acceptance: the returned object is stored under the cleaned name and satisfies every structural rule (C06) *)
Theorem write_main_ok_valid g a m g' : write_main g a = (WOk m, g') ->
  glookup (clean_name (a_name a)) g' = Some (EMain m) /\ is_main_spec (desc_of m) /\
  exists n k, check_main (a_main a) = WOk (n, k) /\ m_shape m = [n; k] /\ m_src m = a_src a.
Proof.
  unfold write_main. destruct (body g a) as [[m0|e0] gb] eqn:E; [|destruct (Nat.eqb _ _); discriminate]. intros [= <- <-].
  revert E. unfold body.
  destruct (Nat.eqb (a_grp_code a) 1); [discriminate|]. destruct (Nat.eqb (a_grp_code a) 2); [discriminate|].
  destruct (Nat.eqb (a_str_code a) 1); [discriminate|]. destruct (Nat.eqb (a_str_code a) 2); [discriminate|].
  destruct (check_main (a_main a)) as [[n k]|]; [|discriminate].
  destruct (do_side g (a_pos a) (n, k) false (a_s2f a)) as [[[g1 pi] pv]|]; [|discriminate].
  destruct (do_side g1 (a_spec a) (n, k) true (a_s2f a)) as [[[g2 si] sv]|]; [|discriminate].
  destruct (gmem (clean_name (a_name a)) g2) eqn:Em; [discriminate|].
  destruct (negb (a_kw_ok a)); [discriminate|]. destruct (negb (a_attrs_ok a)); [discriminate|].
  destruct (link_validate pi pv (n, k) false); [discriminate|]. destruct (link_validate si sv (n, k) true); [discriminate|].
  destruct (check_if_main _) eqn:Ec; [|discriminate]. intros [= <- <-].
  split; [now apply glookup_app_new|]. split; [now apply check_if_main_exact|]. exists n, k. auto.
Qed.

(** faithfulness of a freshly written side: the linked datasets are the Cartesian-product matrices of AncBuild *)
Lemma do_side_fresh g p ds shape sp s2f g1 li lv :
  do_side g (Fresh p (DList ds)) shape sp s2f = WOk (g1, li, lv) ->
  exists p1 ai av, check_prefix g p = WOk p1 /\ build_anc ds sp s2f = WOk (ai, av) /\
    li = (Local (p1 ++ sfx_i), ai) /\ lv = (Local (p1 ++ sfx_v), av) /\
    g1 = g ++ [(p1 ++ sfx_i, EAd ai); (p1 ++ sfx_v, EAd av)] /\
    prod (map (fun d => length (dm_vals d)) ds) = (if sp then snd shape else fst shape).
Proof.
  unfold do_side. destruct (check_prefix g p) as [p1|]; [|discriminate]. cbn [dims_list].
  destruct (Nat.eqb _ _) eqn:En; [|discriminate]. cbn [negb].
  destruct (build_anc ds sp s2f) as [[ai av]|]; [|discriminate].
  intros [= <- <- <-]. exists p1, ai, av. apply Nat.eqb_eq in En. auto 10.
Qed.

Lemma nodup_repeat0 n : nodup Nat.eq_dec (repeat 0 (S n)) = [0].
Proof.
  induction n as [|n IH]; [reflexivity|].
  change (repeat 0 (S (S n))) with (0 :: repeat 0 (S n)). cbn [nodup].
  destruct (in_dec Nat.eq_dec 0 (repeat 0 (S n))) as [_|Hn]; [exact IH|]. exfalso. apply Hn. now left.
Qed.

Lemma build_anc_default ds sp s2f ai av :
  Forall (fun d => dm_mode d = 0) ds -> build_anc ds sp s2f = WOk (ai, av) ->
  let '(wi, wv, wl) := write_ind_val 0 (map dim_pair ds) sp s2f in
  ad_mat ai = wi /\ ad_mat av = wv /\ ad_labels ai = (1, map fst wl) /\ ad_units ai = (1, map snd wl) /\
  ad_labels av = (1, map fst wl) /\ ad_units av = (1, map snd wl).
Proof.
  intros Hm. unfold build_anc.
  assert (Hmodes : map dm_mode ds = repeat 0 (length ds)).
  { induction Hm as [|d ds Hd _ IH]; simpl; [reflexivity|]. now rewrite Hd, IH. }
  rewrite Hmodes. destruct ds as [|d ds]; [discriminate|].
  assert (Hnd : nodup Nat.eq_dec (repeat 0 (length (d :: ds))) = [0]) by apply nodup_repeat0.
  rewrite Hnd. destruct (write_ind_val 0 (map dim_pair (d :: ds)) sp s2f) as [[wi wv] wl].
  intros [= <- <-]. cbn. auto 10.
Qed.

(** ** coordinates of freshly written sides *)
Lemma write_main_ok_links g a m g' : write_main g a = (WOk m, g') ->
  exists n k g1 g2 pi pv si sv, check_main (a_main a) = WOk (n, k) /\
    do_side g (a_pos a) (n, k) false (a_s2f a) = WOk (g1, pi, pv) /\
    do_side g1 (a_spec a) (n, k) true (a_s2f a) = WOk (g2, si, sv) /\
    m_links m = [pi; pv; si; sv] /\ m_shape m = [n; k].
Proof.
  unfold write_main. destruct (body g a) as [[m0|e0] gb] eqn:E; [|destruct (Nat.eqb _ _); discriminate]. intros [= <- <-].
  revert E. unfold body.
  destruct (Nat.eqb (a_grp_code a) 1); [discriminate|]. destruct (Nat.eqb (a_grp_code a) 2); [discriminate|].
  destruct (Nat.eqb (a_str_code a) 1); [discriminate|]. destruct (Nat.eqb (a_str_code a) 2); [discriminate|].
  destruct (check_main (a_main a)) as [[n k]|]; [|discriminate].
  destruct (do_side g (a_pos a) (n, k) false (a_s2f a)) as [[[g1 pi] pv]|] eqn:E1; [|discriminate].
  destruct (do_side g1 (a_spec a) (n, k) true (a_s2f a)) as [[[g2 si] sv]|] eqn:E2; [|discriminate].
  destruct (gmem (clean_name (a_name a)) g2); [discriminate|].
  destruct (negb (a_kw_ok a)); [discriminate|]. destruct (negb (a_attrs_ok a)); [discriminate|].
  destruct (link_validate pi pv (n, k) false); [discriminate|]. destruct (link_validate si sv (n, k) true); [discriminate|].
  destruct (check_if_main _); [|discriminate]. intros [= <- _].
  exists n, k, g1, g2, pi, pv, si, sv. auto 10.
Qed.

Definition dim0 : dimd := mkDim 0 0 [] 0.
Definition dim_pair_lu (d : dimd) : nat * nat := fst (dim_pair d).

Section FreshSide.
  Variables (ds : list dimd) (s2f : bool).
  Hypothesis Hmode : Forall (fun d => dm_mode d = 0) ds.
  Hypothesis Hne : Forall (fun d => 0 < length (dm_vals d)) ds.
  Let dims1 := if s2f then rev ds else ds.
  Let lengths := map (fun d => length (dm_vals d)) dims1.
  Let k := length ds.

  Lemma lengths_prod : prod lengths = prod (map (fun d => length (dm_vals d)) ds).
  Proof. unfold lengths, dims1. destruct s2f; [|reflexivity]. now rewrite map_rev, prod_rev. Qed.

  Lemma pairs_dims1 : (if s2f then rev (map dim_pair ds) else map dim_pair ds) = map dim_pair dims1.
  Proof. unfold dims1. destruct s2f; [now rewrite map_rev|reflexivity]. Qed.

  Lemma pairs_pos : Forall (fun d : nat * nat * list nat => 0 < length (snd d)) (map dim_pair ds).
  Proof. rewrite Forall_forall in *. intros x Hx. apply in_map_iff in Hx. destruct Hx as (d & <- & Hd). now apply Hne. Qed.

  (** position-shaped: entry (n, i) *)
  Lemma fresh_pos_entries ai av i n : build_anc ds false s2f = WOk (ai, av) -> i < k -> n < prod lengths ->
    let dm := nth (k - S i) dims1 dim0 in
    let dg := nth (k - S i) (digits lengths n) 0 in
    nth i (nth n (ad_mat ai) []) 0 = dg /\ nth i (nth n (ad_mat av) []) 0 = nth dg (dm_vals dm) 0 /\
    nth i (snd (ad_labels ai)) 0 = dm_label dm /\ nth i (snd (ad_units ai)) 0 = dm_unit dm /\
    ad_labels av = ad_labels ai /\ ad_units av = ad_units ai /\
    length (ad_mat ai) = prod lengths /\ length (nth n (ad_mat ai) []) = k.
  Proof.
    intros Hb Hi Hn. pose proof (build_anc_default ds false s2f ai av Hmode Hb) as H.
    pose proof (written_position_rows 0 (0, 0) (map dim_pair ds) s2f i n) as W. cbv zeta in W.
    destruct (write_ind_val 0 (map dim_pair ds) false s2f) as [[wi wv] wl].
    destruct H as (Hi1 & Hv1 & Hl1 & Hu1 & Hl2 & Hu2).
    rewrite pairs_dims1, map_map, map_length in W. cbn [dim_pair snd] in W. fold lengths in W.
    specialize (W pairs_pos Hi Hn). destruct W as (W1 & W2 & W3 & W4 & W5).
    replace (0, 0, @nil nat) with (dim_pair dim0) in W1, W3 by reflexivity.
    rewrite (map_nth dim_pair dims1 dim0) in W1, W3. fold k in W1, W2, W3.
    cbv zeta. rewrite Hi1, Hv1, Hl1, Hu1, Hl2, Hu2. cbn [snd].
    assert (Hlab : forall (f : nat * nat -> nat), f (0, 0) = 0 -> nth i (map f wl) 0 = f (dim_pair_lu (nth (k - S i) dims1 dim0))).
    { intros f Hf. rewrite <- Hf at 1. rewrite (map_nth f wl (0, 0) i), W1. reflexivity. }
    repeat split; try assumption.
    - exact (Hlab fst eq_refl).
    - exact (Hlab snd eq_refl).
  Qed.

  (** spectroscopic-shaped: entry (i, n) *)
  Lemma fresh_spec_entries ai av i n : build_anc ds true s2f = WOk (ai, av) -> i < k -> n < prod lengths ->
    let dm := nth (k - S i) dims1 dim0 in
    let dg := nth (k - S i) (digits lengths n) 0 in
    nth n (nth i (ad_mat ai) []) 0 = dg /\ nth n (nth i (ad_mat av) []) 0 = nth dg (dm_vals dm) 0 /\
    nth i (snd (ad_labels ai)) 0 = dm_label dm /\ nth i (snd (ad_units ai)) 0 = dm_unit dm /\
    ad_labels av = ad_labels ai /\ ad_units av = ad_units ai /\
    length (ad_mat ai) = k /\ length (nth i (ad_mat ai) []) = prod lengths.
  Proof.
    intros Hb Hi Hn. pose proof (build_anc_default ds true s2f ai av Hmode Hb) as H.
    pose proof (written_spectral_rows 0 (0, 0) (map dim_pair ds) s2f i n) as W. cbv zeta in W.
    destruct (write_ind_val 0 (map dim_pair ds) true s2f) as [[wi wv] wl].
    destruct H as (Hi1 & Hv1 & Hl1 & Hu1 & Hl2 & Hu2).
    rewrite pairs_dims1, map_map, map_length in W. cbn [dim_pair snd] in W. fold lengths in W.
    specialize (W pairs_pos Hi Hn). destruct W as (W1 & W2 & W3 & W4 & W5).
    replace (0, 0, @nil nat) with (dim_pair dim0) in W1, W3 by reflexivity.
    rewrite (map_nth dim_pair dims1 dim0) in W1, W3. fold k in W1, W2, W3.
    cbv zeta. rewrite Hi1, Hv1, Hl1, Hu1, Hl2, Hu2. cbn [snd].
    assert (Hlab : forall (f : nat * nat -> nat), f (0, 0) = 0 -> nth i (map f wl) 0 = f (dim_pair_lu (nth (k - S i) dims1 dim0))).
    { intros f Hf. rewrite <- Hf at 1. rewrite (map_nth f wl (0, 0) i), W1. reflexivity. }
    repeat split; try assumption.
    - exact (Hlab fst eq_refl).
    - exact (Hlab snd eq_refl).
  Qed.
End FreshSide.

(** accepted call, position dimensions given as Dimension objects: row n of the stored Position_Indices / _Values holds,
    in column i, the index / value of the (k-1-i)-th fastest dimension at the n-th point of the Cartesian product, the
    labels and units stored at i are that dimension's, and the number of rows is the product of the sizes *)
Theorem write_main_fresh_pos_coords g a m g' p ds i n :
  write_main g a = (WOk m, g') -> a_pos a = Fresh p (DList ds) ->
  Forall (fun d => dm_mode d = 0) ds -> Forall (fun d => 0 < length (dm_vals d)) ds ->
  let dims1 := if a_s2f a then rev ds else ds in
  let lengths := map (fun d => length (dm_vals d)) dims1 in
  let k := length ds in
  i < k -> n < prod lengths ->
  exists li ai lv av rest, m_links m = (li, ai) :: (lv, av) :: rest /\
    nth 0 (m_shape m) 0 = prod lengths /\
    let dm := nth (k - S i) dims1 dim0 in
    let dg := nth (k - S i) (digits lengths n) 0 in
    nth i (nth n (ad_mat ai) []) 0 = dg /\ nth i (nth n (ad_mat av) []) 0 = nth dg (dm_vals dm) 0 /\
    nth i (snd (ad_labels ai)) 0 = dm_label dm /\ nth i (snd (ad_units ai)) 0 = dm_unit dm /\
    length (ad_mat ai) = prod lengths.
Proof.
  intros Hw Hp Hmode Hne. cbv zeta. intros Hi Hn.
  destruct (write_main_ok_links _ _ _ _ Hw) as (N & K & g1 & g2 & pi & pv & si & sv & Hc & Hs1 & Hs2 & Hl & Hsh).
  rewrite Hp in Hs1. destruct (do_side_fresh _ _ _ _ _ _ _ _ _ Hs1) as (p1 & ai & av & _ & Hb & -> & -> & _ & Hprod).
  cbn [fst] in Hprod.
  exists (Local (p1 ++ sfx_i)), ai, (Local (p1 ++ sfx_v)), av, [si; sv]. split; [exact Hl|].
  split; [rewrite Hsh; cbn [nth]; rewrite <- Hprod; symmetry; apply lengths_prod|].
  pose proof (fresh_pos_entries ds (a_s2f a) Hmode Hne ai av i n Hb Hi Hn) as H. cbv zeta in H.
  destruct H as (H1 & H2 & H3 & H4 & _ & _ & H7 & _). auto 10.
Qed.

Theorem write_main_fresh_spec_coords g a m g' p ds i n :
  write_main g a = (WOk m, g') -> a_spec a = Fresh p (DList ds) ->
  Forall (fun d => dm_mode d = 0) ds -> Forall (fun d => 0 < length (dm_vals d)) ds ->
  let dims1 := if a_s2f a then rev ds else ds in
  let lengths := map (fun d => length (dm_vals d)) dims1 in
  let k := length ds in
  i < k -> n < prod lengths ->
  exists l0 l1 li ai lv av rest, m_links m = l0 :: l1 :: (li, ai) :: (lv, av) :: rest /\
    nth 1 (m_shape m) 0 = prod lengths /\
    let dm := nth (k - S i) dims1 dim0 in
    let dg := nth (k - S i) (digits lengths n) 0 in
    nth n (nth i (ad_mat ai) []) 0 = dg /\ nth n (nth i (ad_mat av) []) 0 = nth dg (dm_vals dm) 0 /\
    nth i (snd (ad_labels ai)) 0 = dm_label dm /\ nth i (snd (ad_units ai)) 0 = dm_unit dm /\
    length (ad_mat ai) = k.
Proof.
  intros Hw Hp Hmode Hne. cbv zeta. intros Hi Hn.
  destruct (write_main_ok_links _ _ _ _ Hw) as (N & K & g1 & g2 & pi & pv & si & sv & Hc & Hs1 & Hs2 & Hl & Hsh).
  rewrite Hp in Hs2. destruct (do_side_fresh _ _ _ _ _ _ _ _ _ Hs2) as (p1 & ai & av & _ & Hb & -> & -> & _ & Hprod).
  cbn [snd] in Hprod.
  exists pi, pv, (Local (p1 ++ sfx_i)), ai, (Local (p1 ++ sfx_v)), av, []. split; [exact Hl|].
  split; [rewrite Hsh; cbn [nth]; rewrite <- Hprod; symmetry; apply lengths_prod|].
  pose proof (fresh_spec_entries ds (a_s2f a) Hmode Hne ai av i n Hb Hi Hn) as H. cbv zeta in H.
  destruct H as (H1 & H2 & H3 & H4 & _ & _ & H7 & _). auto 10.
Qed.
