(** hdf_utils.assign_group_index / create_indexed_group / create_results_group /
    find_results_groups / get_source_dataset over the names in one HDF5 group.
    Strings are lists of ASCII characters. *)
From Coq Require Import List Arith Lia Bool Ascii.
From Coq Require String.
Require Import V.Base.ListAux.
Import ListNotations.

Definition str := list ascii.
Definition s_of (s : String.string) : str := String.list_ascii_of_string s.

Inductive kind := KGroup | KDset.
Definition dir := list (str * kind).      (* members of the parent group *)

Inductive nexn := NValueE | NKeyE | NTypeE.
Inductive nres (A : Type) := NOk (a : A) | NErr (e : nexn).
Arguments NOk {A} a. Arguments NErr {A} e.

Fixpoint str_eqb (a b : str) : bool :=
  match a, b with
  | [], [] => true
  | x :: a', y :: b' => Ascii.eqb x y && str_eqb a' b'
  | _, _ => false
  end.

(** s.startswith(p) *)
Fixpoint starts_with (p s : str) : bool :=
  match p, s with
  | [], _ => true
  | x :: p', y :: s' => Ascii.eqb x y && starts_with p' s'
  | _ :: _, [] => false
  end.

Definition us : ascii := "_"%char.
Definition dash : ascii := "-"%char.

Definition is_digit (c : ascii) : bool := let n := nat_of_ascii c in Nat.leb 48 n && Nat.leb n 57.
(** str.isdigit() on ASCII strings: non-empty and only decimal digits *)
Definition all_digits (s : str) : bool := match s with [] => false | _ => forallb is_digit s end.

Definition digit_val (c : ascii) : nat := nat_of_ascii c - 48.
(** int(s) for a string of decimal digits *)
Definition parse_nat (s : str) : nat := fold_left (fun acc c => 10 * acc + digit_val c) s 0.

(** decimal digits of n, most significant first (fuel = n + 1 suffices) *)
Fixpoint digits_rev (fuel n : nat) : list ascii :=
  match fuel with
  | O => []
  | S f => ascii_of_nat (48 + n mod 10) :: (if Nat.eqb (n / 10) 0 then [] else digits_rev f (n / 10))
  end.
Definition dec (n : nat) : str := rev (digits_rev (S n) n).
(** '{:03d}'.format(n) for n >= 0 *)
Definition fmt03 (n : nat) : str := let d := dec n in repeat "0"%char (3 - length d) ++ d.

Definition ends_with_us (s : str) : bool := match rev s with c :: _ => Ascii.eqb c us | [] => false end.
Definition with_us (b : str) : str := if ends_with_us b then b else b ++ [us].

Definition names (d : dir) : list str := map fst d.
Definition mem (n : str) (d : dir) : bool := existsb (fun e => str_eqb (fst e) n) d.

(** indices already used by groups named exactly <b><digits> *)
Definition used_indices (d : dir) (b : str) : list nat :=
  flat_map (fun e => match snd e with
                     | KGroup => if starts_with b (fst e) then
                                   let suffix := skipn (length b) (fst e) in
                                   if all_digits suffix then [parse_nat suffix] else []
                                 else []
                     | KDset => []
                     end) d.

Definition next_index (l : list nat) : nat := match l with [] => 0 | _ => S (fold_left Nat.max l 0) end.

Definition assign_group_index (d : dir) (base : str) : nres str :=
  match base with
  | [] => NErr NValueE
  | _ => let b := with_us base in NOk (b ++ fmt03 (next_index (used_indices d b)))
  end.

(** h5py create_group: ValueError when the name is taken *)
Definition create_group (d : dir) (n : str) : nres dir :=
  if mem n d then NErr NValueE else NOk (d ++ [(n, KGroup)]).

Definition create_indexed_group (d : dir) (base : str) : nres (dir * str) :=
  match assign_group_index d base with
  | NErr e => NErr e
  | NOk n => match create_group d n with NErr e => NErr e | NOk d' => NOk (d', n) end
  end.

Definition clean_tool (t : str) : str := map (fun c => if Ascii.eqb c dash then us else c) t.
Definition results_prefix (dset tool : str) : str := dset ++ [dash] ++ clean_tool tool ++ [us].

Definition create_results_group (d : dir) (dset tool : str) : nres (dir * str) :=
  create_indexed_group d (results_prefix dset tool).

Definition find_results_groups (d : dir) (dset tool : str) : list str :=
  let p := results_prefix dset tool in
  map fst (filter (fun e => match snd e with
                            | KGroup => starts_with p (fst e) && all_digits (skipn (length p) (fst e))
                            | KDset => false
                            end) d).

(** name.split('-') *)
Fixpoint split_dash (s acc : str) : list str :=
  match s with
  | [] => [rev acc]
  | c :: r => if Ascii.eqb c dash then rev acc :: split_dash r [] else split_dash r (c :: acc)
  end.

Definition get_source_dataset (d : dir) (group_name : str) : nres str :=
  match split_dash group_name [] with
  | [a; _] => match find (fun e => str_eqb (fst e) a) d with
              | Some (_, KDset) => NOk a
              | Some (_, KGroup) => NErr NValueE
              | None => NErr NKeyE
              end
  | _ => NErr NValueE
  end.

Definition delete (d : dir) (n : str) : dir := filter (fun e => negb (str_eqb (fst e) n)) d.
