(** Properties of the group-naming model (H5/Naming.v). *)
From Coq Require Import List Arith Lia Bool Ascii.
Require Import V.Base.ListAux V.H5.Naming.
Import ListNotations.

Lemma ascii_eqb_refl c : Ascii.eqb c c = true.
Proof. apply Ascii.eqb_eq. reflexivity. Qed.

Lemma str_eqb_eq a b : str_eqb a b = true <-> a = b.
Proof.
  revert b; induction a as [|x a IH]; intros [|y b]; simpl; split; intros H; try discriminate; auto.
  - apply andb_true_iff in H. destruct H as [H1 H2]. apply Ascii.eqb_eq in H1. apply IH in H2. now subst.
  - inversion H; subst. apply andb_true_iff. split; [apply ascii_eqb_refl| now apply IH].
Qed.

Lemma starts_with_app b s : starts_with b (b ++ s) = true.
Proof. induction b as [|x b IH]; simpl; [reflexivity|]. now rewrite ascii_eqb_refl, IH. Qed.

Lemma starts_with_split p s : starts_with p s = true -> s = p ++ skipn (length p) s.
Proof.
  revert s; induction p as [|x p IH]; intros s H; simpl in *; [reflexivity|].
  destruct s as [|y s]; [discriminate|]. apply andb_true_iff in H. destruct H as [H1 H2].
  apply Ascii.eqb_eq in H1. subst. simpl. f_equal. apply IH, H2.
Qed.

Lemma skipn_app_exact {A} (b s : list A) : skipn (length b) (b ++ s) = s.
Proof. induction b as [|x b IH]; simpl; [reflexivity|exact IH]. Qed.

(** ** decimal printing / parsing *)
Lemma digit_char m : m < 10 -> is_digit (ascii_of_nat (48 + m)) = true /\ digit_val (ascii_of_nat (48 + m)) = m.
Proof.
  intros H. unfold is_digit, digit_val. rewrite nat_ascii_embedding by lia.
  split; [|lia]. apply andb_true_iff. split; apply Nat.leb_le; lia.
Qed.

Lemma parse_nat_app s c : parse_nat (s ++ [c]) = 10 * parse_nat s + digit_val c.
Proof. unfold parse_nat. now rewrite fold_left_app. Qed.

Lemma digits_rev_spec : forall fuel n, n < fuel ->
  parse_nat (rev (digits_rev fuel n)) = n /\ forallb is_digit (digits_rev fuel n) = true /\ digits_rev fuel n <> [].
Proof.
  induction fuel as [|f IH]; intros n Hn; [lia|]. cbn [digits_rev].
  destruct (digit_char (n mod 10) (Nat.mod_upper_bound n 10 ltac:(lia))) as [Hd Hv].
  destruct (Nat.eqb_spec (n / 10) 0) as [E|E].
  - cbn [rev app forallb]. rewrite Hd. split; [|split; [reflexivity|discriminate]].
    unfold parse_nat. cbn [fold_left]. rewrite Hv.
    pose proof (Nat.div_mod n 10 ltac:(lia)) as H. rewrite E in H. rewrite H at 2. reflexivity.
  - assert (Hlt : n / 10 < f).
    { destruct (Nat.eq_dec n 0) as [->|Hn0]; [rewrite Nat.div_0_l in E by lia; contradiction|].
      assert (n / 10 < n) by (apply Nat.div_lt; lia). lia. }
    destruct (IH (n / 10) Hlt) as (Hp & Hall & Hne).
    cbn [rev forallb]. rewrite Hd, Hall. split; [|split; [reflexivity|discriminate]].
    rewrite parse_nat_app, Hp, Hv. symmetry. apply Nat.div_mod. lia.
Qed.

Lemma forallb_rev {A} (f : A -> bool) l : forallb f (rev l) = forallb f l.
Proof. induction l as [|x l IH]; simpl; [reflexivity|]. rewrite forallb_app, IH. simpl. rewrite andb_true_r. apply andb_comm. Qed.

Lemma parse_nat_zeros k s : parse_nat (repeat "0"%char k ++ s) = parse_nat s.
Proof.
  unfold parse_nat. rewrite fold_left_app. f_equal.
  induction k as [|k IH]; simpl; [reflexivity|]. exact IH.
Qed.

Lemma fmt03_spec n : parse_nat (fmt03 n) = n /\ all_digits (fmt03 n) = true.
Proof.
  unfold fmt03, dec. destruct (digits_rev_spec (S n) n ltac:(lia)) as (Hp & Hall & Hne).
  split; [now rewrite parse_nat_zeros|].
  unfold all_digits.
  destruct (repeat "0"%char (3 - length (rev (digits_rev (S n) n))) ++ rev (digits_rev (S n) n)) as [|c r] eqn:E.
  - apply app_eq_nil in E. destruct E as [_ E]. apply (f_equal (@rev ascii)) in E. rewrite rev_involutive in E. contradiction.
  - rewrite <- E. rewrite forallb_app, forallb_rev, Hall, andb_true_r.
    apply forallb_forall. intros c' Hc. apply repeat_spec in Hc. subst. reflexivity.
Qed.

(** ** next index is above every used index *)
Lemma fold_max_ge l : forall acc x, In x l \/ x <= acc -> x <= fold_left Nat.max l acc.
Proof.
  induction l as [|y l IH]; intros acc x H; simpl; [destruct H as [[]|H]; exact H|].
  apply IH. destruct H as [[<-|H]|H]; [right; lia|left; exact H|right; lia].
Qed.

Lemma next_index_gt l x : In x l -> x < next_index l.
Proof. intros H. unfold next_index. destruct l; [contradiction|]. apply Nat.lt_succ_r. apply fold_max_ge. now left. Qed.

(** ** freshness *)
Theorem assign_fresh d base n : assign_group_index d base = NOk n ->
  let b := with_us base in
  n = b ++ fmt03 (next_index (used_indices d b)) /\
  (forall g, In (g, KGroup) d -> g <> n) /\
  (forall g i, In (g, KGroup) d -> g = b ++ fmt03 i -> i < next_index (used_indices d b)).
Proof.
  unfold assign_group_index. destruct base as [|c base']; [discriminate|]. intros [= <-]. cbv zeta.
  set (b := with_us (c :: base')). set (idx := next_index (used_indices d b)).
  assert (Hused : forall g i, In (g, KGroup) d -> g = b ++ fmt03 i -> In i (used_indices d b)).
  { intros g i Hg ->. unfold used_indices. apply in_flat_map. exists (b ++ fmt03 i, KGroup). split; [exact Hg|]. cbn [fst snd].
    rewrite starts_with_app, skipn_app_exact. destruct (fmt03_spec i) as [Hp Ha]. rewrite Ha, Hp. now left. }
  split; [reflexivity|]. split.
  - intros g Hg E. pose proof (Hused g idx Hg E) as Hin. apply next_index_gt in Hin. fold idx in Hin. lia.
  - intros g i Hg E. apply next_index_gt. eapply Hused; eassumption.
Qed.

(** creation succeeds unless a *dataset* already holds the computed name *)
Theorem create_indexed_group_ok d base : base <> [] ->
  (forall n, assign_group_index d base = NOk n -> ~ In (n, KDset) d) ->
  exists d' n, create_indexed_group d base = NOk (d', n) /\ d' = d ++ [(n, KGroup)] /\ ~ In n (names d).
Proof.
  intros Hb Hnd. unfold create_indexed_group.
  destruct (assign_group_index d base) as [n|e] eqn:E.
  - destruct (assign_fresh d base n E) as (_ & Hfresh & _).
    assert (Hmem : mem n d = false).
    { unfold mem. apply not_true_iff_false. intro H. apply existsb_exists in H. destruct H as ([g k] & Hin & Heq).
      cbn [fst] in Heq. apply str_eqb_eq in Heq. subst g. destruct k; [exact (Hfresh n Hin eq_refl)| exact (Hnd n eq_refl Hin)]. }
    unfold create_group. rewrite Hmem. exists (d ++ [(n, KGroup)]), n. split; [reflexivity|]. split; [reflexivity|].
    intro Hin. unfold names in Hin. apply in_map_iff in Hin. destruct Hin as ([g k] & Eg & Hin). cbn [fst] in Eg. subst g.
    destruct k; [exact (Hfresh n Hin eq_refl)| exact (Hnd n eq_refl Hin)].
  - unfold assign_group_index in E. destruct base; [contradiction|discriminate].
Qed.

(** ** unique decomposition of results-group names *)
Lemma split_first (c : ascii) : forall a a' r r', ~ In c a -> ~ In c a' -> a ++ c :: r = a' ++ c :: r' -> a = a' /\ r = r'.
Proof.
  induction a as [|x a IH]; intros [|y a'] r r' H1 H2 E; simpl in *.
  - inversion E. auto.
  - inversion E; subst. exfalso. apply H2. now left.
  - inversion E; subst. exfalso. apply H1. now left.
  - inversion E; subst. assert (a = a' /\ r = r') as [-> ->]; [|auto].
    apply IH; [intro H; apply H1; now right| intro H; apply H2; now right| assumption].
Qed.

Lemma split_last (c : ascii) a a' r r' : ~ In c r -> ~ In c r' -> a ++ c :: r = a' ++ c :: r' -> a = a' /\ r = r'.
Proof.
  intros H1 H2 E. apply (f_equal (@rev ascii)) in E. rewrite !rev_app_distr in E. simpl in E. rewrite <- !app_assoc in E. simpl in E.
  destruct (split_first c (rev r) (rev r') (rev a) (rev a')) as [Er Ea].
  - intro H. apply H1. now apply in_rev.
  - intro H. apply H2. now apply in_rev.
  - exact E.
  - split; [rewrite <- (rev_involutive a), <- (rev_involutive a'), Ea| rewrite <- (rev_involutive r), <- (rev_involutive r'), Er]; reflexivity.
Qed.

Lemma digits_no_char (c : ascii) s : is_digit c = false -> forallb is_digit s = true -> ~ In c s.
Proof. intros Hc Hs Hin. rewrite forallb_forall in Hs. rewrite (Hs c Hin) in Hc. discriminate. Qed.

Lemma all_digits_forallb s : all_digits s = true -> forallb is_digit s = true.
Proof. destruct s; [discriminate| intro H; exact H]. Qed.

Lemma clean_tool_no_dash t : ~ In dash (clean_tool t).
Proof.
  unfold clean_tool. intro H. apply in_map_iff in H. destruct H as (c & E & _).
  destruct (Ascii.eqb c dash) eqn:Ec; [discriminate|]. apply Ascii.eqb_neq in Ec. congruence.
Qed.

(** two (dataset, tool, digits) triples give the same group name only if they are the same triple *)
Theorem results_name_injective ds t s ds' t' s' :
  ~ In dash ds -> ~ In dash ds' -> all_digits s = true -> all_digits s' = true ->
  results_prefix ds t ++ s = results_prefix ds' t' ++ s' -> ds = ds' /\ clean_tool t = clean_tool t' /\ s = s'.
Proof.
  intros Hd Hd' Hs Hs' E. unfold results_prefix in E. rewrite <- !app_assoc in E. cbn [app] in E.
  destruct (split_first dash _ _ _ _ Hd Hd' E) as [-> E2]. split; [reflexivity|].
  apply all_digits_forallb in Hs, Hs'.
  destruct (split_last us _ _ _ _ (digits_no_char us s eq_refl Hs) (digits_no_char us s' eq_refl Hs') E2) as [-> ->].
  auto.
Qed.

(** lookup is exact: a group is returned for (ds, t) iff it is named <ds>-<t>_<digits> *)
Theorem find_results_groups_exact d ds t g :
  In g (find_results_groups d ds t) <->
  In (g, KGroup) d /\ exists s, all_digits s = true /\ g = results_prefix ds t ++ s.
Proof.
  unfold find_results_groups. rewrite in_map_iff. split.
  - intros ([g' k] & <- & Hin). apply filter_In in Hin. destruct Hin as [Hin Hf]. cbn [fst snd] in *.
    destruct k; [|discriminate]. apply andb_true_iff in Hf. destruct Hf as [H1 H2].
    split; [exact Hin|]. exists (skipn (length (results_prefix ds t)) g'). split; [exact H2| apply starts_with_split, H1].
  - intros [Hin (s & Hs & ->)]. exists (results_prefix ds t ++ s, KGroup). split; [reflexivity|].
    apply filter_In. split; [exact Hin|]. cbn [fst snd]. now rewrite starts_with_app, skipn_app_exact, Hs.
Qed.

(** hence groups created for another (dataset, tool) pair are never returned *)
Theorem find_results_groups_other_pair d ds t ds' t' i :
  ~ In dash ds -> ~ In dash ds' ->
  In (results_prefix ds' t' ++ fmt03 i) (find_results_groups d ds t) -> ds' = ds /\ clean_tool t' = clean_tool t.
Proof.
  intros Hd Hd' Hin. apply find_results_groups_exact in Hin. destruct Hin as [_ (s & Hs & E)].
  destruct (fmt03_spec i) as [_ Hf].
  destruct (results_name_injective ds' t' (fmt03 i) ds t s Hd' Hd Hf Hs E) as (H1 & H2 & _). auto.
Qed.

(** the source dataset is recovered from the name of a results group *)
Lemma split_dash_app a r acc : ~ In dash a -> split_dash (a ++ dash :: r) acc = rev (rev a ++ acc) :: split_dash r [].
Proof.
  revert acc; induction a as [|x a IH]; intros acc H; simpl.
  - reflexivity.
  - destruct (Ascii.eqb x dash) eqn:E; [apply Ascii.eqb_eq in E; subst; exfalso; apply H; now left|].
    rewrite IH by (intro Hin; apply H; now right). now rewrite <- app_assoc.
Qed.

Lemma split_dash_nodash r : forall acc, ~ In dash r -> split_dash r acc = [rev (rev r ++ acc)].
Proof.
  induction r as [|x r IH]; intros acc H; simpl; [reflexivity|].
  destruct (Ascii.eqb x dash) eqn:E; [apply Ascii.eqb_eq in E; subst; exfalso; apply H; now left|].
  rewrite IH by (intro Hin; apply H; now right). now rewrite <- app_assoc.
Qed.

Theorem source_recoverable d ds t i : ~ In dash ds -> In (ds, KDset) d -> NoDup (names d) ->
  get_source_dataset d (results_prefix ds t ++ fmt03 i) = NOk ds.
Proof.
  intros Hd Hin Hnd. unfold get_source_dataset, results_prefix. rewrite <- !app_assoc. cbn [app].
  rewrite split_dash_app by exact Hd. rewrite app_nil_r, rev_involutive.
  rewrite split_dash_nodash.
  2:{ intro H. apply in_app_or in H. destruct H as [H|H]; [exact (clean_tool_no_dash t H)|].
      destruct H as [H|H]; [discriminate|]. destruct (fmt03_spec i) as [_ Ha]. apply all_digits_forallb in Ha.
      exact (digits_no_char dash _ eq_refl Ha H). }
  clear - Hin Hnd. induction d as [|[g k] d IH]; [contradiction|]. simpl in *.
  destruct (str_eqb g ds) eqn:E.
  - apply str_eqb_eq in E. subst g. destruct Hin as [[= ->]|Hin]; [reflexivity|].
    exfalso. inversion Hnd as [|? ? Hx _]; subst. apply Hx. unfold names. apply in_map_iff. exists (ds, KDset). auto.
  - destruct Hin as [[= -> ->]|Hin]; [rewrite (proj2 (str_eqb_eq ds ds) eq_refl) in E; discriminate|].
    inversion Hnd; subst. apply IH; assumption.
Qed.
